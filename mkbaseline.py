#!/usr/bin/env python3
"""Record the baseline of /repo the checks were last validated on: function fingerprints
(out/fingerprints.json of the last extractor run) and content hashes of every anchor file.
A difference never is a violation: it makes the quick tier explore more seeds (vcheck: escalation)
and is listed in the evidence."""
import json, hashlib, os, shutil
ROOT = os.path.dirname(os.path.abspath(__file__))
files = set()
for line in open(os.path.join(ROOT, "properties.jsonl")):
    files |= set(json.loads(line)["anchors"]["files"])
h = {}
for f in sorted(files):
    try:
        h[f] = hashlib.sha256(open(os.path.join("/repo", f), "rb").read()).hexdigest()[:16]
    except OSError:
        h[f] = "MISSING"
json.dump(h, open(os.path.join(ROOT, "checks", "srchash.json"), "w"), indent=1)
shutil.copy(os.path.join(ROOT, "out", "fingerprints.json"), os.path.join(ROOT, "checks", "fingerprints.json"))
print(len(h), "files hashed; fingerprints baseline refreshed")
