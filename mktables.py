#!/usr/bin/env python3
"""Prints the as-built tables for DESIGN.md §10 from checks/, evidence/, known_findings.json, seeded/."""
import json, os, glob
R = os.path.dirname(os.path.abspath(__file__))
ready = open(os.path.join(R, "checks/ready.txt")).read().split()
print("| id | theorems (audited) | model driver | harness | quick evaluations | wall s |")
print("|---|---|---|---|---|---|")
for pid in ready:
    c = json.load(open(os.path.join(R, "checks", pid + ".json")))
    try:
        e = json.load(open(os.path.join(R, "evidence", pid + ".json")))
        cov = e["coverage"]
        th = "%d/%d" % (cov["discharged"], cov["obligations"]); ev = cov.get("evaluations"); w = e.get("wall_s")
    except Exception:
        th = ev = w = "?"
    h = c["harness"]; h = ",".join(h) if isinstance(h, list) else h
    print("| %s | %s | %s | %s | %s | %s |" % (pid, th, ",".join(c["model_exe"]) if isinstance(c["model_exe"], list) else c["model_exe"], h, ev, w))
print()
k = json.load(open(os.path.join(R, "known_findings.json")))
print("Fixed (%d):" % len(k["fixed"]))
for f in k["fixed"]:
    print("* " + f)
print()
print("Known findings (%d):" % len(k["findings"]))
for f in k["findings"]:
    print("* **%s %s** `%s` — %s" % (f["property"], f["id"], f["signature"], f["what"][:260]))
print()
print("| seeded change | property | needs | confirmed (demo passes w/o, builds, tests pass, demo fails with) | detected | concrete replay | violation lines |")
print("|---|---|---|---|---|---|---|")
harmless = []
for d in sorted(glob.glob(os.path.join(R, "seeded", "*", "meta.json"))):
    m = json.load(open(d))
    if m.get("kind") == "harmless":
        harmless.append((os.path.basename(os.path.dirname(d)), m))
        continue
    cf = m.get("confirmed_by_us", {})
    ok = all(cf.values()) if cf else False
    oc = m["our_check"]
    print("| %s | %s | %s | %s | %s | %s | %s |" % (os.path.basename(os.path.dirname(d)), m["property"], (m.get("needs_to_manifest") or "")[:160].replace("|", "/").replace("\n", " "),
                                              "yes" if ok else str(cf), oc["detected"], oc["detected_with_concrete_replay"], "; ".join(l.split("replay=")[1].split("/")[-1] for l in oc["violation_lines"])[:200]))

print()
print("Behaviour-preserving changes (clean-ups by independent sub-agents; no alarm expected):")
print()
print("| id | change (summary by its author) | files | checks that stayed OK | alarms |")
print("|---|---|---|---|---|")
for name, m in harmless:
    oc = m["our_checks"]
    print("| %s | %s | %s | %s | %s |" % (name, (m.get("summary") or "")[:300].replace("|", "/").replace("\n", " "), ", ".join(os.path.basename(f) for f in (m.get("files_changed") or []))[:160],
                                    " ".join(oc["ok"]), "; ".join(a.replace("|", "/")[:140] for a in oc["alarms"]) or "none"))
