package main

// C10 (Model/ServerInvoke.lean): the server's answer to one request.
//   - protocol constants of basef/BaseF.go (versions, packet types, return codes),
//   - the literals of Protocol.Invoke / InvokeTimeout / rsp2Byte / req2Byte the model is stated over
//     (IRet of a plain error, IRet of the handle-timeout answer, `ITimeout > 0`, the ping name, the
//     members req2Byte copies),
//   - the shape of TarsServer.invoke (`HandleTimeout == 0`, `len(rsp) == 0`) and of the two transport
//     handlers (`cPacketType == basef.TARSONEWAY`),
//   - which variant of the code the tree is (D10: InvokeTimeout echoes version/packet type and hands
//     back nothing for a one-way request, the handlers do not write an empty response; D22: req2Byte
//     carries a non-zero return code in the status map).

import (
	"errors"
	"go/ast"
	"go/parser"
	"go/token"
	"sort"
	"strconv"
	"strings"
)

// assignsIn returns, for every assignment `<lhsPrefix>.<Field> = <rhs>` inside fd, Field -> printed rhs
// (the last one wins; count tells how many there were per field).
func assignsIn(f *file, fd *ast.FuncDecl, lhsPrefix string) (map[string][]string, bool) {
	res := map[string][]string{}
	if fd == nil {
		return res, false
	}
	ast.Inspect(fd, func(n ast.Node) bool {
		as, ok := n.(*ast.AssignStmt)
		if !ok || as.Tok != token.ASSIGN || len(as.Lhs) != 1 || len(as.Rhs) != 1 {
			return true
		}
		sel, ok := as.Lhs[0].(*ast.SelectorExpr)
		if !ok || exprStr(f.fset, sel.X) != lhsPrefix {
			return true
		}
		res[sel.Sel.Name] = append(res[sel.Sel.Name], exprStr(f.fset, as.Rhs[0]))
		return true
	})
	return res, true
}

// hasBinary reports whether fd contains the binary expression `<x> <op> <y>` (printed operands).
func hasBinary(f *file, fd *ast.FuncDecl, x string, op token.Token, y string) bool {
	found := false
	if fd == nil {
		return false
	}
	ast.Inspect(fd, func(n ast.Node) bool {
		be, ok := n.(*ast.BinaryExpr)
		if ok && be.Op == op && exprStr(f.fset, be.X) == x && exprStr(f.fset, be.Y) == y {
			found = true
		}
		return !found
	})
	if found || !expandHelpers {
		return found
	}
	// fallback reading: the complementary test (`==` for `!=`, …) of an if/else or early return with
	// swapped branches, or the operands the other way round
	comp := map[token.Token]token.Token{token.EQL: token.NEQ, token.NEQ: token.EQL, token.LSS: token.GEQ,
		token.GEQ: token.LSS, token.GTR: token.LEQ, token.LEQ: token.GTR}
	ast.Inspect(fd, func(n ast.Node) bool {
		be, ok := n.(*ast.BinaryExpr)
		if !ok {
			return !found
		}
		xs, ys := exprStr(f.fset, be.X), exprStr(f.fset, be.Y)
		if xs == x && ys == y && be.Op == comp[op] {
			found = true
		}
		if xs == y && ys == x && (be.Op == mirrorOp[op] || be.Op == mirrorOp[comp[op]]) {
			found = true
		}
		return !found
	})
	return found
}

// hasStringLit reports whether fd (or, with fd == nil, the whole file) mentions the string literal.
func hasStringLit(f *file, node ast.Node, lit string) bool {
	found := false
	ast.Inspect(node, func(n ast.Node) bool {
		bl, ok := n.(*ast.BasicLit)
		if ok && bl.Kind == token.STRING && bl.Value == `"`+lit+`"` {
			found = true
		}
		return !found
	})
	return found
}

// hasStringLitContaining: some string literal (interpreted or raw) below node contains sub.
func hasStringLitContaining(f *file, node ast.Node, sub string) bool {
	found := false
	ast.Inspect(node, func(n ast.Node) bool {
		bl, ok := n.(*ast.BasicLit)
		if ok && bl.Kind == token.STRING {
			if v, err := strconv.Unquote(bl.Value); err == nil && strings.Contains(v, sub) {
				found = true
			}
		}
		return !found
	})
	return found
}

func b2i(b bool) int64 {
	if b {
		return 1
	}
	return 0
}

func init() {
	mirrored["tars/tarsprotocol.go"] = append(mirrored["tars/tarsprotocol.go"],
		"Protocol.Invoke", "Protocol.req2Byte", "Protocol.rsp2Byte", "Protocol.InvokeTimeout", "Protocol.GetCloseMsg")
	mirrored["tars/transport/tarsserver.go"] = append(mirrored["tars/transport/tarsserver.go"], "TarsServer.invoke")
	mirrored["tars/transport/tcphandler.go"] = append(mirrored["tars/transport/tcphandler.go"], "tcpHandler.handleConn")
	mirrored["tars/transport/udphandler.go"] = append(mirrored["tars/transport/udphandler.go"], "udpHandler.handleUDPAddr")
	mirrored["tars/errors.go"] = append(mirrored["tars/errors.go"], "Error.Error", "GetErrorCode")
	mirrored["tars/util/current/tarscurrent.go"] = append(mirrored["tars/util/current/tarscurrent.go"],
		"GetPacketTypeFromContext", "SetPacketTypeFromContext", "GetRecvPkgTsFromContext")

	extras = append(extras, func(add func(string, int64, bool)) {
		// ---- basef constants ----
		bf := parse("tars/protocol/res/basef/BaseF.go")
		for _, n := range []string{"TARSVERSION", "TUPVERSION", "JSONVERSION", "TARSNORMAL", "TARSONEWAY",
			"TARSSERVERSUCCESS", "TARSSERVERQUEUETIMEOUT"} {
			v, ok := bf.varInit(n)
			add("srv"+n, v, ok)
		}

		// ---- Protocol.Invoke ----
		const rel = "tars/tarsprotocol.go"
		pf := parse(rel)
		if pf == nil {
			return
		}
		inv := pf.funcDecl("Protocol.Invoke")
		if inv != nil {
			v, ok := pf.cmpLit("Protocol.Invoke", "reqPackage.ITimeout", token.GTR)
			add("srvTimeoutPositiveBound", v, ok)
			if !hasBinary(pf, inv, "reqPackage.SFuncName", token.NEQ, `"tars_ping"`) {
				anchorLost("%s: Invoke: `reqPackage.SFuncName != \"tars_ping\"` not found", rel)
			}
			as, _ := assignsIn(pf, inv, "rspPackage")
			// IRet: once the queue-timeout constant, once the literal of a plain error, once the error's code
			var lits []int64
			qto, code := false, false
			for _, r := range as["IRet"] {
				switch r {
				case "basef.TARSSERVERQUEUETIMEOUT":
					qto = true
				case "tarsErr.Code":
					code = true
				default:
					if e, err := parseExprLit(r); err == nil {
						lits = append(lits, e)
					} else {
						anchorLost("%s: Invoke: unexpected `rspPackage.IRet = %s`", rel, r)
					}
				}
			}
			if !qto || !code || len(lits) != 1 {
				anchorLost("%s: Invoke: expected IRet assignments {TARSSERVERQUEUETIMEOUT, <literal>, tarsErr.Code}, found %v", rel, as["IRet"])
			} else {
				add("srvPlainErrRet", lits[0], true)
			}
			for field, want := range map[string]string{"IVersion": "reqPackage.IVersion", "IRequestId": "reqPackage.IRequestId",
				"CPacketType": "reqPackage.CPacketType"} {
				if len(as[field]) != 1 || as[field][0] != want {
					anchorLost("%s: Invoke: `rspPackage.%s = %s` not found exactly once (%v)", rel, field, want, as[field])
				}
			}
			if !hasBinary(pf, inv, "reqPackage.CPacketType", token.EQL, "basef.TARSONEWAY") {
				anchorLost("%s: Invoke: packet-type test not found", rel)
			}
			// `if tarsErr, ok := err.(*Error); ok { IRet = Code }`, since the D19 fix `ok && tarsErr.Code != 0`
			guard := int64(-1)
			ast.Inspect(inv, func(n ast.Node) bool {
				is, ok := n.(*ast.IfStmt)
				if !ok || is.Init == nil || !strings.HasPrefix(exprStr(pf.fset, is.Init), "tarsErr, ok := err.(*Error)") {
					return true
				}
				switch exprStr(pf.fset, is.Cond) {
				case "ok":
					guard = 0
				case "ok && tarsErr.Code != 0":
					guard = 1
				}
				return true
			})
			if guard < 0 {
				anchorLost("%s: Invoke: `if tarsErr, ok := err.(*Error); ok [&& tarsErr.Code != 0]` not found", rel)
			}
			add("srvErrCodeZeroGuard", guard, guard >= 0)
		}

		// ---- rsp2Byte / req2Byte ----
		if r2b := pf.funcDecl("Protocol.rsp2Byte"); r2b != nil {
			if !hasBinary(pf, r2b, "rsp.IVersion", token.EQL, "basef.TUPVERSION") {
				anchorLost("%s: rsp2Byte: `rsp.IVersion == basef.TUPVERSION` not found", rel)
			}
		}
		tupStatus := false
		if q2b := pf.funcDecl("Protocol.req2Byte"); q2b != nil {
			as, _ := assignsIn(pf, q2b, "req")
			var got []string
			for k, rs := range as {
				for _, r := range rs {
					got = append(got, k+"="+r)
				}
			}
			sort.Strings(got)
			base := []string{"CPacketType=rsp.CPacketType", "Context=rsp.Context", "IMessageType=rsp.IMessageType",
				"IRequestId=rsp.IRequestId", "IVersion=rsp.IVersion", "SBuffer=rsp.SBuffer", "Status=rsp.Status"}
			fixed := append(append([]string{}, base...), "Status=status")
			sort.Strings(fixed)
			switch strings.Join(got, ";") {
			case strings.Join(base, ";"):
			case strings.Join(fixed, ";"):
				// repaired: `if rsp.IRet != 0 { status := copy; status[code] = Itoa(IRet); status[desc] = SResultDesc; req.Status = status }`
				tupStatus = hasBinary(pf, q2b, "rsp.IRet", token.NEQ, "0") &&
					hasStringLit(pf, pf.f, "STATUS_RESULT_CODE") && hasStringLit(pf, pf.f, "STATUS_RESULT_DESC")
				if !tupStatus {
					anchorLost("%s: req2Byte: status is rewritten but not in the shape the model knows", rel)
				}
			default:
				anchorLost("%s: req2Byte copies %v; the model knows %v (+ the status rewrite)", rel, got, base)
			}
		}
		add("srvFixTupStatus", b2i(tupStatus), true)

		// ---- InvokeTimeout ----
		if ito := pf.funcDecl("Protocol.InvokeTimeout"); ito != nil {
			as, _ := assignsIn(pf, ito, "rspPackage")
			if len(as["IRet"]) == 1 {
				if v, err := parseExprLit(as["IRet"][0]); err == nil {
					add("srvInvokeTimeoutRet", v, true)
				} else {
					anchorLost("%s: InvokeTimeout: IRet is not a literal", rel)
				}
			} else {
				anchorLost("%s: InvokeTimeout: `rspPackage.IRet = <literal>` not found exactly once", rel)
			}
			if len(as["IRequestId"]) != 1 || as["IRequestId"][0] != "reqPackage.IRequestId" {
				anchorLost("%s: InvokeTimeout: request id is not echoed", rel)
			}
			ver := len(as["IVersion"]) == 1 && as["IVersion"][0] == "reqPackage.IVersion"
			pt := len(as["CPacketType"]) == 1 && as["CPacketType"][0] == "reqPackage.CPacketType"
			// `if reqPackage.CPacketType == basef.TARSONEWAY { return nil }`
			oneway := false
			ast.Inspect(ito, func(n ast.Node) bool {
				is, ok := n.(*ast.IfStmt)
				if !ok {
					return true
				}
				be, ok := is.Cond.(*ast.BinaryExpr)
				if !ok || be.Op != token.EQL || exprStr(pf.fset, be.X) != "reqPackage.CPacketType" || exprStr(pf.fset, be.Y) != "basef.TARSONEWAY" {
					return true
				}
				if len(is.Body.List) == 1 {
					if rs, ok := is.Body.List[0].(*ast.ReturnStmt); ok && len(rs.Results) == 1 && exprStr(pf.fset, rs.Results[0]) == "nil" {
						oneway = true
					}
				}
				return true
			})
			switch {
			case ver && pt && oneway:
				add("srvFixTimeoutIdentity", 1, true)
			case !ver && !pt && !oneway && len(as["IVersion"]) == 0 && len(as["CPacketType"]) == 0:
				add("srvFixTimeoutIdentity", 0, true)
			default:
				anchorLost("%s: InvokeTimeout is neither the as-found nor the repaired variant the model knows (version echoed: %v, packet type echoed: %v, nothing for one-way: %v)", rel, ver, pt, oneway)
			}
		}

		// ---- the TUP answer branch of the dispatcher tars2go emits (gen_go.go, genSwitchCase) ----
		// `for _, v := range fun.Args { if v.IsOut { g.P("buf.Reset()"); <write v at tag 0>; g.P("rspTup.PutBuffer(", name, ", buf.ToBytes())") } }`
		// the shared buffer must be cleared before EVERY out parameter: it holds the return value (first
		// one) or the previous out parameter (later ones)
		const grel = "tars/tools/tars2go/gencode/gen_go.go"
		mirrored[grel] = append(mirrored[grel], "GenGo.genSwitchCase")
		if gf := parse(grel); gf != nil {
			if fd := gf.funcDecl("GenGo.genSwitchCase"); fd != nil {
				loops := 0
				first, later := int64(1), int64(1)
				ast.Inspect(fd, func(n ast.Node) bool {
					rs, ok := n.(*ast.RangeStmt)
					if !ok || exprStr(gf.fset, rs.X) != "fun.Args" || len(rs.Body.List) != 1 {
						return true
					}
					is, ok := rs.Body.List[0].(*ast.IfStmt)
					if !ok || !strings.HasSuffix(exprStr(gf.fset, is.Cond), ".IsOut") || !hasStringLit(gf, is.Body, "rspTup.PutBuffer(") {
						return true
					}
					loops++
					direct, nested := false, false
					for _, st := range is.Body.List {
						if es, ok := st.(*ast.ExprStmt); ok && hasStringLit(gf, es, "buf.Reset()") {
							direct = true
						} else if _, isExpr := st.(*ast.ExprStmt); !isExpr && hasStringLit(gf, st, "buf.Reset()") {
							nested = true
						}
					}
					switch {
					case direct:
					case !nested:
						first, later = 0, 0
					default:
						anchorLost("%s: genSwitchCase: in the TUP answer branch `buf.Reset()` is emitted under a condition; the model knows: before every out parameter, or never", grel)
					}
					return true
				})
				if loops != 1 {
					anchorLost("%s: genSwitchCase: the out-parameter loop of the TUP answer branch (`rspTup.PutBuffer(<name>, …)`) was found %d times", grel, loops)
				}
				add("srvGenTupResetFirstOut", first, true)
				add("srvGenTupResetLaterOut", later, true)
				if !hasStringLitContaining(gf, fd, `rspTup.PutBuffer("", buf.ToBytes())`) || !hasStringLitContaining(gf, fd, `rspTup.PutBuffer("tars_ret", buf.ToBytes())`) {
					anchorLost("%s: genSwitchCase: the return value is no longer stored under \"\" and \"tars_ret\"", grel)
				}
			}
		}

		// ---- TarsServer.invoke ----
		ts := parse("tars/transport/tarsserver.go")
		if ts != nil {
			v, ok := ts.cmpLit("TarsServer.invoke", "cfg.HandleTimeout", token.EQL)
			add("srvNoHandleTimeout", v, ok)
			v, ok = ts.cmpLit("TarsServer.invoke", "len(rsp)", token.EQL)
			add("srvEmptyRspLen", v, ok)
		}

		// ---- transport handlers ----
		skip := 0
		for _, h := range [][2]string{{"tars/transport/tcphandler.go", "tcpHandler.handleConn"}, {"tars/transport/udphandler.go", "udpHandler.handleUDPAddr"}} {
			hf := parse(h[0])
			fd := hf.funcDecl(h[1])
			if fd == nil {
				continue
			}
			if !hasBinary(hf, fd, "cPacketType", token.EQL, "basef.TARSONEWAY") {
				anchorLost("%s: %s: `cPacketType == basef.TARSONEWAY` not found", h[0], h[1])
			}
			if hasBinary(hf, fd, "len(rsp)", token.EQL, "0") {
				skip++
			}
		}
		switch skip {
		case 0, 2:
			add("srvFixSkipEmpty", int64(skip/2), true)
		default:
			anchorLost("transport handlers: only one of tcp/udp skips an empty response")
		}
	})
}

// parseExprLit evaluates a printed integer literal expression ("1", "-6", "0x01").
func parseExprLit(s string) (int64, error) {
	e, err := parser.ParseExpr(s)
	if err != nil {
		return 0, err
	}
	if v, ok := intLit(e); ok {
		return v, nil
	}
	return 0, errors.New("not an integer literal")
}
