package main

// mirrored lists, per source file, the Go functions the hand-written Lean model mirrors.
var mirrored = map[string][]string{
	"tars/protocol/codec/codec.go": {
		"Buffer.WriteHead", "Buffer.WriteInt8", "Buffer.WriteInt16", "Buffer.WriteInt32", "Buffer.WriteInt64",
		"Buffer.WriteUint8", "Buffer.WriteUint16", "Buffer.WriteUint32", "Buffer.WriteBool", "Buffer.WriteFloat32",
		"Buffer.WriteFloat64", "Buffer.WriteString", "Reader.readHead", "Reader.unreadHead", "Reader.Next", "Reader.Skip",
		"Reader.skipField", "Reader.skipFields", "Reader.skipLen", "Reader.skipSimpleList",
		"Reader.SkipToStructEnd", "Reader.SkipToNoCheck", "Reader.SkipTo", "Reader.ReadInt8", "Reader.ReadInt16",
		"Reader.ReadInt32", "Reader.ReadInt64", "Reader.ReadUint8", "Reader.ReadUint16", "Reader.ReadUint32",
		"Reader.ReadBool", "Reader.ReadFloat32", "Reader.ReadFloat64", "Reader.ReadString", "Reader.ReadSliceInt8",
		"Reader.ReadSliceUint8", "Reader.ReadBytes", "bReadU8", "bReadU16", "bReadU32", "bReadU64",
	},
	"tars/protocol/tarsprotocol.go": {"TarsRequest", "TarsProtocol.RequestPack", "TarsProtocol.ResponseUnpack"},
}

// extras: per-model plug-ins (one file extract/<model>.go each) register, from an init function,
// a function that adds further constants, and may add entries to `mirrored`.
var extras []func(add func(k string, v int64, ok bool))
