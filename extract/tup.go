package main

// Plug-in for the TUP attribute-set model (lean/TarsModel/Model/Tup.lean, properties C05/C06).
//
// What the model depends on, and therefore what is recognised here, is the SEQUENCE of codec calls
// of UniAttribute.Encode / UniAttribute.Decode with their callee names, their literal arguments
// (wire type constants, tags, require flags) and the ROLE of their variable arguments (the map
// count, an entry's key, its value, the value's length) — not the identifiers, not whether a loop
// body lives in a helper (the fallback reading of funcDecl appends helper bodies to the caller's),
// not the spelling of the loop header (`for i, e := int32(0), n; i < e; i++` and
// `for i := int32(0); i < n; i++` are the same loop), not whether the value's wire type is tested
// with `==` or with `!=` and an early return.
//
// `tupCountChecked` = 1 when the entry count is validated with Reader.CheckLength between the read
// of the count and the loop (pending/C05-tup-count-spin.patch), 0 when there is no such call.

import (
	"go/ast"
	"go/token"
	"strings"
)

var tupCodecCalls = map[string]bool{
	"WriteHead": true, "WriteInt32": true, "WriteString": true, "WriteBytes": true,
	"SkipTo": true, "SkipToNoCheck": true, "ReadInt32": true, "ReadString": true, "ReadBytes": true, "CheckLength": true,
}

type tupCall struct {
	name string
	args []ast.Expr
	pos  token.Pos
}

// tupCalls lists, in source order, the calls `<recv>.<Method>(args…)` inside fd as
// "Method(arg, arg, …)" strings (used by other plug-ins for library-call sequences).
func tupCalls(f *file, fd *ast.FuncDecl, recv string) []string {
	var out []string
	ast.Inspect(fd, func(n ast.Node) bool {
		ce, ok := n.(*ast.CallExpr)
		if !ok {
			return true
		}
		se, ok := ce.Fun.(*ast.SelectorExpr)
		if !ok || exprStr(f.fset, se.X) != recv {
			return true
		}
		var args []string
		for _, a := range ce.Args {
			args = append(args, exprStr(f.fset, a))
		}
		out = append(out, se.Sel.Name+"("+strings.Join(args, ", ")+")")
		return true
	})
	return out
}

// tupCodecSeq: the codec calls (method calls on an identifier, callee in tupCodecCalls) of the
// (expanded) body, in order.
func tupCodecSeq(fd *ast.FuncDecl) []tupCall {
	var out []tupCall
	ast.Inspect(fd.Body, func(n ast.Node) bool {
		ce, ok := n.(*ast.CallExpr)
		if !ok {
			return true
		}
		se, ok := ce.Fun.(*ast.SelectorExpr)
		if !ok || !tupCodecCalls[se.Sel.Name] {
			return true
		}
		if _, isIdent := se.X.(*ast.Ident); !isIdent {
			return true
		}
		out = append(out, tupCall{se.Sel.Name, ce.Args, ce.Pos()})
		return true
	})
	return out
}

// tupVar: the identifier behind `x`, `&x`, `int32(len(x))`, `len(x)`; "" when the expression is
// something else. sel reports a selector operand (`u.data`) printed.
func tupVar(f *file, e ast.Expr) (ident string, sel string) {
	for {
		switch x := e.(type) {
		case *ast.ParenExpr:
			e = x.X
			continue
		case *ast.UnaryExpr:
			if x.Op == token.AND {
				e = x.X
				continue
			}
		case *ast.CallExpr:
			if id, ok := x.Fun.(*ast.Ident); ok && len(x.Args) == 1 && (id.Name == "int32" || id.Name == "len" || id.Name == "int") {
				e = x.Args[0]
				continue
			}
		case *ast.Ident:
			return x.Name, ""
		case *ast.SelectorExpr:
			return "", exprStr(f.fset, x)
		}
		return "", ""
	}
}

// tupShape renders a call with its literal arguments kept and its variable arguments replaced by
// the role names given in roles (identifier -> role); unknown variables print as `?name`.
func tupShape(f *file, c tupCall, roles map[string]string) string {
	var args []string
	for _, a := range c.args {
		switch x := a.(type) {
		case *ast.BasicLit:
			args = append(args, x.Value)
			continue
		case *ast.SelectorExpr:
			if id, ok := x.X.(*ast.Ident); ok && id.Name == "codec" {
				args = append(args, "codec."+x.Sel.Name)
				continue
			}
		case *ast.Ident:
			if x.Name == "true" || x.Name == "false" {
				args = append(args, x.Name)
				continue
			}
		}
		id, sel := tupVar(f, a)
		switch {
		case id != "" && roles[id] != "":
			args = append(args, roles[id])
		case sel != "" && roles[sel] != "":
			args = append(args, roles[sel])
		case id != "":
			args = append(args, "?"+id)
		default:
			args = append(args, "?"+exprStr(f.fset, a))
		}
	}
	return c.name + "(" + strings.Join(args, ", ") + ")"
}

// tupParamRole: identifier `name` is a parameter of a same-package function that the (expanded)
// body calls with the identifier `actual` in the same position.
func tupParamRole(f *file, fd *ast.FuncDecl, name, actual string) bool {
	ok := false
	table := f.funcsOfPkg()
	ast.Inspect(fd.Body, func(n ast.Node) bool {
		ce, isCall := n.(*ast.CallExpr)
		if !isCall {
			return true
		}
		callee, isIdent := ce.Fun.(*ast.Ident)
		if !isIdent {
			return true
		}
		for _, cd := range table[callee.Name] {
			var params []string
			for _, p := range cd.Type.Params.List {
				for _, n := range p.Names {
					params = append(params, n.Name)
				}
			}
			for i, a := range ce.Args {
				if id, isId := a.(*ast.Ident); isId && id.Name == actual && i < len(params) && params[i] == name {
					ok = true
				}
			}
		}
		return true
	})
	return ok
}

// tupReturned: identifier `local` is the first result of a return statement of a same-package
// function whose call result is assigned to the identifier `outer` in the (expanded) body.
func tupReturned(f *file, fd *ast.FuncDecl, outer, local string) bool {
	ok := false
	table := f.funcsOfPkg()
	ast.Inspect(fd.Body, func(n ast.Node) bool {
		as, isAs := n.(*ast.AssignStmt)
		if !isAs || len(as.Rhs) != 1 || len(as.Lhs) == 0 {
			return true
		}
		if id, isId := as.Lhs[0].(*ast.Ident); !isId || id.Name != outer {
			return true
		}
		ce, isCall := as.Rhs[0].(*ast.CallExpr)
		if !isCall {
			return true
		}
		callee, isIdent := ce.Fun.(*ast.Ident)
		if !isIdent {
			return true
		}
		for _, cd := range table[callee.Name] {
			ast.Inspect(cd.Body, func(m ast.Node) bool {
				if rs, isRet := m.(*ast.ReturnStmt); isRet && len(rs.Results) > 0 {
					if id, isId := rs.Results[0].(*ast.Ident); isId && id.Name == local {
						ok = true
					}
				}
				return true
			})
		}
		return true
	})
	return ok
}

func init() {
	const rel = "tars/protocol/tup/tup.go"
	mirrored[rel] = []string{"UniAttribute.Encode", "UniAttribute.Decode", "UniAttribute.PutBuffer", "UniAttribute.GetBuffer"}
	extras = append(extras, func(add func(string, int64, bool)) {
		f := parse(rel)
		if f == nil {
			return
		}
		if fd := f.funcDecl("UniAttribute.Encode"); fd != nil && fd.Body != nil {
			tupEncode(f, fd)
		}
		if fd := f.funcDecl("UniAttribute.Decode"); fd != nil && fd.Body != nil {
			tupDecode(f, fd, add)
		}
	})
}

func tupEncode(f *file, fd *ast.FuncDecl) {
	seq := tupCodecSeq(fd)
	// the loop: `for K, V := range M`
	var rk, rv, rm string
	ast.Inspect(fd.Body, func(n ast.Node) bool {
		if rs, ok := n.(*ast.RangeStmt); ok && rm == "" {
			k, _ := rs.Key.(*ast.Ident)
			v, _ := rs.Value.(*ast.Ident)
			if k != nil && v != nil {
				rk, rv, rm = k.Name, v.Name, exprStr(f.fset, rs.X)
			}
		}
		return true
	})
	if rm == "" {
		anchorLost("tup.go: UniAttribute.Encode: loop `for <key>, <value> := range <map>` not found")
		return
	}
	roles := map[string]string{rm: "COUNT"}
	// key and value: the range variables themselves, or the helper parameters they are passed as
	for _, c := range seq {
		if len(c.args) == 0 {
			continue
		}
		id, _ := tupVar(f, c.args[0])
		if id == "" {
			continue
		}
		switch c.name {
		case "WriteString":
			if id == rk || tupParamRole(f, fd, id, rk) {
				roles[id] = "KEY"
			}
		case "WriteBytes", "WriteInt32":
			if id == rv || tupParamRole(f, fd, id, rv) {
				roles[id] = "VALUE"
			}
		}
	}
	var got []string
	for _, c := range seq {
		got = append(got, tupShape(f, c, roles))
	}
	want := "WriteHead(codec.MAP, 0); WriteInt32(COUNT, 0); WriteString(KEY, 0); " +
		"WriteHead(codec.SimpleList, 1); WriteHead(codec.BYTE, 0); WriteInt32(VALUE, 0); WriteBytes(VALUE)"
	if g := strings.Join(got, "; "); g != want {
		anchorLost("tup.go: UniAttribute.Encode: writer calls are `%s`, the model mirrors `%s` (COUNT = the ranged map, KEY / VALUE = its range variables)", g, want)
	}
}

func tupDecode(f *file, fd *ast.FuncDecl, add func(string, int64, bool)) {
	seq := tupCodecSeq(fd)
	roles := map[string]string{}
	first := func(name string, nth int) *tupCall {
		for i := range seq {
			if seq[i].name == name {
				if nth == 0 {
					return &seq[i]
				}
				nth--
			}
		}
		return nil
	}
	// roles by position in the protocol: the first ReadInt32 reads the count, the second the
	// value's length; ReadString reads the key; ReadBytes the value
	if c := first("ReadInt32", 0); c != nil && len(c.args) > 0 {
		if id, _ := tupVar(f, c.args[0]); id != "" {
			roles[id] = "COUNT"
		}
	}
	if c := first("ReadInt32", 1); c != nil && len(c.args) > 0 {
		if id, _ := tupVar(f, c.args[0]); id != "" && roles[id] == "" {
			roles[id] = "LEN"
		}
	}
	var keyVar, valVar, countVar string
	for id, r := range roles {
		if r == "COUNT" {
			countVar = id
		}
	}
	if c := first("ReadString", 0); c != nil && len(c.args) > 0 {
		if id, _ := tupVar(f, c.args[0]); id != "" && roles[id] == "" {
			roles[id], keyVar = "KEY", id
		}
	}
	if c := first("ReadBytes", 0); c != nil && len(c.args) > 0 {
		if id, _ := tupVar(f, c.args[0]); id != "" && roles[id] == "" {
			roles[id], valVar = "VALUE", id
		}
	}
	var got []string
	checked := false
	for _, c := range seq {
		s := tupShape(f, c, roles)
		if s == "CheckLength(COUNT)" && len(got) == 2 && !checked {
			// between the read of the count and the first call of the loop
			checked = true
			continue
		}
		got = append(got, s)
	}
	want := "SkipTo(codec.MAP, 0, false); ReadInt32(COUNT, 0, true); ReadString(KEY, 0, false); SkipToNoCheck(1, false); " +
		"SkipTo(codec.BYTE, 0, true); ReadInt32(LEN, 0, true); ReadBytes(VALUE, LEN, true)"
	if g := strings.Join(got, "; "); g != want {
		anchorLost("tup.go: UniAttribute.Decode: reader calls are `%s` (count validated: %v): not the sequence the model mirrors, `%s` with an optional CheckLength(COUNT) behind the read of the count", g, checked, want)
		return
	}
	// the loop: counter from 0, `<`, bound = the count (directly or through a second loop variable
	// initialised with it), increment
	var loop *ast.ForStmt
	ast.Inspect(fd.Body, func(n ast.Node) bool {
		fs, ok := n.(*ast.ForStmt)
		if !ok || loop != nil || fs.Init == nil || fs.Cond == nil || fs.Post == nil {
			return true
		}
		as, ok := fs.Init.(*ast.AssignStmt)
		cond, ok2 := fs.Cond.(*ast.BinaryExpr)
		post, ok3 := fs.Post.(*ast.IncDecStmt)
		if !ok || !ok2 || !ok3 || cond.Op != token.LSS || post.Tok != token.INC || len(as.Lhs) != len(as.Rhs) {
			return true
		}
		ctr, _ := cond.X.(*ast.Ident)
		bound, _ := cond.Y.(*ast.Ident)
		pctr, _ := post.X.(*ast.Ident)
		if ctr == nil || bound == nil || pctr == nil || pctr.Name != ctr.Name {
			return true
		}
		zero, boundOK := false, bound.Name == countVar
		for i, l := range as.Lhs {
			id, _ := l.(*ast.Ident)
			if id == nil {
				continue
			}
			r := exprStr(f.fset, as.Rhs[i])
			if id.Name == ctr.Name && (r == "int32(0)" || r == "0") {
				zero = true
			}
			if id.Name == bound.Name && r == countVar {
				boundOK = true
			}
		}
		if zero && boundOK {
			loop = fs
		}
		return true
	})
	if loop == nil {
		anchorLost("tup.go: UniAttribute.Decode: loop `for i := 0; i < <count>; i++` (the count read before as its bound) not found")
		return
	}
	if checked {
		// when everything is in one function the validation must also precede the loop textually
		if c := first("CheckLength", 0); c != nil && c.pos > loop.Pos() && c.pos < loop.End() {
			anchorLost("tup.go: UniAttribute.Decode: CheckLength(<count>) is inside the loop, not in front of it")
			return
		}
		add("tupCountChecked", 1, true)
	} else {
		add("tupCountChecked", 0, true)
	}
	// the value's wire type test: `<ty> == codec.SimpleList` or `<ty> != codec.SimpleList`, <ty> the
	// second result of SkipToNoCheck
	tyVar := ""
	ast.Inspect(fd.Body, func(n ast.Node) bool {
		as, ok := n.(*ast.AssignStmt)
		if !ok || len(as.Rhs) != 1 || len(as.Lhs) != 3 {
			return true
		}
		if ce, ok := as.Rhs[0].(*ast.CallExpr); ok {
			if se, ok := ce.Fun.(*ast.SelectorExpr); ok && se.Sel.Name == "SkipToNoCheck" {
				if id, ok := as.Lhs[1].(*ast.Ident); ok {
					tyVar = id.Name
				}
			}
		}
		return true
	})
	tested := false
	ast.Inspect(fd.Body, func(n ast.Node) bool {
		be, ok := n.(*ast.BinaryExpr)
		if ok && (be.Op == token.EQL || be.Op == token.NEQ) && tyVar != "" &&
			exprStr(f.fset, be.X) == tyVar && exprStr(f.fset, be.Y) == "codec.SimpleList" {
			tested = true
		}
		return true
	})
	if !tested {
		anchorLost("tup.go: UniAttribute.Decode: test of the value's wire type (second result of SkipToNoCheck) against codec.SimpleList not found")
	}
	// the store: `<recv>.data[<key>] = <value>`, the value being what ReadBytes filled (directly or
	// as the result of the helper that read it)
	stored := false
	ast.Inspect(fd.Body, func(n ast.Node) bool {
		as, ok := n.(*ast.AssignStmt)
		if !ok || len(as.Lhs) != 1 || len(as.Rhs) != 1 {
			return true
		}
		ix, ok := as.Lhs[0].(*ast.IndexExpr)
		if !ok || !strings.HasSuffix(exprStr(f.fset, ix.X), ".data") {
			return true
		}
		k, _ := ix.Index.(*ast.Ident)
		v, _ := as.Rhs[0].(*ast.Ident)
		if k != nil && v != nil && k.Name == keyVar && (v.Name == valVar || tupReturned(f, fd, v.Name, valVar)) {
			stored = true
		}
		return true
	})
	if !stored {
		anchorLost("tup.go: UniAttribute.Decode: store `u.data[<key>] = <value>` of the key read by ReadString and the bytes read by ReadBytes not found")
	}
}

// cmpIdent: is there an `<lhs> == <rhs>` (printed forms) inside fd?
func (f *file) cmpIdent(fd *ast.FuncDecl, lhs, rhs string) bool {
	found := false
	ast.Inspect(fd, func(n ast.Node) bool {
		be, ok := n.(*ast.BinaryExpr)
		if ok && be.Op.String() == "==" && exprStr(f.fset, be.X) == lhs && exprStr(f.fset, be.Y) == rhs {
			found = true
		}
		return true
	})
	return found
}
