package main

// Plug-in for the TUP attribute-set model (lean/TarsModel/Model/Tup.lean, properties C05/C06):
//   - the tags and wire types UniAttribute.Encode / UniAttribute.Decode use for the key (tag 0),
//     the value (tag 1, SimpleList of BYTE) and the length prefixes, and the `require` flags of the
//     readers (the two `false` ones are what lets an iteration consume nothing);
//   - which variant of Decode the tree is: `tupCountChecked` = 1 when the entry count is validated
//     with Reader.CheckLength between ReadInt32(&length, …) and the loop
//     (pending/C05-tup-count-spin.patch), 0 as found.

import (
	"go/ast"
	"strings"
)

// tupCalls lists, in source order, the calls `<recv>.<Method>(args…)` inside fd as
// "Method(arg, arg, …)" strings.
func tupCalls(f *file, fd *ast.FuncDecl, recv string) []string {
	var out []string
	ast.Inspect(fd, func(n ast.Node) bool {
		ce, ok := n.(*ast.CallExpr)
		if !ok {
			return true
		}
		se, ok := ce.Fun.(*ast.SelectorExpr)
		if !ok || exprStr(f.fset, se.X) != recv {
			return true
		}
		var args []string
		for _, a := range ce.Args {
			args = append(args, exprStr(f.fset, a))
		}
		out = append(out, se.Sel.Name+"("+strings.Join(args, ", ")+")")
		return true
	})
	return out
}

func init() {
	const rel = "tars/protocol/tup/tup.go"
	mirrored[rel] = []string{"UniAttribute.Encode", "UniAttribute.Decode", "UniAttribute.PutBuffer", "UniAttribute.GetBuffer"}
	extras = append(extras, func(add func(string, int64, bool)) {
		f := parse(rel)
		if f == nil {
			return
		}
		if fd := f.funcDecl("UniAttribute.Encode"); fd != nil {
			got := strings.Join(tupCalls(f, fd, "os"), "; ")
			want := "WriteHead(codec.MAP, 0); WriteInt32(int32(len(u.data)), 0); WriteString(k, 0); " +
				"WriteHead(codec.SimpleList, 1); WriteHead(codec.BYTE, 0); WriteInt32(int32(len(v)), 0); WriteBytes(v)"
			if got != want {
				anchorLost("tup.go: UniAttribute.Encode: writer calls are `%s`, the model mirrors `%s`", got, want)
			}
		}
		if fd := f.funcDecl("UniAttribute.Decode"); fd != nil {
			calls := tupCalls(f, fd, "is")
			got := strings.Join(calls, "; ")
			head := "SkipTo(codec.MAP, 0, false); ReadInt32(&length, 0, true); "
			loop := "ReadString(&k, 0, false); SkipToNoCheck(1, false); SkipTo(codec.BYTE, 0, true); " +
				"ReadInt32(&byteLen, 0, true); ReadBytes(&v, byteLen, true)"
			switch got {
			case head + loop:
				add("tupCountChecked", 0, true)
			case head + "CheckLength(length); " + loop:
				add("tupCountChecked", 1, true)
			default:
				anchorLost("tup.go: UniAttribute.Decode: reader calls are `%s`: neither the as-found nor the repaired sequence the model mirrors", got)
			}
			// the loop header the model's count recursion mirrors: `for i, e := int32(0), length; i < e; i++`
			okLoop := false
			ast.Inspect(fd, func(n ast.Node) bool {
				fs, ok := n.(*ast.ForStmt)
				if !ok {
					return true
				}
				if fs.Init != nil && fs.Cond != nil && fs.Post != nil &&
					exprStr(f.fset, fs.Init) == "i, e := int32(0), length" &&
					exprStr(f.fset, fs.Cond) == "i < e" && exprStr(f.fset, fs.Post) == "i++" {
					okLoop = true
				}
				return true
			})
			if !okLoop {
				anchorLost("tup.go: UniAttribute.Decode: loop `for i, e := int32(0), length; i < e; i++` not found")
			}
			// the value's wire type test
			if !f.cmpIdent(fd, "ty", "codec.SimpleList") {
				anchorLost("tup.go: UniAttribute.Decode: `ty == codec.SimpleList` not found")
			}
		}
	})
}

// cmpIdent: is there an `<lhs> == <rhs>` (printed forms) inside fd?
func (f *file) cmpIdent(fd *ast.FuncDecl, lhs, rhs string) bool {
	found := false
	ast.Inspect(fd, func(n ast.Node) bool {
		be, ok := n.(*ast.BinaryExpr)
		if ok && be.Op.String() == "==" && exprStr(f.fset, be.X) == lhs && exprStr(f.fset, be.Y) == rhs {
			found = true
		}
		return true
	})
	return found
}
