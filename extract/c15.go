package main

// C15 (failover): thresholds of setting.go, and the comparison operators / operands of
// AdapterProxy.checkActive. The Lean model Model/Health.lean is written over these constants and
// the theorems of Props/C15.lean are re-checked against them on every run.

import (
	"go/ast"
	"go/token"
	"math/big"
	"strings"
)

// opCode: the code Model/Health.lean `cmpOp` understands.
func opCode(t token.Token) (int64, bool) {
	switch t {
	case token.GEQ:
		return 0, true
	case token.GTR:
		return 1, true
	case token.LEQ:
		return 2, true
	case token.LSS:
		return 3, true
	case token.EQL:
		return 4, true
	case token.NEQ:
		return 5, true
	}
	return 0, false
}

func stripParens(s string) string {
	s = strings.ReplaceAll(s, " ", "")
	for strings.HasPrefix(s, "(") && strings.HasSuffix(s, ")") {
		// only strip when the parentheses match each other
		depth, ok := 0, true
		for i, c := range s {
			if c == '(' {
				depth++
			} else if c == ')' {
				depth--
				if depth == 0 && i != len(s)-1 {
					ok = false
					break
				}
			}
		}
		if !ok {
			break
		}
		s = s[1 : len(s)-1]
	}
	return s
}

// cmpOperands finds, inside fn, the comparison whose operands print (spaces and outer parentheses
// ignored) as lhs and rhs, and returns its operator code.
func (f *file) cmpOperands(fnName, lhs, rhs string) (int64, bool) {
	fd := f.funcDecl(fnName)
	if fd == nil {
		return 0, false
	}
	var code int64
	found := 0
	ast.Inspect(fd, func(n ast.Node) bool {
		be, ok := n.(*ast.BinaryExpr)
		if !ok {
			return true
		}
		c, isCmp := opCode(be.Op)
		if !isCmp {
			return true
		}
		if stripParens(exprStr(f.fset, be.X)) == stripParens(lhs) && stripParens(exprStr(f.fset, be.Y)) == stripParens(rhs) {
			// `a < b` / `a <= b` are read as the complementary test `a >= b` / `a > b` of an
			// if/else (or early return) with swapped branches: the same program. Whether the
			// branches still do the same is for the correspondence run to say.
			switch c {
			case 3:
				c = 0
			case 2:
				c = 1
			}
			code = c
			found++
		}
		return true
	})
	if found != 1 {
		anchorLost("%s: %s: expected exactly one comparison `%s <op> %s`, found %d", f.path, fnName, lhs, rhs, found)
		return 0, false
	}
	return code, true
}

// ratInit returns numerator and denominator of a package-level numeric constant (e.g. 0.5 -> 1/2).
func (f *file) ratInit(name string) (int64, int64, bool) {
	if f == nil {
		return 0, 0, false
	}
	for _, d := range f.f.Decls {
		gd, ok := d.(*ast.GenDecl)
		if !ok {
			continue
		}
		for _, s := range gd.Specs {
			vs, ok := s.(*ast.ValueSpec)
			if !ok {
				continue
			}
			for i, n := range vs.Names {
				if n.Name != name || i >= len(vs.Values) {
					continue
				}
				if bl, ok := vs.Values[i].(*ast.BasicLit); ok && (bl.Kind == token.FLOAT || bl.Kind == token.INT) {
					r, ok := new(big.Rat).SetString(bl.Value)
					if ok && r.Sign() > 0 && r.Num().IsInt64() && r.Denom().IsInt64() {
						return r.Num().Int64(), r.Denom().Int64(), true
					}
				}
			}
		}
	}
	anchorLost("%s: positive numeric initialiser of %s not found", f.path, name)
	return 0, 0, false
}

// mentions reports whether fn contains a selector expression `<x>.<field>`.
func (f *file) mentions(fnName, field string) (bool, bool) {
	fd := f.funcDecl(fnName)
	if fd == nil {
		return false, false
	}
	hit := false
	ast.Inspect(fd, func(n ast.Node) bool {
		if se, ok := n.(*ast.SelectorExpr); ok && se.Sel.Name == field {
			hit = true
		}
		return true
	})
	return hit, true
}

func init() {
	mirrored["tars/adapter.go"] = append(mirrored["tars/adapter.go"],
		"AdapterProxy.checkActive", "AdapterProxy.successAdd", "AdapterProxy.failAdd", "AdapterProxy.sendAdd", "AdapterProxy.reset")
	mirrored["tars/endpointmanager.go"] = append(mirrored["tars/endpointmanager.go"],
		"endpointManager.checkStatus", "endpointManager.SelectAdapterProxy", "endpointManager.addAliveEp", "endpointManager.updateActiveEp")
	mirrored["tars/servant.go"] = append(mirrored["tars/servant.go"], "ServantProxy.doInvoke")

	extras = append(extras, func(add func(string, int64, bool)) {
		st := parse("tars/setting.go")
		for _, c := range [][2]string{
			{"healthTryTimeInterval", "tryTimeInterval"},
			{"healthFainN", "fainN"},
			{"healthFailInterval", "failInterval"},
			{"healthCheckTime", "checkTime"},
			{"healthOverN", "overN"},
			{"healthKeepAliveIntervalDefault", "keepAliveInterval"},
		} {
			v, ok := st.varInit(c[1])
			if ok && v < 0 {
				anchorLost("tars/setting.go: %s is negative", c[1])
				ok = false
			}
			add(c[0], v, ok)
		}
		num, den, ok := st.ratInit("failRatio")
		add("healthFailRatioNum", num, ok)
		add("healthFailRatioDen", den, ok)

		ad := parse("tars/adapter.go")
		for _, c := range [][3]string{
			{"healthOpFailInterval", "now-c.lastSuccessTime", "failInterval"},
			{"healthOpFainN", "c.lastFailCount", "fainN"},
			{"healthOpCheckTime", "now-c.lastCheckTime", "checkTime"},
			{"healthOpOverN", "c.failCount", "overN"},
			{"healthOpFailRatio", "float32(c.failCount)/float32(c.sendCount)", "failRatio"},
			{"healthOpTryTime", "now-c.lastBlockTime", "tryTimeInterval"},
		} {
			v, ok := ad.cmpOperands("AdapterProxy.checkActive", c[1], c[2])
			add(c[0], v, ok)
		}

		// variant of SelectAdapterProxy: does handing out a probe candidate touch lastBlockTime?
		em := parse("tars/endpointmanager.go")
		hit, ok := em.mentions("endpointManager.SelectAdapterProxy", "lastBlockTime")
		v := int64(0)
		if hit {
			v = 1
		}
		add("healthProbeStamps", v, ok)
	})
}
