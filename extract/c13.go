package main

import (
	"go/ast"
	"go/token"
)

// C13 (endpoint selection): literals of tars/selector/selector.go the Lean model
// (Model/Weight.lean, Model/Selector.lean) and the C13 theorems are stated over.
// c13Mirror adds functions to the fingerprint list (other models may list the same file).
func c13Mirror(rel string, names ...string) {
	for _, n := range names {
		dup := false
		for _, m := range mirrored[rel] {
			if m == n {
				dup = true
			}
		}
		if !dup {
			mirrored[rel] = append(mirrored[rel], n)
		}
	}
}

func init() {
	c13Mirror("tars/selector/selector.go", "BuildStaticWeightList")
	c13Mirror("tars/selector/roundrobin/round_robin.go",
		"RoundRobin.Select", "RoundRobin.Refresh", "RoundRobin.Add", "RoundRobin.addLocked", "RoundRobin.Remove", "RoundRobin.reBuildLocked")
	c13Mirror("tars/selector/random/random.go",
		"Random.Select", "Random.Refresh", "Random.Add", "Random.addLocked", "Random.Remove", "Random.reBuildLocked")
	c13Mirror("tars/selector/modhash/modhash.go",
		"ModHash.Select", "ModHash.Refresh", "ModHash.Add", "ModHash.addLocked", "ModHash.Remove", "ModHash.reBuildLocked")
	c13Mirror("tars/util/endpoint/endpoint.go", "Endpoint.String", "Endpoint.HashKey")

	extras = append(extras, func(add func(string, int64, bool)) {
		sel := parse("tars/selector/selector.go")
		v, ok := sel.varInit("minStaticWeightLimit")
		add("selMinStaticWeightLimit", v, ok)
		v, ok = sel.varInit("maxStaticWeightLimit")
		add("selMaxStaticWeightLimit", v, ok)
		// `minWeight > 0`: the branch that decides between the proportional and the degenerate range
		v, ok = sel.cmpLit("BuildStaticWeightList", "minWeight", token.GTR)
		add("selMinWeightPositiveBound", v, ok)
		// `if weight > 0` inside the scaling loop (endpoints below go once to the front of the list)
		v, ok = sel.cmpLit("BuildStaticWeightList", "weight", token.GTR)
		add("selScaledWeightBound", v, ok)
		// the degenerate branch `maxRange, totalWeight = 1, 1`
		if fd := sel.funcDecl("BuildStaticWeightList"); fd != nil {
			found := false
			ast.Inspect(fd, func(n ast.Node) bool {
				as, ok := n.(*ast.AssignStmt)
				if !ok || as.Tok != token.ASSIGN || len(as.Lhs) != 2 || len(as.Rhs) != 2 {
					return true
				}
				if exprStr(sel.fset, as.Lhs[0]) == "maxRange" && exprStr(sel.fset, as.Lhs[1]) == "totalWeight" {
					a, ok1 := intLit(as.Rhs[0])
					b, ok2 := intLit(as.Rhs[1])
					if ok1 && ok2 {
						add("selDegenerateRange", a, true)
						add("selDegenerateTotal", b, true)
						found = true
					}
				}
				return true
			})
			if !found {
				anchorLost("selector.go: BuildStaticWeightList: `maxRange, totalWeight = <lit>, <lit>` not found")
			}
		}
		// the tie-break between equal running weights inside the sort.Slice comparator must be
		// `endpoints[..].String() < endpoints[..].String()`: String() is what the model's Slot.key is and
		// what theorem C13_equal_weights_rotation needs to be a total order on the set (a field such as
		// Key may be empty or shared)
		if fd := sel.funcDecl("BuildStaticWeightList"); fd != nil {
			found := false
			ast.Inspect(fd, func(n ast.Node) bool {
				fl, ok := n.(*ast.FuncLit)
				if !ok {
					return true
				}
				ast.Inspect(fl, func(m ast.Node) bool {
					be, ok := m.(*ast.BinaryExpr)
					if !ok || be.Op != token.LSS {
						return true
					}
					isStr := func(e ast.Expr) bool {
						c, ok := e.(*ast.CallExpr)
						if !ok || len(c.Args) != 0 {
							return false
						}
						se, ok := c.Fun.(*ast.SelectorExpr)
						if !ok || se.Sel.Name != "String" {
							return false
						}
						ix, ok := se.X.(*ast.IndexExpr)
						return ok && exprStr(sel.fset, ix.X) == "endpoints"
					}
					if isStr(be.X) && isStr(be.Y) {
						found = true
					}
					return true
				})
				return true
			})
			if !found {
				anchorLost("selector.go: BuildStaticWeightList: comparator no longer breaks ties by `endpoints[i].String() < endpoints[j].String()`")
			}
			add("selTieBreakByString", 1, found)
		}
		// endpoint.EStaticWeight (iota block ELoop, EStaticWeight)
		ep := parse("tars/util/endpoint/endpoint.go")
		if cs := ep.iotaConsts("ELoop"); cs != nil {
			w, ok := cs["EStaticWeight"]
			if !ok {
				anchorLost("endpoint.go: EStaticWeight missing")
			}
			add("epEStaticWeight", w, ok)
		}
	})
}
