package main

// C18 (tars/util/endpoint): the flag table of endpoint.Parse (flag name, default, and the Endpoint
// field every flag variable flows into), the length of the protocol slice, the weight
// normalisation limits, the transport codes, whether Parse guards its two slice expressions, and
// shape checks of String / Tars2endpoint / Endpoint2tars (field-by-field identity mapping).
// The Lean model Model/Endpoint.lean is stated over these constants.

import (
	"fmt"
	"go/ast"
	"go/parser"
	"go/token"
	"path/filepath"
	"strconv"
	"strings"
)

// stripConv removes conversions such as int32(x), int32(AuthType(x)) and parentheses.
func stripConv(e ast.Expr) ast.Expr {
	for {
		switch x := e.(type) {
		case *ast.ParenExpr:
			e = x.X
		case *ast.CallExpr:
			if len(x.Args) != 1 {
				return e
			}
			if _, ok := x.Fun.(*ast.Ident); !ok {
				return e
			}
			e = x.Args[0]
		default:
			return e
		}
	}
}

type epFlag struct {
	name   string
	isInt  bool
	def    int64
	strDef string
}

// compositeFields returns field -> printed value expression (conversions stripped) of the first
// composite literal of type `typ` (Ident or Selector with that final name) inside fn.
func (f *file) compositeFields(fnName, typ string) map[string]string {
	fd := f.funcDecl(fnName)
	if fd == nil {
		return nil
	}
	var res map[string]string
	ast.Inspect(fd, func(n ast.Node) bool {
		if res != nil {
			return false
		}
		cl, ok := n.(*ast.CompositeLit)
		if !ok {
			return true
		}
		name := ""
		switch t := cl.Type.(type) {
		case *ast.Ident:
			name = t.Name
		case *ast.SelectorExpr:
			name = t.Sel.Name
		}
		if name != typ {
			return true
		}
		m := map[string]string{}
		for _, el := range cl.Elts {
			kv, ok := el.(*ast.KeyValueExpr)
			if !ok {
				continue
			}
			k, ok := kv.Key.(*ast.Ident)
			if !ok {
				continue
			}
			m[k.Name] = exprStr(f.fset, stripConv(kv.Value))
		}
		if len(m) > 0 {
			res = m
		}
		return res == nil
	})
	if res == nil {
		anchorLost("%s: %s: composite literal %s{...} not found", f.path, fnName, typ)
	}
	return res
}

func init() {
	mirrored["tars/util/endpoint/parse.go"] = []string{"Parse"}
	mirrored["tars/util/endpoint/endpoint.go"] = []string{"Endpoint.String"}
	mirrored["tars/util/endpoint/convert.go"] = []string{"Tars2endpoint", "Endpoint2tars"}

	extras = append(extras, func(add func(string, int64, bool)) {
		pf := parse("tars/util/endpoint/parse.go")
		fd := pf.funcDecl("Parse")
		if fd == nil {
			return
		}
		param := ""
		if fd.Type.Params != nil && len(fd.Type.Params.List) == 1 && len(fd.Type.Params.List[0].Names) == 1 {
			param = fd.Type.Params.List[0].Names[0].Name
		} else {
			anchorLost("parse.go: Parse: single string parameter expected")
			return
		}

		// --- proto := endpoint[0:N]
		protoLen := int64(-1)
		var protoPos token.Pos
		ast.Inspect(fd, func(n ast.Node) bool {
			se, ok := n.(*ast.SliceExpr)
			if !ok || protoLen >= 0 {
				return true
			}
			if id, ok := se.X.(*ast.Ident); !ok || id.Name != param {
				return true
			}
			lo, ok1 := int64(0), true
			if se.Low != nil {
				lo, ok1 = intLit(se.Low)
			}
			hi, ok2 := intLit(se.High)
			if ok1 && ok2 && lo == 0 && se.High != nil {
				protoLen = hi
				protoPos = se.Pos()
			}
			return true
		})
		if protoLen < 0 {
			anchorLost("parse.go: Parse: `%s[0:<literal>]` not found", param)
		}
		add("epProtoLen", protoLen, protoLen >= 0)

		// --- flag definitions: <set>.StringVar(&v, "n", "", ..) / <set>.IntVar(&v, "n", def, ..)
		byVar := map[string]epFlag{}
		names := map[string]bool{}
		ast.Inspect(fd, func(n ast.Node) bool {
			call, ok := n.(*ast.CallExpr)
			if !ok {
				return true
			}
			sel, ok := call.Fun.(*ast.SelectorExpr)
			if !ok || (sel.Sel.Name != "StringVar" && sel.Sel.Name != "IntVar") || len(call.Args) < 3 {
				return true
			}
			ue, ok := call.Args[0].(*ast.UnaryExpr)
			if !ok || ue.Op != token.AND {
				anchorLost("parse.go: Parse: flag target is not &var: %s", exprStr(pf.fset, call))
				return true
			}
			v := exprStr(pf.fset, ue.X)
			nl, ok := call.Args[1].(*ast.BasicLit)
			if !ok || nl.Kind != token.STRING {
				anchorLost("parse.go: Parse: flag name is not a string literal: %s", exprStr(pf.fset, call))
				return true
			}
			name, _ := strconv.Unquote(nl.Value)
			if names[name] {
				anchorLost("parse.go: Parse: flag -%s defined twice (flag.Var panics on every call)", name)
			}
			names[name] = true
			fl := epFlag{name: name, isInt: sel.Sel.Name == "IntVar"}
			if fl.isInt {
				d, ok := intLit(call.Args[2])
				if !ok {
					anchorLost("parse.go: Parse: default of -%s is not an integer literal", name)
				}
				fl.def = d
			} else {
				dl, ok := call.Args[2].(*ast.BasicLit)
				if !ok || dl.Kind != token.STRING {
					anchorLost("parse.go: Parse: default of -%s is not a string literal", name)
				} else {
					fl.strDef, _ = strconv.Unquote(dl.Value)
				}
			}
			byVar[v] = fl
			return true
		})
		if len(names) != 9 {
			anchorLost("parse.go: Parse: expected 9 flag definitions, found %d (the model's flag table is fixed)", len(names))
		}

		// --- Endpoint{Field: conv(var)} : which variable feeds which field
		fields := pf.compositeFields("Parse", "Endpoint")
		intFields := []string{"Port", "Timeout", "Grid", "Qos", "Weight", "WeightType", "AuthType"}
		strFields := []string{"Host", "Bind"}
		varOf := map[string]string{}
		if fields != nil {
			for _, fn := range append(append([]string{}, intFields...), strFields...) {
				v, ok := fields[fn]
				fl, ok2 := byVar[v]
				if !ok || !ok2 {
					anchorLost("parse.go: Parse: Endpoint field %s is not fed by a flag variable", fn)
					continue
				}
				varOf[fn] = v
				if len(fl.name) != 1 {
					anchorLost("parse.go: Parse: flag name %q of field %s is not one byte", fl.name, fn)
					continue
				}
				add("epName"+fn, int64(fl.name[0]), true)
			}
			for _, fn := range intFields {
				if fl, ok := byVar[varOf[fn]]; ok {
					if !fl.isInt {
						anchorLost("parse.go: Parse: field %s is no longer an integer flag", fn)
					}
					add("epDef"+fn, fl.def, true)
				}
			}
			for _, fn := range strFields {
				if fl, ok := byVar[varOf[fn]]; ok && (fl.isInt || fl.strDef != "") {
					anchorLost("parse.go: Parse: field %s: string flag with default \"\" expected", fn)
				}
			}
			if fields["Proto"] != "proto" || fields["Istcp"] != "isTcp" {
				anchorLost("parse.go: Parse: Proto: proto / Istcp: isTcp expected in the Endpoint literal")
			}
			if _, has := fields["SetId"]; has {
				anchorLost("parse.go: Parse: SetId is now set by Parse (model leaves it empty)")
			}
		}

		// --- weight normalisation: if weightType != 0 && (weight == -1 || weight > 100) { weight = 100 }
		wv, wtv := varOf["Weight"], varOf["WeightType"]
		if wv != "" && wtv != "" {
			found := false
			ast.Inspect(fd, func(n ast.Node) bool {
				is, ok := n.(*ast.IfStmt)
				if !ok || found {
					return true
				}
				want := func(unset, max string) string {
					return wtv + " != 0 && (" + wv + " == " + unset + " || " + wv + " > " + max + ")"
				}
				cond := exprStr(pf.fset, is.Cond)
				and, ok := is.Cond.(*ast.BinaryExpr)
				if !ok || and.Op != token.LAND {
					return true
				}
				par, ok := and.Y.(*ast.ParenExpr)
				if !ok {
					return true
				}
				or, ok := par.X.(*ast.BinaryExpr)
				if !ok || or.Op != token.LOR {
					return true
				}
				l, ok1 := or.X.(*ast.BinaryExpr)
				r, ok2 := or.Y.(*ast.BinaryExpr)
				if !ok1 || !ok2 {
					return true
				}
				unset, oku := intLit(l.Y)
				max, okm := intLit(r.Y)
				if !oku || !okm || cond != want(exprStr(pf.fset, l.Y), exprStr(pf.fset, r.Y)) {
					return true
				}
				if len(is.Body.List) != 1 || is.Else != nil {
					return true
				}
				as, ok := is.Body.List[0].(*ast.AssignStmt)
				if !ok || as.Tok != token.ASSIGN || len(as.Lhs) != 1 || exprStr(pf.fset, as.Lhs[0]) != wv {
					return true
				}
				capv, okc := intLit(as.Rhs[0])
				if !okc {
					return true
				}
				found = true
				add("epWeightUnset", unset, true)
				add("epWeightMax", max, true)
				add("epWeightCap", capv, true)
				return false
			})
			if !found {
				anchorLost("parse.go: Parse: `if %s != 0 && (%s == <lit> || %s > <lit>) { %s = <lit> }` not found", wtv, wv, wv, wv)
			}
		}

		// --- transport: if proto == "tcp" { isTcp = int32(A) } else if proto == "ssl" { proto = "tcp"; isTcp = int32(B) }
		{
			found := false
			ast.Inspect(fd, func(n ast.Node) bool {
				is, ok := n.(*ast.IfStmt)
				if !ok || found {
					return true
				}
				if exprStr(pf.fset, is.Cond) != `proto == "tcp"` || len(is.Body.List) != 1 {
					return true
				}
				el, ok := is.Else.(*ast.IfStmt)
				if !ok || exprStr(pf.fset, el.Cond) != `proto == "ssl"` || len(el.Body.List) != 2 || el.Else != nil {
					return true
				}
				a1, ok1 := is.Body.List[0].(*ast.AssignStmt)
				a2, ok2 := el.Body.List[0].(*ast.AssignStmt)
				a3, ok3 := el.Body.List[1].(*ast.AssignStmt)
				if !ok1 || !ok2 || !ok3 {
					return true
				}
				if exprStr(pf.fset, a1.Lhs[0]) != "isTcp" || exprStr(pf.fset, a3.Lhs[0]) != "isTcp" ||
					exprStr(pf.fset, a2) != `proto = "tcp"` {
					return true
				}
				v1, o1 := intLit(a1.Rhs[0])
				v3, o3 := intLit(a3.Rhs[0])
				if !o1 || !o3 {
					return true
				}
				found = true
				add("epIstcpOfTcp", v1, true)
				add("epIstcpOfSsl", v3, true)
				return false
			})
			if !found {
				anchorLost("parse.go: Parse: `if proto == \"tcp\" {isTcp = ..} else if proto == \"ssl\" {proto = \"tcp\"; isTcp = ..}` not found")
			}
			// initial value: isTcp := int32(0)
			init := int64(-1)
			ast.Inspect(fd, func(n ast.Node) bool {
				as, ok := n.(*ast.AssignStmt)
				if ok && as.Tok == token.DEFINE && len(as.Lhs) == 1 && exprStr(pf.fset, as.Lhs[0]) == "isTcp" {
					if v, ok := intLit(as.Rhs[0]); ok {
						init = v
					}
				}
				return true
			})
			if init < 0 {
				anchorLost("parse.go: Parse: `isTcp := int32(<lit>)` not found")
			}
			add("epIstcpOfOther", init, init >= 0)
		}

		// --- is Parse guarded?  an `if` that returns, placed before the protocol slice, whose
		// condition contains `len(<param>) < L` with L >= protoLen and `len(<x>) == 0` / `< 1`
		// for the Fields result. 1 = guarded (repaired variant of the model), 0 = as found.
		guarded := int64(0)
		for _, st := range fd.Body.List {
			is, ok := st.(*ast.IfStmt)
			if !ok || (protoPos.IsValid() && is.Pos() > protoPos) {
				continue
			}
			returns := false
			for _, b := range is.Body.List {
				if _, ok := b.(*ast.ReturnStmt); ok {
					returns = true
				}
			}
			if !returns {
				continue
			}
			lenOK, fieldsOK := false, false
			ast.Inspect(is.Cond, func(n ast.Node) bool {
				be, ok := n.(*ast.BinaryExpr)
				if !ok {
					return true
				}
				x := exprStr(pf.fset, be.X)
				if v, ok := intLit(be.Y); ok && strings.HasPrefix(x, "len(") {
					if x == "len("+param+")" {
						if (be.Op == token.LSS && v >= protoLen) || (be.Op == token.LEQ && v >= protoLen-1) {
							lenOK = true
						}
					} else if (be.Op == token.EQL && v == 0) || (be.Op == token.LSS && v == 1) || (be.Op == token.LEQ && v == 0) {
						fieldsOK = true
					}
				}
				return true
			})
			if lenOK && fieldsOK {
				guarded = 1
			}
		}
		add("epParseGuarded", guarded, true)

		// --- endpoint.go: transport codes and the format of String()
		ef := parse("tars/util/endpoint/endpoint.go")
		for _, n := range []string{"UDP", "TCP", "SSL"} {
			v, ok := ef.varInit(n)
			add("ep"+n, v, ok)
		}
		if sd := ef.funcDecl("Endpoint.String"); sd != nil {
			src := exprStr(ef.fset, sd.Body)
			if !strings.Contains(src, `fmt.Sprintf("%s -h %s -p %d -t %d", e.Proto, e.Host, e.Port, e.Timeout)`) {
				anchorLost("endpoint.go: String: format `%%s -h %%s -p %%d -t %%d` of (Proto, Host, Port, Timeout) not found")
			}
		}

		// --- convert.go: identity field mappings and the protocol choice
		cf := parse("tars/util/endpoint/convert.go")
		common := []string{"Host", "Port", "Timeout", "Istcp", "Grid", "Qos", "Weight", "WeightType", "AuthType", "SetId"}
		if m := cf.compositeFields("Tars2endpoint", "Endpoint"); m != nil {
			for _, fn := range common {
				if m[fn] != "end."+fn {
					anchorLost("convert.go: Tars2endpoint: %s: end.%s expected, found %q", fn, fn, m[fn])
				}
			}
			if m["Proto"] != "proto" || m["Bind"] != `""` {
				anchorLost("convert.go: Tars2endpoint: Proto: proto, Bind: \"\" expected")
			}
		}
		if m := cf.compositeFields("Endpoint2tars", "EndpointF"); m != nil {
			for _, fn := range common {
				if m[fn] != "end."+fn {
					anchorLost("convert.go: Endpoint2tars: %s: end.%s expected, found %q", fn, fn, m[fn])
				}
			}
			if len(m) != len(common) {
				anchorLost("convert.go: Endpoint2tars: %d fields set, the model knows %d", len(m), len(common))
			}
		}
		if td := cf.funcDecl("Tars2endpoint"); td != nil {
			src := strings.Join(strings.Fields(exprStr(cf.fset, td.Body)), " ")
			if !strings.Contains(src, `proto := "tcp"`) || !strings.Contains(src, `if end.Istcp == UDP { proto = "udp" }`) {
				anchorLost("convert.go: Tars2endpoint: `proto := \"tcp\"; if end.Istcp == UDP { proto = \"udp\" }` not found")
			}
		}
	})
}

// ---------------------------------------------------------------------------------------------
// Key sites of the endpoint manager (C18, "the same endpoint obtains the same cache key whether
// it comes from an address string or from the registry" at the level of the tables that are
// indexed by that key).  In tars/endpointmanager.go and tars/application.go every expression used
// as a key of one of the manager's sync.Map tables (Load/Store/Delete/LoadOrStore/LoadAndDelete)
// or compared with an Endpoint's `.Key` must be canonical: the `.Key` (or `.String()`) of an
// Endpoint value that was produced by endpoint.Parse / endpoint.Tars2endpoint, or a key that came
// out of such a table (first parameter of a Range callback).  Positively non-canonical: a key of a
// locally built Endpoint (composite literal), fmt.Sprintf / strings.Join / `+` concatenation, a
// helper (this package or util/endpoint, other than Parse/Tars2endpoint) that returns one of these.
// Result: epKeySitesCanonical (1/0), required to be 1 by theorem C18_key_sites_current_tree, and
// epKeySites (how many sites were recognised).

type keyCtx struct {
	f      *file
	fd     *ast.FuncDecl
	ranges map[string]bool // names bound as the key parameter of a Range callback on a key table
	depth  int
}

var keyWhy []string

func keyBad(c *keyCtx, e ast.Expr, why string) bool {
	keyWhy = append(keyWhy, c.f.path+": "+declName(c.fd)+": `"+exprStr(c.f.fset, e)+"`: "+why)
	return false
}

// defsOf returns the right-hand sides assigned to the identifier name inside fd (`:=`, `=`, var).
func defsOf(fd *ast.FuncDecl, name string) []ast.Expr {
	var out []ast.Expr
	ast.Inspect(fd, func(n ast.Node) bool {
		switch x := n.(type) {
		case *ast.AssignStmt:
			if len(x.Lhs) == len(x.Rhs) {
				for i, l := range x.Lhs {
					if id, ok := l.(*ast.Ident); ok && id.Name == name {
						out = append(out, x.Rhs[i])
					}
				}
			}
		case *ast.ValueSpec:
			for i, id := range x.Names {
				if id.Name == name && i < len(x.Values) {
					out = append(out, x.Values[i])
				}
			}
		}
		return true
	})
	return out
}

func isParam(fd *ast.FuncDecl, name string) bool {
	if fd.Type.Params == nil {
		return false
	}
	for _, p := range fd.Type.Params.List {
		for _, id := range p.Names {
			if id.Name == name {
				return true
			}
		}
	}
	return false
}

// helperOf resolves a call to a plain function of the same package, or to endpoint.<F> of
// tars/util/endpoint; nil when it is something else.
func helperOf(c *keyCtx, call *ast.CallExpr) (*file, *ast.FuncDecl) {
	switch fn := call.Fun.(type) {
	case *ast.Ident:
		for _, d := range c.f.funcsOfPkg()[fn.Name] {
			if d.Recv == nil {
				return c.f, d
			}
		}
	case *ast.SelectorExpr:
		if id, ok := fn.X.(*ast.Ident); ok && id.Name == "endpoint" {
			ef := parse("tars/util/endpoint/endpoint.go")
			if ef != nil {
				for _, d := range ef.funcsOfPkg()[fn.Sel.Name] {
					if d.Recv == nil {
						return ef, d
					}
				}
			}
		}
	}
	return nil, nil
}

func returnsOf(fd *ast.FuncDecl) []ast.Expr {
	var out []ast.Expr
	ast.Inspect(fd.Body, func(n ast.Node) bool {
		if _, ok := n.(*ast.FuncLit); ok {
			return false
		}
		if r, ok := n.(*ast.ReturnStmt); ok && len(r.Results) >= 1 {
			out = append(out, r.Results[0])
		}
		return true
	})
	return out
}

func isCanonCtor(call *ast.CallExpr) bool {
	if sel, ok := call.Fun.(*ast.SelectorExpr); ok {
		if id, ok := sel.X.(*ast.Ident); ok && id.Name == "endpoint" && (sel.Sel.Name == "Parse" || sel.Sel.Name == "Tars2endpoint") {
			return true
		}
	}
	return false
}

// canonEp: is the expression an Endpoint whose Key was made by Parse / Tars2endpoint?
func canonEp(c *keyCtx, e ast.Expr) bool {
	if c.depth > 6 {
		return true
	}
	switch x := e.(type) {
	case *ast.ParenExpr:
		return canonEp(c, x.X)
	case *ast.StarExpr:
		return canonEp(c, x.X)
	case *ast.UnaryExpr:
		return canonEp(c, x.X)
	case *ast.CompositeLit:
		return keyBad(c, e, "key of an Endpoint built on the spot, not by endpoint.Parse / endpoint.Tars2endpoint")
	case *ast.CallExpr:
		if isCanonCtor(x) {
			return true
		}
		if hf, hd := helperOf(c, x); hd != nil && hd.Body != nil {
			hc := &keyCtx{f: hf, fd: hd, ranges: map[string]bool{}, depth: c.depth + 1}
			for _, r := range returnsOf(hd) {
				if !canonEp(hc, r) {
					return keyBad(c, e, "helper "+hd.Name.Name+" returns such an Endpoint")
				}
			}
		}
		return true
	case *ast.Ident:
		if isParam(c.fd, x.Name) {
			return true
		}
		nc := &keyCtx{f: c.f, fd: c.fd, ranges: c.ranges, depth: c.depth + 1}
		for _, d := range defsOf(c.fd, x.Name) {
			if !canonEp(nc, d) {
				return false
			}
		}
		return true
	}
	return true
}

// canonKey: is the expression a canonical cache key?
func canonKey(c *keyCtx, e ast.Expr) bool {
	if c.depth > 6 {
		return true
	}
	switch x := e.(type) {
	case *ast.ParenExpr:
		return canonKey(c, x.X)
	case *ast.TypeAssertExpr:
		return canonKey(c, x.X)
	case *ast.BasicLit:
		return true // comparison with a literal (emptiness test); never a table key in practice
	case *ast.SelectorExpr:
		if x.Sel.Name == "Key" {
			return canonEp(c, x.X)
		}
		return true
	case *ast.BinaryExpr:
		if x.Op == token.ADD {
			return keyBad(c, e, "key built by string concatenation")
		}
		return true
	case *ast.CallExpr:
		if sel, ok := x.Fun.(*ast.SelectorExpr); ok {
			if sel.Sel.Name == "String" && len(x.Args) == 0 {
				return canonEp(c, sel.X)
			}
			if id, ok := sel.X.(*ast.Ident); ok {
				if (id.Name == "fmt" && strings.HasPrefix(sel.Sel.Name, "Sprint")) || (id.Name == "strings" && sel.Sel.Name == "Join") {
					return keyBad(c, e, "key formatted on the spot")
				}
			}
		}
		if hf, hd := helperOf(c, x); hd != nil && hd.Body != nil && !isCanonCtor(x) {
			hc := &keyCtx{f: hf, fd: hd, ranges: map[string]bool{}, depth: c.depth + 1}
			for _, r := range returnsOf(hd) {
				if !canonKey(hc, r) {
					return keyBad(c, e, "helper "+hd.Name.Name+" builds the key itself instead of taking Endpoint.Key")
				}
			}
			return true
		}
		if id, ok := x.Fun.(*ast.Ident); ok && id.Name == "string" && len(x.Args) == 1 {
			return canonKey(c, x.Args[0])
		}
		return true
	case *ast.Ident:
		if c.ranges[x.Name] || isParam(c.fd, x.Name) {
			return true
		}
		nc := &keyCtx{f: c.f, fd: c.fd, ranges: c.ranges, depth: c.depth + 1}
		for _, d := range defsOf(c.fd, x.Name) {
			if !canonKey(nc, d) {
				return false
			}
		}
		return true
	}
	return true
}

func lastName(e ast.Expr) string {
	switch x := e.(type) {
	case *ast.Ident:
		return x.Name
	case *ast.SelectorExpr:
		return x.Sel.Name
	case *ast.ParenExpr:
		return lastName(x.X)
	case *ast.StarExpr:
		return lastName(x.X)
	}
	return ""
}

func isKeySel(e ast.Expr) bool {
	s, ok := e.(*ast.SelectorExpr)
	if !ok || s.Sel.Name != "Key" {
		return false
	}
	// svrCfg.Key (the TLS key file of the server configuration) is not an endpoint key
	return !strings.Contains(strings.ToLower(lastName(s.X)), "cfg")
}

func init() {
	mirrored["tars/endpointmanager.go"] = append(mirrored["tars/endpointmanager.go"],
		"endpointManager.checkStatus", "endpointManager.SelectAdapterProxy", "endpointManager.refreshEndpoints", "endpointManager.addAliveEp")
	extras = append(extras, func(add func(string, int64, bool)) {
		em := parse("tars/endpointmanager.go")
		app := parse("tars/application.go")
		if em == nil {
			return
		}
		// the key tables: members of struct endpointManager of type *sync.Map
		tables := map[string]bool{}
		ast.Inspect(em.f, func(n ast.Node) bool {
			ts, ok := n.(*ast.TypeSpec)
			if !ok || ts.Name.Name != "endpointManager" {
				return true
			}
			if st, ok := ts.Type.(*ast.StructType); ok {
				for _, fl := range st.Fields.List {
					t := exprStr(em.fset, fl.Type)
					if t == "*sync.Map" || t == "sync.Map" {
						for _, id := range fl.Names {
							tables[id.Name] = true
						}
					}
				}
			}
			return false
		})
		if len(tables) == 0 {
			anchorLost("endpointmanager.go: struct endpointManager has no sync.Map members (the key tables epList / checkAdapterList)")
			return
		}
		keyWhy = nil
		sites := 0
		ok := true
		for _, f := range []*file{em, app} {
			if f == nil {
				continue
			}
			for _, d := range f.f.Decls {
				fd, isFn := d.(*ast.FuncDecl)
				if !isFn || fd.Body == nil {
					continue
				}
				c := &keyCtx{f: f, fd: fd, ranges: map[string]bool{}}
				// keys handed out by the tables themselves
				ast.Inspect(fd.Body, func(n ast.Node) bool {
					call, isCall := n.(*ast.CallExpr)
					if !isCall {
						return true
					}
					sel, isSel := call.Fun.(*ast.SelectorExpr)
					if isSel && sel.Sel.Name == "Range" && tables[lastName(sel.X)] && len(call.Args) == 1 {
						if fl, isLit := call.Args[0].(*ast.FuncLit); isLit && fl.Type.Params != nil && len(fl.Type.Params.List) > 0 && len(fl.Type.Params.List[0].Names) > 0 {
							c.ranges[fl.Type.Params.List[0].Names[0].Name] = true
						}
					}
					return true
				})
				ast.Inspect(fd.Body, func(n ast.Node) bool {
					switch x := n.(type) {
					case *ast.CallExpr:
						sel, isSel := x.Fun.(*ast.SelectorExpr)
						if !isSel || !tables[lastName(sel.X)] || len(x.Args) == 0 {
							return true
						}
						switch sel.Sel.Name {
						case "Load", "Store", "Delete", "LoadOrStore", "LoadAndDelete", "Swap", "CompareAndSwap", "CompareAndDelete":
							sites++
							if !canonKey(c, x.Args[0]) {
								ok = false
							}
						}
					case *ast.BinaryExpr:
						if x.Op != token.EQL && x.Op != token.NEQ {
							return true
						}
						lk := isKeySel(x.X) || (func() bool { id, isID := x.X.(*ast.Ident); return isID && c.ranges[id.Name] })()
						rk := isKeySel(x.Y) || (func() bool { id, isID := x.Y.(*ast.Ident); return isID && c.ranges[id.Name] })()
						if lk || rk {
							sites++
							if !canonKey(c, x.X) || !canonKey(c, x.Y) {
								ok = false
							}
						}
					}
					return true
				})
			}
		}
		if sites < 4 {
			anchorLost("endpointmanager.go: only %d uses of the key tables %v / comparisons with Endpoint.Key found (the manager's key sites)", sites, tables)
			return
		}
		for _, w := range keyWhy {
			fmt.Println("KEYSITE-NONCANONICAL:", w)
		}
		v := int64(1)
		if !ok {
			v = 0
		}
		add("epKeySites", int64(sites), true)
		add("epKeySitesCanonical", v, true)
	})
}

// ---------------------------------------------------------------------------------------------
// Purity of Parse / String / Tars2endpoint / Endpoint2tars (C18, stream conc): the Lean model of
// these functions is a function of its argument.  The code is one as long as (a) every target
// handed to the FlagSet (`pFlag.StringVar(&v, …)`, `pFlag.IntVar(&v, …)`) is a variable declared
// inside Parse, and (b) none of the four functions writes, takes the address of, or calls a
// method on a package-level variable of tars/util/endpoint.  Result: epParsePure (1/0), required
// to be 1 by theorem C18_parse_pure_current_tree.

func localNames(fd *ast.FuncDecl) map[string]bool {
	out := map[string]bool{}
	if fd.Recv != nil {
		for _, p := range fd.Recv.List {
			for _, id := range p.Names {
				out[id.Name] = true
			}
		}
	}
	if fd.Type.Params != nil {
		for _, p := range fd.Type.Params.List {
			for _, id := range p.Names {
				out[id.Name] = true
			}
		}
	}
	if fd.Type.Results != nil {
		for _, p := range fd.Type.Results.List {
			for _, id := range p.Names {
				out[id.Name] = true
			}
		}
	}
	ast.Inspect(fd.Body, func(n ast.Node) bool {
		switch x := n.(type) {
		case *ast.AssignStmt:
			if x.Tok == token.DEFINE {
				for _, l := range x.Lhs {
					if id, ok := l.(*ast.Ident); ok {
						out[id.Name] = true
					}
				}
			}
		case *ast.ValueSpec:
			for _, id := range x.Names {
				out[id.Name] = true
			}
		case *ast.RangeStmt:
			if x.Tok == token.DEFINE {
				for _, e := range []ast.Expr{x.Key, x.Value} {
					if id, ok := e.(*ast.Ident); ok {
						out[id.Name] = true
					}
				}
			}
		}
		return true
	})
	return out
}

func baseIdent(e ast.Expr) string {
	for {
		switch x := e.(type) {
		case *ast.Ident:
			return x.Name
		case *ast.ParenExpr:
			e = x.X
		case *ast.StarExpr:
			e = x.X
		case *ast.IndexExpr:
			e = x.X
		case *ast.SelectorExpr:
			e = x.X
		default:
			return ""
		}
	}
}

func init() {
	extras = append(extras, func(add func(string, int64, bool)) {
		dir := "tars/util/endpoint"
		pf := parse(dir + "/parse.go")
		if pf == nil {
			return
		}
		// package-level variables of the package (all non-test files)
		pkgVars := map[string]bool{}
		matches, _ := filepath.Glob(filepath.Join(*repo, dir, "*.go"))
		for _, m := range matches {
			if strings.HasSuffix(m, "_test.go") {
				continue
			}
			af, err := parser.ParseFile(token.NewFileSet(), m, nil, parser.SkipObjectResolution)
			if err != nil {
				continue
			}
			for _, d := range af.Decls {
				if gd, ok := d.(*ast.GenDecl); ok && gd.Tok == token.VAR {
					for _, s := range gd.Specs {
						for _, id := range s.(*ast.ValueSpec).Names {
							pkgVars[id.Name] = true
						}
					}
				}
			}
		}
		pure := true
		say := func(f string, a ...interface{}) {
			pure = false
			fmt.Println("PARSE-IMPURE:", fmt.Sprintf(f, a...))
		}
		targets := 0
		for _, fn := range []struct{ file, name string }{{dir + "/parse.go", "Parse"}, {dir + "/endpoint.go", "Endpoint.String"},
			{dir + "/convert.go", "Tars2endpoint"}, {dir + "/convert.go", "Endpoint2tars"}} {
			f := parse(fn.file)
			fd := f.funcDecl(fn.name)
			if fd == nil || fd.Body == nil {
				continue
			}
			locals := localNames(fd)
			shared := func(e ast.Expr) string {
				if b := baseIdent(e); b != "" && !locals[b] && pkgVars[b] {
					return b
				}
				return ""
			}
			ast.Inspect(fd.Body, func(n ast.Node) bool {
				switch x := n.(type) {
				case *ast.CallExpr:
					sel, ok := x.Fun.(*ast.SelectorExpr)
					if !ok {
						return true
					}
					if fn.name == "Parse" && (strings.HasSuffix(sel.Sel.Name, "Var")) && len(x.Args) >= 1 {
						if ue, ok := x.Args[0].(*ast.UnaryExpr); ok && ue.Op == token.AND {
							targets++
							if b := baseIdent(ue.X); b == "" || !locals[b] {
								say("parse.go: Parse: the flag target `%s` of %s is not a variable declared inside Parse", exprStr(f.fset, ue.X), exprStr(f.fset, x.Fun))
							}
						}
					}
					if v := shared(sel.X); v != "" { // method call on a package-level variable (sync.Map, mutex, cache …)
						say("%s: %s: calls %s on the package-level variable %s", fn.file, fn.name, sel.Sel.Name, v)
					}
				case *ast.UnaryExpr:
					if x.Op == token.AND {
						if v := shared(x.X); v != "" {
							say("%s: %s: takes the address of the package-level variable %s", fn.file, fn.name, v)
						}
					}
				case *ast.AssignStmt:
					if x.Tok != token.DEFINE {
						for _, l := range x.Lhs {
							if v := shared(l); v != "" {
								say("%s: %s: assigns to the package-level variable %s", fn.file, fn.name, v)
							}
						}
					}
				case *ast.IncDecStmt:
					if v := shared(x.X); v != "" {
						say("%s: %s: modifies the package-level variable %s", fn.file, fn.name, v)
					}
				}
				return true
			})
		}
		if targets == 0 {
			anchorLost("parse.go: Parse: no `<flagset>.<T>Var(&v, …)` registrations found (flag targets)")
			return
		}
		v := int64(1)
		if !pure {
			v = 0
		}
		add("epParsePure", v, true)
	})
}
