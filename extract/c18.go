package main

// C18 (tars/util/endpoint): the flag table of endpoint.Parse (flag name, default, and the Endpoint
// field every flag variable flows into), the length of the protocol slice, the weight
// normalisation limits, the transport codes, whether Parse guards its two slice expressions, and
// shape checks of String / Tars2endpoint / Endpoint2tars (field-by-field identity mapping).
// The Lean model Model/Endpoint.lean is stated over these constants.

import (
	"go/ast"
	"go/token"
	"strconv"
	"strings"
)

// stripConv removes conversions such as int32(x), int32(AuthType(x)) and parentheses.
func stripConv(e ast.Expr) ast.Expr {
	for {
		switch x := e.(type) {
		case *ast.ParenExpr:
			e = x.X
		case *ast.CallExpr:
			if len(x.Args) != 1 {
				return e
			}
			if _, ok := x.Fun.(*ast.Ident); !ok {
				return e
			}
			e = x.Args[0]
		default:
			return e
		}
	}
}

type epFlag struct {
	name   string
	isInt  bool
	def    int64
	strDef string
}

// compositeFields returns field -> printed value expression (conversions stripped) of the first
// composite literal of type `typ` (Ident or Selector with that final name) inside fn.
func (f *file) compositeFields(fnName, typ string) map[string]string {
	fd := f.funcDecl(fnName)
	if fd == nil {
		return nil
	}
	var res map[string]string
	ast.Inspect(fd, func(n ast.Node) bool {
		if res != nil {
			return false
		}
		cl, ok := n.(*ast.CompositeLit)
		if !ok {
			return true
		}
		name := ""
		switch t := cl.Type.(type) {
		case *ast.Ident:
			name = t.Name
		case *ast.SelectorExpr:
			name = t.Sel.Name
		}
		if name != typ {
			return true
		}
		m := map[string]string{}
		for _, el := range cl.Elts {
			kv, ok := el.(*ast.KeyValueExpr)
			if !ok {
				continue
			}
			k, ok := kv.Key.(*ast.Ident)
			if !ok {
				continue
			}
			m[k.Name] = exprStr(f.fset, stripConv(kv.Value))
		}
		if len(m) > 0 {
			res = m
		}
		return res == nil
	})
	if res == nil {
		anchorLost("%s: %s: composite literal %s{...} not found", f.path, fnName, typ)
	}
	return res
}

func init() {
	mirrored["tars/util/endpoint/parse.go"] = []string{"Parse"}
	mirrored["tars/util/endpoint/endpoint.go"] = []string{"Endpoint.String"}
	mirrored["tars/util/endpoint/convert.go"] = []string{"Tars2endpoint", "Endpoint2tars"}

	extras = append(extras, func(add func(string, int64, bool)) {
		pf := parse("tars/util/endpoint/parse.go")
		fd := pf.funcDecl("Parse")
		if fd == nil {
			return
		}
		param := ""
		if fd.Type.Params != nil && len(fd.Type.Params.List) == 1 && len(fd.Type.Params.List[0].Names) == 1 {
			param = fd.Type.Params.List[0].Names[0].Name
		} else {
			anchorLost("parse.go: Parse: single string parameter expected")
			return
		}

		// --- proto := endpoint[0:N]
		protoLen := int64(-1)
		var protoPos token.Pos
		ast.Inspect(fd, func(n ast.Node) bool {
			se, ok := n.(*ast.SliceExpr)
			if !ok || protoLen >= 0 {
				return true
			}
			if id, ok := se.X.(*ast.Ident); !ok || id.Name != param {
				return true
			}
			lo, ok1 := int64(0), true
			if se.Low != nil {
				lo, ok1 = intLit(se.Low)
			}
			hi, ok2 := intLit(se.High)
			if ok1 && ok2 && lo == 0 && se.High != nil {
				protoLen = hi
				protoPos = se.Pos()
			}
			return true
		})
		if protoLen < 0 {
			anchorLost("parse.go: Parse: `%s[0:<literal>]` not found", param)
		}
		add("epProtoLen", protoLen, protoLen >= 0)

		// --- flag definitions: <set>.StringVar(&v, "n", "", ..) / <set>.IntVar(&v, "n", def, ..)
		byVar := map[string]epFlag{}
		names := map[string]bool{}
		ast.Inspect(fd, func(n ast.Node) bool {
			call, ok := n.(*ast.CallExpr)
			if !ok {
				return true
			}
			sel, ok := call.Fun.(*ast.SelectorExpr)
			if !ok || (sel.Sel.Name != "StringVar" && sel.Sel.Name != "IntVar") || len(call.Args) < 3 {
				return true
			}
			ue, ok := call.Args[0].(*ast.UnaryExpr)
			if !ok || ue.Op != token.AND {
				anchorLost("parse.go: Parse: flag target is not &var: %s", exprStr(pf.fset, call))
				return true
			}
			v := exprStr(pf.fset, ue.X)
			nl, ok := call.Args[1].(*ast.BasicLit)
			if !ok || nl.Kind != token.STRING {
				anchorLost("parse.go: Parse: flag name is not a string literal: %s", exprStr(pf.fset, call))
				return true
			}
			name, _ := strconv.Unquote(nl.Value)
			if names[name] {
				anchorLost("parse.go: Parse: flag -%s defined twice (flag.Var panics on every call)", name)
			}
			names[name] = true
			fl := epFlag{name: name, isInt: sel.Sel.Name == "IntVar"}
			if fl.isInt {
				d, ok := intLit(call.Args[2])
				if !ok {
					anchorLost("parse.go: Parse: default of -%s is not an integer literal", name)
				}
				fl.def = d
			} else {
				dl, ok := call.Args[2].(*ast.BasicLit)
				if !ok || dl.Kind != token.STRING {
					anchorLost("parse.go: Parse: default of -%s is not a string literal", name)
				} else {
					fl.strDef, _ = strconv.Unquote(dl.Value)
				}
			}
			byVar[v] = fl
			return true
		})
		if len(names) != 9 {
			anchorLost("parse.go: Parse: expected 9 flag definitions, found %d (the model's flag table is fixed)", len(names))
		}

		// --- Endpoint{Field: conv(var)} : which variable feeds which field
		fields := pf.compositeFields("Parse", "Endpoint")
		intFields := []string{"Port", "Timeout", "Grid", "Qos", "Weight", "WeightType", "AuthType"}
		strFields := []string{"Host", "Bind"}
		varOf := map[string]string{}
		if fields != nil {
			for _, fn := range append(append([]string{}, intFields...), strFields...) {
				v, ok := fields[fn]
				fl, ok2 := byVar[v]
				if !ok || !ok2 {
					anchorLost("parse.go: Parse: Endpoint field %s is not fed by a flag variable", fn)
					continue
				}
				varOf[fn] = v
				if len(fl.name) != 1 {
					anchorLost("parse.go: Parse: flag name %q of field %s is not one byte", fl.name, fn)
					continue
				}
				add("epName"+fn, int64(fl.name[0]), true)
			}
			for _, fn := range intFields {
				if fl, ok := byVar[varOf[fn]]; ok {
					if !fl.isInt {
						anchorLost("parse.go: Parse: field %s is no longer an integer flag", fn)
					}
					add("epDef"+fn, fl.def, true)
				}
			}
			for _, fn := range strFields {
				if fl, ok := byVar[varOf[fn]]; ok && (fl.isInt || fl.strDef != "") {
					anchorLost("parse.go: Parse: field %s: string flag with default \"\" expected", fn)
				}
			}
			if fields["Proto"] != "proto" || fields["Istcp"] != "isTcp" {
				anchorLost("parse.go: Parse: Proto: proto / Istcp: isTcp expected in the Endpoint literal")
			}
			if _, has := fields["SetId"]; has {
				anchorLost("parse.go: Parse: SetId is now set by Parse (model leaves it empty)")
			}
		}

		// --- weight normalisation: if weightType != 0 && (weight == -1 || weight > 100) { weight = 100 }
		wv, wtv := varOf["Weight"], varOf["WeightType"]
		if wv != "" && wtv != "" {
			found := false
			ast.Inspect(fd, func(n ast.Node) bool {
				is, ok := n.(*ast.IfStmt)
				if !ok || found {
					return true
				}
				want := func(unset, max string) string {
					return wtv + " != 0 && (" + wv + " == " + unset + " || " + wv + " > " + max + ")"
				}
				cond := exprStr(pf.fset, is.Cond)
				and, ok := is.Cond.(*ast.BinaryExpr)
				if !ok || and.Op != token.LAND {
					return true
				}
				par, ok := and.Y.(*ast.ParenExpr)
				if !ok {
					return true
				}
				or, ok := par.X.(*ast.BinaryExpr)
				if !ok || or.Op != token.LOR {
					return true
				}
				l, ok1 := or.X.(*ast.BinaryExpr)
				r, ok2 := or.Y.(*ast.BinaryExpr)
				if !ok1 || !ok2 {
					return true
				}
				unset, oku := intLit(l.Y)
				max, okm := intLit(r.Y)
				if !oku || !okm || cond != want(exprStr(pf.fset, l.Y), exprStr(pf.fset, r.Y)) {
					return true
				}
				if len(is.Body.List) != 1 || is.Else != nil {
					return true
				}
				as, ok := is.Body.List[0].(*ast.AssignStmt)
				if !ok || as.Tok != token.ASSIGN || len(as.Lhs) != 1 || exprStr(pf.fset, as.Lhs[0]) != wv {
					return true
				}
				capv, okc := intLit(as.Rhs[0])
				if !okc {
					return true
				}
				found = true
				add("epWeightUnset", unset, true)
				add("epWeightMax", max, true)
				add("epWeightCap", capv, true)
				return false
			})
			if !found {
				anchorLost("parse.go: Parse: `if %s != 0 && (%s == <lit> || %s > <lit>) { %s = <lit> }` not found", wtv, wv, wv, wv)
			}
		}

		// --- transport: if proto == "tcp" { isTcp = int32(A) } else if proto == "ssl" { proto = "tcp"; isTcp = int32(B) }
		{
			found := false
			ast.Inspect(fd, func(n ast.Node) bool {
				is, ok := n.(*ast.IfStmt)
				if !ok || found {
					return true
				}
				if exprStr(pf.fset, is.Cond) != `proto == "tcp"` || len(is.Body.List) != 1 {
					return true
				}
				el, ok := is.Else.(*ast.IfStmt)
				if !ok || exprStr(pf.fset, el.Cond) != `proto == "ssl"` || len(el.Body.List) != 2 || el.Else != nil {
					return true
				}
				a1, ok1 := is.Body.List[0].(*ast.AssignStmt)
				a2, ok2 := el.Body.List[0].(*ast.AssignStmt)
				a3, ok3 := el.Body.List[1].(*ast.AssignStmt)
				if !ok1 || !ok2 || !ok3 {
					return true
				}
				if exprStr(pf.fset, a1.Lhs[0]) != "isTcp" || exprStr(pf.fset, a3.Lhs[0]) != "isTcp" ||
					exprStr(pf.fset, a2) != `proto = "tcp"` {
					return true
				}
				v1, o1 := intLit(a1.Rhs[0])
				v3, o3 := intLit(a3.Rhs[0])
				if !o1 || !o3 {
					return true
				}
				found = true
				add("epIstcpOfTcp", v1, true)
				add("epIstcpOfSsl", v3, true)
				return false
			})
			if !found {
				anchorLost("parse.go: Parse: `if proto == \"tcp\" {isTcp = ..} else if proto == \"ssl\" {proto = \"tcp\"; isTcp = ..}` not found")
			}
			// initial value: isTcp := int32(0)
			init := int64(-1)
			ast.Inspect(fd, func(n ast.Node) bool {
				as, ok := n.(*ast.AssignStmt)
				if ok && as.Tok == token.DEFINE && len(as.Lhs) == 1 && exprStr(pf.fset, as.Lhs[0]) == "isTcp" {
					if v, ok := intLit(as.Rhs[0]); ok {
						init = v
					}
				}
				return true
			})
			if init < 0 {
				anchorLost("parse.go: Parse: `isTcp := int32(<lit>)` not found")
			}
			add("epIstcpOfOther", init, init >= 0)
		}

		// --- is Parse guarded?  an `if` that returns, placed before the protocol slice, whose
		// condition contains `len(<param>) < L` with L >= protoLen and `len(<x>) == 0` / `< 1`
		// for the Fields result. 1 = guarded (repaired variant of the model), 0 = as found.
		guarded := int64(0)
		for _, st := range fd.Body.List {
			is, ok := st.(*ast.IfStmt)
			if !ok || (protoPos.IsValid() && is.Pos() > protoPos) {
				continue
			}
			returns := false
			for _, b := range is.Body.List {
				if _, ok := b.(*ast.ReturnStmt); ok {
					returns = true
				}
			}
			if !returns {
				continue
			}
			lenOK, fieldsOK := false, false
			ast.Inspect(is.Cond, func(n ast.Node) bool {
				be, ok := n.(*ast.BinaryExpr)
				if !ok {
					return true
				}
				x := exprStr(pf.fset, be.X)
				if v, ok := intLit(be.Y); ok && strings.HasPrefix(x, "len(") {
					if x == "len("+param+")" {
						if (be.Op == token.LSS && v >= protoLen) || (be.Op == token.LEQ && v >= protoLen-1) {
							lenOK = true
						}
					} else if (be.Op == token.EQL && v == 0) || (be.Op == token.LSS && v == 1) || (be.Op == token.LEQ && v == 0) {
						fieldsOK = true
					}
				}
				return true
			})
			if lenOK && fieldsOK {
				guarded = 1
			}
		}
		add("epParseGuarded", guarded, true)

		// --- endpoint.go: transport codes and the format of String()
		ef := parse("tars/util/endpoint/endpoint.go")
		for _, n := range []string{"UDP", "TCP", "SSL"} {
			v, ok := ef.varInit(n)
			add("ep"+n, v, ok)
		}
		if sd := ef.funcDecl("Endpoint.String"); sd != nil {
			src := exprStr(ef.fset, sd.Body)
			if !strings.Contains(src, `fmt.Sprintf("%s -h %s -p %d -t %d", e.Proto, e.Host, e.Port, e.Timeout)`) {
				anchorLost("endpoint.go: String: format `%%s -h %%s -p %%d -t %%d` of (Proto, Host, Port, Timeout) not found")
			}
		}

		// --- convert.go: identity field mappings and the protocol choice
		cf := parse("tars/util/endpoint/convert.go")
		common := []string{"Host", "Port", "Timeout", "Istcp", "Grid", "Qos", "Weight", "WeightType", "AuthType", "SetId"}
		if m := cf.compositeFields("Tars2endpoint", "Endpoint"); m != nil {
			for _, fn := range common {
				if m[fn] != "end."+fn {
					anchorLost("convert.go: Tars2endpoint: %s: end.%s expected, found %q", fn, fn, m[fn])
				}
			}
			if m["Proto"] != "proto" || m["Bind"] != `""` {
				anchorLost("convert.go: Tars2endpoint: Proto: proto, Bind: \"\" expected")
			}
		}
		if m := cf.compositeFields("Endpoint2tars", "EndpointF"); m != nil {
			for _, fn := range common {
				if m[fn] != "end."+fn {
					anchorLost("convert.go: Endpoint2tars: %s: end.%s expected, found %q", fn, fn, m[fn])
				}
			}
			if len(m) != len(common) {
				anchorLost("convert.go: Endpoint2tars: %d fields set, the model knows %d", len(m), len(common))
			}
		}
		if td := cf.funcDecl("Tars2endpoint"); td != nil {
			src := strings.Join(strings.Fields(exprStr(cf.fset, td.Body)), " ")
			if !strings.Contains(src, `proto := "tcp"`) || !strings.Contains(src, `if end.Istcp == UDP { proto = "udp" }`) {
				anchorLost("convert.go: Tars2endpoint: `proto := \"tcp\"; if end.Istcp == UDP { proto = \"udp\" }` not found")
			}
		}
	})
}
