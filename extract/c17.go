package main

// C17 (config parser): the literal characters and counts of tars/util/conf/conf.go that
// Model/Conf.lean is stated over — the trim set `whiteSpaceChars`, the comment marker, the
// key/value separator and the SplitN count, the three path meta characters of analysisPath and the
// `len(lastPair) == 2` test, the Node/Leaf kinds — and the list of mirrored functions.
// Every string literal must be one ASCII byte per position; anything else loses the anchor.

import (
	"go/ast"
	"go/token"
	"strconv"
)

// c17StrLit returns the unquoted value of a string or char literal expression.
func c17StrLit(e ast.Expr) (string, bool) {
	bl, ok := e.(*ast.BasicLit)
	if !ok {
		return "", false
	}
	switch bl.Kind {
	case token.STRING:
		s, err := strconv.Unquote(bl.Value)
		return s, err == nil
	case token.CHAR:
		r, _, _, err := strconv.UnquoteChar(bl.Value[1:len(bl.Value)-1], '\'')
		if err != nil || r > 127 {
			return "", false
		}
		return string(rune(r)), true
	}
	return "", false
}

// c17Calls collects, inside fn, the calls `<pkg>.<name>(...)` in source order.
func (f *file) c17Calls(fnName, pkg, name string) []*ast.CallExpr {
	fd := f.funcDecl(fnName)
	if fd == nil {
		return nil
	}
	var out []*ast.CallExpr
	ast.Inspect(fd, func(n ast.Node) bool {
		c, ok := n.(*ast.CallExpr)
		if !ok {
			return true
		}
		if sel, ok := c.Fun.(*ast.SelectorExpr); ok && sel.Sel.Name == name {
			if id, ok := sel.X.(*ast.Ident); ok && id.Name == pkg {
				out = append(out, c)
			}
		}
		return true
	})
	return out
}

func init() {
	mirrored["tars/util/conf/conf.go"] = []string{
		"newElem", "elem.setValue", "elem.addChild", "elem.addLine", "elem.findChild", "elem.isNode", "elem.isLeaf",
		"elem.getElem", "elem.analysisPath", "elem.getDomain", "elem.getDomainKey", "elem.getDomainLine", "elem.getMap",
		"elem.getValue", "New", "NewConf", "Conf.InitFromFile", "Conf.InitFromString", "Conf.InitFromBytes",
		"Conf.GetStringWithDef", "Conf.GetString", "Conf.GetIntWithDef", "Conf.GetInt", "Conf.GetDomain",
		"Conf.GetDomainKey", "Conf.GetDomainLine", "Conf.GetMap", "Conf.GetInt32WithDef", "Conf.GetBoolWithDef",
		"Conf.GetFloatWithDef",
	}
	extras = append(extras, func(add func(string, int64, bool)) {
		cf := parse("tars/util/conf/conf.go")
		if cf == nil {
			return
		}
		one := func(what string, e ast.Expr) (int64, bool) {
			s, ok := c17StrLit(e)
			if !ok || len(s) != 1 || s[0] > 127 {
				anchorLost("conf.go: %s is not a one-byte ASCII literal", what)
				return 0, false
			}
			return int64(s[0]), true
		}

		// kinds
		if ks := cf.iotaConsts("Node"); ks != nil {
			add("confKindNode", ks["Node"], true)
			add("confKindLeaf", ks["Leaf"], true)
		}

		// whiteSpaceChars = " \n\t"
		foundWS := false
		for _, d := range cf.f.Decls {
			gd, ok := d.(*ast.GenDecl)
			if !ok {
				continue
			}
			for _, s := range gd.Specs {
				vs, ok := s.(*ast.ValueSpec)
				if !ok {
					continue
				}
				for i, n := range vs.Names {
					if n.Name != "whiteSpaceChars" || i >= len(vs.Values) {
						continue
					}
					if str, ok := c17StrLit(vs.Values[i]); ok {
						foundWS = true
						add("confTrimLen", int64(len(str)), true)
						for j := 0; j < len(str); j++ {
							if str[j] > 127 {
								anchorLost("conf.go: whiteSpaceChars has a non-ASCII byte")
							}
							add("confTrim"+strconv.Itoa(j), int64(str[j]), true)
						}
					}
				}
			}
		}
		if !foundWS {
			anchorLost("conf.go: string initialiser of whiteSpaceChars not found")
		}

		// InitFromBytes: strings.SplitN(line, "=", 2)
		sp := cf.c17Calls("Conf.InitFromBytes", "strings", "SplitN")
		if len(sp) != 1 || len(sp[0].Args) != 3 {
			anchorLost("conf.go: InitFromBytes: exactly one strings.SplitN(line, <sep>, <n>) expected")
		} else {
			v, ok := one("SplitN separator", sp[0].Args[1])
			add("confKvSep", v, ok)
			n, ok := intLit(sp[0].Args[2])
			if !ok {
				anchorLost("conf.go: InitFromBytes: SplitN count is not a literal")
			}
			add("confSplitN", n, ok)
		}
		// every strings.Trim of InitFromBytes uses whiteSpaceChars
		for _, c := range cf.c17Calls("Conf.InitFromBytes", "strings", "Trim") {
			if len(c.Args) != 2 || exprStr(cf.fset, c.Args[1]) != "whiteSpaceChars" {
				anchorLost("conf.go: InitFromBytes: a strings.Trim does not use whiteSpaceChars")
			}
		}
		add("confTrimCalls", int64(len(cf.c17Calls("Conf.InitFromBytes", "strings", "Trim"))), true)
		// line[0] == '#'
		if fd := cf.funcDecl("Conf.InitFromBytes"); fd != nil {
			found := false
			ast.Inspect(fd, func(n ast.Node) bool {
				be, ok := n.(*ast.BinaryExpr)
				if ok && be.Op == token.EQL && exprStr(cf.fset, be.X) == "line[0]" && !found {
					if v, ok := one("comment marker", be.Y); ok {
						add("confCommentChar", v, true)
						found = true
					}
				}
				return true
			})
			if !found {
				anchorLost("conf.go: InitFromBytes: `line[0] == '<c>'` not found")
			}
		}

		// analysisPath: Split(path, "/"), Split(lastItem, "<"), len(lastPair) == 2, Trim(lastPair[1], ">")
		ps := cf.c17Calls("elem.analysisPath", "strings", "Split")
		if len(ps) != 2 || len(ps[0].Args) != 2 || len(ps[1].Args) != 2 {
			anchorLost("conf.go: analysisPath: two strings.Split calls expected")
		} else {
			v, ok := one("path separator", ps[0].Args[1])
			add("confPathSep", v, ok)
			v, ok = one("path key opener", ps[1].Args[1])
			add("confPathOpen", v, ok)
		}
		pt := cf.c17Calls("elem.analysisPath", "strings", "Trim")
		if len(pt) != 1 || len(pt[0].Args) != 2 {
			anchorLost("conf.go: analysisPath: one strings.Trim call expected")
		} else {
			v, ok := one("path key closer", pt[0].Args[1])
			add("confPathClose", v, ok)
		}
		v, ok := cf.cmpLit("elem.analysisPath", "len(lastPair)", token.EQL)
		add("confPathPairLen", v, ok)
	})
}
