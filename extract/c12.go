package main

// C12 (Model/ServerConn.lean): the poll periods and the idle threshold of the graceful shutdown, and
// the shape facts that decide which variant of the model the tree is:
//   srvHandleWaitsBeforeRelease  number of `<x>.Wait()` calls in tcpHandler.Handle (0 as found: the pool
//                                is released as soon as the accept loop ends; ≥ 1 with the repair)
//   srvHandleReleases            number of `<x>.Release()` calls in tcpHandler.Handle
//   srvCloseIdlesCloses          number of `conn.conn.Close()` calls in tcpHandler.CloseIdles (1 as found: it
//                                closes idle connections itself; 0 with the repair: only the receive loop's
//                                deferred function closes a connection)
//   srvCloseIdlesWakes           number of `conn.conn.SetReadDeadline(…)` calls in tcpHandler.CloseIdles (the
//                                repair wakes the receive loop instead of closing)
//   srvInvokeDecDeferred         number of `defer atomic.AddInt32(&connSt.numInvoke, -1)` statements inside the
//                                handler closure of tcpHandler.handleConn (1: the decrement also runs on the
//                                early return for one-way requests / empty responses; 0: it can be skipped)
//   appShutdownServerPassed      `go func(…){ … x.Shutdown(…) … }(…)` statements inside the range loops of
//                                application.graceShutdown whose receiver x is a parameter of the function
//                                literal or a variable declared inside the loop body (`s := s`, `if s, ok := …`)
//   appShutdownServerCaptured    those whose receiver x is the range statement's own key / value variable,
//                                captured by the closure (with `go < 1.22` in go.mod one variable per LOOP: every
//                                goroutine may see the last element)
//   appGoModMinor                the minor version of the `go 1.N` directive of go.mod
//   srvInvokeDecBeforeWrite      number of plain (not deferred) `atomic.AddInt32(&connSt.numInvoke, -1)` statements
//                                in that closure that stand BEFORE its `connSt.conn.Write(…)` call (the counter
//                                is released while the response is still to be written)
//   srvRecvDrainTickFirst        1 when the test `atomic.LoadInt32(&connSt.numInvoke) == 0` of recv's deferred drain
//                                stands INSIDE the body of `for range tk.C { … }` (it is reached only after a
//                                receive from the ticker: a connection is closed one tick after its receive loop
//                                returned at the earliest), 0 otherwise (e.g. `for numInvoke > 0 { <-tk.C }`)
//   srvRecvDrainUnbounded        1 when the drain loop of a connection's deferred close (the `for range <ticker>.C`
//                                loop, anywhere in package transport, whose body tests
//                                `atomic.LoadInt32(&connSt.numInvoke) == 0`) can be left ONLY through that test:
//                                every break / return / goto in its body stands in the `if` of that comparison;
//                                0 when there is another exit (e.g. a bound on the number of ticks) or no such loop
//   srvRecvDrainChecks           comparisons `atomic.LoadInt32(&connSt.numInvoke) == 0` in recv (the
//                                deferred drain-then-close)

import (
	"go/ast"
	"go/token"
	"os"
	"path/filepath"
	"strconv"
	"strings"
)

// countCalls counts call expressions in fn whose printed callee satisfies pred.
func (f *file) countCalls(fnName string, pred func(callee string) bool) (int64, bool) {
	fd := f.funcDecl(fnName)
	if fd == nil {
		return 0, false
	}
	var n int64
	ast.Inspect(fd, func(x ast.Node) bool {
		if c, ok := x.(*ast.CallExpr); ok && pred(exprStr(f.fset, c.Fun)) {
			n++
		}
		return true
	})
	return n, true
}

// localDefExprs: identifiers of fd defined exactly once by `x := e` / `var x = e`, with e
func localDefExprs(fd *ast.FuncDecl) map[string]ast.Expr {
	defs := map[string]ast.Expr{}
	count := map[string]int{}
	ast.Inspect(fd, func(n ast.Node) bool {
		switch x := n.(type) {
		case *ast.AssignStmt:
			for i, l := range x.Lhs {
				if id, ok := l.(*ast.Ident); ok {
					count[id.Name]++
					if x.Tok == token.DEFINE && len(x.Lhs) == len(x.Rhs) {
						defs[id.Name] = x.Rhs[i]
					}
				}
			}
		case *ast.ValueSpec:
			for i, id := range x.Names {
				count[id.Name]++
				if len(x.Values) == len(x.Names) {
					defs[id.Name] = x.Values[i]
				}
			}
		}
		return true
	})
	for k := range defs {
		if count[k] != 1 {
			delete(defs, k)
		}
	}
	return defs
}

// durMillis finds in fn the nth (0-based) call whose callee's printed form ends in calleeSuffix
// (e.g. "time.NewTicker", "time.Now().Add") and whose single argument is a constant duration — a
// literal product with a time unit, a named constant, or a local defined once by such an
// expression — and returns it in milliseconds.
func (f *file) durMillis(fnName, calleeSuffix string, nth int) (int64, bool) {
	fd := f.funcDecl(fnName)
	if fd == nil {
		return 0, false
	}
	defs := localDefExprs(fd)
	var val int64
	found := false
	i := 0
	ast.Inspect(fd, func(x ast.Node) bool {
		if found {
			return false
		}
		c, ok := x.(*ast.CallExpr)
		if !ok || len(c.Args) != 1 || !strings.HasSuffix(exprStr(f.fset, c.Fun), calleeSuffix) {
			return true
		}
		arg := c.Args[0]
		if id, ok := arg.(*ast.Ident); ok {
			if d, ok := defs[id.Name]; ok {
				arg = d
			}
		}
		if v, ok := intLit(arg); ok && v%1e6 == 0 {
			if i == nth {
				val, found = v/1e6, true
			}
			i++
		}
		return true
	})
	if !found {
		anchorLost("%s: %s: constant duration argument %d of `%s(...)` not found", f.path, fnName, nth, calleeSuffix)
	}
	return val, found
}

// shutdownCaptures classifies the goroutines started in the range loops of fn that call x.Shutdown(…).
func (f *file) shutdownCaptures(fnName string) (passed, captured int64, ok bool) {
	fd := f.funcDecl(fnName)
	if fd == nil {
		return 0, 0, false
	}
	ast.Inspect(fd, func(n ast.Node) bool {
		rs, isRange := n.(*ast.RangeStmt)
		if !isRange {
			return true
		}
		loopVars := map[string]bool{}
		for _, e := range []ast.Expr{rs.Key, rs.Value} {
			if id, ok := e.(*ast.Ident); ok && id.Name != "_" {
				loopVars[id.Name] = true
			}
		}
		// variables (re)declared inside the loop body are fresh in every iteration
		inner := map[string]bool{}
		ast.Inspect(rs.Body, func(m ast.Node) bool {
			if as, ok := m.(*ast.AssignStmt); ok && as.Tok == token.DEFINE {
				for _, l := range as.Lhs {
					if id, ok := l.(*ast.Ident); ok {
						inner[id.Name] = true
					}
				}
			}
			return true
		})
		ast.Inspect(rs.Body, func(m ast.Node) bool {
			gs, ok := m.(*ast.GoStmt)
			if !ok {
				return true
			}
			lit, ok := gs.Call.Fun.(*ast.FuncLit)
			if !ok {
				return true
			}
			params := map[string]bool{}
			for _, fl := range lit.Type.Params.List {
				for _, nm := range fl.Names {
					params[nm.Name] = true
				}
			}
			ast.Inspect(lit.Body, func(k ast.Node) bool {
				call, ok := k.(*ast.CallExpr)
				if !ok {
					return true
				}
				sel, ok := call.Fun.(*ast.SelectorExpr)
				if !ok || sel.Sel.Name != "Shutdown" {
					return true
				}
				id, ok := sel.X.(*ast.Ident)
				if !ok {
					return true
				}
				if loopVars[id.Name] && !params[id.Name] && !inner[id.Name] {
					captured++
				} else {
					passed++
				}
				return true
			})
			return false
		})
		return true
	})
	return passed, captured, true
}

// drainUnbounded looks, in every non-test file of package transport, for the connection drain loop
// and reports whether the numInvoke test is its only exit.
func drainUnbounded() (val int64, found bool) {
	const dir = "tars/transport"
	ents, err := os.ReadDir(filepath.Join(*repo, dir))
	if err != nil {
		return 0, false
	}
	isTest := func(e ast.Expr, f *file) bool {
		be, ok := e.(*ast.BinaryExpr)
		if !ok || be.Op != token.EQL || exprStr(f.fset, be.X) != "atomic.LoadInt32(&connSt.numInvoke)" {
			return false
		}
		z, ok := intLit(be.Y)
		return ok && z == 0
	}
	val = 1
	for _, e := range ents {
		if e.IsDir() || !strings.HasSuffix(e.Name(), ".go") || strings.HasSuffix(e.Name(), "_test.go") {
			continue
		}
		f := parse(dir + "/" + e.Name())
		if f == nil {
			continue
		}
		ast.Inspect(f.f, func(n ast.Node) bool {
			rs, ok := n.(*ast.RangeStmt)
			if !ok || !strings.HasSuffix(exprStr(f.fset, rs.X), ".C") {
				return true
			}
			hasTest := false
			ast.Inspect(rs.Body, func(m ast.Node) bool {
				if ex, ok := m.(ast.Expr); ok && isTest(ex, f) {
					hasTest = true
				}
				return true
			})
			if !hasTest {
				return true
			}
			found = true
			// exits of the loop body: guarded = inside an if whose condition is the test itself
			var walk func(n ast.Node, guarded bool)
			walk = func(n ast.Node, guarded bool) {
				ast.Inspect(n, func(m ast.Node) bool {
					switch x := m.(type) {
					case *ast.IfStmt:
						if x.Init != nil {
							walk(x.Init, guarded)
						}
						walk(x.Body, guarded || isTest(x.Cond, f))
						if x.Else != nil {
							walk(x.Else, guarded)
						}
						return false
					case *ast.FuncLit:
						return false
					case *ast.BranchStmt:
						if (x.Tok == token.BREAK || x.Tok == token.GOTO) && !guarded {
							val = 0
						}
					case *ast.ReturnStmt:
						if !guarded {
							val = 0
						}
					}
					return true
				})
			}
			walk(rs.Body, false)
			return true
		})
	}
	if !found {
		val = 0
	}
	return val, true
}

func init() {
	const th = "tars/transport/tcphandler.go"
	const ts = "tars/transport/tarsserver.go"
	mirrored[th] = append(mirrored[th], "tcpHandler.Handle", "tcpHandler.recv", "tcpHandler.handleConn",
		"tcpHandler.CloseIdles", "tcpHandler.sendCloseMsg", "tcpHandler.OnShutdown")
	mirrored[ts] = append(mirrored[ts], "TarsServer.Shutdown")
	mirrored["tars/application.go"] = append(mirrored["tars/application.go"], "application.graceShutdown")
	extras = append(extras, func(add func(string, int64, bool)) {
		h := parse(th)
		s := parse(ts)
		if h == nil || s == nil {
			return
		}
		if app := parse("tars/application.go"); app != nil {
			p, c, ok := app.shutdownCaptures("application.graceShutdown")
			if ok && p+c == 0 {
				anchorLost("tars/application.go: graceShutdown: no `go func(…){ … .Shutdown(…) … }` inside a range loop")
				ok = false
			}
			add("appShutdownServerPassed", p, ok)
			add("appShutdownServerCaptured", c, ok)
		}
		if b, err := os.ReadFile(filepath.Join(*repo, "go.mod")); err == nil {
			minor := int64(-1)
			for _, line := range strings.Split(string(b), "\n") {
				fs := strings.Fields(line)
				if len(fs) == 2 && fs[0] == "go" && strings.HasPrefix(fs[1], "1.") {
					if v, err := strconv.Atoi(strings.SplitN(fs[1][2:], ".", 2)[0]); err == nil {
						minor = int64(v)
					}
				}
			}
			if minor < 0 {
				anchorLost("go.mod: `go 1.N` directive not found")
			}
			add("appGoModMinor", minor, minor >= 0)
		}
		v, ok := h.countCalls("tcpHandler.Handle", func(c string) bool { return strings.HasSuffix(c, ".Wait") })
		add("srvHandleWaitsBeforeRelease", v, ok)
		v, ok = h.countCalls("tcpHandler.Handle", func(c string) bool { return strings.HasSuffix(c, ".Release") })
		add("srvHandleReleases", v, ok)
		v, ok = h.countCalls("tcpHandler.CloseIdles", func(c string) bool { return c == "conn.conn.Close" })
		add("srvCloseIdlesCloses", v, ok)
		v, ok = h.countCalls("tcpHandler.CloseIdles", func(c string) bool { return c == "conn.conn.SetReadDeadline" })
		add("srvCloseIdlesWakes", v, ok)
		// handleConn: the handler's decrement of numInvoke is a defer inside the closure
		if fd := h.funcDecl("tcpHandler.handleConn"); fd != nil {
			var n int64
			ast.Inspect(fd, func(x ast.Node) bool {
				lit, ok := x.(*ast.FuncLit)
				if !ok {
					return true
				}
				ast.Inspect(lit.Body, func(y ast.Node) bool {
					if d, ok := y.(*ast.DeferStmt); ok &&
						exprStr(h.fset, d.Call) == "atomic.AddInt32(&connSt.numInvoke, -1)" {
						n++
					}
					return true
				})
				return false
			})
			add("srvInvokeDecDeferred", n, true)
			var before int64
			ast.Inspect(fd, func(x ast.Node) bool {
				lit, ok := x.(*ast.FuncLit)
				if !ok {
					return true
				}
				var writePos token.Pos
				ast.Inspect(lit.Body, func(y ast.Node) bool {
					if c, ok := y.(*ast.CallExpr); ok && exprStr(h.fset, c.Fun) == "connSt.conn.Write" && writePos == 0 {
						writePos = c.Pos()
					}
					return true
				})
				ast.Inspect(lit.Body, func(y ast.Node) bool {
					if es, ok := y.(*ast.ExprStmt); ok && exprStr(h.fset, es.X) == "atomic.AddInt32(&connSt.numInvoke, -1)" &&
						writePos != 0 && es.Pos() < writePos {
						before++
					}
					return true
				})
				return false
			})
			add("srvInvokeDecBeforeWrite", before, true)
		}
		// the deferred drain in recv: `atomic.LoadInt32(&connSt.numInvoke) == 0`
		if fd := h.funcDecl("tcpHandler.recv"); fd != nil {
			var n int64
			ast.Inspect(fd, func(x ast.Node) bool {
				if be, ok := x.(*ast.BinaryExpr); ok && be.Op == token.EQL &&
					exprStr(h.fset, be.X) == "atomic.LoadInt32(&connSt.numInvoke)" {
					if z, ok := intLit(be.Y); ok && z == 0 {
						n++
					}
				}
				return true
			})
			add("srvRecvDrainChecks", n, true)
			var tickFirst int64
			ast.Inspect(fd, func(x ast.Node) bool {
				rs, ok := x.(*ast.RangeStmt)
				if !ok || exprStr(h.fset, rs.X) != "tk.C" {
					return true
				}
				ast.Inspect(rs.Body, func(y ast.Node) bool {
					if be, ok := y.(*ast.BinaryExpr); ok && be.Op == token.EQL &&
						exprStr(h.fset, be.X) == "atomic.LoadInt32(&connSt.numInvoke)" {
						tickFirst = 1
					}
					return true
				})
				return true
			})
			add("srvRecvDrainTickFirst", tickFirst, true)
		}
		{
			v, ok := drainUnbounded()
			add("srvRecvDrainUnbounded", v, ok)
		}
		v, ok = h.durMillis("tcpHandler.recv", "time.NewTicker", 0) // watchInterval of the deferred drain
		add("srvDrainPollMs", v, ok)
		v, ok = h.durMillis("tcpHandler.recv", "time.Now().Add", 0) // read deadline once the server is closing
		add("srvClosingReadDeadlineMs", v, ok)
		v, ok = s.durMillis("TarsServer.Shutdown", "time.NewTicker", 0)
		add("srvShutdownPollMs", v, ok)
		// ts.handle.CloseIdles(<lit>)
		if fd := s.funcDecl("TarsServer.Shutdown"); fd != nil {
			found := false
			ast.Inspect(fd, func(x ast.Node) bool {
				if c, ok := x.(*ast.CallExpr); ok && strings.HasSuffix(exprStr(s.fset, c.Fun), ".CloseIdles") && len(c.Args) == 1 {
					if z, ok := intLit(c.Args[0]); ok {
						add("srvCloseIdlesSecs", z, true)
						found = true
					}
				}
				return true
			})
			if !found {
				anchorLost("%s: Shutdown: `CloseIdles(<literal>)` not found", ts)
			}
		}
	})
}
