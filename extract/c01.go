package main

// C01 (Model/Filter.lean, Model/CallPath.lean): the end-to-end call path.
//   - basef protocol constants (versions, packet types, TARSSERVERSUCCESS),
//   - the literals of the error mapping on both sides: Protocol.Invoke (`IRet = 1` for a plain
//     error), ServantProxy.doInvoke (`IRet != 0`, `IRet != 0 && IRet != 1`), GetErrorCode (0 / 1),
//   - which variant of the code the tree is: D3 (server post filters assign to `err` or to a
//     variable of their own) and D19a (an empty SResultDesc loses the code or keeps it),
//   - the member tags / require flags of requestf.RequestPacket and ResponsePacket (struct tags of
//     RequestF.go),
//   - what tars2go emits for proxies and dispatchers: parameter tag = index + 1, return value
//     tag 0, packet type literal of one-way / normal proxies, the literals of the dispatcher's
//     response packet,
//   - the 4-byte length header on all four pack/unpack sites.

import (
	"go/ast"
	"go/token"
	"reflect"
	"regexp"
	"strconv"
	"strings"
)

// cpCmpLits returns the literals of every `<lhs> <op> <int literal>` in fd, in source order.
func cpCmpLits(f *file, fd *ast.FuncDecl, lhs string, op token.Token) []int64 {
	var res []int64
	if fd == nil {
		return res
	}
	ast.Inspect(fd, func(n ast.Node) bool {
		be, ok := n.(*ast.BinaryExpr)
		if !ok || exprStr(f.fset, be.X) != lhs {
			return true
		}
		// fallback reading: `==` counts for `!=` and vice versa (complementary test of an if/else or
		// early return with swapped branches)
		if be.Op != op && !(expandHelpers && ((op == token.NEQ && be.Op == token.EQL) || (op == token.EQL && be.Op == token.NEQ))) {
			return true
		}
		if v, ok := intLit(be.Y); ok {
			res = append(res, v)
		}
		return true
	})
	return res
}

// cpStructTags returns, for the struct type `name`, member -> (tag, require) from the `tars:"…"` tags.
func cpStructTags(f *file, name string) (map[string][2]int64, []string) {
	res := map[string][2]int64{}
	var order []string
	if f == nil {
		return res, order
	}
	for _, d := range f.f.Decls {
		gd, ok := d.(*ast.GenDecl)
		if !ok || gd.Tok != token.TYPE {
			continue
		}
		for _, s := range gd.Specs {
			ts := s.(*ast.TypeSpec)
			st, ok := ts.Type.(*ast.StructType)
			if !ok || ts.Name.Name != name {
				continue
			}
			for _, fl := range st.Fields.List {
				if fl.Tag == nil || len(fl.Names) != 1 {
					continue
				}
				raw, err := strconv.Unquote(fl.Tag.Value)
				if err != nil {
					continue
				}
				tv := reflect.StructTag(raw).Get("tars")
				var tag, req int64 = -1, -1
				for _, part := range strings.Split(tv, ",") {
					if strings.HasPrefix(part, "tag:") {
						tag, _ = strconv.ParseInt(part[4:], 10, 64)
					}
					if part == "require:true" {
						req = 1
					}
					if part == "require:false" {
						req = 0
					}
				}
				if tag < 0 || req < 0 {
					anchorLost("%s: %s.%s: tars struct tag not understood: %q", f.path, name, fl.Names[0].Name, tv)
					continue
				}
				res[fl.Names[0].Name] = [2]int64{tag, req}
				order = append(order, fl.Names[0].Name)
			}
		}
	}
	return res, order
}

// cpStringLits returns the (unquoted) string literals inside node, in source order.
func cpStringLits(node ast.Node) []string {
	var res []string
	ast.Inspect(node, func(n ast.Node) bool {
		bl, ok := n.(*ast.BasicLit)
		if ok && bl.Kind == token.STRING {
			if s, err := strconv.Unquote(bl.Value); err == nil {
				res = append(res, s)
			}
		}
		return true
	})
	return res
}

// cpMemberHelpers: the functions of f's package whose body is a single
// `return &…StructMember{…}`: name -> (the literal, index of the parameter that is the literal's
// `Tag:` value or -1, the printed Tag value when it is not a parameter).
type cpMemberHelper struct {
	lit    *ast.CompositeLit
	tagArg int
	tagStr string
}

func cpStructMemberLit(e ast.Expr) *ast.CompositeLit {
	if u, ok := e.(*ast.UnaryExpr); ok && u.Op == token.AND {
		e = u.X
	}
	cl, ok := e.(*ast.CompositeLit)
	if !ok {
		return nil
	}
	switch t := cl.Type.(type) {
	case *ast.SelectorExpr:
		if t.Sel.Name == "StructMember" {
			return cl
		}
	case *ast.Ident:
		if t.Name == "StructMember" {
			return cl
		}
	}
	return nil
}

func cpLitTag(f *file, cl *ast.CompositeLit) (ast.Expr, string) {
	for _, el := range cl.Elts {
		if kv, ok := el.(*ast.KeyValueExpr); ok {
			if k, ok := kv.Key.(*ast.Ident); ok && k.Name == "Tag" {
				return kv.Value, exprStr(f.fset, kv.Value)
			}
		}
	}
	return nil, "<none>"
}

func cpMemberHelpers(f *file) map[string]cpMemberHelper {
	res := map[string]cpMemberHelper{}
	for name, decls := range f.funcsOfPkg() {
		if len(decls) != 1 {
			continue
		}
		fd := decls[0]
		if fd.Body == nil || len(fd.Body.List) != 1 {
			continue
		}
		rs, ok := fd.Body.List[0].(*ast.ReturnStmt)
		if !ok || len(rs.Results) != 1 {
			continue
		}
		cl := cpStructMemberLit(rs.Results[0])
		if cl == nil {
			continue
		}
		h := cpMemberHelper{lit: cl, tagArg: -1}
		tagExpr, tagStr := cpLitTag(f, cl)
		h.tagStr = tagStr
		if id, ok := tagExpr.(*ast.Ident); ok && fd.Type.Params != nil {
			i := 0
			for _, fl := range fd.Type.Params.List {
				for _, nm := range fl.Names {
					if nm.Name == id.Name {
						h.tagArg = i
					}
					i++
				}
			}
		}
		res[name] = h
	}
	return res
}

// cpMemberTags returns the printed tag of every ast.StructMember that fd makes up, in either
// spelling: the `Tag:` value of a composite literal written in fd, or — one level — the tag
// argument at the call site of a same-package helper whose whole body returns such a literal with
// `Tag: <its parameter>` (the helper's own literal, which the fallback reading appends to fd, is
// not counted a second time).
func cpMemberTags(f *file, fd *ast.FuncDecl) map[string]int {
	res := map[string]int{}
	if fd == nil {
		return res
	}
	helpers := cpMemberHelpers(f)
	own := map[*ast.CompositeLit]bool{}
	for _, h := range helpers {
		own[h.lit] = true
	}
	ast.Inspect(fd, func(n ast.Node) bool {
		switch x := n.(type) {
		case *ast.CompositeLit:
			if own[x] || cpStructMemberLit(x) == nil {
				return true
			}
			_, tag := cpLitTag(f, x)
			res[tag]++
		case *ast.CallExpr:
			id, ok := x.Fun.(*ast.Ident)
			if !ok {
				return true
			}
			h, ok := helpers[id.Name]
			if !ok {
				return true
			}
			switch {
			case h.tagArg >= 0 && h.tagArg < len(x.Args):
				res[exprStr(f.fset, x.Args[h.tagArg])]++
			default:
				res[h.tagStr]++
			}
		}
		return true
	})
	return res
}

// cpSmallInt reads an integer written as an int literal or as a string literal holding one.
func cpSmallInt(e ast.Expr) (int64, bool) {
	if v, ok := intLit(e); ok {
		return v, true
	}
	if bl, ok := e.(*ast.BasicLit); ok && bl.Kind == token.STRING {
		if s, err := strconv.Unquote(bl.Value); err == nil {
			if v, err := strconv.ParseInt(strings.TrimSpace(s), 10, 64); err == nil {
				return v, true
			}
		}
	}
	return 0, false
}

// cpInvokePacketTypes: the packet type argument of the emitted `obj.servant.TarsInvoke(tarsCtx, <t>, …`
// in the one-way and in the normal proxy, in either spelling:
//   - two emitting calls with the literal in the text, in the branches of `if isOneWay {…} else {…}`;
//   - one emitting call `…TarsInvoke(tarsCtx, ", <local>, ", …` whose local is defined with one
//     value and assigned the other under `if isOneWay` (or `if !isOneWay`, or in both branches).
func cpInvokePacketTypes(f *file, fd *ast.FuncDecl) (oneway, normal int64, ok bool) {
	re := regexp.MustCompile(`obj\.servant\.TarsInvoke\(tarsCtx, (\d+), `)
	ast.Inspect(fd, func(n ast.Node) bool {
		is, isIf := n.(*ast.IfStmt)
		if !isIf || exprStr(f.fset, is.Cond) != "isOneWay" || is.Else == nil {
			return true
		}
		var a, b []string
		for _, s := range cpStringLits(is.Body) {
			if m := re.FindStringSubmatch(s); m != nil {
				a = append(a, m[1])
			}
		}
		for _, s := range cpStringLits(is.Else) {
			if m := re.FindStringSubmatch(s); m != nil {
				b = append(b, m[1])
			}
		}
		if len(a) == 1 && len(b) == 1 {
			oneway, _ = strconv.ParseInt(a[0], 10, 64)
			normal, _ = strconv.ParseInt(b[0], 10, 64)
			ok = true
		}
		return true
	})
	if ok {
		return
	}
	// one emitting call with a local
	local := ""
	ast.Inspect(fd, func(n ast.Node) bool {
		c, isCall := n.(*ast.CallExpr)
		if !isCall {
			return true
		}
		for i := 0; i+1 < len(c.Args); i++ {
			bl, isLit := c.Args[i].(*ast.BasicLit)
			if !isLit || bl.Kind != token.STRING {
				continue
			}
			s, err := strconv.Unquote(bl.Value)
			if err != nil || !strings.HasSuffix(s, "obj.servant.TarsInvoke(tarsCtx, ") {
				continue
			}
			if id, isId := c.Args[i+1].(*ast.Ident); isId {
				if local != "" && local != id.Name {
					local = "<several>"
				} else {
					local = id.Name
				}
			}
		}
		return true
	})
	if local == "" || local == "<several>" {
		return 0, 0, false
	}
	var def *int64
	var ow, nm *int64
	assigned := func(body ast.Node) *int64 {
		var res *int64
		cnt := 0
		if body == nil {
			return nil
		}
		ast.Inspect(body, func(m ast.Node) bool {
			as, isAs := m.(*ast.AssignStmt)
			if isAs && len(as.Lhs) == 1 && len(as.Rhs) == 1 && exprStr(f.fset, as.Lhs[0]) == local {
				cnt++
				if v, vok := cpSmallInt(as.Rhs[0]); vok {
					res = &v
				} else {
					cnt += 100
				}
			}
			return true
		})
		if cnt != 1 {
			return nil
		}
		return res
	}
	writes := 0
	ast.Inspect(fd, func(n ast.Node) bool {
		switch x := n.(type) {
		case *ast.AssignStmt:
			if len(x.Lhs) == 1 && len(x.Rhs) == 1 && exprStr(f.fset, x.Lhs[0]) == local {
				writes++
				if x.Tok == token.DEFINE {
					if v, vok := cpSmallInt(x.Rhs[0]); vok {
						def = &v
					}
				}
			}
		case *ast.IfStmt:
			switch exprStr(f.fset, x.Cond) {
			case "isOneWay":
				if v := assigned(x.Body); v != nil {
					ow = v
				}
				if x.Else != nil {
					if v := assigned(x.Else); v != nil {
						nm = v
					}
				}
			case "!isOneWay":
				if v := assigned(x.Body); v != nil {
					nm = v
				}
				if x.Else != nil {
					if v := assigned(x.Else); v != nil {
						ow = v
					}
				}
			}
		}
		return true
	})
	if ow == nil {
		ow = def
	}
	if nm == nil {
		nm = def
	}
	// every write to the local is the definition or one of the assignments read above
	n := 0
	if def != nil {
		n++
	}
	ast.Inspect(fd, func(m ast.Node) bool {
		if is, isIf := m.(*ast.IfStmt); isIf {
			c := exprStr(f.fset, is.Cond)
			if c == "isOneWay" || c == "!isOneWay" {
				if assigned(is.Body) != nil {
					n++
				}
				if is.Else != nil && assigned(is.Else) != nil {
					n++
				}
			}
		}
		return true
	})
	if ow == nil || nm == nil || writes != n {
		return 0, 0, false
	}
	return *ow, *nm, true
}

// cpHeaderLits: the integer literal of `make([]T, <lit>)` calls and of `<x>[<lit>:]` slices in fd.
func cpHeaderLits(f *file, fd *ast.FuncDecl) (makes []int64, slices []int64) {
	if fd == nil {
		return
	}
	ast.Inspect(fd, func(n ast.Node) bool {
		switch x := n.(type) {
		case *ast.CallExpr:
			if id, ok := x.Fun.(*ast.Ident); ok && id.Name == "make" && len(x.Args) == 2 {
				if v, ok := intLit(x.Args[1]); ok {
					makes = append(makes, v)
				}
			}
		case *ast.SliceExpr:
			if x.Low != nil && x.High == nil {
				if v, ok := intLit(x.Low); ok {
					slices = append(slices, v)
				}
			}
		}
		return true
	})
	return
}

func init() {
	mirrored["tars/servant.go"] = append(mirrored["tars/servant.go"], "ServantProxy.TarsInvoke", "ServantProxy.doInvoke")
	mirrored["tars/tarsprotocol.go"] = append(mirrored["tars/tarsprotocol.go"], "Protocol.Invoke", "Protocol.rsp2Byte")
	mirrored["tars/filter.go"] = append(mirrored["tars/filter.go"],
		"filters.getMiddlewareClientFilter", "filters.getMiddlewareServerFilter",
		"filters.UseClientFilterMiddleware", "filters.UseServerFilterMiddleware")
	mirrored["tars/errors.go"] = append(mirrored["tars/errors.go"], "Error.Error", "GetErrorCode", "Errorf")
	mirrored["tars/adapter.go"] = append(mirrored["tars/adapter.go"], "AdapterProxy.Recv", "AdapterProxy.Send")
	mirrored["tars/tools/tars2go/gencode/gen_go.go"] = append(mirrored["tars/tools/tars2go/gencode/gen_go.go"],
		"GenGo.genIFProxyFun", "GenGo.genIFDispatch", "GenGo.genSwitchCase")
	mirrored["tars/protocol/res/requestf/RequestF.go"] = append(mirrored["tars/protocol/res/requestf/RequestF.go"],
		"RequestPacket.ResetDefault", "RequestPacket.ReadFrom", "RequestPacket.WriteTo",
		"ResponsePacket.ResetDefault", "ResponsePacket.ReadFrom", "ResponsePacket.WriteTo")

	extras = append(extras, func(add func(string, int64, bool)) {
		// ---- basef constants ----
		bf := parse("tars/protocol/res/basef/BaseF.go")
		for _, n := range []string{"TARSVERSION", "TUPVERSION", "JSONVERSION", "TARSNORMAL", "TARSONEWAY", "TARSSERVERSUCCESS"} {
			v, ok := bf.varInit(n)
			add("cp"+n, v, ok)
		}

		// ---- server: Protocol.Invoke ----
		const prel = "tars/tarsprotocol.go"
		pf := parse(prel)
		if inv := pf.funcDecl("Protocol.Invoke"); inv != nil {
			// `rspPackage.IRet = <literal>` (plain error) besides the timeout constant and `tarsErr.Code`
			var lits []int64
			code := false
			desc := false
			ast.Inspect(inv, func(n ast.Node) bool {
				as, ok := n.(*ast.AssignStmt)
				if !ok || as.Tok != token.ASSIGN || len(as.Lhs) != 1 || len(as.Rhs) != 1 {
					return true
				}
				switch exprStr(pf.fset, as.Lhs[0]) {
				case "rspPackage.IRet":
					r := exprStr(pf.fset, as.Rhs[0])
					if r == "tarsErr.Code" {
						code = true
					} else if v, ok := intLit(as.Rhs[0]); ok {
						lits = append(lits, v)
					}
				case "rspPackage.SResultDesc":
					if exprStr(pf.fset, as.Rhs[0]) == "err.Error()" {
						desc = true
					}
				}
				return true
			})
			if len(lits) != 1 || !code || !desc {
				anchorLost("%s: Invoke: expected `rspPackage.IRet = <literal>`, `= tarsErr.Code` and `SResultDesc = err.Error()` (found %v, %v, %v)", prel, lits, code, desc)
			} else {
				add("cpPlainErrRet", lits[0], true)
			}
			// D3: what the loop over postSfs assigns to
			variant := int64(-1)
			ast.Inspect(inv, func(n ast.Node) bool {
				rs, ok := n.(*ast.RangeStmt)
				if !ok || exprStr(pf.fset, rs.X) != "s.app.allFilters.postSfs" {
					return true
				}
				ast.Inspect(rs.Body, func(m ast.Node) bool {
					as, ok := m.(*ast.AssignStmt)
					if !ok || len(as.Lhs) != 1 || len(as.Rhs) != 1 {
						return true
					}
					call, ok := as.Rhs[0].(*ast.CallExpr)
					if !ok || exprStr(pf.fset, call.Fun) != "v" {
						return true
					}
					if exprStr(pf.fset, as.Lhs[0]) == "err" && as.Tok == token.ASSIGN {
						variant = 0
					} else if as.Tok == token.DEFINE {
						variant = 1
					}
					return true
				})
				return false
			})
			if variant < 0 {
				anchorLost("%s: Invoke: the loop over postSfs is not in a shape the model knows", prel)
			} else {
				add("cpFixPostFilterVar", variant, true)
			}
			// D19b: `if tarsErr, ok := err.(*Error); ok {` (as found) or `…; ok && tarsErr.Code != <lit> {`
			zvar := int64(-1)
			ast.Inspect(inv, func(n ast.Node) bool {
				is, ok := n.(*ast.IfStmt)
				if !ok || is.Init == nil || !strings.HasPrefix(exprStr(pf.fset, is.Init), "tarsErr, ok := err.(*Error)") {
					return true
				}
				switch c := is.Cond.(type) {
				case *ast.Ident:
					if c.Name == "ok" {
						zvar = 0
					}
				case *ast.BinaryExpr:
					if c.Op == token.LAND && exprStr(pf.fset, c.X) == "ok" {
						if be, ok := c.Y.(*ast.BinaryExpr); ok && be.Op == token.NEQ && exprStr(pf.fset, be.X) == "tarsErr.Code" {
							if v, ok := intLit(be.Y); ok {
								zvar = 1
								add("cpSuccessCode", v, true)
							}
						}
					}
				}
				return true
			})
			if zvar < 0 {
				anchorLost("%s: Invoke: the `err.(*Error)` test is in neither shape the model knows", prel)
			} else {
				add("cpFixZeroCodeIsError", zvar, true)
				if zvar == 0 {
					add("cpSuccessCode", 0, true)
				}
			}
			if !hasBinary(pf, inv, "reqPackage.SFuncName", token.NEQ, `"tars_ping"`) {
				anchorLost("%s: Invoke: `reqPackage.SFuncName != \"tars_ping\"` not found", prel)
			}
			_, sl := cpHeaderLits(pf, inv)
			if len(sl) != 1 {
				anchorLost("%s: Invoke: `req[<lit>:]` not found exactly once", prel)
			} else {
				add("cpInvokeHeaderSkip", sl[0], true)
			}
		}
		if r2b := pf.funcDecl("Protocol.rsp2Byte"); r2b != nil {
			mk, _ := cpHeaderLits(pf, r2b)
			if len(mk) != 1 {
				anchorLost("%s: rsp2Byte: `make([]byte, <lit>)` not found exactly once", prel)
			} else {
				add("cpRspHeader", mk[0], true)
			}
		}

		// ---- client: doInvoke / TarsInvoke ----
		const srel = "tars/servant.go"
		sf := parse(srel)
		if di := sf.funcDecl("ServantProxy.doInvoke"); di != nil {
			lits := cpCmpLits(sf, di, "msg.Resp.IRet", token.NEQ)
			if len(lits) != 3 {
				anchorLost("%s: doInvoke: expected three `msg.Resp.IRet != <literal>` tests, found %v", srel, lits)
			} else {
				add("cpOkRet", lits[0], true)
				add("cpCodeLo", lits[1], true)
				add("cpCodeHi", lits[2], true)
			}
			if !hasBinary(sf, di, "msg.Status", token.NEQ, "basef.TARSSERVERSUCCESS") {
				anchorLost("%s: doInvoke: `msg.Status != basef.TARSSERVERSUCCESS` not found", srel)
			}
			if !hasBinary(sf, di, "msg.Req.CPacketType", token.EQL, "basef.TARSONEWAY") {
				anchorLost("%s: doInvoke: one-way test not found", srel)
			}
			if !hasStringLit(sf, di, "basef error code %d") {
				anchorLost("%s: doInvoke: the synthetic description \"basef error code %%d\" not found", srel)
			}
			// D19a: as found `return fmt.Errorf("basef error code %d", …)`; repaired `desc = fmt.Sprintf(…)`
			ret, asg := false, false
			ast.Inspect(di, func(n ast.Node) bool {
				switch x := n.(type) {
				case *ast.ReturnStmt:
					if len(x.Results) == 1 && hasStringLit(sf, x.Results[0], "basef error code %d") {
						ret = true
					}
				case *ast.AssignStmt:
					if len(x.Rhs) == 1 && hasStringLit(sf, x.Rhs[0], "basef error code %d") {
						asg = true
					}
				}
				return true
			})
			switch {
			case ret && !asg:
				add("cpFixEmptyDescKeepsCode", 0, true)
			case asg && !ret:
				add("cpFixEmptyDescKeepsCode", 1, true)
			default:
				anchorLost("%s: doInvoke: empty-description handling is in neither shape the model knows", srel)
			}
		}
		if ti := sf.funcDecl("ServantProxy.TarsInvoke"); ti != nil {
			// filter selection order: cf, middleware, pre/post
			if !hasBinary(sf, ti, "app.allFilters.cf", token.NEQ, "nil") {
				anchorLost("%s: TarsInvoke: `app.allFilters.cf != nil` not found", srel)
			}
		}

		// ---- errors.go ----
		ef := parse("tars/errors.go")
		if ge := ef.funcDecl("GetErrorCode"); ge != nil {
			var rets []int64
			ast.Inspect(ge, func(n ast.Node) bool {
				if rs, ok := n.(*ast.ReturnStmt); ok && len(rs.Results) == 1 {
					if v, ok := intLit(rs.Results[0]); ok {
						rets = append(rets, v)
					}
				}
				return true
			})
			if len(rets) != 2 {
				anchorLost("tars/errors.go: GetErrorCode: expected two literal returns, found %v", rets)
			} else {
				add("cpErrCodeNil", rets[0], true)
				add("cpErrCodePlain", rets[1], true)
			}
		}

		// ---- packet structs ----
		rf := parse("tars/protocol/res/requestf/RequestF.go")
		for _, st := range []struct {
			name, prefix string
			members      []string
		}{
			{"RequestPacket", "cpReq", []string{"IVersion", "CPacketType", "IMessageType", "IRequestId", "SServantName", "SFuncName", "SBuffer", "ITimeout", "Context", "Status"}},
			{"ResponsePacket", "cpRsp", []string{"IVersion", "CPacketType", "IRequestId", "IMessageType", "IRet", "SBuffer", "Status", "SResultDesc", "Context"}},
		} {
			tags, order := cpStructTags(rf, st.name)
			if strings.Join(order, ",") != strings.Join(st.members, ",") {
				anchorLost("RequestF.go: members of %s are %v, the model knows %v", st.name, order, st.members)
				continue
			}
			for _, m := range st.members {
				add(st.prefix+"Tag"+m, tags[m][0], true)
				add(st.prefix+"Req"+m, tags[m][1], true)
			}
		}

		// ---- client protocol: 4-byte header ----
		cpf := parse("tars/protocol/tarsprotocol.go")
		if fd := cpf.funcDecl("TarsProtocol.RequestPack"); fd != nil {
			mk, _ := cpHeaderLits(cpf, fd)
			if len(mk) != 1 {
				anchorLost("tars/protocol/tarsprotocol.go: RequestPack: `make([]int8, <lit>)` not found exactly once")
			} else {
				add("cpReqHeader", mk[0], true)
			}
		}
		if fd := cpf.funcDecl("TarsProtocol.ResponseUnpack"); fd != nil {
			_, sl := cpHeaderLits(cpf, fd)
			if len(sl) != 1 {
				anchorLost("tars/protocol/tarsprotocol.go: ResponseUnpack: `pkg[<lit>:]` not found exactly once")
			} else {
				add("cpUnpackHeaderSkip", sl[0], true)
			}
		}

		// ---- tars2go: proxies and dispatchers ----
		const grel = "tars/tools/tars2go/gencode/gen_go.go"
		gf := parse(grel)
		if fd := gf.funcDecl("GenGo.genIFProxyFun"); fd != nil {
			tags := cpMemberTags(gf, fd)
			// request: every parameter at k+1; response: ret at 0, out parameters at k+1
			if len(tags) != 2 || tags["int32(k + 1)"] != 2 || tags["0"] != 1 {
				anchorLost("%s: genIFProxyFun: member tags are %v, the model knows {int32(k + 1): 2, 0: 1}", grel, tags)
			} else {
				add("cpArgTagOffset", 1, true)
				add("cpRetTag", 0, true)
			}
			// D20: the copy-back block: as found `if len(opts) == 1 {…} else if len(opts) == 2 {…}` assigning
			// into the maps unconditionally; repaired `if len(opts) >= 1 && contextMap != nil {…}` and
			// `if len(opts) == 2 && statusMap != nil {…}`
			emitted := strings.Join(cpStringLits(fd), "\n")
			switch {
			case strings.Contains(emitted, "len(opts) >= 1 && contextMap != nil") && strings.Contains(emitted, "len(opts) == 2 && statusMap != nil"):
				add("cpFixNilMapGuard", 1, true)
			case strings.Contains(emitted, "delete(contextMap, k)") && !strings.Contains(emitted, "contextMap != nil") && !strings.Contains(emitted, "statusMap != nil"):
				add("cpFixNilMapGuard", 0, true)
			default:
				anchorLost("%s: genIFProxyFun: the copy-back block is in neither shape the model knows", grel)
			}
			if x, y, ok := cpInvokePacketTypes(gf, fd); ok {
				add("cpProxyOnewayType", x, true)
				add("cpProxyNormalType", y, true)
			} else {
				anchorLost("%s: genIFProxyFun: the two emitted TarsInvoke calls (one-way / normal) not found", grel)
			}
		}
		if fd := gf.funcDecl("GenGo.genSwitchCase"); fd != nil {
			tags := cpMemberTags(gf, fd)
			// TARS: in at k+1, ret at 0, out at k+1; TUP: in at 0, ret at 0, out at 0
			if len(tags) != 2 || tags["int32(k + 1)"] != 2 || tags["0"] != 4 {
				anchorLost("%s: genSwitchCase: member tags are %v, the model knows {int32(k + 1): 2, 0: 4}", grel, tags)
			}
		}
		if fd := gf.funcDecl("GenGo.genIFDispatch"); fd != nil {
			all := strings.Join(cpStringLits(fd), "\n")
			for _, m := range []struct {
				field, name string
			}{{"CPacketType", "cpDispatchPacketType"}, {"IMessageType", "cpDispatchMessageType"}, {"IRet", "cpDispatchRet"}} {
				re := regexp.MustCompile(m.field + `:\s+(\d+),`)
				if g := re.FindStringSubmatch(all); g != nil {
					v, _ := strconv.ParseInt(g[1], 10, 64)
					add(m.name, v, true)
				} else {
					anchorLost("%s: genIFDispatch: `%s: <literal>,` of the response packet not found", grel, m.field)
				}
			}
			for _, want := range []string{"IVersion:     tarsReq.IVersion,", "IRequestId:   tarsReq.IRequestId,", `SResultDesc:  "",`,
				"Status:       statusMap,", "Context:      contextMap,", `return fmt.Errorf("func mismatch")`} {
				if !strings.Contains(all, want) {
					anchorLost("%s: genIFDispatch: `%s` not found in the emitted text", grel, want)
				}
			}
		}
	})
}

// ---- filter.go: the middleware getters compose the chain from the registered list on every call ----
//
// Model/Filter.lean `getMiddlewareFilter` is a pure function of the list of middlewares, and
// `Reg.after` says the list a call sees is the fold of the registrations made before it
// (C01_filters_follow_registration). That is the code only if the getters keep no state of their
// own: cpMwGetterStateless = 1 iff
//   - struct `filters` has exactly the eight registration members (cf, preCfs, postCfs, cfms, sf,
//     preSfs, postSfs, sfms) and none of a sync.* type,
//   - neither getter calls a `.Do(…)`, assigns to a member of its receiver, or returns a member of
//     its receiver, and each of them reads its list (`f.cfms` / `f.sfms`),
//   - the Use…Middleware methods append to that list.
func init() {
	extras = append(extras, func(add func(string, int64, bool)) {
		const rel = "tars/filter.go"
		ff := parse(rel)
		if ff == nil {
			return
		}
		want := map[string]bool{"cf": true, "preCfs": true, "postCfs": true, "cfms": true, "sf": true, "preSfs": true, "postSfs": true, "sfms": true}
		stateless := true
		found := false
		for _, d := range ff.f.Decls {
			gd, ok := d.(*ast.GenDecl)
			if !ok || gd.Tok != token.TYPE {
				continue
			}
			for _, sp := range gd.Specs {
				ts := sp.(*ast.TypeSpec)
				st, ok := ts.Type.(*ast.StructType)
				if !ok || ts.Name.Name != "filters" {
					continue
				}
				found = true
				n := 0
				for _, fl := range st.Fields.List {
					if strings.Contains(exprStr(ff.fset, fl.Type), "sync.") {
						stateless = false
					}
					if len(fl.Names) == 0 {
						stateless = false // embedded member
					}
					for _, nm := range fl.Names {
						n++
						if !want[nm.Name] {
							stateless = false
						}
					}
				}
				if n != len(want) {
					stateless = false
				}
			}
		}
		if !found {
			anchorLost("%s: struct filters not found", rel)
			return
		}
		for _, g := range [][2]string{{"filters.getMiddlewareClientFilter", "cfms"}, {"filters.getMiddlewareServerFilter", "sfms"}} {
			fd := ff.funcDecl(g[0])
			if fd == nil || fd.Recv == nil || len(fd.Recv.List) != 1 || len(fd.Recv.List[0].Names) != 1 {
				anchorLost("%s: %s not found", rel, g[0])
				return
			}
			recv := fd.Recv.List[0].Names[0].Name
			readsList := false
			ast.Inspect(fd.Body, func(n ast.Node) bool {
				switch x := n.(type) {
				case *ast.FuncLit:
					// the innermost filter literal has parameters of its own (one of them may shadow the
					// receiver's name): it is not part of the getter's own statements
					return false
				case *ast.CallExpr:
					if se, ok := x.Fun.(*ast.SelectorExpr); ok && se.Sel.Name == "Do" {
						stateless = false
					}
				case *ast.AssignStmt:
					for _, l := range x.Lhs {
						if strings.HasPrefix(exprStr(ff.fset, l), recv+".") {
							stateless = false
						}
					}
				case *ast.ReturnStmt:
					for _, r := range x.Results {
						if strings.HasPrefix(exprStr(ff.fset, r), recv+".") {
							stateless = false
						}
					}
				case *ast.SelectorExpr:
					if exprStr(ff.fset, x) == recv+"."+g[1] {
						readsList = true
					}
				}
				return true
			})
			if !readsList {
				stateless = false
			}
		}
		for _, u := range [][2]string{{"filters.UseClientFilterMiddleware", "cfms"}, {"filters.UseServerFilterMiddleware", "sfms"}} {
			fd := ff.funcDecl(u[0])
			if fd == nil || fd.Recv == nil || len(fd.Recv.List) != 1 || len(fd.Recv.List[0].Names) != 1 {
				anchorLost("%s: %s not found", rel, u[0])
				return
			}
			recv := fd.Recv.List[0].Names[0].Name
			appends := false
			ast.Inspect(fd.Body, func(n ast.Node) bool {
				as, ok := n.(*ast.AssignStmt)
				if ok && len(as.Lhs) == 1 && len(as.Rhs) == 1 && exprStr(ff.fset, as.Lhs[0]) == recv+"."+u[1] &&
					strings.HasPrefix(exprStr(ff.fset, as.Rhs[0]), "append("+recv+"."+u[1]+",") {
					appends = true
				}
				return true
			})
			if !appends {
				stateless = false
			}
		}
		v := int64(0)
		if stateless {
			v = 1
		}
		add("cpMwGetterStateless", v, true)
	})
}
