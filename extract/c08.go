package main

// C08 / C09 (client call path): the literals of ServantProxy.genRequestID (the value compared by the
// CAS, the value it stores, the increment, the skipped value), the id reserved for server push and
// the one-way packet type in AdapterProxy.Recv, the capacity of the per-call reply channel (the model
// treats the hand-over as a rendezvous), the queue-length fallback of NewTarsClient and the
// client-side defaults of setting.go. Model/Route.lean and Model/Call.lean are written over these
// constants; Props/C08.lean and Props/C09.lean are re-checked against them on every run.

import (
	"go/ast"
	"go/token"
	"strings"
)

// callArgLit finds in fn the first call whose function prints as fun and whose argument at
// position selIdx prints as selArg (selIdx < 0: no such condition) and returns the integer literal
// (or the named operand, via names) at position litIdx.
func (f *file) callArgLit(fnName, fun string, selIdx int, selArg string, litIdx int) (int64, bool) {
	fd := f.funcDecl(fnName)
	if fd == nil {
		return 0, false
	}
	var val int64
	found := false
	ast.Inspect(fd, func(n ast.Node) bool {
		if found {
			return false
		}
		call, ok := n.(*ast.CallExpr)
		if !ok || exprStr(f.fset, call.Fun) != fun || len(call.Args) <= litIdx {
			return true
		}
		if selIdx >= 0 && (len(call.Args) <= selIdx || exprStr(f.fset, call.Args[selIdx]) != selArg) {
			return true
		}
		if v, ok := intLit(call.Args[litIdx]); ok {
			val, found = v, true
			return false
		}
		return true
	})
	if !found {
		anchorLost("%s: %s: call %s(... <literal at %d> ...) not found", f.path, fnName, fun, litIdx)
	}
	return val, found
}

// callArgIs reports (as 1/0) whether the argument at position idx of the first call of fun inside
// fn prints as want.
func (f *file) callArgIs(fnName, fun string, idx int, want string) (int64, bool) {
	fd := f.funcDecl(fnName)
	if fd == nil {
		return 0, false
	}
	var val int64
	found := false
	ast.Inspect(fd, func(n ast.Node) bool {
		if found {
			return false
		}
		call, ok := n.(*ast.CallExpr)
		if !ok || exprStr(f.fset, call.Fun) != fun || len(call.Args) <= idx {
			return true
		}
		found = true
		if exprStr(f.fset, call.Args[idx]) == want {
			val = 1
		}
		return false
	})
	if !found {
		anchorLost("%s: %s: call of %s not found", f.path, fnName, fun)
	}
	return val, found
}

// makeChanCap finds in fn the assignment `<name> := make(chan T[, lit])` and returns the capacity.
func (f *file) makeChanCap(fnName, name string) (int64, bool) {
	fd := f.funcDecl(fnName)
	if fd == nil {
		return 0, false
	}
	var val int64
	found := false
	ast.Inspect(fd, func(n ast.Node) bool {
		if found {
			return false
		}
		as, ok := n.(*ast.AssignStmt)
		if !ok || len(as.Lhs) != 1 || len(as.Rhs) != 1 || exprStr(f.fset, as.Lhs[0]) != name {
			return true
		}
		call, ok := as.Rhs[0].(*ast.CallExpr)
		if !ok || exprStr(f.fset, call.Fun) != "make" || len(call.Args) == 0 {
			return true
		}
		if _, ok := call.Args[0].(*ast.ChanType); !ok {
			return true
		}
		if len(call.Args) == 1 {
			val, found = 0, true
		} else if v, ok := intLit(call.Args[1]); ok {
			val, found = v, true
		}
		return !found
	})
	if !found {
		anchorLost("%s: %s: `%s := make(chan T[, <literal>])` not found", f.path, fnName, name)
	}
	return val, found
}

// dispatchCtx inspects ServantProxy.TarsInvoke: X is the variable assigned by
// `X, cancel = context.WithTimeout(P, timeout)` (the context that carries the per-call / configured
// timeout when the caller's context P has no deadline). For every call site that leads to doInvoke —
// the legacy single filter `app.allFilters.cf(…)`, the middleware chain `cf(…)`, the direct
// `s.doInvoke(…)` — and for the pre / post filters `v(…)` it reports 1 iff the first argument is X.
func (f *file) dispatchCtx(fnName string) (map[string]int64, bool) {
	fd := f.funcDecl(fnName)
	if fd == nil {
		return nil, false
	}
	x, from := "", ""
	ast.Inspect(fd, func(n ast.Node) bool {
		as, ok := n.(*ast.AssignStmt)
		if !ok || len(as.Rhs) != 1 || len(as.Lhs) != 2 {
			return true
		}
		call, ok := as.Rhs[0].(*ast.CallExpr)
		if !ok || exprStr(f.fset, call.Fun) != "context.WithTimeout" || len(call.Args) != 2 {
			return true
		}
		x, from = exprStr(f.fset, as.Lhs[0]), exprStr(f.fset, call.Args[0])
		return false
	})
	if x == "" {
		anchorLost("%s: %s: `X, cancel = context.WithTimeout(ctx, timeout)` not found", f.path, fnName)
		return nil, false
	}
	param := ""
	if fd.Type.Params != nil && len(fd.Type.Params.List) > 0 && len(fd.Type.Params.List[0].Names) > 0 {
		param = fd.Type.Params.List[0].Names[0].Name
	}
	out := map[string]int64{"FromParam": 0}
	if from == param && param != "" {
		out["FromParam"] = 1
	}
	nv := 0
	ast.Inspect(fd, func(n ast.Node) bool {
		call, ok := n.(*ast.CallExpr)
		if !ok || len(call.Args) == 0 {
			return true
		}
		key := ""
		switch exprStr(f.fset, call.Fun) {
		case "app.allFilters.cf":
			key = "Single"
		case "cf":
			key = "Middleware"
		case "s.doInvoke":
			key = "Direct"
		case "v":
			if nv == 0 {
				key = "Pre"
			} else {
				key = "Post"
			}
			nv++
		default:
			return true
		}
		if _, dup := out[key]; dup {
			anchorLost("%s: %s: more than one call site of kind %s", f.path, fnName, key)
			return true
		}
		if exprStr(f.fset, call.Args[0]) == x {
			out[key] = 1
		} else {
			out[key] = 0
		}
		return true
	})
	for _, k := range []string{"Single", "Middleware", "Direct", "Pre", "Post"} {
		if _, ok := out[k]; !ok {
			anchorLost("%s: %s: dispatch call site %s not found", f.path, fnName, k)
			return nil, false
		}
	}
	return out, true
}

// queueLenReceivers inspects ServantProxy.doInvoke (with the fallback reading a helper that is new
// relative to the baseline is seen inlined): the `atomic.AddInt32(<X>.queueLen, +n)` that takes the
// slot and the `atomic.AddInt32(<Y>.queueLen, -n)` of the deferred cleanup. It reports 1 iff both are
// found exactly once and X and Y are both the method's own receiver (`&s.queueLen`): a decrement on
// another proxy's counter (`&c.servantProxy.queueLen`, `&adp.servantProxy.queueLen`) does not qualify.
func (f *file) queueLenReceivers(fnName string) (int64, bool) {
	fd := f.funcDecl(fnName)
	if fd == nil {
		return 0, false
	}
	recv := ""
	if fd.Recv != nil && len(fd.Recv.List) == 1 && len(fd.Recv.List[0].Names) == 1 {
		recv = fd.Recv.List[0].Names[0].Name
	}
	var incs, decs []string
	ast.Inspect(fd, func(n ast.Node) bool {
		call, ok := n.(*ast.CallExpr)
		if !ok || exprStr(f.fset, call.Fun) != "atomic.AddInt32" || len(call.Args) != 2 {
			return true
		}
		a0 := exprStr(f.fset, call.Args[0])
		if len(a0) < 9 || a0[len(a0)-9:] != ".queueLen" {
			return true
		}
		if v, ok := intLit(call.Args[1]); ok {
			if v > 0 {
				incs = append(incs, a0)
			} else if v < 0 {
				decs = append(decs, a0)
			}
		}
		return true
	})
	if len(incs) != 1 || len(decs) != 1 {
		anchorLost("%s: %s: expected one increment and one decrement of a queueLen counter, found %v / %v", f.path, fnName, incs, decs)
		return 0, false
	}
	own := "&" + recv + ".queueLen"
	if recv != "" && incs[0] == own && decs[0] == own {
		return 1, true
	}
	return 0, true
}

// lockReleased checks the lock discipline of one function: after `<lock>.Lock()` every way out of the
// function — each `return` and the end of the body — has released the lock, either by a
// `defer <lock>.Unlock()` or by a `<lock>.Unlock()` statement executed before it on that path
// (branches of if/else, switch, select and loops are followed; a branch that returns does not flow on).
// 1 = released on every path, 0 = some path leaves with the lock held.
func (f *file) lockReleased(fnName, lock string) (int64, bool) {
	fd := f.funcDecl(fnName)
	if fd == nil || fd.Body == nil {
		return 0, false
	}
	sawLock := false
	deferred := false
	leak := false
	isCall := func(st ast.Stmt, name string) bool {
		es, ok := st.(*ast.ExprStmt)
		if !ok {
			return false
		}
		call, ok := es.X.(*ast.CallExpr)
		return ok && exprStr(f.fset, call.Fun) == lock+"."+name
	}
	// walk returns (locked after the statements, terminated)
	var walk func(stmts []ast.Stmt, locked bool) (bool, bool)
	walkStmt := func(st ast.Stmt, locked bool) (bool, bool) { return locked, false }
	walkStmt = func(st ast.Stmt, locked bool) (bool, bool) {
		switch x := st.(type) {
		case *ast.ExprStmt:
			if isCall(st, "Lock") {
				sawLock = true
				return true, false
			}
			if isCall(st, "Unlock") {
				return false, false
			}
		case *ast.DeferStmt:
			if exprStr(f.fset, x.Call.Fun) == lock+".Unlock" {
				deferred = true
			}
		case *ast.ReturnStmt:
			if locked && !deferred {
				leak = true
			}
			return locked, true
		case *ast.BlockStmt:
			return walk(x.List, locked)
		case *ast.IfStmt:
			l1, t1 := walk(x.Body.List, locked)
			l2, t2 := locked, false
			if x.Else != nil {
				l2, t2 = walkStmt(x.Else, locked)
			}
			switch {
			case t1 && t2:
				return locked, true
			case t1:
				return l2, false
			case t2:
				return l1, false
			}
			return l1 || l2, false
		case *ast.ForStmt:
			l, _ := walk(x.Body.List, locked)
			return l || locked, false
		case *ast.RangeStmt:
			l, _ := walk(x.Body.List, locked)
			return l || locked, false
		case *ast.SwitchStmt, *ast.TypeSwitchStmt, *ast.SelectStmt:
			var body *ast.BlockStmt
			switch y := x.(type) {
			case *ast.SwitchStmt:
				body = y.Body
			case *ast.TypeSwitchStmt:
				body = y.Body
			case *ast.SelectStmt:
				body = y.Body
			}
			out := locked
			for _, cl := range body.List {
				var list []ast.Stmt
				switch c := cl.(type) {
				case *ast.CaseClause:
					list = c.Body
				case *ast.CommClause:
					list = c.Body
				}
				l, t := walk(list, locked)
				if !t {
					out = out || l
				}
			}
			return out, false
		}
		return locked, false
	}
	walk = func(stmts []ast.Stmt, locked bool) (bool, bool) {
		for _, st := range stmts {
			var term bool
			locked, term = walkStmt(st, locked)
			if term {
				return locked, true
			}
		}
		return locked, false
	}
	locked, term := walk(fd.Body.List, false)
	if !term && locked && !deferred {
		leak = true
	}
	if !sawLock {
		anchorLost("%s: %s: `%s.Lock()` not found", f.path, fnName, lock)
		return 0, false
	}
	if leak {
		return 0, true
	}
	return 1, true
}

// slotReleased generalises lockReleased to acquire/release pairs of a counter: after an
// `atomic.AddInt32(&….<field>, +n)` (as a statement or inside the condition / init of an `if`) every way
// out of the function — each `return` and the end of the body — is covered by a release
// `atomic.AddInt32(&….<field>, -n)`: a statement executed before it on that path, or a `defer` (a
// function literal whose body contains the release) that was installed before it. 1 = every path
// releases, 0 = some path leaves with the slot taken.
func (f *file) slotReleased(fnName, field string) (int64, bool) {
	fd := f.funcDecl(fnName)
	if fd == nil || fd.Body == nil {
		return 0, false
	}
	addOf := func(n ast.Node, sign int) bool {
		found := false
		if n == nil {
			return false
		}
		ast.Inspect(n, func(m ast.Node) bool {
			if _, isLit := m.(*ast.FuncLit); isLit && m != n {
				return false // a nested function literal runs later (defer / go)
			}
			call, ok := m.(*ast.CallExpr)
			if !ok || exprStr(f.fset, call.Fun) != "atomic.AddInt32" || len(call.Args) != 2 {
				return true
			}
			a0 := exprStr(f.fset, call.Args[0])
			if len(a0) <= len(field) || a0[len(a0)-len(field)-1:] != "."+field {
				return true
			}
			if v, ok := intLit(call.Args[1]); ok && ((sign > 0 && v > 0) || (sign < 0 && v < 0)) {
				found = true
			}
			return true
		})
		return found
	}
	sawAcquire, deferred, leak := false, false, false
	var walk func(stmts []ast.Stmt, held bool) (bool, bool)
	walkStmt := func(st ast.Stmt, held bool) (bool, bool) { return held, false }
	walkStmt = func(st ast.Stmt, held bool) (bool, bool) {
		switch x := st.(type) {
		case *ast.ExprStmt, *ast.AssignStmt:
			if addOf(st, +1) {
				sawAcquire = true
				return true, false
			}
			if addOf(st, -1) {
				return false, false
			}
		case *ast.DeferStmt:
			if lit, ok := x.Call.Fun.(*ast.FuncLit); ok && addOf(lit.Body, -1) {
				deferred = true
			} else if addOf(x.Call, -1) {
				deferred = true
			}
		case *ast.ReturnStmt:
			if held && !deferred {
				leak = true
			}
			return held, true
		case *ast.BlockStmt:
			return walk(x.List, held)
		case *ast.IfStmt:
			if (x.Init != nil && addOf(x.Init, +1)) || addOf(x.Cond, +1) {
				sawAcquire = true
				held = true
			}
			l1, t1 := walk(x.Body.List, held)
			l2, t2 := held, false
			if x.Else != nil {
				l2, t2 = walkStmt(x.Else, held)
			}
			switch {
			case t1 && t2:
				return held, true
			case t1:
				return l2, false
			case t2:
				return l1, false
			}
			return l1 || l2, false
		case *ast.ForStmt:
			l, _ := walk(x.Body.List, held)
			return l || held, false
		case *ast.RangeStmt:
			l, _ := walk(x.Body.List, held)
			return l || held, false
		case *ast.SwitchStmt:
			out := held
			for _, cl := range x.Body.List {
				if c, ok := cl.(*ast.CaseClause); ok {
					if l, t := walk(c.Body, held); !t {
						out = out || l
					}
				}
			}
			return out, false
		case *ast.SelectStmt:
			out := held
			for _, cl := range x.Body.List {
				if c, ok := cl.(*ast.CommClause); ok {
					if l, t := walk(c.Body, held); !t {
						out = out || l
					}
				}
			}
			return out, false
		}
		return held, false
	}
	walk = func(stmts []ast.Stmt, held bool) (bool, bool) {
		for _, st := range stmts {
			var term bool
			held, term = walkStmt(st, held)
			if term {
				return held, true
			}
		}
		return held, false
	}
	held, term := walk(fd.Body.List, false)
	if !term && held && !deferred {
		leak = true
	}
	if !sawAcquire {
		anchorLost("%s: %s: no `atomic.AddInt32(&….%s, +n)` found", f.path, fnName, field)
		return 0, false
	}
	if leak {
		return 0, true
	}
	return 1, true
}

// withTimeoutUnguarded inspects ServantProxy.TarsInvoke: the `… = context.WithTimeout(ctx, timeout)` that
// gives a call without a context deadline its deadline must be guarded by nothing but "the context has no
// deadline": its only enclosing `if` is `if dl, ok := ctx.Deadline(); ok { … } else { HERE }`. A further
// enclosing condition (e.g. `else if timeout > 0`) — any comparison of something with a literal on the way
// down to the assignment — makes the wrapping depend on the value of the timeout: 0.
func (f *file) withTimeoutUnguarded(fnName string) (int64, bool) {
	fd := f.funcDecl(fnName)
	if fd == nil || fd.Body == nil {
		return 0, false
	}
	var stack []ast.Node
	var ifs []*ast.IfStmt
	found := false
	ast.Inspect(fd.Body, func(n ast.Node) bool {
		if n == nil {
			stack = stack[:len(stack)-1]
			return true
		}
		stack = append(stack, n)
		if found {
			return true
		}
		as, ok := n.(*ast.AssignStmt)
		if !ok || len(as.Rhs) != 1 {
			return true
		}
		call, ok := as.Rhs[0].(*ast.CallExpr)
		if !ok || exprStr(f.fset, call.Fun) != "context.WithTimeout" {
			return true
		}
		found = true
		for _, a := range stack {
			if is, ok := a.(*ast.IfStmt); ok {
				ifs = append(ifs, is)
			}
		}
		return true
	})
	if !found {
		anchorLost("%s: %s: `… = context.WithTimeout(…)` not found", f.path, fnName)
		return 0, false
	}
	hasLitCmp := func(e ast.Expr) bool {
		bad := false
		ast.Inspect(e, func(m ast.Node) bool {
			if be, ok := m.(*ast.BinaryExpr); ok {
				switch be.Op {
				case token.GTR, token.GEQ, token.LSS, token.LEQ, token.EQL, token.NEQ:
					if _, ok := intLit(be.X); ok {
						bad = true
					}
					if _, ok := intLit(be.Y); ok {
						bad = true
					}
				}
			}
			return true
		})
		return bad
	}
	if len(ifs) != 1 {
		return 0, true
	}
	is := ifs[0]
	if is.Init == nil || !strings.Contains(exprStr(f.fset, is.Init), ".Deadline()") || hasLitCmp(is.Cond) {
		return 0, true
	}
	if _, ok := is.Else.(*ast.BlockStmt); !ok {
		return 0, true
	}
	return 1, true
}

// sslDialBounded inspects connection.ReConnect (with the fallback reading a new helper is seen inlined): an ssl
// endpoint must be dialled so that the dial timeout covers the TLS handshake too — through
// `tls.DialWithDialer(d, …)` where d is a `net.Dialer` literal carrying a `Timeout`, or, when the handshake is
// run by hand (`tls.Client(…)` / `.Handshake()`), with a deadline set on the connection before it
// (`SetDeadline` / `SetReadDeadline`) or a context (`HandshakeContext` / `DialContext`). 1 = bounded.
func (f *file) sslDialBounded(fnName string) (int64, bool) {
	fd := f.funcDecl(fnName)
	if fd == nil || fd.Body == nil {
		return 0, false
	}
	defs := f.localDefs(fd)
	viaDialer, byHand, deadline := false, false, false
	ast.Inspect(fd, func(n ast.Node) bool {
		call, ok := n.(*ast.CallExpr)
		if !ok {
			return true
		}
		fun := exprStr(f.fset, call.Fun)
		switch {
		case fun == "tls.DialWithDialer" && len(call.Args) > 0:
			d := exprStr(f.fset, call.Args[0])
			if v, ok := defs[d]; ok {
				d = v
			}
			if strings.Contains(d, "Dialer{") && strings.Contains(d, "Timeout:") {
				viaDialer = true
			}
		case fun == "tls.Client" || strings.HasSuffix(fun, ".Handshake"):
			byHand = true
		case strings.HasSuffix(fun, ".SetDeadline") || strings.HasSuffix(fun, ".SetReadDeadline") ||
			strings.HasSuffix(fun, ".HandshakeContext") || strings.HasSuffix(fun, ".DialContext"):
			deadline = true
		}
		return true
	})
	if !viaDialer && !byHand && !deadline {
		anchorLost("%s: %s: no TLS dial found (tls.DialWithDialer / tls.Client)", f.path, fnName)
		return 0, false
	}
	if byHand && !deadline {
		return 0, true
	}
	if viaDialer || deadline {
		return 1, true
	}
	return 0, true
}

func c08AppendUnique(l []string, names ...string) []string {
	for _, n := range names {
		dup := false
		for _, m := range l {
			if m == n {
				dup = true
			}
		}
		if !dup {
			l = append(l, n)
		}
	}
	return l
}

func init() {
	mirrored["tars/servant.go"] = c08AppendUnique(mirrored["tars/servant.go"],
		"ServantProxy.genRequestID", "ServantProxy.TarsInvoke", "ServantProxy.doInvoke")
	mirrored["tars/adapter.go"] = c08AppendUnique(mirrored["tars/adapter.go"],
		"AdapterProxy.Recv", "AdapterProxy.Send", "NewAdapterProxy", "AdapterProxy.doKeepAlive", "AdapterProxy.autoKeepAlive")
	mirrored["tars/transport/tarsclient.go"] = c08AppendUnique(mirrored["tars/transport/tarsclient.go"],
		"TarsClient.Send", "TarsClient.ReConnect", "connection.ReConnect", "NewTarsClient", "connection.send", "connection.close", "connection.lost")
	mirrored["tars/endpointmanager.go"] = c08AppendUnique(mirrored["tars/endpointmanager.go"],
		"endpointManager.preInvoke", "endpointManager.postInvoke")
	mirrored["tars/util/rtimer/timewheel.go"] = c08AppendUnique(mirrored["tars/util/rtimer/timewheel.go"],
		"After", "TimeWheel.After", "TimeWheel.run")
	extras = append(extras, func(add func(string, int64, bool)) {
		sv := parse("tars/servant.go")
		v, ok := sv.varInit("maxInt32")
		add("callMaxInt32", v, ok)
		// atomic.CompareAndSwapInt32(&msgID, maxInt32, 1)
		v, ok = sv.callArgIs("ServantProxy.genRequestID", "atomic.CompareAndSwapInt32", 1, "maxInt32")
		add("callCasOldIsMax", v, ok)
		v, ok = sv.callArgLit("ServantProxy.genRequestID", "atomic.CompareAndSwapInt32", 0, "&msgID", 2)
		add("callCasNew", v, ok)
		// atomic.AddInt32(&msgID, 1); v != 0
		v, ok = sv.callArgLit("ServantProxy.genRequestID", "atomic.AddInt32", 0, "&msgID", 1)
		add("callAddDelta", v, ok)
		v, ok = sv.cmpLit("ServantProxy.genRequestID", "v", token.NEQ)
		add("callZeroSkip", v, ok)
		// doInvoke: counters and the reply channel
		v, ok = sv.callArgLit("ServantProxy.doInvoke", "atomic.AddInt32", 0, "&s.queueLen", 1)
		add("callQueueLenInc", v, ok)
		v, ok = sv.queueLenReceivers("ServantProxy.doInvoke")
		add("callQueueLenDecSameReceiver", v, ok)
		v, ok = sv.makeChanCap("ServantProxy.doInvoke", "readCh")
		add("callReplyChanCap", v, ok)
		// every way out of doInvoke / doKeepAlive after the queueLen slot was taken gives it back
		v, ok = sv.slotReleased("ServantProxy.doInvoke", "queueLen")
		add("callInvokeSlotReleased", v, ok)
		ad := parse("tars/adapter.go")
		v, ok = ad.slotReleased("AdapterProxy.doKeepAlive", "queueLen")
		add("callKeepAliveSlotReleased", v, ok)
		v, ok = ad.cmpLit("AdapterProxy.Recv", "packet.IRequestId", token.EQL)
		add("callPushId", v, ok)
		bf := parse("tars/protocol/res/basef/BaseF.go")
		v, ok = bf.varInit("TARSONEWAY")
		add("callOneway", v, ok)
		v, ok = bf.varInit("TARSNORMAL")
		add("callNormal", v, ok)
		tc := parse("tars/transport/tarsclient.go")
		v, ok = tc.cmpLit("NewTarsClient", "config.QueueLen", token.LEQ)
		add("callQueueLenFallbackBound", v, ok)
		// the dial timeout covers the TLS handshake of ssl endpoints
		v, ok = tc.sslDialBounded("connection.ReConnect")
		add("callSslDialBounded", v, ok)
		// lock discipline of the transport client: nobody leaves with connLock held
		for _, fn := range [][2]string{{"Close", "connection.close"}, {"ReConnect", "connection.ReConnect"}, {"Lost", "connection.lost"}} {
			v, ok = tc.lockReleased(fn[1], "c.connLock")
			add("callConnLockReleased"+fn[0], v, ok)
		}
		v, ok = tc.cmpLit("TarsClient.Send", "tc.config.WriteTimeout", token.GTR)
		add("callWriteTimeoutOffValue", v, ok)
		st := parse("tars/setting.go")
		for _, kv := range [][2]string{
			{"callDefaultClientQueueLen", "ClientQueueLen"}, {"callDefaultObjQueueMax", "ObjQueueMax"},
			{"callDefaultReadTimeoutMs", "ClientReadTimeout"}, {"callDefaultWriteTimeoutMs", "ClientWriteTimeout"},
			{"callDefaultDialTimeoutMs", "ClientDialTimeout"}, {"callDefaultAsyncInvokeTimeoutMs", "AsyncInvokeTimeout"},
		} {
			v, ok = st.varInit(kv[1])
			add(kv[0], v, ok)
		}
		// TarsInvoke: the deadline wrapping depends on nothing but "the context has no deadline"
		v, ok = sv.withTimeoutUnguarded("ServantProxy.TarsInvoke")
		add("callWithTimeoutUnguarded", v, ok)
		// TarsInvoke: every dispatch path hands doInvoke the context that carries the effective deadline
		if dc, ok := sv.dispatchCtx("ServantProxy.TarsInvoke"); ok {
			for _, k := range []string{"FromParam", "Single", "Middleware", "Direct", "Pre", "Post"} {
				add("callCtxSite"+k, dc[k], true)
			}
		}
		em := parse("tars/endpointmanager.go")
		v, ok = em.callArgLit("endpointManager.preInvoke", "atomic.AddInt32", 0, "&e.invokeNum", 1)
		add("callInvokeNumInc", v, ok)
	})
}
