package main

// C14 (hash routing): constants of the consistent-hash ring and of the routing decision, and the
// list of Go functions mirrored by Model/ConHash.lean, Model/MD5.lean and Model/HashRoute.lean.

import (
	"go/ast"
	"go/token"
)

func init() {
	mirrored["tars/selector/consistenthash/consistenthash_new.go"] = []string{
		"KetamaHashAlg.Hash", "DefaultHashAlg.Hash", "New", "ConsistentHash.Select", "ConsistentHash.FindInt32",
		"ConsistentHash.Refresh", "ConsistentHash.Add", "ConsistentHash.addLocked", "ConsistentHash.Remove",
		"ConsistentHash.weight", "ConsistentHash.reBuildHashRingLocked", "ConsistentHash.sort",
		"ConsistentHash.setPointLocked", // exists in the repaired variant only (fingerprint MISSING otherwise)
	}
	// the mod-hash selector is mirrored by C13's model as well; listing a function twice is harmless
	mirrored["tars/selector/modhash/modhash.go"] = c14AppendUnique(mirrored["tars/selector/modhash/modhash.go"],
		"ModHash.Select", "ModHash.Refresh", "ModHash.Add", "ModHash.addLocked", "ModHash.Remove", "ModHash.reBuildLocked")
	mirrored["tars/endpointmanager.go"] = c14AppendUnique(mirrored["tars/endpointmanager.go"], "endpointManager.SelectAdapterProxy",
		"endpointManager.updateActiveEp", "endpointManager.addAliveEp", "endpointManager.enableWeight")
	mirrored["tars/util/current/clientcurrent.go"] = c14AppendUnique(mirrored["tars/util/current/clientcurrent.go"],
		"SetClientHash", "GetClientHash", "newClientCurrent", "SetClientTimeout", "GetClientTimeout", "SetServerIPWithContext", "SetServerPortWithContext")
	mirrored["tars/message.go"] = c14AppendUnique(mirrored["tars/message.go"], "Message.SetHash", "Message.HashCode", "Message.HashType", "Message.IsHash")
	mirrored["tars/hash_func.go"] = c14AppendUnique(mirrored["tars/hash_func.go"], "HashString", "Hash", "HashNew", "MagicStringHash")
	mirrored["tars/servant.go"] = c14AppendUnique(mirrored["tars/servant.go"], "ServantProxy.TarsInvoke")

	extras = append(extras, func(add func(string, int64, bool)) {
		sel := parse("tars/selector/selector.go")
		v, ok := sel.varInit("ConHashVirtualNodes")
		add("conHashVirtualNodes", v, ok)
		if hs := sel.iotaConsts("ModHash"); hs != nil {
			add("conHashSelModHash", hs["ModHash"], true)
			add("conHashSelConsistentHash", hs["ConsistentHash"], true)
		}
		msg := parse("tars/message.go")
		if hs := msg.iotaConsts("ModHash"); hs != nil {
			add("conHashMsgModHash", hs["ModHash"], true)
			add("conHashMsgConsistentHash", hs["ConsistentHash"], true)
		}

		ch := parse("tars/selector/consistenthash/consistenthash_new.go")
		v, ok = ch.varInit("KetamaHash")
		add("conHashKetamaHash", v, ok)
		v, ok = ch.varInit("DefaultHash")
		add("conHashDefaultHash", v, ok)
		// weight(): `if weight > 0 { weight /= 4; if weight == 0 { weight = 1 } }`
		v, ok = ch.cmpLit("ConsistentHash.weight", "weight", token.GTR)
		add("conHashWeightPositiveBound", v, ok)
		v, ok = ch.cmpLit("ConsistentHash.weight", "weight", token.EQL)
		add("conHashWeightZeroTest", v, ok)
		if fd := ch.funcDecl("ConsistentHash.weight"); fd != nil {
			foundDiv, foundMin := false, false
			ast.Inspect(fd, func(n ast.Node) bool {
				as, ok := n.(*ast.AssignStmt)
				if !ok || len(as.Lhs) != 1 || len(as.Rhs) != 1 || exprStr(ch.fset, as.Lhs[0]) != "weight" {
					return true
				}
				if as.Tok == token.QUO_ASSIGN && !foundDiv {
					if d, ok := intLit(as.Rhs[0]); ok {
						add("conHashWeightDiv", d, true)
						foundDiv = true
					}
				}
				if as.Tok == token.ASSIGN && !foundMin {
					if d, ok := intLit(as.Rhs[0]); ok {
						add("conHashWeightMin", d, true)
						foundMin = true
					}
				}
				return true
			})
			if !foundDiv {
				anchorLost("consistenthash_new.go: weight(): `weight /= <literal>` not found")
			}
			if !foundMin {
				anchorLost("consistenthash_new.go: weight(): `weight = <literal>` not found")
			}
		}
		// Which variant of the ring is in the tree (DESIGN §3.5)?  repaired = the collision fix
		// (pending/C14-conhash-collision.patch): addLocked goes through setPointLocked, which keeps
		// a point for the endpoint with the smaller hash key, and Remove rebuilds through addLocked.
		repaired := c14HasFunc(ch, "ConsistentHash.setPointLocked") &&
			c14Calls(ch, "ConsistentHash.addLocked", "c.setPointLocked") &&
			c14Calls(ch, "ConsistentHash.Remove", "c.addLocked") &&
			!c14DeletesFrom(ch, "ConsistentHash.Remove", "c.hashRing")
		asFound := !c14HasFunc(ch, "ConsistentHash.setPointLocked") && c14DeletesFrom(ch, "ConsistentHash.Remove", "c.hashRing") &&
			c14Calls(ch, "ConsistentHash.Remove", "c.reBuildHashRingLocked")
		switch {
		case repaired:
			add("conHashRepaired", 1, true)
			// the tie-break the repaired model mirrors: `old.HashKey() < ep.HashKey()`
			if !c14HasBinary(ch, "ConsistentHash.setPointLocked", "old.HashKey()", token.LSS, "ep.HashKey()") {
				anchorLost("consistenthash_new.go: setPointLocked: tie-break `old.HashKey() < ep.HashKey()` not found")
			}
		case asFound:
			add("conHashRepaired", 0, true)
		default:
			anchorLost("consistenthash_new.go: neither the as-found nor the repaired shape of addLocked/Remove recognised")
		}
		// endpointManager.updateActiveEp decides the weight type in force from the NEW endpoint list
		// alone: `e.weightType = endpoint.ELoop` unconditionally, then `if sameType { e.weightType = … }`
		// (Lean: HashRoute.updateWeightType / effectiveWeightType, theorem C14_weight_type_pure).
		em := parse("tars/endpointmanager.go")
		epf := parse("tars/util/endpoint/endpoint.go")
		if cs := epf.iotaConsts("ELoop"); cs != nil {
			add("conHashWtELoop", cs["ELoop"], true)
			add("conHashWtEStaticWeight", cs["EStaticWeight"], true)
		}
		if c14HasFunc(em, "endpointManager.updateActiveEp") {
			fd := em.funcDecl("endpointManager.updateActiveEp")
			reset, test, elseResets := -1, -1, false
			for i, st := range fd.Body.List { // top-level statements only: not nested in any branch or loop
				if as, ok := st.(*ast.AssignStmt); ok && as.Tok == token.ASSIGN && len(as.Lhs) == 1 && len(as.Rhs) == 1 &&
					exprStr(em.fset, as.Lhs[0]) == "e.weightType" && exprStr(em.fset, as.Rhs[0]) == "endpoint.ELoop" && reset < 0 {
					reset = i
				}
				if is, ok := st.(*ast.IfStmt); ok && exprStr(em.fset, is.Cond) == "sameType" && test < 0 {
					test = i
					// the equivalent shape `if sameType { … } else { e.weightType = endpoint.ELoop }`
					if blk, ok := is.Else.(*ast.BlockStmt); ok && len(blk.List) == 1 {
						if as, ok := blk.List[0].(*ast.AssignStmt); ok && len(as.Lhs) == 1 && len(as.Rhs) == 1 &&
							exprStr(em.fset, as.Lhs[0]) == "e.weightType" && exprStr(em.fset, as.Rhs[0]) == "endpoint.ELoop" {
							elseResets = true
						}
					} else if is.Else != nil {
						test = -2
					}
				}
			}
			if (reset >= 0 && test > reset) || (test >= 0 && elseResets) {
				add("conHashWtResetBeforeSameType", 1, true)
			} else {
				anchorLost("endpointmanager.go: updateActiveEp: unconditional `e.weightType = endpoint.ELoop` before `if sameType {…}` not found (the weight type in force must be computed from the new list only)")
			}
		} else {
			anchorLost("endpointmanager.go: updateActiveEp not found")
		}
		// clientcurrent.go: every setter (func Set…) writes only fields of its own: no whole-struct
		// assignment (`*cc = …`), and a field written by more than one setter (a packed flags field)
		// is only ever written with `|=` or `&^=` (Lean: HashRoute.setClient…, theorem
		// C14_hash_survives_other_options).
		if cc := parse("tars/util/current/clientcurrent.go"); cc != nil {
			type wr struct {
				fn  string
				tok token.Token
			}
			writes := map[string][]wr{}
			bad := ""
			nSetters := 0
			for _, d := range cc.f.Decls {
				fd, ok := d.(*ast.FuncDecl)
				if !ok || fd.Recv != nil || fd.Body == nil || len(fd.Name.Name) < 3 || fd.Name.Name[:3] != "Set" {
					continue
				}
				nSetters++
				ast.Inspect(fd.Body, func(n ast.Node) bool {
					switch x := n.(type) {
					case *ast.AssignStmt:
						for _, l := range x.Lhs {
							switch lx := l.(type) {
							case *ast.StarExpr:
								bad = fd.Name.Name + " assigns the whole struct (" + exprStr(cc.fset, x) + ")"
							case *ast.SelectorExpr:
								writes[lx.Sel.Name] = append(writes[lx.Sel.Name], wr{fd.Name.Name, x.Tok})
							}
						}
					case *ast.IncDecStmt:
						if lx, ok := x.X.(*ast.SelectorExpr); ok {
							writes[lx.Sel.Name] = append(writes[lx.Sel.Name], wr{fd.Name.Name, x.Tok})
						}
					}
					return true
				})
			}
			for field, ws := range writes {
				fns := map[string]bool{}
				for _, w := range ws {
					fns[w.fn] = true
				}
				if len(fns) > 1 {
					for _, w := range ws {
						if w.tok != token.OR_ASSIGN && w.tok != token.AND_NOT_ASSIGN {
							bad = "field " + field + " is shared by several setters and " + w.fn + " overwrites it with `" + w.tok.String() + "`"
						}
					}
				}
			}
			switch {
			case nSetters < 2:
				anchorLost("clientcurrent.go: setters (func Set…) not found")
			case bad != "":
				anchorLost("clientcurrent.go: a setter does not keep to its own fields: %s", bad)
			default:
				add("conHashCtxSettersDisjoint", 1, true)
				add("conHashCtxSetters", int64(nSetters), true)
			}
		}
		// Ketama: `for k := 0; k < 4; k++` — ring points taken from one MD5 digest, in addLocked and (as found) in Remove
		v, ok = ch.cmpLit("ConsistentHash.addLocked", "k", token.LSS)
		add("conHashPointsPerDigestAdd", v, ok)
		if repaired {
			add("conHashPointsPerDigestRemove", v, ok)
		} else {
			v, ok = ch.cmpLit("ConsistentHash.Remove", "k", token.LSS)
			add("conHashPointsPerDigestRemove", v, ok)
		}
	})
}

// c14HasFunc: like funcDecl, without reporting a lost anchor.
func c14HasFunc(f *file, name string) bool {
	if f == nil {
		return false
	}
	n := len(lost)
	fd := f.funcDecl(name)
	lost = lost[:n]
	return fd != nil
}

// c14Calls: does function fn contain a call whose printed callee is `callee`?
func c14Calls(f *file, fn, callee string) bool {
	if !c14HasFunc(f, fn) {
		return false
	}
	found := false
	ast.Inspect(f.funcDecl(fn), func(n ast.Node) bool {
		if ce, ok := n.(*ast.CallExpr); ok && exprStr(f.fset, ce.Fun) == callee {
			found = true
		}
		return !found
	})
	return found
}

// c14DeletesFrom: does fn contain `delete(<m>, ...)`?
func c14DeletesFrom(f *file, fn, m string) bool {
	if !c14HasFunc(f, fn) {
		return false
	}
	found := false
	ast.Inspect(f.funcDecl(fn), func(n ast.Node) bool {
		if ce, ok := n.(*ast.CallExpr); ok && exprStr(f.fset, ce.Fun) == "delete" && len(ce.Args) == 2 && exprStr(f.fset, ce.Args[0]) == m {
			found = true
		}
		return !found
	})
	return found
}

// c14HasBinary: does fn contain the binary expression `lhs op rhs`?
func c14HasBinary(f *file, fn, lhs string, op token.Token, rhs string) bool {
	if !c14HasFunc(f, fn) {
		return false
	}
	found := false
	ast.Inspect(f.funcDecl(fn), func(n ast.Node) bool {
		if be, ok := n.(*ast.BinaryExpr); ok && be.Op == op && exprStr(f.fset, be.X) == lhs && exprStr(f.fset, be.Y) == rhs {
			found = true
		}
		return !found
	})
	return found
}

func c14AppendUnique(l []string, names ...string) []string {
	for _, n := range names {
		dup := false
		for _, x := range l {
			if x == n {
				dup = true
			}
		}
		if !dup {
			l = append(l, n)
		}
	}
	return l
}
