package main

// Plug-in for the trace-key model (lean/TarsModel/Model/TraceKey.lean, property C05): the shape of
// trace.initType — the '-' is looked up in the whole id, the '.'-separated flags are taken from the
// PREFIX before it (strings.Split(tid[:pos], ".")), flags[0]/flags[1] are used under length guards —
// and the literals the model's theorems are stated over.

import (
	"go/ast"
	"go/token"
	"strings"
)

func init() {
	const rel = "tars/util/trace/trace.go"
	mirrored[rel] = []string{"initType", "getNeedParam", "SpanContext.Init", "NeedTraceParam"}
	extras = append(extras, func(add func(string, int64, bool)) {
		f := parse(rel)
		if f == nil {
			return
		}
		if fd := f.funcDecl("initType"); fd != nil {
			got := strings.Join(append(tupCalls(f, fd, "strings"), tupCalls(f, fd, "strconv")...), "; ")
			want := `Index(tid, "-"); Split(tid[:pos], "."); ParseInt(flags[0], 16, 32); ParseUint(flags[1], 10, 32)`
			if got != want {
				anchorLost("trace.go: initType: library calls are `%s`, the model mirrors `%s` (the '.' must be searched in the prefix before the first '-')", got, want)
			}
			if !f.cmpIdent(fd, "pos", "-1") && !hasCmp(f, fd, "pos", token.NEQ, "-1") {
				anchorLost("trace.go: initType: guard `pos != -1` not found")
			}
			if !hasCmp(f, fd, "len(flags)", token.GEQ, "1") || !hasCmp(f, fd, "len(flags)", token.GEQ, "2") {
				anchorLost("trace.go: initType: length guards `len(flags) >= 1` / `len(flags) >= 2` not found")
			}
		}
		v, ok := f.cmpLit("initType", "typ", token.GTR)
		add("traceTypeMax", v, ok)
		v, ok = f.cmpLit("initType", "typ", token.LSS)
		add("traceTypeMin", v, ok)
		v, ok = f.varInit("traceParamMaxLen")
		add("traceParamMaxLenDefault", v, ok)
	})
}

// hasCmp: is there a binary expression `<lhs> <op> <rhs>` (printed forms) inside fd?
func hasCmp(f *file, fd *ast.FuncDecl, lhs string, op token.Token, rhs string) bool {
	found := false
	ast.Inspect(fd, func(n ast.Node) bool {
		be, ok := n.(*ast.BinaryExpr)
		if ok && be.Op == op && exprStr(f.fset, be.X) == lhs && exprStr(f.fset, be.Y) == rhs {
			found = true
		}
		return true
	})
	return found
}
