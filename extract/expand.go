package main

import (
	"fmt"
	"go/ast"
	"go/parser"
	"go/token"
	"path/filepath"
	"strings"
)

// Fallback reading of a function (see runExtraction): helpers expanded, switches as if-chains.

var expandHelpers bool
var expandedDecls = map[*ast.FuncDecl]bool{}

// pkgFuncs: directory -> function name -> declarations (any receiver) of every non-test file
var pkgFuncs = map[string]map[string][]*ast.FuncDecl{}

func (f *file) funcsOfPkg() map[string][]*ast.FuncDecl {
	dir := filepath.Dir(f.path)
	if t, ok := pkgFuncs[dir]; ok {
		return t
	}
	t := map[string][]*ast.FuncDecl{}
	pkgFuncs[dir] = t
	matches, _ := filepath.Glob(filepath.Join(*repo, dir, "*.go"))
	for _, m := range matches {
		if strings.HasSuffix(m, "_test.go") {
			continue
		}
		var af *ast.File
		if filepath.Base(m) == filepath.Base(f.path) {
			af = f.f
		} else {
			var err error
			af, err = parser.ParseFile(f.fset, m, nil, parser.SkipObjectResolution)
			if err != nil {
				continue
			}
		}
		for _, d := range af.Decls {
			if fd, ok := d.(*ast.FuncDecl); ok && fd.Body != nil {
				t[fd.Name.Name] = append(t[fd.Name.Name], fd)
			}
		}
	}
	return t
}

func calleeNames(n ast.Node) []string {
	var out []string
	seen := map[string]bool{}
	ast.Inspect(n, func(x ast.Node) bool {
		c, ok := x.(*ast.CallExpr)
		if !ok {
			return true
		}
		name := ""
		switch fn := c.Fun.(type) {
		case *ast.Ident:
			name = fn.Name
		case *ast.SelectorExpr:
			name = fn.Sel.Name
		}
		if name != "" && !seen[name] {
			seen[name] = true
			out = append(out, name)
		}
		return true
	})
	return out
}

// expandDecl appends to fd's body the bodies of the same-package functions it calls (two levels) and
// rewrites switch statements as if/else chains. Done once per declaration.
func (f *file) expandDecl(fd *ast.FuncDecl) {
	if fd == nil || fd.Body == nil || expandedDecls[fd] {
		return
	}
	expandedDecls[fd] = true
	if baseFP != nil {
		if ids, ok := baseFP["@ids:"+f.path+":"+declName(fd)]; ok && ids != "" {
			if renameBack(fd, strings.Split(ids, ",")) {
				fmt.Printf("ANCHOR-RENAMED: %s: %s: locals given back their baseline names\n", f.path, declName(fd))
			}
		}
	}
	table := f.funcsOfPkg()
	included := map[*ast.FuncDecl]bool{fd: true}
	frontier := []ast.Node{fd.Body}
	var extra []ast.Stmt
	for depth := 0; depth < 2; depth++ {
		var next []ast.Node
		for _, n := range frontier {
			for _, name := range calleeNames(n) {
				for _, cd := range table[name] {
					if included[cd] || len(table[name]) > 3 {
						continue
					}
					// only helpers that did not exist in the baseline tree are read as part of their
					// caller: that is what an "extract helper" clean-up creates. Functions that were
					// there before keep being read on their own.
					if baseFP != nil && strings.Contains(","+baseFP["@funcs:"+filepath.Dir(f.path)]+",", ","+declName(cd)+",") {
						continue
					}
					included[cd] = true
					extra = append(extra, &ast.BlockStmt{List: cd.Body.List})
					next = append(next, cd.Body)
				}
			}
		}
		frontier = next
	}
	fd.Body.List = append(append([]ast.Stmt{}, fd.Body.List...), extra...)
	fd.Body.List = rewriteStmts(fd.Body.List)
}

func hasBreakOrFallthrough(list []ast.Stmt) bool {
	found := false
	for _, s := range list {
		ast.Inspect(s, func(n ast.Node) bool {
			switch x := n.(type) {
			case *ast.BranchStmt:
				if (x.Tok == token.BREAK && x.Label == nil) || x.Tok == token.FALLTHROUGH {
					found = true
				}
			case *ast.ForStmt, *ast.RangeStmt, *ast.SwitchStmt, *ast.TypeSwitchStmt, *ast.SelectStmt, *ast.FuncLit:
				return false // a break in there does not target our switch
			}
			return !found
		})
	}
	return found
}

func switchToIf(sw *ast.SwitchStmt) ast.Stmt {
	if sw.Init != nil {
		return nil
	}
	type arm struct {
		cond ast.Expr
		body []ast.Stmt
	}
	var arms []arm
	var def []ast.Stmt
	hasDef := false
	for _, c := range sw.Body.List {
		cc := c.(*ast.CaseClause)
		if hasBreakOrFallthrough(cc.Body) {
			return nil
		}
		body := rewriteStmts(cc.Body)
		if cc.List == nil {
			def, hasDef = body, true
			continue
		}
		var cond ast.Expr
		for _, e := range cc.List {
			var one ast.Expr = e
			if sw.Tag != nil {
				one = &ast.BinaryExpr{X: sw.Tag, Op: token.EQL, Y: e}
			}
			if cond == nil {
				cond = one
			} else {
				cond = &ast.BinaryExpr{X: cond, Op: token.LOR, Y: one}
			}
		}
		arms = append(arms, arm{cond, body})
	}
	if len(arms) == 0 {
		return nil
	}
	var root, cur *ast.IfStmt
	for _, a := range arms {
		n := &ast.IfStmt{Cond: a.cond, Body: &ast.BlockStmt{List: a.body}}
		if root == nil {
			root = n
		} else {
			cur.Else = n
		}
		cur = n
	}
	if hasDef {
		cur.Else = &ast.BlockStmt{List: def}
	}
	return root
}

func rewriteBlock(b *ast.BlockStmt) {
	if b != nil {
		b.List = rewriteStmts(b.List)
	}
}

func rewriteStmts(list []ast.Stmt) []ast.Stmt {
	out := make([]ast.Stmt, 0, len(list))
	for _, s := range list {
		switch x := s.(type) {
		case *ast.SwitchStmt:
			if r := switchToIf(x); r != nil {
				out = append(out, r)
				continue
			}
			for _, c := range x.Body.List {
				cc := c.(*ast.CaseClause)
				cc.Body = rewriteStmts(cc.Body)
			}
		case *ast.BlockStmt:
			rewriteBlock(x)
		case *ast.IfStmt:
			for cur := x; cur != nil; {
				rewriteBlock(cur.Body)
				switch e := cur.Else.(type) {
				case *ast.IfStmt:
					cur = e
				case *ast.BlockStmt:
					rewriteBlock(e)
					cur = nil
				default:
					cur = nil
				}
			}
		case *ast.ForStmt:
			rewriteBlock(x.Body)
		case *ast.RangeStmt:
			rewriteBlock(x.Body)
		case *ast.LabeledStmt:
			r := rewriteStmts([]ast.Stmt{x.Stmt})
			if len(r) == 1 {
				x.Stmt = r[0]
			}
		case *ast.SelectStmt:
			for _, c := range x.Body.List {
				cc := c.(*ast.CommClause)
				cc.Body = rewriteStmts(cc.Body)
			}
		}
		out = append(out, s)
	}
	return out
}

func declName(fd *ast.FuncDecl) string {
	r := ""
	if fd.Recv != nil && len(fd.Recv.List) == 1 {
		t := fd.Recv.List[0].Type
		if st, ok := t.(*ast.StarExpr); ok {
			t = st.X
		}
		if id, ok := t.(*ast.Ident); ok {
			r = id.Name + "."
		}
	}
	return r + fd.Name.Name
}

// funcInventory: "@funcs:<dir>" -> sorted, comma-separated names of the functions of every package
// a mirrored file lives in (part of the fingerprint baseline)
func funcInventory() map[string]string {
	out := map[string]string{}
	for rel, f := range cache {
		if f == nil {
			continue
		}
		dir := filepath.Dir(rel)
		if _, ok := out["@funcs:"+dir]; ok {
			continue
		}
		var names []string
		for _, fds := range f.funcsOfPkg() {
			for _, fd := range fds {
				names = append(names, declName(fd))
			}
		}
		sortStrings(names)
		out["@funcs:"+dir] = strings.Join(names, ",")
	}
	return out
}

// ---- renamed locals --------------------------------------------------------------------------------
// bindingNames lists, in source order, every name a function binds: receiver, parameters, named
// results, and each `:=` / var / range / function-literal parameter in its body. A clean-up that only
// renames locals leaves the length of this list and the positions of the bindings unchanged, so the
// i-th name of the changed function corresponds to the i-th name recorded in the baseline.
func bindingNames(fd *ast.FuncDecl) []string {
	var out []string
	addList := func(fl *ast.FieldList) {
		if fl == nil {
			return
		}
		for _, f := range fl.List {
			for _, n := range f.Names {
				out = append(out, n.Name)
			}
		}
	}
	addList(fd.Recv)
	addList(fd.Type.Params)
	addList(fd.Type.Results)
	if fd.Body == nil {
		return out
	}
	ast.Inspect(fd.Body, func(n ast.Node) bool {
		switch x := n.(type) {
		case *ast.AssignStmt:
			if x.Tok == token.DEFINE {
				for _, l := range x.Lhs {
					if id, ok := l.(*ast.Ident); ok {
						out = append(out, id.Name)
					}
				}
			}
		case *ast.ValueSpec:
			for _, id := range x.Names {
				out = append(out, id.Name)
			}
		case *ast.RangeStmt:
			if x.Tok == token.DEFINE {
				for _, e := range []ast.Expr{x.Key, x.Value} {
					if id, ok := e.(*ast.Ident); ok {
						out = append(out, id.Name)
					}
				}
			}
		case *ast.FuncLit:
			addList(x.Type.Params)
			addList(x.Type.Results)
		}
		return true
	})
	return out
}

// renameBack gives the locals of fd the names they had in the baseline, when fd binds the same number
// of names in the same places and the correspondence is one-to-one. Returns whether it renamed.
func renameBack(fd *ast.FuncDecl, base []string) bool {
	cur := bindingNames(fd)
	if len(cur) != len(base) || len(cur) == 0 {
		return false
	}
	fwd := map[string]string{}
	back := map[string]string{}
	changed := false
	for i := range cur {
		c, b := cur[i], base[i]
		if c == "_" || b == "_" {
			if c != b {
				return false
			}
			continue
		}
		if o, ok := fwd[c]; ok && o != b {
			return false
		}
		if o, ok := back[b]; ok && o != c {
			return false
		}
		fwd[c], back[b] = b, c
		if c != b {
			changed = true
		}
	}
	if !changed {
		return false
	}
	skip := map[*ast.Ident]bool{}
	ast.Inspect(fd, func(n ast.Node) bool {
		switch x := n.(type) {
		case *ast.SelectorExpr:
			skip[x.Sel] = true
		case *ast.KeyValueExpr:
			if id, ok := x.Key.(*ast.Ident); ok {
				skip[id] = true
			}
		}
		return true
	})
	ast.Inspect(fd, func(n ast.Node) bool {
		if id, ok := n.(*ast.Ident); ok && !skip[id] {
			if b, ok := fwd[id.Name]; ok {
				id.Name = b
			}
		}
		return true
	})
	return true
}
