package main

// C16 (tars2go front end): the token table the lexer searches (spellings and iota positions of the
// keyword and type tokens) and the fingerprints of the functions mirrored by Model/Idl.lean.

import (
	"go/ast"
	"go/token"
	"strconv"
)

func init() {
	mirrored["tars/tools/tars2go/lexer/lexer.go"] = []string{
		"isNewLine", "isNumber", "isHexNumber", "isLetter", "LexState.incLine", "LexState.readNumber", "LexState.readIdent",
		"LexState.readSharp", "LexState.readString", "LexState.readLongComment", "LexState.next", "LexState.llexDefault",
		"LexState.lLex", "LexState.NextToken", "NewLexState",
	}
	mirrored["tars/tools/tars2go/parse/parse.go"] = []string{
		"Parse.parse", "Parse.parseModule", "Parse.parseModuleSegment", "Parse.parseEnum", "Parse.parseStruct",
		"Parse.parseStructMember", "Parse.parseStructMemberDefault", "Parse.parseType", "Parse.parseInterface",
		"Parse.parseInterfaceFun", "Parse.parseConst", "Parse.parseHashKey", "Parse.parseInclude", "Parse.checkTag",
		"Parse.sortTag", "Parse.makeUnsigned", "Parse.next", "Parse.expect", "Parse.analyzeDepend", "Parse.analyzeDefault",
		"Parse.analyzeTName", "Parse.checkDepTName",
	}
	mirrored["tars/tools/tars2go/ast/ast.go"] = []string{"TarsFile.FindTNameType", "TarsFile.FindEnumName"}
	mirrored["tars/tools/tars2go/gencode/gen_go.go"] = []string{"GenGo.typeDef", "GenGo.genEnum", "GenGo.Gen"}
	mirrored["tars/tools/tars2go/token/token.go"] = []string{"Value", "IsType", "IsNumberType"}

	extras = append(extras, func(add func(string, int64, bool)) {
		f := parse("tars/tools/tars2go/token/token.go")
		if f == nil {
			return
		}
		pos := f.iotaConsts("Eof")
		if pos == nil {
			return
		}
		// spellings from `var tokenMap = [...]string{ Name: "text", ... }`
		spell := map[string]string{}
		for _, d := range f.f.Decls {
			gd, ok := d.(*ast.GenDecl)
			if !ok || gd.Tok != token.VAR {
				continue
			}
			for _, s := range gd.Specs {
				vs := s.(*ast.ValueSpec)
				if len(vs.Names) != 1 || vs.Names[0].Name != "tokenMap" || len(vs.Values) != 1 {
					continue
				}
				cl, ok := vs.Values[0].(*ast.CompositeLit)
				if !ok {
					continue
				}
				for _, e := range cl.Elts {
					kv, ok := e.(*ast.KeyValueExpr)
					if !ok {
						continue
					}
					k, ok1 := kv.Key.(*ast.Ident)
					v, ok2 := kv.Value.(*ast.BasicLit)
					if ok1 && ok2 && v.Kind == token.STRING {
						if s, err := strconv.Unquote(v.Value); err == nil {
							spell[k.Name] = s
						}
					}
				}
			}
		}
		if len(spell) == 0 {
			anchorLost("token.go: tokenMap composite literal not found")
			return
		}
		names := []string{"DummyKeywordBegin", "Module", "Enum", "Struct", "Interface", "Require", "Optional", "Const", "Unsigned",
			"Void", "Out", "Key", "True", "False", "DummyKeywordEnd", "DummyTypeBegin", "TInt", "TBool", "TShort", "TByte", "TLong",
			"TFloat", "TDouble", "TString", "TVector", "TMap", "TArray", "DummyTypeEnd", "Include"}
		for _, n := range names {
			p, ok := pos[n]
			if !ok {
				anchorLost("token.go: token %s missing from the iota block", n)
				continue
			}
			add("idlPos"+n, p, true)
			if len(n) >= 5 && n[:5] == "Dummy" {
				continue
			}
			s, ok := spell[n]
			if !ok || len(s) > 14 {
				anchorLost("token.go: spelling of %s missing from tokenMap (or longer than 14 bytes)", n)
				continue
			}
			// base-256 numerals of the first 7 and the following (up to 7) bytes
			var a, b int64
			for i := 0; i < len(s) && i < 7; i++ {
				a = a*256 + int64(s[i])
			}
			for i := 7; i < len(s); i++ {
				b = b*256 + int64(s[i])
			}
			add("idlSpell"+n+"A", a, true)
			add("idlSpell"+n+"B", b, true)
		}
		// the search ranges of readIdent and IsType must still be the Dummy* brackets
		lx := parse("tars/tools/tars2go/lexer/lexer.go")
		if fd := lx.funcDecl("LexState.readIdent"); fd != nil {
			src := exprStr(lx.fset, fd)
			for _, want := range []string{"token.DummyKeywordBegin + 1", "token.DummyKeywordEnd", "token.DummyTypeBegin + 1", "token.DummyTypeEnd"} {
				if !containsStr(src, want) {
					anchorLost("lexer.go: readIdent no longer searches %s", want)
				}
			}
		}
	})
}

func containsStr(s, sub string) bool {
	for i := 0; i+len(sub) <= len(s); i++ {
		if s[i:i+len(sub)] == sub {
			return true
		}
	}
	return false
}
