package main

import (
	"go/ast"
	"go/token"
	"strings"
)

// C20 (Model/Logger.lean): capacity of rogger's log queue, shape of flushLog, mirrored functions.
func init() {
	const rel = "tars/util/rogger/logger.go"
	mirrored[rel] = append(mirrored[rel], "flushLog", "FlushLogger", "Logger.Writef", "Logger.WriteLog")
	const relW = "tars/util/rogger/logwriter.go"
	mirrored[relW] = append(mirrored[relW], "RollFileWriter.Write", "reOpenFile", "NewRollFileWriter")
	extras = append(extras, rollWriterAnchor)
	mirrored["tars/panic.go"] = append(mirrored["tars/panic.go"], "CheckPanic")
	extras = append(extras, checkPanicAnchor)
	extras = append(extras, func(add func(string, int64, bool)) {
		f := parse(rel)
		if f == nil {
			return
		}
		// logQueue = make(chan *logValue, <cap>)
		found := false
		for _, d := range f.f.Decls {
			gd, ok := d.(*ast.GenDecl)
			if !ok || gd.Tok != token.VAR {
				continue
			}
			for _, s := range gd.Specs {
				vs, ok := s.(*ast.ValueSpec)
				if !ok {
					continue
				}
				for i, n := range vs.Names {
					if n.Name != "logQueue" || i >= len(vs.Values) {
						continue
					}
					call, ok := vs.Values[i].(*ast.CallExpr)
					if !ok || exprStr(f.fset, call.Fun) != "make" || len(call.Args) != 2 {
						continue
					}
					if _, isChan := call.Args[0].(*ast.ChanType); !isChan {
						continue
					}
					if v, ok := intLit(call.Args[1]); ok {
						add("loggerQueueCap", v, true)
						found = true
					}
				}
			}
		}
		if !found {
			anchorLost("%s: `logQueue = make(chan …, <literal>)` not found", rel)
		}
		// flushLog: the number of receives from logQueue and of select statements (the model has one
		// action per receive: 2 as found, 3 with the drain loop)
		if fd := f.funcDecl("flushLog"); fd != nil {
			recvs, selects := 0, 0
			ast.Inspect(fd, func(n ast.Node) bool {
				switch x := n.(type) {
				case *ast.SelectStmt:
					selects++
				case *ast.UnaryExpr:
					if x.Op == token.ARROW && exprStr(f.fset, x.X) == "logQueue" {
						recvs++
					}
				}
				return true
			})
			add("loggerFlushLogRecvs", int64(recvs), true)
			add("loggerFlushLogSelects", int64(selects), true)
		}
	})
}

// rollWriterAnchor (Model/LogWriter.lean): in the rotation branch of RollFileWriter.Write — the code
// that runs when the size limit is reached, written as `if w.currSize >= w.size { … }` or as the rest
// of the function after `if w.currSize < w.size { return }` — <name>.log must be made current again
// after the files have been shifted. Shift: the rename loop, inline or in a helper of the package
// (a function whose body renames). Reopen: a call of reOpenFile (or of anything whose name contains
// "open"), an assignment to w.currFile, a call that is handed &w.currFile, or a helper of the package
// that does one of these. What counts is the order of the two in the branch.
// loggerRollReopenAfterRotate = 1 iff a reopen follows the shift.
func rollWriterAnchor(add func(string, int64, bool)) {
	const rel = "tars/util/rogger/logwriter.go"
	f := parse(rel)
	if f == nil {
		return
	}
	fd := f.funcDecl("RollFileWriter.Write")
	if fd == nil || fd.Body == nil {
		return
	}
	table := f.funcsOfPkg()
	calleeDecls := func(c *ast.CallExpr) []*ast.FuncDecl {
		name := ""
		switch fn := c.Fun.(type) {
		case *ast.Ident:
			name = fn.Name
		case *ast.SelectorExpr:
			name = fn.Sel.Name
		}
		if ds := table[name]; len(ds) > 0 && len(ds) <= 3 {
			return ds
		}
		return nil
	}
	renames := func(n ast.Node) bool {
		r := false
		ast.Inspect(n, func(m ast.Node) bool {
			if c, ok := m.(*ast.CallExpr); ok && strings.Contains(exprStr(f.fset, c.Fun), "Rename") {
				r = true
			}
			return !r
		})
		return r
	}
	opensHere := func(n ast.Node) bool {
		r := false
		ast.Inspect(n, func(m ast.Node) bool {
			switch x := m.(type) {
			case *ast.CallExpr:
				if strings.Contains(strings.ToLower(exprStr(f.fset, x.Fun)), "open") {
					r = true
				}
				for _, a := range x.Args {
					if t := exprStr(f.fset, a); strings.HasPrefix(t, "&") && strings.HasSuffix(t, ".currFile") {
						r = true
					}
				}
			case *ast.AssignStmt:
				for _, l := range x.Lhs {
					if strings.HasSuffix(exprStr(f.fset, l), ".currFile") {
						r = true // also `= nil`: the next Write then reopens <name>.log by name
					}
				}
			}
			return !r
		})
		return r
	}
	// does the statement do `what`, itself or through a helper of the package (one level)?
	does := func(st ast.Node, what func(ast.Node) bool) bool {
		if what(st) {
			return true
		}
		r := false
		ast.Inspect(st, func(m ast.Node) bool {
			if c, ok := m.(*ast.CallExpr); ok {
				for _, d := range calleeDecls(c) {
					if d != fd && d.Body != nil && what(d.Body) {
						r = true
					}
				}
			}
			return !r
		})
		return r
	}
	sizeTest := func(e ast.Expr) (reached, below bool) {
		if p, ok := e.(*ast.ParenExpr); ok {
			e = p.X
		}
		be, ok := e.(*ast.BinaryExpr)
		if !ok {
			return
		}
		x, y := exprStr(f.fset, be.X), exprStr(f.fset, be.Y)
		curL := strings.Contains(x, "currSize") && strings.Contains(y, "size") && !strings.Contains(y, "currSize")
		curR := strings.Contains(y, "currSize") && strings.Contains(x, "size") && !strings.Contains(x, "currSize")
		switch {
		case curL && (be.Op == token.GEQ || be.Op == token.GTR), curR && (be.Op == token.LEQ || be.Op == token.LSS):
			reached = true
		case curL && (be.Op == token.LSS || be.Op == token.LEQ), curR && (be.Op == token.GTR || be.Op == token.GEQ):
			below = true
		}
		return
	}
	endsInReturn := func(b *ast.BlockStmt) bool {
		if b == nil || len(b.List) == 0 {
			return false
		}
		_, ok := b.List[len(b.List)-1].(*ast.ReturnStmt)
		return ok
	}
	var branch []ast.Stmt
	found := false
	for i, st := range fd.Body.List {
		is, ok := st.(*ast.IfStmt)
		if !ok {
			continue
		}
		reached, below := sizeTest(is.Cond)
		if reached {
			branch, found = is.Body.List, true
			break
		}
		if below && endsInReturn(is.Body) {
			if eb, ok := is.Else.(*ast.BlockStmt); ok {
				branch = append(branch, eb.List...)
			}
			branch, found = append(branch, fd.Body.List[i+1:]...), true
			break
		}
		if below && is.Else != nil {
			if eb, ok := is.Else.(*ast.BlockStmt); ok {
				branch, found = eb.List, true
				break
			}
		}
	}
	if !found {
		anchorLost("%s: RollFileWriter.Write: rotation branch (`if w.currSize >= w.size { … }` or the code after `if w.currSize < w.size { return }`) not found", rel)
		return
	}
	shift := -1
	for i, st := range branch {
		if does(st, renames) {
			shift = i
			break
		}
	}
	if shift < 0 {
		anchorLost("%s: RollFileWriter.Write: the rotation branch does not shift the rolled files (no rename, inline or in a helper)", rel)
		return
	}
	reopens := false
	for _, st := range branch[shift+1:] {
		if _, isBlock := st.(*ast.BlockStmt); isBlock {
			continue // a helper body appended by the fallback reading: its position says nothing
		}
		if does(st, opensHere) {
			reopens = true
		}
	}
	v := int64(0)
	if reopens {
		v = 1
	}
	add("loggerRollReopenAfterRotate", v, true)
}

// checkPanicAnchor (Model/PanicExit.lean): the statement order of the code of tars.CheckPanic that
// runs after a non-nil recover, as decimal digits, first statement first: 1 = debug.DumpStack(…),
// 2 = rogger.FlushLogger() as a plain call, 3 = os.Exit(…), 4 = a deferred FlushLogger.
// Both spellings are read: `if r := recover(); r != nil { BODY }` (also with `r := recover()` on
// its own line) and the early return `r := recover(); if r == nil { return }; BODY`.
// Simple statements (expression, assignment, declaration) contribute their calls in source order,
// whatever expression they are nested in; statements that mention none of the events are skipped;
// a flush or an exit under control flow, in a goroutine or in a closure that is not deferred is a
// shape the model does not have.
func checkPanicAnchor(add func(string, int64, bool)) {
	const rel = "tars/panic.go"
	f := parse(rel)
	if f == nil {
		return
	}
	fd := f.funcDecl("CheckPanic")
	if fd == nil || fd.Body == nil {
		return
	}
	// names bound to recover()
	recv := map[string]bool{"recover()": true}
	bind := func(st ast.Stmt) {
		if as, ok := st.(*ast.AssignStmt); ok && len(as.Lhs) == 1 && len(as.Rhs) == 1 && exprStr(f.fset, as.Rhs[0]) == "recover()" {
			recv[exprStr(f.fset, as.Lhs[0])] = true
		}
	}
	// cond is `<recovered> op nil` (either side)
	nilTest := func(e ast.Expr, op token.Token) bool {
		if p, ok := e.(*ast.ParenExpr); ok {
			e = p.X
		}
		be, ok := e.(*ast.BinaryExpr)
		if !ok || be.Op != op {
			return false
		}
		x, y := exprStr(f.fset, be.X), exprStr(f.fset, be.Y)
		return (recv[x] && y == "nil") || (recv[y] && x == "nil")
	}
	endsInReturn := func(b *ast.BlockStmt) bool {
		if b == nil || len(b.List) == 0 {
			return false
		}
		_, ok := b.List[len(b.List)-1].(*ast.ReturnStmt)
		return ok
	}
	var body []ast.Stmt
	found := false
	for i, st := range fd.Body.List {
		bind(st)
		is, ok := st.(*ast.IfStmt)
		if !ok {
			continue
		}
		if is.Init != nil {
			bind(is.Init)
		}
		if nilTest(is.Cond, token.NEQ) {
			body, found = is.Body.List, true
			break
		}
		if nilTest(is.Cond, token.EQL) && endsInReturn(is.Body) {
			if is.Else != nil {
				if eb, ok := is.Else.(*ast.BlockStmt); ok {
					body = append(body, eb.List...)
				}
			}
			body, found = append(body, fd.Body.List[i+1:]...), true
			break
		}
	}
	if !found {
		anchorLost("%s: CheckPanic: neither `if r := recover(); r != nil { … }` nor `r := recover(); if r == nil { return }; …` found", rel)
		return
	}
	kind := func(call *ast.CallExpr) int64 {
		fn := exprStr(f.fset, call.Fun)
		switch {
		case strings.HasSuffix(fn, "DumpStack"):
			return 1
		case strings.HasSuffix(fn, "FlushLogger"):
			return 2
		case fn == "os.Exit" || strings.HasSuffix(fn, ".Exit"):
			return 3
		}
		return 0
	}
	// events of a node in source order; hidden = a flush/exit inside a closure
	events := func(n ast.Node) (evs []int64, hidden bool) {
		depth := 0
		var walk func(ast.Node)
		walk = func(m ast.Node) {
			ast.Inspect(m, func(x ast.Node) bool {
				switch c := x.(type) {
				case *ast.FuncLit:
					depth++
					walk(c.Body)
					depth--
					return false
				case *ast.CallExpr:
					if k := kind(c); k != 0 {
						if depth > 0 && k != 1 {
							hidden = true
						}
						evs = append(evs, k)
					}
				}
				return true
			})
		}
		walk(n)
		return
	}
	var seq int64
	n := 0
	lost := func(st ast.Stmt) {
		anchorLost("%s: CheckPanic: `%s` hides a flush or an exit inside a statement the model does not have", rel, strings.SplitN(exprStr(f.fset, st), "\n", 2)[0])
	}
	for _, st := range body {
		evs, hidden := events(st)
		hasFE := false
		for _, k := range evs {
			if k == 2 || k == 3 {
				hasFE = true
			}
		}
		switch st.(type) {
		case *ast.ExprStmt, *ast.AssignStmt, *ast.DeclStmt:
			if hidden {
				lost(st)
				return
			}
			for _, k := range evs {
				seq = seq*10 + k
				n++
			}
		case *ast.DeferStmt:
			flush, exit := false, false
			for _, k := range evs {
				flush = flush || k == 2
				exit = exit || k == 3
			}
			if exit {
				lost(st)
				return
			}
			if flush {
				seq = seq*10 + 4
				n++
			}
		default:
			if hasFE {
				lost(st)
				return
			}
			for _, k := range evs { // a stack dump under control flow: the dump is not what C20 is about
				seq = seq*10 + k
				n++
			}
		}
	}
	if n == 0 || n > 15 {
		anchorLost("%s: CheckPanic: no DumpStack / FlushLogger / os.Exit statements after the non-nil recover", rel)
		return
	}
	add("panicCheckPanicSeq", seq, true)
}
