package main

import (
	"go/ast"
	"go/token"
)

// C20 (Model/Logger.lean): capacity of rogger's log queue, shape of flushLog, mirrored functions.
func init() {
	const rel = "tars/util/rogger/logger.go"
	mirrored[rel] = append(mirrored[rel], "flushLog", "FlushLogger", "Logger.Writef", "Logger.WriteLog")
	extras = append(extras, func(add func(string, int64, bool)) {
		f := parse(rel)
		if f == nil {
			return
		}
		// logQueue = make(chan *logValue, <cap>)
		found := false
		for _, d := range f.f.Decls {
			gd, ok := d.(*ast.GenDecl)
			if !ok || gd.Tok != token.VAR {
				continue
			}
			for _, s := range gd.Specs {
				vs, ok := s.(*ast.ValueSpec)
				if !ok {
					continue
				}
				for i, n := range vs.Names {
					if n.Name != "logQueue" || i >= len(vs.Values) {
						continue
					}
					call, ok := vs.Values[i].(*ast.CallExpr)
					if !ok || exprStr(f.fset, call.Fun) != "make" || len(call.Args) != 2 {
						continue
					}
					if _, isChan := call.Args[0].(*ast.ChanType); !isChan {
						continue
					}
					if v, ok := intLit(call.Args[1]); ok {
						add("loggerQueueCap", v, true)
						found = true
					}
				}
			}
		}
		if !found {
			anchorLost("%s: `logQueue = make(chan …, <literal>)` not found", rel)
		}
		// flushLog: the number of receives from logQueue and of select statements (the model has one
		// action per receive: 2 as found, 3 with the drain loop)
		if fd := f.funcDecl("flushLog"); fd != nil {
			recvs, selects := 0, 0
			ast.Inspect(fd, func(n ast.Node) bool {
				switch x := n.(type) {
				case *ast.SelectStmt:
					selects++
				case *ast.UnaryExpr:
					if x.Op == token.ARROW && exprStr(f.fset, x.X) == "logQueue" {
						recvs++
					}
				}
				return true
			})
			add("loggerFlushLogRecvs", int64(recvs), true)
			add("loggerFlushLogSelects", int64(selects), true)
		}
	})
}
