package main

// C19 (gpool and the handlers that own a pool).
//
//   poolJobChannelCap, poolWorkerStopCap, poolStopCap
//       capacities of the hand-off channels. The Lean model treats JobChannel, Worker.Stop and
//       Pool.stop as unbuffered (send and receive are one joint action); `C19_model_applicable` is
//       stated over these constants, so a buffered channel breaks the build.
//   poolTcpReleases, poolUdpReleases
//       number of `<x>.Release()` calls in tcpHandler.Handle / udpHandler.Handle
//   poolTcpReleaseAfterDrain, poolUdpReleaseAfterDrain
//       1 iff every such Release is executed only after the handler has waited for its outstanding
//       invocations (`<x>.Wait()` on a WaitGroup, or a loop on numInvoke), in EXECUTION order:
//       plain statements in source order, then the deferred calls in reverse order of their
//       registration (a deferred Release must be registered before the deferred wait to run after
//       it). Releasing earlier drops the handlers still queued in the pool (theorems
//       C19_queued_jobs_never_run / C19_release_loses_exactly_the_queued_jobs);
//       `C19_handlers_release_after_drain_current_tree` requires both constants to be 1.

import (
	"go/ast"
	"sort"
	"strings"
)

// chanCapInLit finds, inside fn, the composite-literal field `<field>: make(chan T[, lit])` and
// returns the literal capacity (0 when make has a single argument).
func (f *file) chanCapInLit(fnName, field string) (int64, bool) {
	fd := f.funcDecl(fnName)
	if fd == nil {
		return 0, false
	}
	var val int64
	found := false
	ast.Inspect(fd, func(n ast.Node) bool {
		kv, ok := n.(*ast.KeyValueExpr)
		if !ok || found {
			return !found
		}
		id, ok := kv.Key.(*ast.Ident)
		if !ok || id.Name != field {
			return true
		}
		call, ok := kv.Value.(*ast.CallExpr)
		if !ok {
			return true
		}
		fn, ok := call.Fun.(*ast.Ident)
		if !ok || fn.Name != "make" || len(call.Args) == 0 {
			return true
		}
		if _, ok := call.Args[0].(*ast.ChanType); !ok {
			return true
		}
		switch len(call.Args) {
		case 1:
			val, found = 0, true
		case 2:
			if v, ok := intLit(call.Args[1]); ok {
				val, found = v, true
			}
		}
		return !found
	})
	if !found {
		anchorLost("%s: %s: `%s: make(chan T[, <literal>])` not found", f.path, fnName, field)
	}
	return val, found
}

type poolEv struct {
	phase, major, minor int
	release             bool
}

// releaseAfterDrain orders the pool releases and the drain waits of a handler's Handle function by
// execution order (see the header) and reports the number of releases and whether each of them is
// preceded by a drain wait.
func (f *file) releaseAfterDrain(fnName string) (releases int64, after int64, ok bool) {
	fd := f.funcDecl(fnName)
	if fd == nil || fd.Body == nil {
		return 0, 0, false
	}
	var evs []poolEv
	seq, defers := 0, 0
	mentions := func(n ast.Node, name string) bool {
		hit := false
		ast.Inspect(n, func(x ast.Node) bool {
			if be, ok := x.(*ast.BinaryExpr); ok && strings.Contains(exprStr(f.fset, be), name) {
				hit = true
			}
			return !hit
		})
		return hit
	}
	var walk func(n ast.Node, phase, major int)
	walk = func(n ast.Node, phase, major int) {
		ast.Inspect(n, func(x ast.Node) bool {
			switch s := x.(type) {
			case *ast.GoStmt:
				return false // another goroutine
			case *ast.FuncLit:
				return false // a closure that is only defined here (the request handler)
			case *ast.DeferStmt:
				if phase == 0 {
					defers++
					if fl, isLit := s.Call.Fun.(*ast.FuncLit); isLit {
						walk(fl.Body, 1, -defers)
					} else {
						walk(s.Call, 1, -defers)
					}
				}
				return false // (defers inside a deferred closure end with that closure: source order is kept)
			case *ast.ForStmt:
				if (s.Cond != nil && strings.Contains(exprStr(f.fset, s.Cond), "numInvoke")) || mentions(s.Body, "numInvoke") {
					seq++
					evs = append(evs, poolEv{phase, major, seq, false})
				}
			case *ast.RangeStmt:
				if mentions(s.Body, "numInvoke") {
					seq++
					evs = append(evs, poolEv{phase, major, seq, false})
				}
			case *ast.CallExpr:
				callee := exprStr(f.fset, s.Fun)
				if len(s.Args) == 0 && strings.HasSuffix(callee, ".Wait") {
					seq++
					evs = append(evs, poolEv{phase, major, seq, false})
				}
				if len(s.Args) == 0 && strings.HasSuffix(callee, ".Release") {
					seq++
					evs = append(evs, poolEv{phase, major, seq, true})
				}
			}
			return true
		})
	}
	walk(fd.Body, 0, 0)
	sort.SliceStable(evs, func(i, j int) bool {
		a, b := evs[i], evs[j]
		if a.phase != b.phase {
			return a.phase < b.phase
		}
		if a.major != b.major {
			return a.major < b.major
		}
		return a.minor < b.minor
	})
	after = 1
	drained := false
	for _, e := range evs {
		if e.release {
			releases++
			if !drained {
				after = 0
			}
		} else {
			drained = true
		}
	}
	return releases, after, true
}

func init() {
	mirrored["tars/util/gpool/gpool.go"] = []string{
		"Worker.Start", "newWorker", "NewPool", "Pool.Start", "Pool.dispatch", "Pool.Release",
	}
	for _, m := range [][2]string{{"tars/transport/tcphandler.go", "tcpHandler.Handle"}, {"tars/transport/udphandler.go", "udpHandler.Handle"}} {
		dup := false
		for _, have := range mirrored[m[0]] {
			dup = dup || have == m[1]
		}
		if !dup {
			mirrored[m[0]] = append(mirrored[m[0]], m[1])
		}
	}
	extras = append(extras, func(add func(string, int64, bool)) {
		gp := parse("tars/util/gpool/gpool.go")
		v, ok := gp.chanCapInLit("newWorker", "JobChannel")
		add("poolJobChannelCap", v, ok)
		v, ok = gp.chanCapInLit("newWorker", "Stop")
		add("poolWorkerStopCap", v, ok)
		v, ok = gp.chanCapInLit("NewPool", "stop")
		add("poolStopCap", v, ok)
		n, a, ok := parse("tars/transport/tcphandler.go").releaseAfterDrain("tcpHandler.Handle")
		add("poolTcpReleases", n, ok)
		add("poolTcpReleaseAfterDrain", a, ok)
		n, a, ok = parse("tars/transport/udphandler.go").releaseAfterDrain("udpHandler.Handle")
		add("poolUdpReleases", n, ok)
		add("poolUdpReleaseAfterDrain", a, ok)
	})
}
