package main

// C19 (gpool): the capacities of the hand-off channels. The Lean model treats JobChannel, Worker.Stop
// and Pool.stop as unbuffered (send and receive are one joint action); the theorem
// `C19_model_applicable` is stated over these constants, so a buffered channel breaks the build.

import (
	"go/ast"
)

// chanCapInLit finds, inside fn, the composite-literal field `<field>: make(chan T[, lit])` and
// returns the literal capacity (0 when make has a single argument).
func (f *file) chanCapInLit(fnName, field string) (int64, bool) {
	fd := f.funcDecl(fnName)
	if fd == nil {
		return 0, false
	}
	var val int64
	found := false
	ast.Inspect(fd, func(n ast.Node) bool {
		kv, ok := n.(*ast.KeyValueExpr)
		if !ok || found {
			return !found
		}
		id, ok := kv.Key.(*ast.Ident)
		if !ok || id.Name != field {
			return true
		}
		call, ok := kv.Value.(*ast.CallExpr)
		if !ok {
			return true
		}
		fn, ok := call.Fun.(*ast.Ident)
		if !ok || fn.Name != "make" || len(call.Args) == 0 {
			return true
		}
		if _, ok := call.Args[0].(*ast.ChanType); !ok {
			return true
		}
		switch len(call.Args) {
		case 1:
			val, found = 0, true
		case 2:
			if v, ok := intLit(call.Args[1]); ok {
				val, found = v, true
			}
		}
		return !found
	})
	if !found {
		anchorLost("%s: %s: `%s: make(chan T[, <literal>])` not found", f.path, fnName, field)
	}
	return val, found
}

func init() {
	mirrored["tars/util/gpool/gpool.go"] = []string{
		"Worker.Start", "newWorker", "NewPool", "Pool.Start", "Pool.dispatch", "Pool.Release",
	}
	extras = append(extras, func(add func(string, int64, bool)) {
		gp := parse("tars/util/gpool/gpool.go")
		v, ok := gp.chanCapInLit("newWorker", "JobChannel")
		add("poolJobChannelCap", v, ok)
		v, ok = gp.chanCapInLit("newWorker", "Stop")
		add("poolWorkerStopCap", v, ok)
		v, ok = gp.chanCapInLit("NewPool", "stop")
		add("poolStopCap", v, ok)
	})
}
