package main

import (
	"go/ast"
	"go/token"
)

// C07 (stream framing): functions mirrored by Model/Frame.lean, and the shape of the two
// comparisons of TarsRequest that carry no literal (their operators are part of what the model
// mirrors: `iHeaderLen > maxPackageLength`, `len(rev) < iHeaderLen`).
func init() {
	mirrored["tars/protocol/tarsprotocol.go"] = append(mirrored["tars/protocol/tarsprotocol.go"],
		"SetMaxPackageLength", "TarsProtocol.ParsePackage")
	mirrored["tars/transport/tcphandler.go"] = append(mirrored["tars/transport/tcphandler.go"], "tcpHandler.recv")
	mirrored["tars/transport/tarsclient.go"] = append(mirrored["tars/transport/tarsclient.go"], "connection.recv")
	mirrored["tars/tarsprotocol.go"] = append(mirrored["tars/tarsprotocol.go"], "Protocol.ParsePackage")
	mirrored["tars/adapter.go"] = append(mirrored["tars/adapter.go"], "AdapterProxy.ParsePackage")

	extras = append(extras, func(add func(string, int64, bool)) {
		proto := parse("tars/protocol/tarsprotocol.go")
		if proto == nil {
			return
		}
		fd := proto.funcDecl("TarsRequest")
		if fd == nil {
			return
		}
		has := func(lhs string, op token.Token, rhs string) bool {
			found := false
			ast.Inspect(fd, func(n ast.Node) bool {
				if be, ok := n.(*ast.BinaryExpr); ok && be.Op == op &&
					exprStr(proto.fset, be.X) == lhs && exprStr(proto.fset, be.Y) == rhs {
					found = true
				}
				return !found
			})
			return found
		}
		if !has("iHeaderLen", token.GTR, "maxPackageLength") {
			anchorLost("tars/protocol/tarsprotocol.go: TarsRequest: comparison `iHeaderLen > maxPackageLength` not found")
		}
		if !has("len(rev)", token.LSS, "iHeaderLen") {
			anchorLost("tars/protocol/tarsprotocol.go: TarsRequest: comparison `len(rev) < iHeaderLen` not found")
		}
		// the reassembly buffer is per connection: in both receive loops the argument of
		// ParsePackage is a plain identifier declared inside that function (`var x []byte`
		// or `x := …`: a fresh variable for every activation of the loop, i.e. for every connection),
		// not a field of a longer-lived object and not a package variable. Model: `reconnect` = Conn.init.
		for _, loc := range [][2]string{{"tars/transport/tcphandler.go", "tcpHandler.recv"},
			{"tars/transport/tarsclient.go", "connection.recv"}} {
			f := parse(loc[0])
			if f == nil {
				continue
			}
			d := f.funcDecl(loc[1])
			if d == nil {
				continue
			}
			localSlices := map[string]bool{}
			var args []ast.Expr
			ast.Inspect(d.Body, func(n ast.Node) bool {
				switch x := n.(type) {
				case *ast.DeclStmt:
					if gd, ok := x.Decl.(*ast.GenDecl); ok && gd.Tok == token.VAR {
						for _, sp := range gd.Specs {
							vs := sp.(*ast.ValueSpec)
							for _, nm := range vs.Names {
								localSlices[nm.Name] = true
							}
						}
					}
				case *ast.AssignStmt:
					if x.Tok == token.DEFINE {
						for _, l := range x.Lhs {
							if id, ok := l.(*ast.Ident); ok {
								localSlices[id.Name] = true
							}
						}
					}
				case *ast.CallExpr:
					if sel, ok := x.Fun.(*ast.SelectorExpr); ok && sel.Sel.Name == "ParsePackage" && len(x.Args) == 1 {
						args = append(args, x.Args[0])
					}
				}
				return true
			})
			if len(args) == 0 {
				anchorLost("%s: %s: call of ParsePackage not found", loc[0], loc[1])
			}
			for _, a := range args {
				id, ok := a.(*ast.Ident)
				if !ok || !localSlices[id.Name] {
					anchorLost("%s: %s: the reassembly buffer `%s` handed to ParsePackage is not a local variable of the receive loop (state that survives the connection?)",
						loc[0], loc[1], exprStr(f.fset, a))
				}
			}
		}
		// size of the read buffer of both receive loops (`make([]byte, 1024*4)`): the harness
		// reports whether its scripted chunks fit one read; no theorem depends on it
		for _, loc := range [][3]string{{"tars/transport/tcphandler.go", "tcpHandler.recv", "frameServerReadBuf"},
			{"tars/transport/tarsclient.go", "connection.recv", "frameClientReadBuf"}} {
			f := parse(loc[0])
			if f == nil {
				continue
			}
			d := f.funcDecl(loc[1])
			if d == nil {
				continue
			}
			found := false
			ast.Inspect(d, func(n ast.Node) bool {
				if found {
					return false
				}
				as, ok := n.(*ast.AssignStmt)
				if !ok || len(as.Lhs) != 1 || len(as.Rhs) != 1 || exprStr(f.fset, as.Lhs[0]) != "buffer" {
					return true
				}
				if call, ok := as.Rhs[0].(*ast.CallExpr); ok && exprStr(f.fset, call.Fun) == "make" && len(call.Args) == 2 {
					if v, ok := intLit(call.Args[1]); ok {
						add(loc[2], v, true)
						found = true
					}
				}
				return true
			})
			if !found {
				anchorLost("%s: %s: `buffer := make([]byte, <literal>)` not found", loc[0], loc[1])
			}
		}
	})
}
