// extract: regenerated layer of the Lean model. Parses /repo with go/ast and emits
//   - Lean constants (Generated/Consts.lean) the theorems are stated over,
//   - fingerprints of the Go functions mirrored by the hand-written model.
// It fails loudly (exit 2, "ANCHOR-LOST: ...") when the syntactic shape it expects is gone.
package main

import (
	"bytes"
	"crypto/sha256"
	"encoding/json"
	"flag"
	"fmt"
	"go/ast"
	"go/constant"
	"go/parser"
	"go/printer"
	"go/token"
	"os"
	"path/filepath"
	"runtime"
	"sort"
	"strconv"
	"strings"
)

var repo = flag.String("repo", "/repo", "repository root")
var outLean = flag.String("lean", "", "output Lean file (Consts)")
var outFP = flag.String("fp", "", "output fingerprints JSON")

var baseFPPath = flag.String("basefp", "", "baseline fingerprints (JSON) of the tree the checks were last validated on")

var lost []string

// plainHash: fingerprint of every function looked up, as written; baseFP: the committed baseline
var plainHash = map[string]string{}

// bindingIDs: "@ids:<file>:<func>" -> names bound by the function, in source order (baseline for renameBack)
var bindingIDs = map[string]string{}
var baseFP map[string]string

// anchorLost records a lost anchor together with its owner: the plug-in file (c08, c12, tup, …) whose
// recogniser reported it, or "core" for the codec/framing recognisers of this file. vcheck breaks the
// tie of a property only for anchors of the plug-ins that feed that property's model.
func anchorLost(f string, a ...interface{}) {
	owner := "core"
	for i := 1; i < 12; i++ {
		_, file, _, ok := runtime.Caller(i)
		if !ok {
			break
		}
		b := strings.TrimSuffix(filepath.Base(file), ".go")
		if b != "main" && b != "expand" && b != "tables" && filepath.Base(filepath.Dir(file)) == "extract" {
			owner = b
		}
	}
	lost = append(lost, "["+owner+"] "+fmt.Sprintf(f, a...))
}

type file struct {
	fset *token.FileSet
	f    *ast.File
	path string
}

var cache = map[string]*file{}

func parse(rel string) *file {
	if f, ok := cache[rel]; ok {
		return f
	}
	fset := token.NewFileSet()
	f, err := parser.ParseFile(fset, filepath.Join(*repo, rel), nil, parser.SkipObjectResolution)
	if err != nil {
		anchorLost("%s: %v", rel, err)
		cache[rel] = nil
		return nil
	}
	cache[rel] = &file{fset, f, rel}
	loadPkgConsts(rel)
	return cache[rel]
}

// funcDecl finds a function or method ("Recv.Name" or "Name").
func (f *file) funcDecl(name string) *ast.FuncDecl {
	if f == nil {
		return nil
	}
	recv, fn := "", name
	if i := strings.Index(name, "."); i >= 0 {
		recv, fn = name[:i], name[i+1:]
	}
	for _, d := range f.f.Decls {
		fd, ok := d.(*ast.FuncDecl)
		if !ok || fd.Name.Name != fn {
			continue
		}
		r := ""
		if fd.Recv != nil && len(fd.Recv.List) == 1 {
			t := fd.Recv.List[0].Type
			if s, ok := t.(*ast.StarExpr); ok {
				t = s.X
			}
			if id, ok := t.(*ast.Ident); ok {
				r = id.Name
			}
		}
		if r == recv {
			key := f.path + ":" + name
			if !expandedDecls[fd] {
				if _, seen := plainHash[key]; !seen || !expandHelpers {
					doc := fd.Doc
					fd.Doc = nil
					h := sha256.Sum256([]byte(exprStr(token.NewFileSet(), fd)))
					fd.Doc = doc
					plainHash[key] = fmt.Sprintf("%x", h[:8])
					bindingIDs["@ids:"+f.path+":"+declName(fd)] = strings.Join(bindingNames(fd), ",")
				}
			}
			// fallback reading only for functions that differ from the baseline the checks were last
			// validated on: unchanged functions are read exactly as before
			if expandHelpers && (baseFP == nil || baseFP[key] != plainHash[key]) {
				f.expandDecl(fd)
			}
			return fd
		}
	}
	// not in this file: a clean-up may have moved it, unchanged, into another file of the same package
	for _, cd := range f.funcsOfPkg()[fn] {
		if declName(cd) == name {
			fmt.Printf("ANCHOR-MOVED: %s: function %s found in another file of the package\n", f.path, name)
			if expandHelpers {
				f.expandDecl(cd)
			}
			return cd
		}
	}
	anchorLost("%s: function %s not found", f.path, name)
	return nil
}

func exprStr(fset *token.FileSet, e ast.Node) string {
	var b bytes.Buffer
	printer.Fprint(&b, fset, e)
	s := b.String()
	if _, isDecl := e.(*ast.FuncDecl); !isDecl && strings.ContainsAny(s, "\n\t") {
		// synthesised nodes (fallback reading) carry no positions and make the printer break lines
		// in odd places: compare expressions and statements modulo white space
		s = strings.Join(strings.Fields(s), " ")
	}
	return s
}

// localDefs maps every local identifier of fd that is defined exactly once (`x := e` or
// `var x = e`) and never assigned again to the printed form of e: a one-level copy propagation, so
// that hoisting `len(data)` into a local does not lose an anchor.
func (f *file) localDefs(fd *ast.FuncDecl) map[string]string {
	defs := map[string]string{}
	count := map[string]int{}
	ast.Inspect(fd, func(n ast.Node) bool {
		switch x := n.(type) {
		case *ast.AssignStmt:
			for i, l := range x.Lhs {
				id, ok := l.(*ast.Ident)
				if !ok {
					continue
				}
				count[id.Name]++
				if x.Tok == token.DEFINE && len(x.Lhs) == len(x.Rhs) {
					defs[id.Name] = exprStr(f.fset, x.Rhs[i])
				}
			}
		case *ast.IncDecStmt:
			if id, ok := x.X.(*ast.Ident); ok {
				count[id.Name] += 2
			}
		case *ast.ValueSpec:
			for i, id := range x.Names {
				count[id.Name]++
				if len(x.Values) == len(x.Names) {
					defs[id.Name] = exprStr(f.fset, x.Values[i])
				}
			}
		case *ast.RangeStmt:
			for _, e := range []ast.Expr{x.Key, x.Value} {
				if id, ok := e.(*ast.Ident); ok {
					count[id.Name] += 2
				}
			}
		}
		return true
	})
	for k := range defs {
		if count[k] != 1 {
			delete(defs, k)
		}
	}
	return defs
}

// normCmp rewrites `x found c` as the equivalent (or exactly complementary) `x want c'`; ok=false
// when the two operators are unrelated. The complementary form is accepted because an if/else with
// swapped branches is the same program; whether the branches still do the same is for the
// correspondence run to say, not for the extractor.
func normCmp(want, found token.Token, c int64) (int64, bool) {
	if want == found {
		return c, true
	}
	type k struct{ w, f token.Token }
	d, ok := map[k]int64{
		{token.GTR, token.GEQ}: -1, {token.GTR, token.LEQ}: 0, {token.GTR, token.LSS}: -1,
		{token.GEQ, token.GTR}: 1, {token.GEQ, token.LSS}: 0, {token.GEQ, token.LEQ}: 1,
		{token.LSS, token.LEQ}: 1, {token.LSS, token.GEQ}: 0, {token.LSS, token.GTR}: 1,
		{token.LEQ, token.LSS}: -1, {token.LEQ, token.GTR}: 0, {token.LEQ, token.GEQ}: -1,
		{token.EQL, token.NEQ}: 0, {token.NEQ, token.EQL}: 0,
	}[k{want, found}]
	return c + d, ok
}

var mirrorOp = map[token.Token]token.Token{token.GTR: token.LSS, token.LSS: token.GTR, token.GEQ: token.LEQ,
	token.LEQ: token.GEQ, token.EQL: token.EQL, token.NEQ: token.NEQ}

// cmpLit finds, inside fn, a comparison of lhs with an integer literal that is `<lhs> <op> <literal>`
// or an equivalent spelling of it (operands flipped, `>= c+1` for `> c`, the complementary test of
// an if/else with swapped branches, lhs hoisted into a local defined once), and returns the literal
// normalised to op. Exact spellings win over equivalent ones; if lhs itself is not found (a renamed
// local) but the function contains exactly one comparison related to op, that one is taken.
func (f *file) cmpLit(fnName, lhs string, op token.Token) (int64, bool) {
	fd := f.funcDecl(fnName)
	if fd == nil {
		return 0, false
	}
	defs := f.localDefs(fd)
	type cand struct {
		val      int64
		lhsMatch bool
		opExact  bool
	}
	var cands []cand
	ast.Inspect(fd, func(n ast.Node) bool {
		be, ok := n.(*ast.BinaryExpr)
		if !ok {
			return true
		}
		x, y, bop := be.X, be.Y, be.Op
		if _, isLit := intLit(x); isLit {
			if m, ok := mirrorOp[bop]; ok {
				x, y, bop = y, x, m
			}
		}
		c, ok := intLit(y)
		if !ok {
			return true
		}
		v, ok := normCmp(op, bop, c)
		if !ok {
			return true
		}
		xs := exprStr(f.fset, x)
		match := xs == lhs
		if id, isID := x.(*ast.Ident); isID && defs[id.Name] == lhs {
			match = true
		}
		cands = append(cands, cand{v, match, bop == op})
		return true
	})
	for _, want := range []func(cand) bool{
		func(c cand) bool { return c.lhsMatch && c.opExact },
		func(c cand) bool { return c.lhsMatch },
	} {
		for _, c := range cands {
			if want(c) {
				return c.val, true
			}
		}
	}
	vals := map[int64]bool{}
	for _, c := range cands {
		vals[c.val] = true
	}
	if len(vals) == 1 {
		fmt.Printf("ANCHOR-FUZZY: %s: %s: `%s %s <literal>` taken from the only related comparison\n", f.path, fnName, lhs, op)
		return cands[0].val, true
	}
	anchorLost("%s: %s: comparison `%s %s <literal>` not found", f.path, fnName, lhs, op)
	return 0, false
}

// timeUnits: the duration constants of package time, in nanoseconds
var timeUnits = map[string]int64{"Nanosecond": 1, "Microsecond": 1e3, "Millisecond": 1e6, "Second": 1e9,
	"Minute": 60e9, "Hour": 3600e9}

// pkgConsts: package-level integer constants (without iota) of every directory a mirrored file
// lives in, by name; a name that has different values in different packages is dropped. Lets a
// literal that a clean-up turned into a named constant still be read as that literal.
var pkgConsts = map[string]int64{}
var pkgConstsBad = map[string]bool{}
var pkgConstDirs = map[string]bool{}

func loadPkgConsts(rel string) {
	dir := filepath.Dir(rel)
	if pkgConstDirs[dir] {
		return
	}
	pkgConstDirs[dir] = true
	matches, _ := filepath.Glob(filepath.Join(*repo, dir, "*.go"))
	type pending struct {
		name string
		e    ast.Expr
	}
	var todo []pending
	for _, m := range matches {
		if strings.HasSuffix(m, "_test.go") {
			continue
		}
		af, err := parser.ParseFile(token.NewFileSet(), m, nil, parser.SkipObjectResolution)
		if err != nil {
			continue
		}
		for _, d := range af.Decls {
			gd, ok := d.(*ast.GenDecl)
			if !ok || gd.Tok != token.CONST {
				continue
			}
			for _, sp := range gd.Specs {
				vs := sp.(*ast.ValueSpec)
				if len(vs.Values) != len(vs.Names) {
					continue
				}
				for i, n := range vs.Names {
					todo = append(todo, pending{n.Name, vs.Values[i]})
				}
			}
		}
	}
	for pass := 0; pass < 3; pass++ {
		for _, t := range todo {
			if v, ok := intLit(t.e); ok {
				if old, seen := pkgConsts[t.name]; seen && old != v {
					pkgConstsBad[t.name] = true
				}
				pkgConsts[t.name] = v
			}
		}
	}
}

func intLit(e ast.Expr) (int64, bool) {
	switch x := e.(type) {
	case *ast.Ident:
		if v, ok := pkgConsts[x.Name]; ok && !pkgConstsBad[x.Name] {
			return v, true
		}
	case *ast.SelectorExpr:
		if id, ok := x.X.(*ast.Ident); ok && id.Name == "time" {
			if v, ok := timeUnits[x.Sel.Name]; ok {
				return v, true
			}
		}
	case *ast.BasicLit:
		if x.Kind == token.INT {
			v, err := strconv.ParseInt(x.Value, 0, 64)
			return v, err == nil
		}
	case *ast.ParenExpr:
		return intLit(x.X)
	case *ast.UnaryExpr:
		if x.Op == token.SUB {
			v, ok := intLit(x.X)
			return -v, ok
		}
	case *ast.BinaryExpr:
		a, ok1 := intLit(x.X)
		b, ok2 := intLit(x.Y)
		if ok1 && ok2 {
			av, bv := constant.MakeInt64(a), constant.MakeInt64(b)
			switch x.Op {
			case token.MUL, token.ADD, token.SUB:
				r := constant.BinaryOp(av, x.Op, bv)
				v, ok := constant.Int64Val(r)
				return v, ok
			case token.SHL:
				r := constant.Shift(av, token.SHL, uint(b))
				v, ok := constant.Int64Val(r)
				return v, ok
			}
		}
	case *ast.CallExpr: // conversions like int32(5), time.Duration(5)
		if len(x.Args) == 1 {
			return intLit(x.Args[0])
		}
	}
	return 0, false
}

// iotaConsts returns the values of an iota const block that contains the identifier first.
func (f *file) iotaConsts(first string) map[string]int64 {
	if f == nil {
		return nil
	}
	for _, d := range f.f.Decls {
		gd, ok := d.(*ast.GenDecl)
		if !ok || gd.Tok != token.CONST {
			continue
		}
		res := map[string]int64{}
		has := false
		for i, s := range gd.Specs {
			vs := s.(*ast.ValueSpec)
			for _, n := range vs.Names {
				res[n.Name] = int64(i)
				if n.Name == first {
					has = true
				}
			}
			if i == 0 {
				// must be `= iota` (possibly typed)
				if len(vs.Values) != 1 || exprStr(f.fset, vs.Values[0]) != "iota" {
					has = false
					break
				}
			} else if len(vs.Values) != 0 {
				has = false
				break
			}
		}
		if has {
			return res
		}
	}
	anchorLost("%s: iota const block starting with %s not found", f.path, first)
	return nil
}

// varInit returns the integer initialiser of a package-level var or const.
func (f *file) varInit(name string) (int64, bool) {
	if f == nil {
		return 0, false
	}
	// this file first, then (a declaration may have been moved) the other files of the package
	files := []*ast.File{f.f}
	matches, _ := filepath.Glob(filepath.Join(*repo, filepath.Dir(f.path), "*.go"))
	for _, m := range matches {
		if strings.HasSuffix(m, "_test.go") || filepath.Base(m) == filepath.Base(f.path) {
			continue
		}
		if af, err := parser.ParseFile(token.NewFileSet(), m, nil, parser.SkipObjectResolution); err == nil {
			files = append(files, af)
		}
	}
	for _, af := range files {
		if v, ok := varInitIn(af, name); ok {
			return v, true
		}
	}
	anchorLost("%s: integer initialiser of %s not found", f.path, name)
	return 0, false
}

func varInitIn(af *ast.File, name string) (int64, bool) {
	for _, d := range af.Decls {
		gd, ok := d.(*ast.GenDecl)
		if !ok {
			continue
		}
		for _, s := range gd.Specs {
			vs, ok := s.(*ast.ValueSpec)
			if !ok {
				continue
			}
			for i, n := range vs.Names {
				if n.Name == name && i < len(vs.Values) {
					if v, ok := intLit(vs.Values[i]); ok {
						return v, true
					}
				}
			}
		}
	}
	return 0, false
}

type kv struct {
	k string
	v int64
}

// extractAll runs every recogniser (core + plug-ins) against the parsed repository.
func extractAll(add func(k string, v int64, ok bool)) {
	// ---- codec.go ----
	codec := parse("tars/protocol/codec/codec.go")
	tys := codec.iotaConsts("BYTE")
	for _, n := range []string{"BYTE", "SHORT", "INT", "LONG", "FLOAT", "DOUBLE", "STRING1", "STRING4", "MAP", "LIST", "StructBegin", "StructEnd", "ZeroTag", "SimpleList"} {
		v, ok := tys[n]
		if !ok && tys != nil {
			anchorLost("codec.go: wire type %s missing", n)
		}
		add("ty"+n, v, ok)
	}
	v, ok := codec.cmpLit("Buffer.WriteHead", "tag", token.LSS)
	add("extTagThreshold", v, ok)
	v, ok = codec.cmpLit("Reader.readHead", "tag", token.EQL)
	add("extTagRead", v, ok)
	v, ok = codec.cmpLit("Reader.unreadHead", "curTag", token.GEQ)
	add("extTagUnread", v, ok)
	v, ok = codec.cmpLit("Buffer.WriteString", "len(data)", token.GTR)
	add("str1Max", v, ok)
	v, ok = codec.varInit("skipPending")
	add("skipPendingMarker", v, ok)
	// the marker written for extended tags: `(15 << 4) | ty`
	if fd := codec.funcDecl("Buffer.WriteHead"); fd != nil {
		found := false
		ast.Inspect(fd, func(n ast.Node) bool {
			be, ok := n.(*ast.BinaryExpr)
			if ok && be.Op == token.OR && exprStr(codec.fset, be.Y) == "ty" {
				if p, ok := be.X.(*ast.ParenExpr); ok {
					if sh, ok := p.X.(*ast.BinaryExpr); ok && sh.Op == token.SHL {
						if a, ok1 := intLit(sh.X); ok1 {
							if b, ok2 := intLit(sh.Y); ok2 && b == 4 {
								add("extTagMarker", a, true)
								found = true
							}
						}
					}
				}
			}
			return true
		})
		if !found {
			anchorLost("codec.go: WriteHead: `(<lit> << 4) | ty` not found")
		}
	}

	// ---- framing ----
	proto := parse("tars/protocol/tarsprotocol.go")
	v, ok = proto.varInit("maxPackageLength")
	add("maxPackageLengthDefault", v, ok)
	v, ok = proto.cmpLit("TarsRequest", "iHeaderLen", token.LSS)
	add("minHeaderLen", v, ok)
	v, ok = proto.cmpLit("TarsRequest", "len(rev)", token.LSS)
	add("headerBytes", v, ok)
	pc := parse("tars/protocol/protoconst.go")
	if pcs := pc.iotaConsts("PackageLess"); pcs != nil {
		for _, n := range []string{"PackageLess", "PackageFull", "PackageError"} {
			add("proto"+n, pcs[n], true)
		}
	}
	tc := parse("tars/transport/common.go")
	if pcs := tc.iotaConsts("PackageLess"); pcs != nil {
		for _, n := range []string{"PackageLess", "PackageFull", "PackageError"} {
			add("transport"+n, pcs[n], true)
		}
	}

	for _, e := range extras {
		e(add)
	}
}

// runExtraction: one pass over the repository. With expand=false functions are read as written. With
// expand=true (fallback, only used when the plain pass lost an anchor) every looked-up function is
// read together with the bodies of the same-package functions it calls (two levels) and with its
// switch statements rewritten as if/else chains, so that "extract helper" and "if-chain to switch"
// clean-ups do not lose anchors.
func runExtraction(expand bool) ([]kv, []string) {
	cache = map[string]*file{}
	lost = nil
	expandHelpers = expand
	expandedDecls = map[*ast.FuncDecl]bool{}
	pkgFuncs = map[string]map[string][]*ast.FuncDecl{}
	var consts []kv
	add := func(k string, v int64, ok bool) {
		if ok {
			consts = append(consts, kv{k, v})
		}
	}
	extractAll(add)
	return consts, lost
}

func sortStrings(a []string) { sort.Strings(a) }

func lostKey(msg string) string {
	parts := strings.SplitN(msg, ": ", 3)
	if len(parts) < 3 {
		return msg
	}
	return parts[0] + ": " + parts[1]
}

func main() {
	flag.Parse()
	if *baseFPPath != "" {
		if b, err := os.ReadFile(*baseFPPath); err == nil {
			m := map[string]string{}
			if json.Unmarshal(b, &m) == nil {
				baseFP = m
			}
		}
	}
	consts, lost1 := runExtraction(false)
	lost = lost1
	if len(lost1) > 0 {
		consts2, lost2 := runExtraction(true)
		have := map[string]int{}
		for i, c := range consts {
			have[c.k] = i
		}
		for _, c := range consts2 {
			if i, ok := have[c.k]; !ok {
				have[c.k] = len(consts)
				consts = append(consts, c)
			} else if consts[i].v != c.v {
				fmt.Printf("ANCHOR-REREAD: %s: %d as written, %d with the changed functions read together with their helpers\n", c.k, consts[i].v, c.v)
				consts[i].v = c.v
			}
		}
		keys1 := map[string]bool{}
		for _, l := range lost1 {
			keys1[lostKey(l)] = true
		}
		keys2 := map[string]bool{}
		lost = nil
		for _, l := range lost2 {
			keys2[lostKey(l)] = true
			if keys1[lostKey(l)] {
				lost = append(lost, l)
			}
		}
		for _, l := range lost1 {
			if !keys2[lostKey(l)] {
				fmt.Println("ANCHOR-RECOVERED (helpers expanded / switch as if-chain):", l)
			}
		}
		// leave the parse cache in its plain state for the fingerprints
		cache = map[string]*file{}
		expandHelpers = false
	}

	lostFinal := lost
	for _, l := range lostFinal {
		fmt.Println("ANCHOR-LOST:", l)
	}

	var b strings.Builder
	b.WriteString("/- GENERATED by /verif/extract from /repo — do not edit. -/\nnamespace Tars.Consts\n")
	for _, c := range consts {
		if c.v < 0 {
			fmt.Fprintf(&b, "abbrev %s : Int := %d\n", c.k, c.v)
		} else {
			fmt.Fprintf(&b, "abbrev %s : Nat := %d\n", c.k, c.v)
		}
	}
	b.WriteString("end Tars.Consts\n")
	if *outLean != "" {
		old, _ := os.ReadFile(*outLean)
		if string(old) != b.String() {
			if err := os.WriteFile(*outLean, []byte(b.String()), 0o644); err != nil {
				fmt.Println("write:", err)
				os.Exit(3)
			}
			fmt.Println("CONSTS-CHANGED")
		}
	} else {
		fmt.Print(b.String())
	}

	// ---- fingerprints ----
	fps := map[string]string{}
	for rel, names := range mirrored {
		f := parse(rel)
		if f == nil {
			continue
		}
		for _, n := range names {
			fd := f.funcDecl(n)
			if fd == nil {
				fps[rel+":"+n] = "MISSING"
				continue
			}
			fd.Doc = nil
			h := sha256.Sum256([]byte(exprStr(token.NewFileSet(), fd)))
			fps[rel+":"+n] = fmt.Sprintf("%x", h[:8])
		}
	}
	lost = nil // missing mirrored functions are reported through the fingerprint, not as lost anchors
	for k, v := range plainHash {
		if _, ok := fps[k]; !ok {
			fps[k] = v
		}
	}
	for k, v := range funcInventory() {
		fps[k] = v
	}
	for k, v := range bindingIDs {
		fps[k] = v
	}
	if *outFP != "" {
		keys := make([]string, 0, len(fps))
		for k := range fps {
			keys = append(keys, k)
		}
		sort.Strings(keys)
		ordered := make([][2]string, 0, len(keys))
		for _, k := range keys {
			ordered = append(ordered, [2]string{k, fps[k]})
		}
		j, _ := json.MarshalIndent(fps, "", " ")
		os.WriteFile(*outFP, append(j, '\n'), 0o644)
	}
	if len(lostFinal) > 0 {
		os.Exit(2)
	}
}
