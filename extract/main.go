// extract: regenerated layer of the Lean model. Parses /repo with go/ast and emits
//   - Lean constants (Generated/Consts.lean) the theorems are stated over,
//   - fingerprints of the Go functions mirrored by the hand-written model.
// It fails loudly (exit 2, "ANCHOR-LOST: ...") when the syntactic shape it expects is gone.
package main

import (
	"bytes"
	"crypto/sha256"
	"encoding/json"
	"flag"
	"fmt"
	"go/ast"
	"go/constant"
	"go/parser"
	"go/printer"
	"go/token"
	"os"
	"path/filepath"
	"sort"
	"strconv"
	"strings"
)

var repo = flag.String("repo", "/repo", "repository root")
var outLean = flag.String("lean", "", "output Lean file (Consts)")
var outFP = flag.String("fp", "", "output fingerprints JSON")

var lost []string

func anchorLost(f string, a ...interface{}) { lost = append(lost, fmt.Sprintf(f, a...)) }

type file struct {
	fset *token.FileSet
	f    *ast.File
	path string
}

var cache = map[string]*file{}

func parse(rel string) *file {
	if f, ok := cache[rel]; ok {
		return f
	}
	fset := token.NewFileSet()
	f, err := parser.ParseFile(fset, filepath.Join(*repo, rel), nil, parser.SkipObjectResolution)
	if err != nil {
		anchorLost("%s: %v", rel, err)
		cache[rel] = nil
		return nil
	}
	cache[rel] = &file{fset, f, rel}
	return cache[rel]
}

// funcDecl finds a function or method ("Recv.Name" or "Name").
func (f *file) funcDecl(name string) *ast.FuncDecl {
	if f == nil {
		return nil
	}
	recv, fn := "", name
	if i := strings.Index(name, "."); i >= 0 {
		recv, fn = name[:i], name[i+1:]
	}
	for _, d := range f.f.Decls {
		fd, ok := d.(*ast.FuncDecl)
		if !ok || fd.Name.Name != fn {
			continue
		}
		r := ""
		if fd.Recv != nil && len(fd.Recv.List) == 1 {
			t := fd.Recv.List[0].Type
			if s, ok := t.(*ast.StarExpr); ok {
				t = s.X
			}
			if id, ok := t.(*ast.Ident); ok {
				r = id.Name
			}
		}
		if r == recv {
			return fd
		}
	}
	anchorLost("%s: function %s not found", f.path, name)
	return nil
}

func exprStr(fset *token.FileSet, e ast.Node) string {
	var b bytes.Buffer
	printer.Fprint(&b, fset, e)
	return b.String()
}

// cmpLit finds, inside fn, the first binary expression `<lhs> <op> <int literal>` whose printed
// left operand equals lhs and whose operator is op; returns the literal.
func (f *file) cmpLit(fnName, lhs string, op token.Token) (int64, bool) {
	fd := f.funcDecl(fnName)
	if fd == nil {
		return 0, false
	}
	var val int64
	found := false
	ast.Inspect(fd, func(n ast.Node) bool {
		if found {
			return false
		}
		be, ok := n.(*ast.BinaryExpr)
		if !ok || be.Op != op {
			return true
		}
		if exprStr(f.fset, be.X) != lhs {
			return true
		}
		if v, ok := intLit(be.Y); ok {
			val, found = v, true
			return false
		}
		return true
	})
	if !found {
		anchorLost("%s: %s: comparison `%s %s <literal>` not found", f.path, fnName, lhs, op)
	}
	return val, found
}

func intLit(e ast.Expr) (int64, bool) {
	switch x := e.(type) {
	case *ast.BasicLit:
		if x.Kind == token.INT {
			v, err := strconv.ParseInt(x.Value, 0, 64)
			return v, err == nil
		}
	case *ast.ParenExpr:
		return intLit(x.X)
	case *ast.UnaryExpr:
		if x.Op == token.SUB {
			v, ok := intLit(x.X)
			return -v, ok
		}
	case *ast.BinaryExpr:
		a, ok1 := intLit(x.X)
		b, ok2 := intLit(x.Y)
		if ok1 && ok2 {
			av, bv := constant.MakeInt64(a), constant.MakeInt64(b)
			switch x.Op {
			case token.MUL, token.ADD, token.SUB:
				r := constant.BinaryOp(av, x.Op, bv)
				v, ok := constant.Int64Val(r)
				return v, ok
			case token.SHL:
				r := constant.Shift(av, token.SHL, uint(b))
				v, ok := constant.Int64Val(r)
				return v, ok
			}
		}
	case *ast.CallExpr: // conversions like int32(5), time.Duration(5)
		if len(x.Args) == 1 {
			return intLit(x.Args[0])
		}
	}
	return 0, false
}

// iotaConsts returns the values of an iota const block that contains the identifier first.
func (f *file) iotaConsts(first string) map[string]int64 {
	if f == nil {
		return nil
	}
	for _, d := range f.f.Decls {
		gd, ok := d.(*ast.GenDecl)
		if !ok || gd.Tok != token.CONST {
			continue
		}
		res := map[string]int64{}
		has := false
		for i, s := range gd.Specs {
			vs := s.(*ast.ValueSpec)
			for _, n := range vs.Names {
				res[n.Name] = int64(i)
				if n.Name == first {
					has = true
				}
			}
			if i == 0 {
				// must be `= iota` (possibly typed)
				if len(vs.Values) != 1 || exprStr(f.fset, vs.Values[0]) != "iota" {
					has = false
					break
				}
			} else if len(vs.Values) != 0 {
				has = false
				break
			}
		}
		if has {
			return res
		}
	}
	anchorLost("%s: iota const block starting with %s not found", f.path, first)
	return nil
}

// varInit returns the integer initialiser of a package-level var or const.
func (f *file) varInit(name string) (int64, bool) {
	if f == nil {
		return 0, false
	}
	for _, d := range f.f.Decls {
		gd, ok := d.(*ast.GenDecl)
		if !ok {
			continue
		}
		for _, s := range gd.Specs {
			vs, ok := s.(*ast.ValueSpec)
			if !ok {
				continue
			}
			for i, n := range vs.Names {
				if n.Name == name && i < len(vs.Values) {
					if v, ok := intLit(vs.Values[i]); ok {
						return v, true
					}
				}
			}
		}
	}
	anchorLost("%s: integer initialiser of %s not found", f.path, name)
	return 0, false
}

type kv struct {
	k string
	v int64
}

func main() {
	flag.Parse()
	var consts []kv
	add := func(k string, v int64, ok bool) {
		if ok {
			consts = append(consts, kv{k, v})
		}
	}

	// ---- codec.go ----
	codec := parse("tars/protocol/codec/codec.go")
	tys := codec.iotaConsts("BYTE")
	for _, n := range []string{"BYTE", "SHORT", "INT", "LONG", "FLOAT", "DOUBLE", "STRING1", "STRING4", "MAP", "LIST", "StructBegin", "StructEnd", "ZeroTag", "SimpleList"} {
		v, ok := tys[n]
		if !ok && tys != nil {
			anchorLost("codec.go: wire type %s missing", n)
		}
		add("ty"+n, v, ok)
	}
	v, ok := codec.cmpLit("Buffer.WriteHead", "tag", token.LSS)
	add("extTagThreshold", v, ok)
	v, ok = codec.cmpLit("Reader.readHead", "tag", token.EQL)
	add("extTagRead", v, ok)
	v, ok = codec.cmpLit("Reader.unreadHead", "curTag", token.GEQ)
	add("extTagUnread", v, ok)
	v, ok = codec.cmpLit("Buffer.WriteString", "len(data)", token.GTR)
	add("str1Max", v, ok)
	v, ok = codec.varInit("skipPending")
	add("skipPendingMarker", v, ok)
	// the marker written for extended tags: `(15 << 4) | ty`
	if fd := codec.funcDecl("Buffer.WriteHead"); fd != nil {
		found := false
		ast.Inspect(fd, func(n ast.Node) bool {
			be, ok := n.(*ast.BinaryExpr)
			if ok && be.Op == token.OR && exprStr(codec.fset, be.Y) == "ty" {
				if p, ok := be.X.(*ast.ParenExpr); ok {
					if sh, ok := p.X.(*ast.BinaryExpr); ok && sh.Op == token.SHL {
						if a, ok1 := intLit(sh.X); ok1 {
							if b, ok2 := intLit(sh.Y); ok2 && b == 4 {
								add("extTagMarker", a, true)
								found = true
							}
						}
					}
				}
			}
			return true
		})
		if !found {
			anchorLost("codec.go: WriteHead: `(<lit> << 4) | ty` not found")
		}
	}

	// ---- framing ----
	proto := parse("tars/protocol/tarsprotocol.go")
	v, ok = proto.varInit("maxPackageLength")
	add("maxPackageLengthDefault", v, ok)
	v, ok = proto.cmpLit("TarsRequest", "iHeaderLen", token.LSS)
	add("minHeaderLen", v, ok)
	v, ok = proto.cmpLit("TarsRequest", "len(rev)", token.LSS)
	add("headerBytes", v, ok)
	pc := parse("tars/protocol/protoconst.go")
	if pcs := pc.iotaConsts("PackageLess"); pcs != nil {
		for _, n := range []string{"PackageLess", "PackageFull", "PackageError"} {
			add("proto"+n, pcs[n], true)
		}
	}
	tc := parse("tars/transport/common.go")
	if pcs := tc.iotaConsts("PackageLess"); pcs != nil {
		for _, n := range []string{"PackageLess", "PackageFull", "PackageError"} {
			add("transport"+n, pcs[n], true)
		}
	}

	for _, e := range extras {
		e(add)
	}

	if len(lost) > 0 {
		for _, l := range lost {
			fmt.Println("ANCHOR-LOST:", l)
		}
		os.Exit(2)
	}

	var b strings.Builder
	b.WriteString("/- GENERATED by /verif/extract from /repo — do not edit. -/\nnamespace Tars.Consts\n")
	for _, c := range consts {
		if c.v < 0 {
			fmt.Fprintf(&b, "abbrev %s : Int := %d\n", c.k, c.v)
		} else {
			fmt.Fprintf(&b, "abbrev %s : Nat := %d\n", c.k, c.v)
		}
	}
	b.WriteString("end Tars.Consts\n")
	if *outLean != "" {
		old, _ := os.ReadFile(*outLean)
		if string(old) != b.String() {
			if err := os.WriteFile(*outLean, []byte(b.String()), 0o644); err != nil {
				fmt.Println("write:", err)
				os.Exit(3)
			}
			fmt.Println("CONSTS-CHANGED")
		}
	} else {
		fmt.Print(b.String())
	}

	// ---- fingerprints ----
	fps := map[string]string{}
	for rel, names := range mirrored {
		f := parse(rel)
		if f == nil {
			continue
		}
		for _, n := range names {
			fd := f.funcDecl(n)
			if fd == nil {
				fps[rel+":"+n] = "MISSING"
				continue
			}
			fd.Doc = nil
			h := sha256.Sum256([]byte(exprStr(token.NewFileSet(), fd)))
			fps[rel+":"+n] = fmt.Sprintf("%x", h[:8])
		}
	}
	lost = nil // missing mirrored functions are reported through the fingerprint, not as lost anchors
	if *outFP != "" {
		keys := make([]string, 0, len(fps))
		for k := range fps {
			keys = append(keys, k)
		}
		sort.Strings(keys)
		ordered := make([][2]string, 0, len(keys))
		for _, k := range keys {
			ordered = append(ordered, [2]string{k, fps[k]})
		}
		j, _ := json.MarshalIndent(fps, "", " ")
		os.WriteFile(*outFP, append(j, '\n'), 0o644)
	}
}
