package main

import (
	"go/ast"
	"go/token"
	"sort"
	"strings"
)

// C11 (Model/ClientConn.lean): capacities of the client's channels, the sender's poll period, the
// shape of connection.close / connection.send that decides which Variant the tree is, mirrored
// functions.
func init() {
	const rel = "tars/transport/tarsclient.go"
	mirrored[rel] = append(mirrored[rel], "NewTarsClient", "TarsClient.Send", "TarsClient.ReConnect",
		"connection.ReConnect", "connection.send", "connection.recv", "connection.close")
	extras = append(extras, func(add func(string, int64, bool)) {
		f := parse(rel)
		if f == nil {
			return
		}
		// make(chan T, <lit>) capacity of the expression e, if it is such a call
		chanCap := func(e ast.Expr) (int64, bool) {
			call, ok := e.(*ast.CallExpr)
			if !ok || exprStr(f.fset, call.Fun) != "make" || len(call.Args) != 2 {
				return 0, false
			}
			if _, isChan := call.Args[0].(*ast.ChanType); !isChan {
				return 0, false
			}
			return intLit(call.Args[1])
		}
		if fd := f.funcDecl("NewTarsClient"); fd != nil {
			failCap, initClosed, qlen := false, false, false
			ast.Inspect(fd, func(n ast.Node) bool {
				switch x := n.(type) {
				case *ast.KeyValueExpr:
					k := exprStr(f.fset, x.Key)
					if k == "sendFailQueue" {
						if v, ok := chanCap(x.Value); ok {
							add("clientSendFailQueueCap", v, true)
							failCap = true
						}
					}
					if k == "isClosed" && exprStr(f.fset, x.Value) == "true" {
						add("clientInitiallyClosed", 1, true)
						initClosed = true
					}
				case *ast.AssignStmt:
					if len(x.Lhs) == 1 && len(x.Rhs) == 1 && exprStr(f.fset, x.Lhs[0]) == "config.QueueLen" {
						if v, ok := intLit(x.Rhs[0]); ok {
							add("clientDefaultQueueLen", v, true)
							qlen = true
						}
					}
				}
				return true
			})
			if !failCap {
				anchorLost("%s: NewTarsClient: `sendFailQueue: make(chan sendMsg, <literal>)` not found", rel)
			}
			if !initClosed {
				anchorLost("%s: NewTarsClient: `isClosed: true` not found", rel)
			}
			if !qlen {
				anchorLost("%s: NewTarsClient: `config.QueueLen = <literal>` not found", rel)
			}
		}
		if fd := f.funcDecl("connection.ReConnect"); fd != nil {
			found := false
			ast.Inspect(fd, func(n ast.Node) bool {
				if as, ok := n.(*ast.AssignStmt); ok && len(as.Lhs) == 1 && len(as.Rhs) == 1 &&
					exprStr(f.fset, as.Lhs[0]) == "connDone" {
					if v, ok := chanCap(as.Rhs[0]); ok {
						add("clientConnDoneCap", v, true)
						found = true
					}
				}
				return true
			})
			if !found {
				anchorLost("%s: ReConnect: `connDone := make(chan bool, <literal>)` not found", rel)
			}
		}
		// ReConnect tests the flag, dials and installs the new connection while holding connLock (two
		// callers that both find the client closed must not both dial), and closes no socket itself
		if fd := f.funcDecl("connection.ReConnect"); fd != nil {
			type ev struct {
				pos  token.Pos
				kind int // +1 Lock, -1 explicit Unlock, 0 dial
			}
			var evs []ev
			deferred := map[ast.Node]bool{}
			closes := 0
			ast.Inspect(fd.Body, func(n ast.Node) bool {
				switch x := n.(type) {
				case *ast.DeferStmt:
					deferred[x.Call] = true
				case *ast.CallExpr:
					fn := exprStr(f.fset, x.Fun)
					switch {
					case strings.HasSuffix(fn, "connLock.Lock"):
						evs = append(evs, ev{x.Pos(), +1})
					case strings.HasSuffix(fn, "connLock.Unlock"):
						if !deferred[x] {
							evs = append(evs, ev{x.Pos(), -1})
						}
					case strings.Contains(fn, "Dial"):
						evs = append(evs, ev{x.Pos(), 0})
					case strings.HasSuffix(fn, ".Close"):
						closes++
					}
				}
				return true
			})
			sort.Slice(evs, func(i, j int) bool { return evs[i].pos < evs[j].pos })
			held, dials, under := 0, 0, int64(1)
			for _, e := range evs {
				switch e.kind {
				case 0:
					dials++
					if held <= 0 {
						under = 0
					}
				default:
					held += e.kind
				}
			}
			if dials == 0 {
				anchorLost("%s: ReConnect: no Dial call found", rel)
			}
			add("clientReConnectDialUnderLock", under, true)
			add("clientReConnectSocketCloses", int64(closes), true)
		}
		if fd := f.funcDecl("connection.close"); fd != nil {
			sets, guarded := 0, 0
			var walk func(n ast.Node, underCurGuard bool)
			walk = func(n ast.Node, under bool) {
				ast.Inspect(n, func(m ast.Node) bool {
					switch x := m.(type) {
					case *ast.IfStmt:
						cond := exprStr(f.fset, x.Cond)
						g := under || strings.Contains(cond, "c.conn")
						walk(x.Body, g)
						if x.Else != nil {
							walk(x.Else, under)
						}
						return false
					case *ast.AssignStmt:
						if len(x.Lhs) == 1 && exprStr(f.fset, x.Lhs[0]) == "c.isClosed" &&
							exprStr(f.fset, x.Rhs[0]) == "true" {
							sets++
							if under {
								guarded++
							}
						}
					}
					return true
				})
			}
			walk(fd.Body, false)
			if sets != 1 {
				anchorLost("%s: close: expected exactly one `c.isClosed = true`, found %d", rel, sets)
			}
			add("clientCloseGuardsCurrent", int64(guarded), true)
		}
		if fd := f.funcDecl("connection.send"); fd != nil {
			failRecvs, doneRecvs, queueRecvs, lostCalls, tick := 0, 0, 0, 0, false
			ast.Inspect(fd, func(n ast.Node) bool {
				switch x := n.(type) {
				case *ast.UnaryExpr:
					if x.Op == token.ARROW {
						switch exprStr(f.fset, x.X) {
						case "c.client.sendFailQueue":
							failRecvs++
						case "c.client.sendQueue":
							queueRecvs++
						case "connDone":
							doneRecvs++
						}
					}
				case *ast.CallExpr:
					switch exprStr(f.fset, x.Fun) {
					case "c.lost":
						lostCalls++
					case "time.NewTicker":
						if v, ok := intLit(x.Args[0]); len(x.Args) == 1 && ok && v == 1e9 {
							add("clientSendTickMs", 1000, true)
							tick = true
						}
					}
				}
				return true
			})
			if !tick {
				anchorLost("%s: send: `time.NewTicker(time.Second)` not found", rel)
			}
			if queueRecvs != 1 {
				anchorLost("%s: send: expected one receive from sendQueue, found %d", rel, queueRecvs)
			}
			add("clientSendFailQueueRecvs", int64(failRecvs), true)
			add("clientSendConnDoneRecvs", int64(doneRecvs), true)
			add("clientSendLostChecks", int64(lostCalls), true)
		}
	})
}

// C11, close notification (Model/AdapterPush.lean): in AdapterProxy.onPush the test for reconnectMsg
// must come before any `… == nil { return }` guard (a client without push callback still has to
// honour the server's close notification).
func init() {
	const rel = "tars/adapter.go"
	mirrored[rel] = append(mirrored[rel], "AdapterProxy.onPush", "AdapterProxy.Recv", "AdapterProxy.Send")
	extras = append(extras, func(add func(string, int64, bool)) {
		f := parse(rel)
		if f == nil {
			return
		}
		fd := f.funcDecl("AdapterProxy.onPush")
		if fd == nil {
			return
		}
		reconnectPos, guardPos := token.NoPos, token.NoPos
		ast.Inspect(fd.Body, func(n ast.Node) bool {
			ifs, ok := n.(*ast.IfStmt)
			if !ok {
				return true
			}
			cond := exprStr(f.fset, ifs.Cond)
			if strings.Contains(cond, "reconnectMsg") && reconnectPos == token.NoPos {
				reconnectPos = ifs.Pos()
			}
			if strings.Contains(cond, "== nil") && guardPos == token.NoPos {
				returns := false
				for _, st := range ifs.Body.List {
					if _, ok := st.(*ast.ReturnStmt); ok {
						returns = true
					}
				}
				if returns {
					guardPos = ifs.Pos()
				}
			}
			return true
		})
		if reconnectPos == token.NoPos {
			anchorLost("%s: onPush: no `if … reconnectMsg` test found", rel)
			return
		}
		first := int64(1)
		if guardPos != token.NoPos && guardPos < reconnectPos {
			first = 0
		}
		add("adapterOnPushReconnectFirst", first, true)
		// Nothing may stand between the arrival of a close notification and the switch to a fresh
		// TarsClient: count the return statements that come before the assignment
		// `c.tarsClient = transport.NewTarsClient(…)` and the test-and-set gates (atomic
		// CompareAndSwap, mutex TryLock) anywhere in onPush. Both are 0 in the baseline.
		switchPos := token.NoPos
		ast.Inspect(fd.Body, func(n ast.Node) bool {
			as, ok := n.(*ast.AssignStmt)
			if ok && switchPos == token.NoPos && len(as.Rhs) == 1 && strings.Contains(exprStr(f.fset, as.Rhs[0]), "NewTarsClient") {
				for _, l := range as.Lhs {
					if strings.HasSuffix(exprStr(f.fset, l), ".tarsClient") {
						switchPos = as.Pos()
					}
				}
			}
			return true
		})
		if switchPos == token.NoPos {
			anchorLost("%s: onPush: no `c.tarsClient = transport.NewTarsClient(…)` found", rel)
			return
		}
		returnsBefore, gates := 0, 0
		ast.Inspect(fd.Body, func(n ast.Node) bool {
			switch x := n.(type) {
			case *ast.ReturnStmt:
				if x.Pos() < switchPos {
					returnsBefore++
				}
			case *ast.CallExpr:
				fn := exprStr(f.fset, x.Fun)
				if strings.Contains(fn, "CompareAndSwap") || strings.HasSuffix(fn, ".TryLock") || strings.HasSuffix(fn, ".Swap") {
					gates++
				}
			}
			return true
		})
		add("adapterOnPushReturnsBeforeSwitch", int64(returnsBefore), true)
		add("adapterOnPushGates", int64(gates), true)
	})
}
