// Package callsim runs the REAL TarsGo client (Communicator, ServantProxy, AdapterProxy, transport
// client) in a child process against scripted fake servers that live in the same child, and records
// what both sides see. Shared by the C08 (response routing) and C09 (deadline and cleanup) harnesses.
//
// One child = one scenario = one fresh process: msgID, the application singleton and the endpoint
// managers are process-wide state. The child writes its result to a file (stdout carries TarsGo's
// log lines).
package callsim

import (
	"bytes"
	"context"
	"crypto/ecdsa"
	"crypto/elliptic"
	crand "crypto/rand"
	"crypto/tls"
	"crypto/x509"
	"crypto/x509/pkix"
	"encoding/binary"
	"encoding/json"
	"encoding/pem"
	"fmt"
	"io"
	"math/big"
	"math/rand"
	"net"
	"os"
	"os/exec"
	"path/filepath"
	"strconv"
	"strings"
	"sync"
	"sync/atomic"
	"syscall"
	"time"

	"github.com/TarsCloud/TarsGo/tars"
	"github.com/TarsCloud/TarsGo/tars/model"
	"github.com/TarsCloud/TarsGo/tars/protocol/codec"
	"github.com/TarsCloud/TarsGo/tars/protocol/res/requestf"
	"github.com/TarsCloud/TarsGo/tars/transport"
	"github.com/TarsCloud/TarsGo/tars/util/current"
)

// ---- scenario description (JSON: this is also the replay format) ----

// Rule says how a fake server treats the requests with ordinal From..To (inclusive, 0-based, per
// server, in arrival order). Requests not covered by a rule are echoed at once.
type Rule struct {
	From    int    `json:"from"`
	To      int    `json:"to"`
	Mode    string `json:"mode"`               // echo | silent | delay | closeAfter | garbageFrame | garbageBody | batch
	DelayMs int    `json:"delay_ms,omitempty"` // delay: answer after this long
	// batch: collect the requests From..To (or until BatchWaitMs passed), then answer them in a seeded
	// random order, injecting Extras around the answers
	BatchWaitMs int      `json:"batch_wait_ms,omitempty"`
	Extras      []string `json:"extras,omitempty"` // dup | invent | zero | onewaytyped | garbageBody | stale
}

// ServerSpec is one fake server = one endpoint of the proxy = one adapter.
type ServerSpec struct {
	Kind  string `json:"kind"` // normal | refuse | blackhole | noread | closeOnAccept | udp
	Rules []Rule `json:"rules,omitempty"`
	// Transport "ssl": the endpoint is an ssl endpoint. The first BadConns accepted connections are treated
	// according to BadMode during the TLS handshake — "silent" (TCP accepted, never a ServerHello),
	// "garbage" (bytes that are not TLS), "close" (closed after the ClientHello was read), "slow" (the
	// handshake starts only after SlowMs) — all later ones get a proper handshake and are served by the
	// rules. Kind "udp": the endpoint is a udp endpoint (rules echo | silent | delay only).
	Transport string `json:"transport,omitempty"`
	BadConns  int    `json:"bad_conns,omitempty"`
	BadMode   string `json:"bad_mode,omitempty"`
	SlowMs    int    `json:"slow_ms,omitempty"`
	// requests of the callers with tag HoldFromTag..HoldToTag are answered after HoldMs (whatever their
	// arrival ordinal: keep-alive pings are requests too and would shift ordinal rules)
	HoldFromTag int `json:"hold_from_tag,omitempty"`
	HoldToTag   int `json:"hold_to_tag,omitempty"`
	HoldMs      int `json:"hold_ms,omitempty"`
}

type CallSpec struct {
	Wave       int    `json:"wave"`
	DelayMs    int    `json:"delay_ms,omitempty"` // start this long after the wave began
	Oneway     bool   `json:"oneway,omitempty"`
	Timeout    string `json:"timeout"`               // proxy | percall | ctx
	TimeoutMs  int    `json:"timeout_ms,omitempty"`  // for percall / ctx
	PayloadLen int    `json:"payload_len,omitempty"` // pad the payload to this many bytes
	MustOK     bool   `json:"must_ok,omitempty"`     // the script answers this call correctly and long before its deadline
	Proxy      int    `json:"proxy,omitempty"`       // which ServantProxy object makes the call (see Scenario.Proxies)
	// Trigger marks the request: when the fake server reads it, it aborts the connection it came on with a
	// TCP RST ("reset": SO_LINGER 0 + close) or answers with bytes that fail ParsePackage ("garbage"),
	// whatever else is in flight on that connection, and keeps serving new connections.
	Trigger string `json:"trigger,omitempty"`
	// LoopMs > 0: the caller goroutine repeats the call back to back (alternating one-way and two-way
	// requests, at most LoopMax times) until LoopMs have passed since it started: a steady flow of writes.
	LoopMs    int `json:"loop_ms,omitempty"`
	LoopMax   int `json:"loop_max,omitempty"`
	LoopGapUs int `json:"loop_gap_us,omitempty"` // pause between two calls of the loop
}

type ClientConf struct {
	QueueLen       int `json:"queue_len,omitempty"`
	ObjQueueMax    int `json:"obj_queue_max,omitempty"`
	ReadTimeoutMs  int `json:"read_timeout_ms,omitempty"`
	WriteTimeoutMs int `json:"write_timeout_ms"` // -1: leave the default; 0 is meaningful (no timer)
	DialTimeoutMs  int `json:"dial_timeout_ms,omitempty"`
	ProxyTimeoutMs int `json:"proxy_timeout_ms,omitempty"` // TarsSetTimeout
	// ProxyTimeoutSet: call TarsSetTimeout(ProxyTimeoutMs) also for values <= 0 (boundary values)
	ProxyTimeoutSet bool `json:"proxy_timeout_set,omitempty"`
	// keep-alive: AdapterProxy.autoKeepAlive ticks every ClientIdleTimeout/2 once a proxy with a push
	// callback has made a call (PushCallback); endpointManager.checkStatus (every second) calls doKeepAlive
	// when KeepAliveInterval > 0. Each doKeepAlive that is not refused takes a queueLen slot for a one-way
	// tars_ping and gives it back.
	IdleTimeoutMs       int  `json:"idle_timeout_ms,omitempty"`
	KeepAliveIntervalMs int  `json:"keep_alive_interval_ms,omitempty"`
	PushCallback        bool `json:"push_callback,omitempty"`
}

type GenSpec struct {
	Start      int32 `json:"start"`
	Seq        int   `json:"seq,omitempty"`        // sequential genRequestID calls
	Goroutines int   `json:"goroutines,omitempty"` // then: this many goroutines …
	PerG       int   `json:"per_g,omitempty"`      // … each calling it this many times
}

type Scenario struct {
	Name    string       `json:"name"`
	Class   string       `json:"class"` // histogram bucket / signature locus
	Seed    int64        `json:"seed"`
	MsgID0  *int32       `json:"msgid0,omitempty"`
	Client  ClientConf   `json:"client"`
	Servers []ServerSpec `json:"servers"`
	Calls   []CallSpec   `json:"calls"`
	GapMs   int          `json:"gap_ms,omitempty"` // pause between waves
	Record  bool         `json:"record,omitempty"` // keep the event history for the model
	CapMs   int          `json:"cap_ms"`           // hard limit of the whole scenario
	Gen     *GenSpec     `json:"gen,omitempty"`
	// Filter selects the dispatch path inside ServantProxy.TarsInvoke: "" (no client filter: direct
	// doInvoke), "single" (tars.RegisterClientFilter), "middleware" (tars.UseClientFilterMiddleware, two
	// links), "prepost" (tars.RegisterPreClientFilter + RegisterPostClientFilter around the direct call).
	// All filters are pass-through: they hand ctx, msg and timeout on unchanged. The filter set is
	// application-wide state; every scenario runs in its own child process, so nothing has to be restored.
	Filter string `json:"filter,omitempty"`
	// Proxies is the number of ServantProxy objects created for the SAME object name on the one
	// Communicator (0 = 1). Every StringToProxy creates a new ServantProxy (own queueLen), but the endpoint
	// manager and its AdapterProxy objects (pending-reply tables, connections) are cached per object name
	// and shared by all of them.
	Proxies int `json:"proxies,omitempty"`
	// Force installs a function at the client's verif yield points (tars/transport/verif_client.go) that
	// forces one interleaving. "stale-close": the receiver goroutine of a connection that has seen a read
	// error is held at "recv.closing" until another connection has been installed by ReConnect, so that its
	// connection.close(oldConn) runs on an already replaced connection.
	Force string `json:"force,omitempty"`
}

// FilterPaths are the dispatch paths of TarsInvoke.
var FilterPaths = []string{"", "single", "middleware", "prepost"}

var filterCalls int64
var forceHeld, forceDone int64

// installForce: see Scenario.Force.
func installForce(kind string) error {
	switch kind {
	case "":
		return nil
	case "stale-close":
		var once int32
		transport.VerifClientSetYield(func(point string, tc *transport.TarsClient, conn net.Conn) {
			if point != "recv.closing" || conn == nil || !atomic.CompareAndSwapInt32(&once, 0, 1) {
				return
			}
			atomic.AddInt64(&forceHeld, 1)
			limit := time.Now().Add(6 * time.Second)
			for time.Now().Before(limit) {
				st := tc.VerifClientState()
				if st.Conn != conn && !st.IsClosed {
					atomic.AddInt64(&forceDone, 1)
					// let the caller that re-dialled finish its Send before the stale close runs
					time.Sleep(20 * time.Millisecond)
					return
				}
				time.Sleep(time.Millisecond)
			}
		})
		return nil
	}
	return fmt.Errorf("unknown forced interleaving %q", kind)
}

func installFilters(kind string) error {
	pass := func(ctx context.Context, msg *tars.Message, invoke tars.Invoke, timeout time.Duration) error {
		atomic.AddInt64(&filterCalls, 1)
		return invoke(ctx, msg, timeout)
	}
	observe := func(ctx context.Context, msg *tars.Message, invoke tars.Invoke, timeout time.Duration) error {
		atomic.AddInt64(&filterCalls, 1)
		return nil
	}
	link := func(next tars.ClientFilter) tars.ClientFilter {
		return func(ctx context.Context, msg *tars.Message, invoke tars.Invoke, timeout time.Duration) error {
			atomic.AddInt64(&filterCalls, 1)
			return next(ctx, msg, invoke, timeout)
		}
	}
	switch kind {
	case "", "none":
	case "single":
		tars.RegisterClientFilter(pass)
	case "middleware":
		tars.UseClientFilterMiddleware(link, link)
	case "prepost":
		tars.RegisterPreClientFilter(observe)
		tars.RegisterPostClientFilter(observe)
	default:
		return fmt.Errorf("unknown filter path %q", kind)
	}
	return nil
}

// ---- result ----

type CallResult struct {
	I        int    `json:"i"` // caller index = order of the B events
	Spec     int    `json:"spec"`
	Oneway   bool   `json:"oneway,omitempty"`
	StartUs  int64  `json:"start_us"`
	EndUs    int64  `json:"end_us"`
	Returned bool   `json:"returned"`
	Outcome  string `json:"outcome"` // ok | err | hang
	ErrText  string `json:"err_text,omitempty"`
	RespID   int32  `json:"resp_id,omitempty"`
	RespTag  int    `json:"resp_tag"` // caller index found in the response payload, -1 none, -2 malformed
	RespForm bool   `json:"resp_form,omitempty"`
}

type ReqSeen struct {
	Server int   `json:"server"`
	Ord    int   `json:"ord"`
	ID     int32 `json:"id"`
	Type   int8  `json:"type"`
	Tag    int   `json:"tag"`
	AtUs   int64 `json:"at_us"`
}

type Sent struct {
	Server int    `json:"server"`
	Kind   string `json:"kind"`
	ID     int32  `json:"id"`
	Oneway bool   `json:"oneway,omitempty"`
	Body   int    `json:"body"`
	AtUs   int64  `json:"at_us"`
}

type Counters struct {
	AfterWave int     `json:"after_wave"`
	QueueLen  int32   `json:"queue_len"`            // of proxy 0
	QueueLens []int32 `json:"queue_lens,omitempty"` // per ServantProxy object (when there are several)
	InvokeNum int32   `json:"invoke_num"`
	Pending   int     `json:"pending"`
	Adapters  int     `json:"adapters"`
	MsgID     int32   `json:"msgid"`
}

type Result struct {
	Scenario  string       `json:"scenario"`
	Calls     []CallResult `json:"calls"`
	Reqs      []ReqSeen    `json:"reqs"`
	Sent      []Sent       `json:"sent"`
	Counters  []Counters   `json:"counters"`
	Events    []string     `json:"events,omitempty"`
	MsgIDInit int32        `json:"msgid_init"`
	GenSeq    []int32      `json:"gen_seq,omitempty"`
	GenPar    [][]int32    `json:"gen_par,omitempty"`
	Capped    bool         `json:"capped,omitempty"`
	FilterHit int64        `json:"filter_hit,omitempty"` // invocations of the installed pass-through client filters
	ForceHeld int64        `json:"force_held,omitempty"` // goroutines held at the forced yield point
	ForceDone int64        `json:"force_done,omitempty"` // … released because the forced condition was reached (not by the time limit)
	Error     string       `json:"error,omitempty"`
	WallMs    int64        `json:"wall_ms"`
}

// ---- wire helpers ----

func Frame(body []byte) []byte {
	out := make([]byte, 4, 4+len(body))
	binary.BigEndian.PutUint32(out, uint32(4+len(body)))
	return append(out, body...)
}

func ResponseFrame(id int32, ptype int8, payload []byte) []byte {
	p := requestf.ResponsePacket{IVersion: 1, CPacketType: ptype, IRequestId: id, SBuffer: toInt8(payload),
		Status: map[string]string{}, Context: map[string]string{}}
	b := codec.NewBuffer()
	if err := p.WriteTo(b); err != nil {
		panic(err)
	}
	return Frame(b.ToBytes())
}

func toInt8(b []byte) []int8 {
	out := make([]int8, len(b))
	for i, x := range b {
		out[i] = int8(x)
	}
	return out
}

func fromInt8(b []int8) []byte {
	out := make([]byte, len(b))
	for i, x := range b {
		out[i] = byte(x)
	}
	return out
}

// UndecodableBody is a frame body on which ResponsePacket.ReadFrom fails (checked by BodyIsGarbage).
var UndecodableBody = []byte{0x1c, 0x2c}

func BodyIsGarbage() bool {
	p := &requestf.ResponsePacket{}
	return p.ReadFrom(codec.NewReader(UndecodableBody)) != nil
}

// payload of caller i: "c:<i>:" padded with '.'; the echo is "r:<id>:" + request payload.
func reqPayload(i, padTo int, trigger string) []byte {
	s := []byte(fmt.Sprintf("c:%d:", i))
	if trigger != "" {
		s = append(s, []byte("!"+trigger+":")...)
	}
	if len(s) < padTo {
		out := make([]byte, padTo)
		copy(out, s)
		for k := len(s); k < padTo; k++ {
			out[k] = '.'
		}
		return out
	}
	return s
}

func parseTag(payload []byte, prefix string) int {
	s := payload
	if len(s) > 64 {
		s = s[:64]
	}
	str := string(s)
	if !strings.HasPrefix(str, prefix) {
		return -2
	}
	rest := str[len(prefix):]
	j := strings.IndexByte(rest, ':')
	if j < 0 {
		return -2
	}
	n, err := strconv.Atoi(rest[:j])
	if err != nil {
		return -2
	}
	return n
}

// parseEcho: "r:<id>:c:<i>:…" → (id, i)
func parseEcho(payload []byte) (int64, int, bool) {
	s := payload
	if len(s) > 96 {
		s = s[:96]
	}
	parts := strings.SplitN(string(s), ":", 5)
	if len(parts) < 5 || parts[0] != "r" || parts[2] != "c" {
		return 0, -2, false
	}
	id, err1 := strconv.ParseInt(parts[1], 10, 64)
	i, err2 := strconv.Atoi(parts[3])
	if err1 != nil || err2 != nil {
		return 0, -2, false
	}
	return id, i, true
}

// ---- the child ----

type prx struct{ s model.Servant }

func (p *prx) SetServant(s model.Servant) { p.s = s }

type runner struct {
	sc     *Scenario
	t0     time.Time
	mu     sync.Mutex
	res    *Result
	nB     int
	rng    *rand.Rand
	stop   chan struct{}
	prxs   []*prx
	srvTLS *tls.Config
}

// setupTLS creates a self-signed certificate for 127.0.0.1..16 and makes the client trust it through the
// ordinary configuration file (/tars/application/client<ca>), read by the first NewCommunicator.
func (r *runner) setupTLS() error {
	priv, err := ecdsa.GenerateKey(elliptic.P256(), crand.Reader)
	if err != nil {
		return err
	}
	tmpl := &x509.Certificate{
		SerialNumber: big.NewInt(9), Subject: pkix.Name{CommonName: "callsim"},
		NotBefore: time.Now().Add(-time.Hour), NotAfter: time.Now().Add(24 * time.Hour),
		KeyUsage: x509.KeyUsageDigitalSignature | x509.KeyUsageCertSign, IsCA: true, BasicConstraintsValid: true,
		ExtKeyUsage: []x509.ExtKeyUsage{x509.ExtKeyUsageServerAuth},
	}
	for i := 1; i <= 16; i++ {
		tmpl.IPAddresses = append(tmpl.IPAddresses, net.ParseIP(fmt.Sprintf("127.0.0.%d", i)))
	}
	der, err := x509.CreateCertificate(crand.Reader, tmpl, tmpl, &priv.PublicKey, priv)
	if err != nil {
		return err
	}
	r.srvTLS = &tls.Config{Certificates: []tls.Certificate{{Certificate: [][]byte{der}, PrivateKey: priv}}}
	dir, err := os.MkdirTemp(".", "tls")
	if err != nil {
		return err
	}
	dir, _ = filepath.Abs(dir)
	ca := filepath.Join(dir, "ca.pem")
	if err := os.WriteFile(ca, pem.EncodeToMemory(&pem.Block{Type: "CERTIFICATE", Bytes: der}), 0o600); err != nil {
		return err
	}
	cfg := "<tars>\n<application>\n<client>\nca=" + ca + "\n</client>\n<server>\nlogLevel=ERROR\n</server>\n</application>\n</tars>\n"
	cf := filepath.Join(dir, "client.conf")
	if err := os.WriteFile(cf, []byte(cfg), 0o600); err != nil {
		return err
	}
	tars.ServerConfigPath = cf
	return nil
}

func (r *runner) us() int64 { return time.Since(r.t0).Microseconds() }

// farFromIssued: id differs by more than 100000 from every request id any fake server has seen, from
// the initial counter and from 0, so that no call of this process can be waiting for it (an "invented"
// id that hit a pending call would be a legitimate delivery and would confuse the payload oracle).
func (r *runner) farFromIssued(id int32) bool {
	r.mu.Lock()
	defer r.mu.Unlock()
	far := func(a, b int32) bool {
		d := int64(a) - int64(b)
		if d < 0 {
			d = -d
		}
		return d > 100000 && d < (1<<32)-100000
	}
	if !far(id, 0) || !far(id, r.res.MsgIDInit) || !far(id, 1) {
		return false
	}
	for _, q := range r.res.Reqs {
		if !far(id, q.ID) {
			return false
		}
	}
	return true
}

func (r *runner) ev(tok string) {
	if r.sc.Record {
		r.res.Events = append(r.res.Events, tok)
	}
}

func b2i(b bool) int {
	if b {
		return 1
	}
	return 0
}

type pendingReq struct {
	id   int32
	tag  int
	body []byte
	conn net.Conn // every answer goes back on the connection its request came from
}

type fakeServer struct {
	r     *runner
	idx   int
	host  string
	port  int
	spec  ServerSpec
	ln    net.Listener
	bh    func()
	mu    sync.Mutex
	ord   int
	batch map[int][]pendingReq // rule index → collected requests
	timer map[int]bool
	conns []net.Conn
	nconn int
	pc    net.PacketConn
}

// blackhole: a listening socket with backlog 0 that never accepts; once its accept queue is full the
// kernel drops further SYNs and connect() hangs until the caller's dial timeout.
func blackhole(host string) (int, func(), error) {
	fd, err := syscall.Socket(syscall.AF_INET, syscall.SOCK_STREAM, 0)
	if err != nil {
		return 0, nil, err
	}
	ip := net.ParseIP(host).To4()
	sa := &syscall.SockaddrInet4{Port: 0}
	copy(sa.Addr[:], ip)
	if err := syscall.Bind(fd, sa); err != nil {
		syscall.Close(fd)
		return 0, nil, err
	}
	if err := syscall.Listen(fd, 0); err != nil {
		syscall.Close(fd)
		return 0, nil, err
	}
	got, err := syscall.Getsockname(fd)
	if err != nil {
		syscall.Close(fd)
		return 0, nil, err
	}
	port := got.(*syscall.SockaddrInet4).Port
	var fill []net.Conn
	for i := 0; i < 8; i++ {
		c, err := net.DialTimeout("tcp", fmt.Sprintf("%s:%d", host, port), 150*time.Millisecond)
		if err != nil {
			break
		}
		fill = append(fill, c)
	}
	// the queue must now be full: a further connect has to time out
	if c, err := net.DialTimeout("tcp", fmt.Sprintf("%s:%d", host, port), 150*time.Millisecond); err == nil {
		c.Close()
		syscall.Close(fd)
		return 0, nil, fmt.Errorf("blackhole listener still accepts connections")
	}
	return port, func() {
		for _, c := range fill {
			c.Close()
		}
		syscall.Close(fd)
	}, nil
}

func (r *runner) startServer(idx int, spec ServerSpec) (*fakeServer, error) {
	fs := &fakeServer{r: r, idx: idx, host: fmt.Sprintf("127.0.0.%d", idx+1), spec: spec, batch: map[int][]pendingReq{}, timer: map[int]bool{}}
	switch spec.Kind {
	case "refuse":
		l, err := net.Listen("tcp", fs.host+":0")
		if err != nil {
			return nil, err
		}
		fs.port = l.Addr().(*net.TCPAddr).Port
		l.Close()
		return fs, nil
	case "blackhole":
		port, closeFn, err := blackhole(fs.host)
		if err != nil {
			return nil, err
		}
		fs.port, fs.bh = port, closeFn
		return fs, nil
	}
	if spec.Kind == "udp" {
		pc, err := net.ListenPacket("udp", fs.host+":0")
		if err != nil {
			return nil, err
		}
		fs.pc = pc
		fs.port = pc.LocalAddr().(*net.UDPAddr).Port
		go fs.serveUDP()
		return fs, nil
	}
	l, err := net.Listen("tcp", fs.host+":0")
	if err != nil {
		return nil, err
	}
	fs.ln = l
	fs.port = l.Addr().(*net.TCPAddr).Port
	go fs.acceptLoop()
	return fs, nil
}

// serveUDP: one datagram = one frame; rules echo | silent | delay by arrival ordinal.
func (fs *fakeServer) serveUDP() {
	buf := make([]byte, 65536)
	for {
		n, addr, err := fs.pc.ReadFrom(buf)
		if err != nil {
			return
		}
		if n < 4 {
			continue
		}
		req := &requestf.RequestPacket{}
		if err := req.ReadFrom(codec.NewReader(append([]byte{}, buf[4:n]...))); err != nil {
			continue
		}
		payload := fromInt8(req.SBuffer)
		tag := parseTag(payload, "c:")
		fs.mu.Lock()
		ord := fs.ord
		fs.ord++
		fs.mu.Unlock()
		fs.r.mu.Lock()
		fs.r.res.Reqs = append(fs.r.res.Reqs, ReqSeen{Server: fs.idx, Ord: ord, ID: req.IRequestId, Type: req.CPacketType, Tag: tag, AtUs: fs.r.us()})
		fs.r.ev(fmt.Sprintf("Q.%d.%d.%d", fs.idx, req.IRequestId, tag))
		fs.r.mu.Unlock()
		if req.CPacketType == 1 {
			continue
		}
		keep := payload
		if len(keep) > 48 {
			keep = keep[:48]
		}
		answer := func() {
			fs.r.mu.Lock()
			fs.r.res.Sent = append(fs.r.res.Sent, Sent{Server: fs.idx, Kind: "echo", ID: req.IRequestId, Body: tag, AtUs: fs.r.us()})
			fs.r.ev(fmt.Sprintf("E.%d.%d.0.%d", fs.idx, req.IRequestId, tag))
			fs.r.mu.Unlock()
			fs.pc.WriteTo(ResponseFrame(req.IRequestId, 0, append([]byte(fmt.Sprintf("r:%d:", req.IRequestId)), keep...)), addr)
		}
		_, ru := fs.ruleFor(ord)
		switch ru.Mode {
		case "echo", "":
			answer()
		case "delay":
			d := ru.DelayMs
			go func() {
				select {
				case <-time.After(time.Duration(d) * time.Millisecond):
					answer()
				case <-fs.r.stop:
				}
			}()
		}
	}
}

// tlsAccept treats one accepted connection of an ssl endpoint (see ServerSpec.Transport).
func (fs *fakeServer) tlsAccept(c net.Conn, nth int) {
	if nth < fs.spec.BadConns {
		switch fs.spec.BadMode {
		case "silent": // never a ServerHello; the connection stays open
			return
		case "garbage":
			c.Write([]byte("HTTP/1.1 400 Bad Request\r\n\r\nthis is not tls\r\n"))
			return
		case "close":
			buf := make([]byte, 64)
			c.SetReadDeadline(time.Now().Add(2 * time.Second))
			c.Read(buf)
			c.Close()
			return
		case "slow":
			select {
			case <-time.After(time.Duration(fs.spec.SlowMs) * time.Millisecond):
			case <-fs.r.stop:
				return
			}
		}
	}
	tc := tls.Server(c, fs.r.srvTLS)
	tc.SetDeadline(time.Now().Add(5 * time.Second))
	if err := tc.Handshake(); err != nil {
		c.Close()
		return
	}
	tc.SetDeadline(time.Time{})
	fs.serve(tc)
}

func (fs *fakeServer) acceptLoop() {
	for {
		c, err := fs.ln.Accept()
		if err != nil {
			return
		}
		fs.mu.Lock()
		fs.conns = append(fs.conns, c)
		fs.mu.Unlock()
		if fs.spec.Transport == "ssl" {
			fs.mu.Lock()
			nth := fs.nconn
			fs.nconn++
			fs.mu.Unlock()
			go fs.tlsAccept(c, nth)
			continue
		}
		switch fs.spec.Kind {
		case "closeOnAccept":
			c.Close()
		case "noread":
			// keep the connection open, never read
		default:
			go fs.serve(c)
		}
	}
}

func (fs *fakeServer) ruleFor(ord int) (int, Rule) {
	for k, ru := range fs.spec.Rules {
		if ord >= ru.From && ord <= ru.To {
			return k, ru
		}
	}
	return -1, Rule{Mode: "echo"}
}

// send records the packet (history + log) and writes it.
func (fs *fakeServer) send(c net.Conn, kind string, id int32, ptype int8, payload []byte, body int) {
	fs.r.mu.Lock()
	fs.r.res.Sent = append(fs.r.res.Sent, Sent{Server: fs.idx, Kind: kind, ID: id, Oneway: ptype == 1, Body: body, AtUs: fs.r.us()})
	fs.r.ev(fmt.Sprintf("E.%d.%d.%d.%d", fs.idx, id, b2i(ptype == 1), body))
	fs.r.mu.Unlock()
	c.SetWriteDeadline(time.Now().Add(5 * time.Second))
	c.Write(ResponseFrame(id, ptype, payload))
}

func (fs *fakeServer) echo(c net.Conn, q pendingReq) {
	fs.send(c, "echo", q.id, 0, append([]byte(fmt.Sprintf("r:%d:", q.id)), q.body...), q.tag)
}

func (fs *fakeServer) sendRaw(c net.Conn, kind string, raw []byte) {
	fs.r.mu.Lock()
	fs.r.res.Sent = append(fs.r.res.Sent, Sent{Server: fs.idx, Kind: kind, Body: -1, AtUs: fs.r.us()})
	fs.r.mu.Unlock()
	c.SetWriteDeadline(time.Now().Add(5 * time.Second))
	c.Write(raw)
}

var junkSeq int32

func (fs *fakeServer) extra(c net.Conn, kind string, q pendingReq, n int) {
	junk := 900 + n
	payload := []byte(fmt.Sprintf("x:%d:junk", junk))
	switch kind {
	case "dup":
		fs.echo(c, q)
	case "invent": // an id nobody is waiting for: far from every id issued in this process
		if id := q.id + 1000003 + int32(n); fs.r.farFromIssued(id) {
			fs.send(c, "invent", id, 0, payload, junk)
		}
	case "stale": // an id far below every id issued in this process
		if id := q.id - 500000 - int32(n); fs.r.farFromIssued(id) {
			fs.send(c, "stale", id, 0, payload, junk)
		}
	case "zero": // request id 0 = server push; no push callback is installed
		fs.send(c, "zero", 0, 0, payload, junk)
	case "onewaytyped": // the call's own id, but typed one-way: must be dropped, not delivered
		fs.send(c, "onewaytyped", q.id, 1, payload, junk)
	case "garbageBody":
		fs.sendRaw(c, "garbageBody", Frame(UndecodableBody))
	}
}

func (fs *fakeServer) flushBatch(k int, ru Rule) {
	fs.mu.Lock()
	qs := fs.batch[k]
	fs.batch[k] = nil
	fs.timer[k] = false
	fs.mu.Unlock()
	if len(qs) == 0 {
		return
	}
	fs.r.mu.Lock()
	perm := fs.r.rng.Perm(len(qs))
	var where []int
	for range ru.Extras {
		where = append(where, fs.r.rng.Intn(len(qs)))
	}
	fs.r.mu.Unlock()
	for pos, pi := range perm {
		q := qs[pi]
		c := q.conn
		// extras placed before the answer at this position; onewaytyped always precedes the real answer
		for n, kind := range ru.Extras {
			if where[n] == pos && kind != "dup" {
				fs.extra(c, kind, q, n)
			}
		}
		fs.echo(c, q)
		for n, kind := range ru.Extras {
			if where[n] == pos && kind == "dup" {
				fs.extra(c, kind, q, n)
			}
		}
	}
}

func (fs *fakeServer) serve(c net.Conn) {
	for {
		hdr := make([]byte, 4)
		if _, err := io.ReadFull(c, hdr); err != nil {
			return
		}
		l := int(binary.BigEndian.Uint32(hdr))
		if l < 4 || l > 64<<20 {
			return
		}
		body := make([]byte, l-4)
		if _, err := io.ReadFull(c, body); err != nil {
			return
		}
		req := &requestf.RequestPacket{}
		if err := req.ReadFrom(codec.NewReader(body)); err != nil {
			continue
		}
		payload := fromInt8(req.SBuffer)
		tag := parseTag(payload, "c:")
		fs.mu.Lock()
		ord := fs.ord
		fs.ord++
		fs.mu.Unlock()
		fs.r.mu.Lock()
		fs.r.res.Reqs = append(fs.r.res.Reqs, ReqSeen{Server: fs.idx, Ord: ord, ID: req.IRequestId, Type: req.CPacketType, Tag: tag, AtUs: fs.r.us()})
		fs.r.ev(fmt.Sprintf("Q.%d.%d.%d", fs.idx, req.IRequestId, tag))
		fs.r.mu.Unlock()
		if req.CPacketType == 1 { // one-way request: never answered
			continue
		}
		head := payload
		if len(head) > 40 {
			head = head[:40]
		}
		if bytes.Contains(head, []byte("!reset:")) {
			fs.r.mu.Lock()
			fs.r.res.Sent = append(fs.r.res.Sent, Sent{Server: fs.idx, Kind: "reset", ID: req.IRequestId, Body: -1, AtUs: fs.r.us()})
			fs.r.mu.Unlock()
			if tc, ok := c.(*net.TCPConn); ok {
				tc.SetLinger(0) // close sends an RST
			}
			c.Close()
			return
		}
		if bytes.Contains(head, []byte("!garbage:")) {
			fs.sendRaw(c, "garbageFrame", []byte{0, 0, 0, 1, 0xde, 0xad})
			continue
		}
		keep := payload
		if len(keep) > 48 {
			keep = keep[:48]
		}
		q := pendingReq{id: req.IRequestId, tag: tag, body: keep, conn: c}
		k, ru := fs.ruleFor(ord)
		if fs.spec.HoldMs > 0 && tag >= fs.spec.HoldFromTag && tag <= fs.spec.HoldToTag {
			ru = Rule{Mode: "delay", DelayMs: fs.spec.HoldMs}
		}
		switch ru.Mode {
		case "echo", "":
			fs.echo(c, q)
		case "silent":
		case "delay":
			go func() {
				select {
				case <-time.After(time.Duration(ru.DelayMs) * time.Millisecond):
					fs.echo(c, q)
				case <-fs.r.stop:
				}
			}()
		case "closeAfter":
			c.Close()
			return
		case "garbageFrame": // length below the header size: ParsePackage reports PackageError
			fs.sendRaw(c, "garbageFrame", []byte{0, 0, 0, 1, 0xde, 0xad})
		case "garbageBody":
			fs.sendRaw(c, "garbageBody", Frame(UndecodableBody))
		case "batch":
			fs.mu.Lock()
			fs.batch[k] = append(fs.batch[k], q)
			full := len(fs.batch[k]) >= ru.To-ru.From+1
			first := !fs.timer[k]
			fs.timer[k] = true
			fs.mu.Unlock()
			if full {
				fs.flushBatch(k, ru)
			} else if first {
				go func() {
					select {
					case <-time.After(time.Duration(ru.BatchWaitMs) * time.Millisecond):
						fs.flushBatch(k, ru)
					case <-fs.r.stop:
					}
				}()
			}
		}
	}
}

func (fs *fakeServer) close() {
	if fs.ln != nil {
		fs.ln.Close()
	}
	if fs.bh != nil {
		fs.bh()
	}
	if fs.pc != nil {
		fs.pc.Close()
	}
	fs.mu.Lock()
	for _, c := range fs.conns {
		c.Close()
	}
	fs.mu.Unlock()
}

func (r *runner) counters(wave int) {
	var qs []int32
	var c Counters
	for k, p := range r.prxs {
		sp, ok := p.s.(*tars.ServantProxy)
		if !ok {
			return
		}
		cs := tars.VerifCallState(sp)
		if r.sc.Client.PushCallback || r.sc.Client.KeepAliveIntervalMs > 0 {
			// a keep-alive tick holds a slot for the few microseconds of its Send: read several times and keep
			// the smallest value (a leaked slot stays in every reading)
			for k := 0; k < 4; k++ {
				time.Sleep(2 * time.Millisecond)
				if c2 := tars.VerifCallState(sp); c2.QueueLen < cs.QueueLen {
					cs.QueueLen = c2.QueueLen
				}
			}
		}
		qs = append(qs, cs.QueueLen)
		if k == 0 {
			c = Counters{AfterWave: wave, QueueLen: cs.QueueLen, InvokeNum: cs.InvokeNum, Pending: cs.Pending, Adapters: cs.Adapters, MsgID: tars.VerifGetMsgID()}
		}
	}
	qtok := fmt.Sprint(c.QueueLen)
	if len(r.prxs) > 1 {
		c.QueueLens = qs
		parts := make([]string, len(qs))
		for k, q := range qs {
			parts[k] = fmt.Sprint(q)
		}
		qtok = strings.Join(parts, ",")
	}
	r.mu.Lock()
	r.res.Counters = append(r.res.Counters, c)
	r.ev(fmt.Sprintf("Z.%s.%d.%d", qtok, c.Pending, c.InvokeNum))
	r.ev(fmt.Sprintf("M.%d", c.MsgID))
	r.mu.Unlock()
}

func (r *runner) oneCall(specIdx int, cs CallSpec, done chan<- struct{}) {
	defer func() {
		if done != nil {
			done <- struct{}{}
		}
	}()
	p := r.prxs[cs.Proxy%len(r.prxs)]
	r.mu.Lock()
	i := r.nB
	r.nB++
	if len(r.prxs) > 1 {
		r.ev(fmt.Sprintf("B.%d.%d.%d.%d", i, b2i(cs.Oneway), i, cs.Proxy%len(r.prxs)))
	} else {
		r.ev(fmt.Sprintf("B.%d.%d.%d", i, b2i(cs.Oneway), i))
	}
	slot := len(r.res.Calls)
	r.res.Calls = append(r.res.Calls, CallResult{I: i, Spec: specIdx, Oneway: cs.Oneway, StartUs: r.us(), Outcome: "hang", RespTag: -1})
	r.mu.Unlock()
	payload := reqPayload(i, cs.PayloadLen, cs.Trigger)
	ctx := current.ContextWithClientCurrent(context.Background())
	var cancel context.CancelFunc
	switch cs.Timeout {
	case "percall":
		current.SetClientTimeout(ctx, cs.TimeoutMs)
	case "ctx":
		ctx, cancel = context.WithTimeout(ctx, time.Duration(cs.TimeoutMs)*time.Millisecond)
	}
	resp := new(requestf.ResponsePacket)
	var ctype byte
	if cs.Oneway {
		ctype = 1
	}
	start := r.us()
	err := p.s.TarsInvoke(ctx, ctype, "echo", payload, nil, nil, resp)
	end := r.us()
	if cancel != nil {
		cancel()
	}
	r.mu.Lock()
	cr := &r.res.Calls[slot]
	cr.StartUs, cr.EndUs, cr.Returned = start, end, true
	if err != nil {
		cr.Outcome = "err"
		cr.ErrText = err.Error()
		if len(cr.ErrText) > 160 {
			cr.ErrText = cr.ErrText[:160]
		}
		r.ev(fmt.Sprintf("R.%d.err", i))
	} else if cs.Oneway {
		cr.Outcome = "ok"
		r.ev(fmt.Sprintf("R.%d.ow", i))
	} else {
		cr.Outcome = "ok"
		cr.RespID = resp.IRequestId
		id, tag, ok := parseEcho(fromInt8(resp.SBuffer))
		cr.RespForm = ok && id == int64(resp.IRequestId)
		cr.RespTag = tag
		body := tag
		if !ok {
			body = parseTag(fromInt8(resp.SBuffer), "x:")
			if body < 0 {
				body = 999999
			}
		}
		r.ev(fmt.Sprintf("R.%d.ok.%d.%d", i, resp.IRequestId, body))
	}
	r.mu.Unlock()
}

// RunChild executes the scenario in this process.
func RunChild(sc *Scenario) *Result {
	r := &runner{sc: sc, t0: time.Now(), res: &Result{Scenario: sc.Name}, rng: rand.New(rand.NewSource(sc.Seed)), stop: make(chan struct{})}
	res := r.res
	if !BodyIsGarbage() {
		res.Error = "UndecodableBody decodes: choose another garbage body"
		return res
	}
	for _, ss := range sc.Servers {
		if ss.Transport == "ssl" && r.srvTLS == nil {
			if err := r.setupTLS(); err != nil {
				res.Error = "tls setup: " + err.Error()
				return res
			}
		}
	}
	comm := tars.NewCommunicator()
	if err := installFilters(sc.Filter); err != nil {
		res.Error = err.Error()
		return res
	}
	if err := installForce(sc.Force); err != nil {
		res.Error = err.Error()
		return res
	}
	cl := sc.Client
	if cl.QueueLen > 0 {
		comm.Client.ClientQueueLen = cl.QueueLen
	}
	if cl.ObjQueueMax > 0 {
		comm.Client.ObjQueueMax = int32(cl.ObjQueueMax)
	}
	if cl.ReadTimeoutMs > 0 {
		comm.Client.ClientReadTimeout = time.Duration(cl.ReadTimeoutMs) * time.Millisecond
	}
	if cl.WriteTimeoutMs >= 0 {
		comm.Client.ClientWriteTimeout = time.Duration(cl.WriteTimeoutMs) * time.Millisecond
	}
	if cl.DialTimeoutMs > 0 {
		comm.Client.ClientDialTimeout = time.Duration(cl.DialTimeoutMs) * time.Millisecond
	}
	if cl.IdleTimeoutMs > 0 {
		comm.Client.ClientIdleTimeout = time.Duration(cl.IdleTimeoutMs) * time.Millisecond
	}
	if cl.KeepAliveIntervalMs > 0 {
		comm.Client.KeepAliveInterval = cl.KeepAliveIntervalMs
	}
	var servers []*fakeServer
	var eps []string
	for i, ss := range sc.Servers {
		fs, err := r.startServer(i, ss)
		if err != nil {
			res.Error = "fake server: " + err.Error()
			return res
		}
		servers = append(servers, fs)
		proto := "tcp"
		if ss.Transport == "ssl" {
			proto = "ssl"
		} else if ss.Kind == "udp" {
			proto = "udp"
		}
		eps = append(eps, fmt.Sprintf("%s -h %s -p %d -t 60000", proto, fs.host, fs.port))
	}
	defer func() {
		close(r.stop)
		for _, fs := range servers {
			fs.close()
		}
	}()
	nprx := sc.Proxies
	if nprx < 1 {
		nprx = 1
	}
	for k := 0; k < nprx; k++ {
		q := &prx{}
		comm.StringToProxy("App.Server.Obj@"+strings.Join(eps, ":"), q)
		if cl.ProxyTimeoutMs > 0 || cl.ProxyTimeoutSet {
			q.s.TarsSetTimeout(cl.ProxyTimeoutMs)
		}
		if cl.PushCallback {
			if sp, ok := q.s.(*tars.ServantProxy); ok {
				sp.SetPushCallback(func([]byte) {})
			}
		}
		r.prxs = append(r.prxs, q)
	}
	p := r.prxs[0]
	if sc.MsgID0 != nil {
		tars.VerifSetMsgID(*sc.MsgID0)
	}
	res.MsgIDInit = tars.VerifGetMsgID()
	capT := time.After(time.Duration(sc.CapMs) * time.Millisecond)

	if g := sc.Gen; g != nil {
		sp := p.s.(*tars.ServantProxy)
		tars.VerifSetMsgID(g.Start)
		res.MsgIDInit = g.Start
		for k := 0; k < g.Seq; k++ {
			res.GenSeq = append(res.GenSeq, tars.VerifGenRequestID(sp))
		}
		if g.Goroutines > 0 {
			res.GenPar = make([][]int32, g.Goroutines)
			var wg sync.WaitGroup
			startC := make(chan struct{})
			for gi := 0; gi < g.Goroutines; gi++ {
				wg.Add(1)
				go func(gi int) {
					defer wg.Done()
					out := make([]int32, 0, g.PerG)
					<-startC
					for k := 0; k < g.PerG; k++ {
						out = append(out, tars.VerifGenRequestID(sp))
					}
					res.GenPar[gi] = out
				}(gi)
			}
			close(startC)
			wg.Wait()
		}
		r.counters(-1)
	}

	maxWave := -1
	for _, c := range sc.Calls {
		if c.Wave > maxWave {
			maxWave = c.Wave
		}
	}
	for w := 0; w <= maxWave; w++ {
		done := make(chan struct{}, len(sc.Calls))
		n := 0
		waveStart := time.Now()
		for si, c := range sc.Calls {
			if c.Wave != w {
				continue
			}
			n++
			go func(si int, c CallSpec) {
				if d := time.Until(waveStart.Add(time.Duration(c.DelayMs) * time.Millisecond)); d > 0 {
					time.Sleep(d)
				}
				if c.LoopMs > 0 {
					end := time.Now().Add(time.Duration(c.LoopMs) * time.Millisecond)
					for k := 0; (k == 0 || time.Now().Before(end)) && (c.LoopMax <= 0 || k < c.LoopMax); k++ {
						cc := c
						cc.Oneway = (si+k)%2 == 0
						r.oneCall(si, cc, nil)
						if c.LoopGapUs > 0 {
							time.Sleep(time.Duration(c.LoopGapUs) * time.Microsecond)
						}
					}
					done <- struct{}{}
					return
				}
				r.oneCall(si, c, done)
			}(si, c)
		}
		for k := 0; k < n; k++ {
			select {
			case <-done:
			case <-capT:
				r.mu.Lock()
				res.Capped = true
				r.mu.Unlock()
				r.counters(w)
				res.WallMs = time.Since(r.t0).Milliseconds()
				return snapshot(r)
			}
		}
		r.counters(w)
		if w < maxWave && sc.GapMs > 0 {
			time.Sleep(time.Duration(sc.GapMs) * time.Millisecond)
			r.counters(w)
		}
	}
	res.WallMs = time.Since(r.t0).Milliseconds()
	return snapshot(r)
}

// snapshot returns a deep copy of the result under the runner's lock (used when the cap fires while
// callers are still running).
func snapshot(r *runner) *Result {
	r.mu.Lock()
	defer r.mu.Unlock()
	r.res.FilterHit = atomic.LoadInt64(&filterCalls)
	r.res.ForceHeld = atomic.LoadInt64(&forceHeld)
	r.res.ForceDone = atomic.LoadInt64(&forceDone)
	b, _ := json.Marshal(r.res)
	out := &Result{}
	json.Unmarshal(b, out)
	return out
}

// ChildMain is the entry point of the child process: -extra child:<specfile>:<outfile>.
func ChildMain(extra string) bool {
	if !strings.HasPrefix(extra, "child:") {
		return false
	}
	parts := strings.SplitN(extra, ":", 3)
	if len(parts) != 3 {
		fmt.Fprintln(os.Stderr, "bad child argument")
		os.Exit(4)
	}
	b, err := os.ReadFile(parts[1])
	if err != nil {
		fmt.Fprintln(os.Stderr, err)
		os.Exit(4)
	}
	sc := &Scenario{}
	if err := json.Unmarshal(b, sc); err != nil {
		fmt.Fprintln(os.Stderr, err)
		os.Exit(4)
	}
	res := RunChild(sc)
	out, _ := json.Marshal(res)
	if err := os.WriteFile(parts[2], out, 0o644); err != nil {
		fmt.Fprintln(os.Stderr, err)
		os.Exit(4)
	}
	os.Exit(0)
	return true
}

// ---- the parent side ----

// Spawn runs the scenario in a fresh child process (the harness binary itself).
func Spawn(dir string, sc *Scenario) (*Result, error) {
	self, err := os.Executable()
	if err != nil {
		return nil, err
	}
	f, err := os.CreateTemp(dir, "sc-*.json")
	if err != nil {
		return nil, err
	}
	spec := f.Name()
	outFile := spec + ".out"
	defer os.Remove(spec)
	defer os.Remove(outFile)
	b, _ := json.Marshal(sc)
	f.Write(b)
	f.Close()
	cmd := exec.Command(self, "-extra", "child:"+spec+":"+outFile)
	var logb bytes.Buffer
	cmd.Stdout = &logb
	cmd.Stderr = &logb
	cmd.Dir = dir // CheckPanic dumps and log files land in the scratch dir
	if err := cmd.Start(); err != nil {
		return nil, err
	}
	done := make(chan error, 1)
	go func() { done <- cmd.Wait() }()
	limit := time.Duration(sc.CapMs)*time.Millisecond + 20*time.Second
	select {
	case err := <-done:
		if err != nil {
			tail := logb.String()
			if len(tail) > 1500 {
				tail = tail[len(tail)-1500:]
			}
			return nil, fmt.Errorf("child of scenario %s failed: %v: %s", sc.Name, err, tail)
		}
	case <-time.After(limit):
		cmd.Process.Kill()
		<-done
		return nil, fmt.Errorf("child of scenario %s exceeded %v", sc.Name, limit)
	}
	ob, err := os.ReadFile(outFile)
	if err != nil {
		return nil, err
	}
	res := &Result{}
	if err := json.Unmarshal(ob, res); err != nil {
		return nil, err
	}
	return res, nil
}

// SpawnAll runs the scenarios with at most par children at a time; results are in input order.
func SpawnAll(dir string, scs []*Scenario, par int) ([]*Result, []error) {
	out := make([]*Result, len(scs))
	errs := make([]error, len(scs))
	sem := make(chan struct{}, par)
	var wg sync.WaitGroup
	for i := range scs {
		wg.Add(1)
		sem <- struct{}{}
		go func(i int) {
			defer wg.Done()
			defer func() { <-sem }()
			out[i], errs[i] = Spawn(dir, scs[i])
		}(i)
	}
	wg.Wait()
	return out, errs
}

// EffectiveTimeoutMs is the deadline the property speaks of, computed from the call's arguments alone:
// the caller's context deadline if it has one, otherwise the per-call timeout, otherwise the configured one.
func EffectiveTimeoutMs(sc *Scenario, c CallSpec) int {
	switch c.Timeout {
	case "ctx", "percall":
		return c.TimeoutMs
	}
	if sc.Client.ProxyTimeoutMs > 0 || sc.Client.ProxyTimeoutSet {
		return sc.Client.ProxyTimeoutMs
	}
	return 3000
}
