// Package srv starts a real TarsGo application in-process (one per process: the framework keeps its
// application in package-level state) from a generated config file, with a caller-supplied
// dispatcher. Used by the end-to-end harnesses (C01, C05 network paths, C10, C12).
package srv

import (
	"context"
	"fmt"
	"net"
	"os"
	"path/filepath"
	"strings"
	"time"

	"github.com/TarsCloud/TarsGo/tars"
	"github.com/TarsCloud/TarsGo/tars/protocol/res/requestf"
)

// Dispatcher is what tars.AddServant expects as its first argument.
type Dispatcher interface {
	Dispatch(ctx context.Context, imp interface{}, req *requestf.RequestPacket, resp *requestf.ResponsePacket, withContext bool) error
}

// ServantDef binds an object name to its dispatcher and implementation.
type ServantDef struct {
	D   Dispatcher
	Imp interface{}
}

// Adapter describes one servant endpoint.
type Adapter struct {
	Obj   string // e.g. "App.Server.Obj"
	Proto string // tcp | udp
	Host  string
	Port  int
}

// Config of the in-process server; zero values mean framework defaults.
type Config struct {
	Adapters      []Adapter
	HandleTimeout int // ms, 0 = none
	MaxRoutine    int // worker pool size, 0 = goroutine per request
	QueueCap      int
	IdleTimeout   int // ms
	MaxPackageLen int
	Extra         map[string]string // further keys of /tars/application/server
	Servants      map[string]ServantDef // per-object dispatcher/implementation (overrides Start's arguments)
	// client section (the process's communicators): 0 / nil = the defaults below
	AsyncInvokeTimeout int               // ms, default 3000
	ClientExtra        map[string]string // further keys of /tars/application/client (e.g. objqueuemax)
	Dir           string            // scratch dir (config file, logs); created if empty
}

// FreePort returns a free TCP port on host (also used for UDP adapters).
func FreePort(host string) int {
	l, err := net.Listen("tcp", net.JoinHostPort(host, "0"))
	if err != nil {
		panic(err)
	}
	defer l.Close()
	return l.Addr().(*net.TCPAddr).Port
}

func (c *Config) render() string {
	var sb strings.Builder
	sb.WriteString("<tars>\n<application>\n<server>\napp=App\nserver=Server\nlocalip=127.0.0.1\nlogLevel=ERROR\n")
	fmt.Fprintf(&sb, "logpath=%s\ndatapath=%s\nbasepath=%s\n", c.Dir, c.Dir, c.Dir)
	if c.HandleTimeout > 0 {
		fmt.Fprintf(&sb, "handletimeout=%d\n", c.HandleTimeout)
	}
	fmt.Fprintf(&sb, "maxroutine=%d\n", c.MaxRoutine)
	if c.QueueCap > 0 {
		fmt.Fprintf(&sb, "queuecap=%d\n", c.QueueCap)
	}
	if c.IdleTimeout > 0 {
		fmt.Fprintf(&sb, "idletimeout=%d\n", c.IdleTimeout)
	}
	if c.MaxPackageLen > 0 {
		fmt.Fprintf(&sb, "maxPackageLength=%d\n", c.MaxPackageLen)
	}
	for k, v := range c.Extra {
		fmt.Fprintf(&sb, "%s=%s\n", k, v)
	}
	for i, a := range c.Adapters {
		fmt.Fprintf(&sb, "<App.Server.Adapter%d>\nendpoint=%s -h %s -p %d -t 60000\nservant=%s\nprotocol=tars\nthreads=2\n</App.Server.Adapter%d>\n", i, a.Proto, a.Host, a.Port, a.Obj, i)
	}
	ait := 3000
	if c.AsyncInvokeTimeout > 0 {
		ait = c.AsyncInvokeTimeout
	}
	fmt.Fprintf(&sb, "</server>\n<client>\nasync-invoke-timeout=%d\n", ait)
	for k, v := range c.ClientExtra {
		fmt.Fprintf(&sb, "%s=%s\n", k, v)
	}
	sb.WriteString("</client>\n</application>\n</tars>\n")
	return sb.String()
}

var runExited = make(chan struct{})

// Exited reports whether the application's Run has returned (it does so when an adapter cannot
// listen, e.g. because another process took the port between FreePort and the server's bind: the
// process then has no server of its own and whatever answers on that port is somebody else's).
func Exited() bool {
	select {
	case <-runExited:
		return true
	default:
		return false
	}
}

// Start configures and runs the application; imp is handed to the dispatcher unchanged.
// It returns once every TCP adapter accepts connections.
func Start(c *Config, d Dispatcher, imp interface{}, withContext bool) error {
	if c.Dir == "" {
		dir, err := os.MkdirTemp("", "verif-srv-")
		if err != nil {
			return err
		}
		c.Dir = dir
	}
	path := filepath.Join(c.Dir, "server.conf")
	if err := os.WriteFile(path, []byte(c.render()), 0o644); err != nil {
		return err
	}
	tars.ServerConfigPath = path
	tars.GetServerConfig() // must precede AddServant
	seen := map[string]bool{}
	for _, a := range c.Adapters {
		if seen[a.Obj] {
			continue
		}
		seen[a.Obj] = true
		dd, ii := d, imp
		if sd, ok := c.Servants[a.Obj]; ok {
			dd, ii = sd.D, sd.Imp
		}
		if withContext {
			tars.AddServantWithContext(dd, ii, a.Obj)
		} else {
			tars.AddServant(dd, ii, a.Obj)
		}
	}
	go func() {
		tars.Run()
		close(runExited)
	}()
	deadline := time.Now().Add(10 * time.Second)
	for _, a := range c.Adapters {
		if a.Proto != "tcp" {
			continue
		}
		for {
			conn, err := net.DialTimeout("tcp", net.JoinHostPort(a.Host, fmt.Sprint(a.Port)), 200*time.Millisecond)
			if err == nil {
				conn.Close()
				break
			}
			if time.Now().After(deadline) {
				return fmt.Errorf("adapter %s did not start: %v", a.Obj, err)
			}
			time.Sleep(20 * time.Millisecond)
		}
	}
	return nil
}
