package codecrun

import (
	"fmt"
	"github.com/TarsCloud/TarsGo/tars/protocol/codec"
	"math/rand"
	"reflect"
	"sort"
	"strings"

	"verifharness/common"
)

// C04Case: schema-evolution case (also the replay format).
type C04Case struct {
	Type    string `json:"type"`
	Variant string `json:"variant"` // unknown | absent | missing-required | reuse
	Seed    int64  `json:"seed"`
	Hex     string `json:"hex"`           // bytes handed to the decoder
	Old     string `json:"old,omitempty"` // previous value of a reused target ("" = fresh)
}

type seg struct {
	tag int
	b   []byte
}

// rebuild re-assembles a struct body from its parsed members, inserting well-formed unknown
// members (tags not in the schema) at the positions the ascending tag order allows, also inside
// nested struct members.
func (e *Engine) rebuild(s *Struct, fields []tlv, src []byte, rng *rand.Rand, depth int, inserted *int) []byte {
	known := map[int]*Field{}
	for i := range s.Fields {
		known[s.Fields[i].Tag] = &s.Fields[i]
	}
	var segs []seg
	for _, f := range fields {
		b := src[f.beg:f.end]
		if fd, ok := known[f.tag]; ok && fd.Ty.Kind == "t" && f.ty == 10 && depth < 3 && rng.Intn(2) == 0 {
			inner := e.rebuild(fd.Ty.St, f.kids, src, rng, depth+1, inserted)
			b = append(append(append([]byte{}, src[f.beg:f.body]...), inner...), wfHead(11, 0)...)
		}
		segs = append(segs, seg{f.tag, b})
	}
	n := 1 + rng.Intn(3)
	for i := 0; i < n; i++ {
		tag := []int{rng.Intn(15), rng.Intn(256), 15 + rng.Intn(241), 255, 0, 14, 15, 16}[rng.Intn(8)]
		if _, ok := known[tag]; ok {
			continue
		}
		dup := false
		for _, sg := range segs {
			if sg.tag == tag {
				dup = true
			}
		}
		if dup {
			continue
		}
		segs = append(segs, seg{tag, WFField(rng, wfKind(rng, 0), tag, 0)})
		*inserted++
	}
	sort.SliceStable(segs, func(i, j int) bool { return segs[i].tag < segs[j].tag })
	var out []byte
	for _, sg := range segs {
		out = append(out, sg.b...)
	}
	return out
}

func (e *Engine) decodeInto(ti TypeInfo, s *Struct, data []byte, oldSeed int64, reuse bool) (string, string) {
	tgt := ti.New()
	old := "fresh"
	if reuse {
		v := reflect.ValueOf(tgt).Elem()
		e.U.GenStruct(rand.New(rand.NewSource(oldSeed)), v, s, 0)
		old = StructText(v, s)
	}
	out, pos := Decode(tgt, data)
	return ImplAnswer(out, pos, reflect.ValueOf(tgt).Elem(), s), old
}

// staleClass says which kind of member kept a stale value (first differing member, descending into
// nested struct members); "" when every ABSENT member is at its default (differences in present
// members of a reused target are outside what C04 states).
func staleClass(s *Struct, got, want *vnode, fields []tlv) string {
	if got == nil || want == nil || len(got.elems) != len(want.elems) || len(got.elems) != len(s.Fields) {
		return "unclassified"
	}
	for i, f := range s.Fields {
		if got.elems[i].canon() == want.elems[i].canon() {
			continue
		}
		var here *tlv
		for j := range fields {
			if fields[j].tag == f.Tag {
				here = &fields[j]
			}
		}
		switch {
		case here != nil && f.Ty.Kind == "t" && here.ty == 10:
			if c := staleClass(f.Ty.St, got.elems[i], want.elems[i], here.kids); c != "" {
				return c
			}
		case here != nil:
			// present member: not covered by the property's reuse clause
		case f.Ty.Kind == "t":
			// absent nested struct: its members must all be at their defaults
			if c := staleClass(f.Ty.St, got.elems[i], want.elems[i], nil); c != "" {
				return c
			}
		case f.HasDflt:
			return "absent-member-with-explicit-default"
		default:
			return "absent-optional-member-without-explicit-default"
		}
	}
	return ""
}

func parseNode(s string) *vnode {
	p := &vparser{s: s}
	n, err := p.node()
	if err != nil {
		return nil
	}
	return n
}

func (e *Engine) RunC04(perType int) {
	type pending struct {
		ti     TypeInfo
		cs     C04Case
		data   []byte
		got    string // implementation answer
		expect string // "" = must be an error
		note   string
		fields []tlv
	}
	var lines []string
	var pend []pending
	lenient := RefDecoder{Strict: false}
	for _, cid := range e.cases(perType) {
		ti, seed := cid.ti, cid.seed
		s := e.St[ti.Name]
		{
			c, _ := e.genValue(ti, seed)
			gb, out := Encode(c)
			if out != "ok" {
				continue
			}
			fields, err := parseFields(gb)
			if err != nil {
				continue // reported by C03
			}
			rng := rand.New(rand.NewSource(seed ^ 0x5bd1e995))
			base, _ := e.decodeInto(ti, s, gb, 0, false)
			baseVal := ""
			fmt.Sscanf(base, "ok %s", &baseVal)
			add := func(variant string, data []byte, reuse bool, expect string, note string, pres []tlv) {
				got, old := e.decodeInto(ti, s, data, seed+1, reuse)
				cs := C04Case{Type: ti.Name, Variant: variant, Seed: seed, Hex: common.Hex(data)}
				if reuse {
					cs.Old = old
				}
				lines = append(lines, fmt.Sprintf("dec %s %s %s", s.Name, old, common.Hex(data)))
				pend = append(pend, pending{ti, cs, data, got, expect, note, pres})
			}
			// A: unknown members inserted
			ins := 0
			nb := e.rebuild(s, fields, gb, rng, 0, &ins)
			if ins > 0 && baseVal != "" {
				add("unknown", nb, false, "val "+baseVal, "decode without the unknown members", nil)
			}
			// B: a subset of optional members removed → defaults
			var kept []tlv
			var keptBytes []byte
			removed := 0
			for _, f := range fields {
				opt := false
				for _, fd := range s.Fields {
					if fd.Tag == f.tag && !fd.Req {
						opt = true
					}
				}
				if opt && rng.Intn(2) == 0 {
					removed++
					continue
				}
				kept = append(kept, f)
				keptBytes = append(keptBytes, gb[f.beg:f.end]...)
			}
			if removed > 0 {
				if want, err := lenient.interpStruct(s, kept); err == nil {
					add("absent", keptBytes, false, fmt.Sprintf("ok %s %d", want, len(keptBytes)), "absent optional members at their IDL defaults", kept)
					// D: the same into a reused target
					add("reuse", keptBytes, true, fmt.Sprintf("ok %s %d", want, len(keptBytes)), "reused target: absent optional members at their IDL defaults", kept)
				}
			}
			// B2: the optional members INSIDE a nested struct member removed (all of them: the nested
			// struct then arrives as StructBegin directly followed by StructEnd, what an older writer
			// that knows none of the members sends; or a random half)
			for fi, f := range fields {
				var fd *Field
				for i := range s.Fields {
					if s.Fields[i].Tag == f.tag {
						fd = &s.Fields[i]
					}
				}
				if fd == nil || fd.Ty.Kind != "t" || f.ty != 10 || fd.Ty.St == nil {
					continue
				}
				for _, all := range []bool{true, false} {
					var keptKids []tlv
					inner := append([]byte{}, gb[f.beg:f.body]...)
					dropped := 0
					for _, k := range f.kids {
						opt := false
						for _, kfd := range fd.Ty.St.Fields {
							if kfd.Tag == k.tag && !kfd.Req {
								opt = true
							}
						}
						if opt && (all || rng.Intn(2) == 0) {
							dropped++
							continue
						}
						keptKids = append(keptKids, k)
						inner = append(inner, gb[k.beg:k.end]...)
					}
					if dropped == 0 {
						continue
					}
					inner = append(inner, wfHead(11, 0)...)
					nf := f
					nf.kids = keptKids
					mod := append(append([]tlv{}, fields[:fi]...), nf)
					mod = append(mod, fields[fi+1:]...)
					nb := append(append(append([]byte{}, gb[:f.beg]...), inner...), gb[f.end:]...)
					if want, err := lenient.interpStruct(s, mod); err == nil {
						add("absent", nb, false, fmt.Sprintf("ok %s %d", want, len(nb)), "optional members of a nested struct absent (nested struct possibly empty)", mod)
						add("reuse", nb, true, fmt.Sprintf("ok %s %d", want, len(nb)), "reused target: optional members of a nested struct absent", mod)
					}
				}
			}
			// C: one required member removed → error
			var reqIdx []int
			for j, f := range fields {
				for _, fd := range s.Fields {
					if fd.Tag == f.tag && fd.Req {
						reqIdx = append(reqIdx, j)
					}
				}
			}
			if len(reqIdx) > 0 {
				drop := reqIdx[rng.Intn(len(reqIdx))]
				var b []byte
				for j, f := range fields {
					if j != drop {
						b = append(b, gb[f.beg:f.end]...)
					}
				}
				add("missing-required", b, false, "", "a required member is absent", nil)
			}
			// D': full encoding into a reused target
			if baseVal != "" {
				add("reuse", gb, true, fmt.Sprintf("ok %s %d", baseVal, len(gb)), "reused target, complete encoding", fields)
			}
		}
	}
	ans, err := e.M.Batch(lines)
	if err != nil {
		e.Res.Fatal(e.Opts.Out, err)
	}
	for i, p := range pend {
		s := e.St[p.ti.Name]
		key := p.cs.Variant + "/" + p.ti.Name + "/" + p.cs.Hex
		if len(key) > 160 {
			key = key[:160]
		}
		e.Res.Count(key, p.cs.Variant+":"+p.ti.Name, len(p.data) > 0)
		if i%211 == 0 {
			e.Res.Sample(map[string]string{"type": p.ti.Name, "variant": p.cs.Variant, "bytes": trunc(p.cs.Hex), "impl": trunc(p.got)})
		}
		// oracle
		if p.expect == "" {
			if p.got != "err" {
				e.Res.Violate(common.Violation{Signature: "C04:missing-required-accepted:" + p.ti.Name, What: "decoding succeeded although " + p.note,
					Case: common.Case{Stream: "schema", Op: p.cs, Impl: trunc(p.got)}})
			}
		} else if strings.HasPrefix(p.expect, "val ") {
			// only the value is compared: members after the last known one are left unread by ReadFrom
			var gv string
			fmt.Sscanf(p.got, "ok %s", &gv)
			if gv != p.expect[4:] {
				e.Res.Violate(common.Violation{Signature: "C04:unknown-changes-result:" + p.ti.Name, What: "decoded result differs from " + p.note,
					Case: common.Case{Stream: "schema", Op: p.cs, Impl: trunc(p.got), Note: "expected " + trunc(p.expect)}})
			}
		} else if p.got != p.expect {
			sig := "C04:" + p.cs.Variant + "-changes-result:" + p.ti.Name
			if p.cs.Variant == "reuse" {
				var gv, wv string
				fmt.Sscanf(p.got, "ok %s", &gv)
				fmt.Sscanf(p.expect, "ok %s", &wv)
				if gv != "" {
					c := staleClass(s, parseNode(gv), parseNode(wv), p.fields)
					if c == "" {
						e.Res.TracesValidated++
						goto corr
					}
					sig = "C04:stale-field:" + c
				}
			}
			e.Res.Violate(common.Violation{Signature: sig, What: "decoded result differs from " + p.note,
				Case: common.Case{Stream: "schema", Op: p.cs, Impl: trunc(p.got), Note: "expected " + trunc(p.expect)}})
		}
		e.Res.TracesValidated++
	corr:
		// correspondence
		if ans[i] == common.NoModel {
			continue
		}
		if cm := CanonModelAnswer(ans[i], len(p.data)); cm != p.got {
			e.Res.Diverge(common.Case{Stream: "schema", Op: p.cs, Model: trunc(cm), Impl: trunc(p.got)})
		}
	}
}

func init() {
	Runners["C04"] = func(e *Engine) {
		n := 80
		if e.Opts.Thorough() {
			n = 1500
		}
		if e.Opts.Replay != "" {
			var probe struct {
				Kind string `json:"kind"`
			}
			if common.ReadReplay(e.Opts.Replay, &probe) == nil && probe.Kind == "structend-lookahead" {
				e.structEndLookahead()
				return
			}
		}
		e.RunC04(n)
		if e.Opts.Replay == "" {
			e.structEndLookahead()
		}
		e.Res.Rule = "per generated struct type and random value: (unknown) 1–3 well-formed unknown members of random wire type (incl. nested struct/list/map/simple-list, " +
			"extended tags) inserted where tag order allows, also inside nested struct members; (absent) random subsets of optional members removed; " +
			"(missing-required) one required member removed; (reuse) decoding into a target holding another random value; non-trivial = distinct (variant,type,bytes)"
	}
}

// structEndLookahead: what a generated ReadBlock does for a nested struct whose optional members are
// all absent — in particular the struct that arrives as StructBegin directly followed by StructEnd,
// as an older writer that knows none of the members sends it. Every optional read (any member tag,
// tag 0 included: the end marker itself is encoded with tag 0) must report "absent" without error and
// without consuming the end marker; SkipToStructEnd must then consume exactly the marker. Driven on
// the codec primitives directly (oracle on the implementation only).
func (e *Engine) structEndLookahead() {
	type rd func(r *codec.Reader, tag byte) (changed bool, err error)
	readers := map[string]rd{
		"int8": func(r *codec.Reader, t byte) (bool, error) {
			v := int8(7)
			err := r.ReadInt8(&v, t, false)
			return v != 7, err
		},
		"int32": func(r *codec.Reader, t byte) (bool, error) {
			v := int32(7)
			err := r.ReadInt32(&v, t, false)
			return v != 7, err
		},
		"int64": func(r *codec.Reader, t byte) (bool, error) {
			v := int64(7)
			err := r.ReadInt64(&v, t, false)
			return v != 7, err
		},
		"uint16": func(r *codec.Reader, t byte) (bool, error) {
			v := uint16(7)
			err := r.ReadUint16(&v, t, false)
			return v != 7, err
		},
		"bool": func(r *codec.Reader, t byte) (bool, error) {
			v := true
			err := r.ReadBool(&v, t, false)
			return !v, err
		},
		"string": func(r *codec.Reader, t byte) (bool, error) {
			v := "dflt"
			err := r.ReadString(&v, t, false)
			return v != "dflt", err
		},
		"f64": func(r *codec.Reader, t byte) (bool, error) {
			v := 1.5
			err := r.ReadFloat64(&v, t, false)
			return v != 1.5, err
		},
		"skipto-list": func(r *codec.Reader, t byte) (bool, error) {
			have, err := r.SkipTo(codec.LIST, t, false)
			return have, err
		},
		"skiptonocheck": func(r *codec.Reader, t byte) (bool, error) {
			have, _, err := r.SkipToNoCheck(t, false)
			return have, err
		},
	}
	for _, outerTag := range []byte{0, 3, 15, 200} {
		for _, tags := range [][]byte{{0}, {0, 1}, {1}, {0, 5, 14, 15, 16, 255}, {15}, {200, 255}} {
			for name, f := range readers {
				// StructBegin(outerTag) StructEnd, then a sentinel member of the enclosing struct
				data := append(append(wfHead(10, int(outerTag)), wfHead(11, 0)...), 0x5a)
				r := codec.NewReader(data)
				bad := ""
				func() {
					defer func() {
						if p := recover(); p != nil {
							bad = fmt.Sprintf("panic %v", p)
						}
					}()
					if have, err := r.SkipTo(codec.StructBegin, outerTag, true); err != nil || !have {
						bad = fmt.Sprintf("SkipTo(StructBegin) failed: %v", err)
						return
					}
					for _, t := range tags {
						changed, err := f(r, t)
						if err != nil {
							bad = fmt.Sprintf("optional %s member at tag %d of an empty nested struct: error %v", name, t, err)
							return
						}
						if changed {
							bad = fmt.Sprintf("optional %s member at tag %d of an empty nested struct reported present / changed its target", name, t)
							return
						}
					}
					if err := r.SkipToStructEnd(); err != nil {
						bad = fmt.Sprintf("SkipToStructEnd after absent members: %v", err)
						return
					}
					if rest := r.Next(1 << 30); len(rest) != 1 || rest[0] != 0x5a {
						bad = fmt.Sprintf("after the empty nested struct %d bytes are left, expected the 1 sentinel byte", len(rest))
					}
				}()
				e.Res.Count(fmt.Sprintf("lookahead/%d/%v/%s", outerTag, tags, name), "structend-lookahead", true)
				e.Res.TracesValidated++
				if bad != "" {
					e.Res.Violate(common.Violation{Signature: "C04:absent-optional-error:empty-nested-struct", What: bad,
						Case: common.Case{Stream: "schema", Op: map[string]interface{}{"kind": "structend-lookahead", "outer_tag": outerTag, "tags": fmt.Sprint(tags), "reader": name, "hex": common.Hex(data)}, Impl: bad}})
					return
				}
			}
		}
	}
}
