package codecrun

import (
	"fmt"
	"os"
	"os/exec"
	"path/filepath"
	"regexp"
	"strings"
	"time"

	"verifharness/common"
	"verifharness/idlgen"
)

// Runner is implemented per property (c03.go, c04.go, …).
var Runners = map[string]func(e *Engine){}

// Main runs property `prop` over the given types (in the child built by Launch, or directly).
func Main(prop string, types []TypeInfo) {
	o := common.ParseOpts()
	e, err := NewEngine(prop, o, types)
	if err != nil {
		r := common.NewResult(prop, o)
		r.Fatal(o.Out, err)
	}
	defer e.M.Close()
	run, ok := Runners[prop]
	if !ok {
		e.Res.Fatal(o.Out, fmt.Errorf("no runner for %s", prop))
	}
	run(e)
	if err := e.Res.Write(o.Out); err != nil {
		panic(err)
	}
}

func repoDir() string {
	if d := os.Getenv("VERIF_REPO"); d != "" {
		return d
	}
	return "/repo"
}

func goEnv() []string {
	return append(os.Environ(), "GOFLAGS=-mod=mod", "GOPROXY=off", "GOSUMDB=off", "GOTOOLCHAIN=local", "CGO_ENABLED=0")
}

func runCmd(dir string, timeout time.Duration, name string, args ...string) (string, error) {
	cmd := exec.Command(name, args...)
	cmd.Dir = dir
	cmd.Env = goEnv()
	done := make(chan struct{})
	var out []byte
	var err error
	go func() { out, err = cmd.CombinedOutput(); close(done) }()
	select {
	case <-done:
		return string(out), err
	case <-time.After(timeout):
		if cmd.Process != nil {
			cmd.Process.Kill()
		}
		<-done
		return string(out), fmt.Errorf("timeout after %v", timeout)
	}
}

var structRe = regexp.MustCompile(`(?m)^type (\w+) struct \{`)

// Launch generates random IDL modules, compiles them with the working tree's tars2go, builds a
// child harness containing the framework structs AND the generated ones, and runs it with the
// same command line. With `-extra nogen` (or when generation is impossible) only the framework
// structs are used and the reason is reported as a harness error (a broken tie), never silently.
func Launch(prop string, fw func() []TypeInfo) {
	o := common.ParseOpts()
	if strings.Contains(o.Extra, "nogen") {
		runDirect(prop, o, fw())
		return
	}
	res := common.NewResult(prop, o)
	tmp, err := os.MkdirTemp("", "verif-"+strings.ToLower(prop)+"-")
	if err != nil {
		res.Fatal(o.Out, err)
	}
	defer os.RemoveAll(tmp)
	repo := repoDir()
	// 1. tars2go from the working tree
	if out, err := runCmd(filepath.Join(repo, "tars/tools/tars2go"), 5*time.Minute, "go", "build", "-o", filepath.Join(tmp, "tars2go"), "."); err != nil {
		res.Fatal(o.Out, fmt.Errorf("tars2go does not build: %v\n%s", err, out))
	}
	// 2. IDL modules
	nmod := 3
	if o.Thorough() {
		nmod = 20
	}
	rng := o.Rand()
	var pkgs []string
	var regs []string
	for i := 0; i < nmod; i++ {
		name := fmt.Sprintf("Gen%d", i)
		idl := idlgen.Module(name, rng.Int63(), idlgen.Options{Structs: 4, AvoidOptionalByteNoDefault: !strings.Contains(o.Extra, "bytenodefault")})
		f := filepath.Join(tmp, name+".tars")
		if err := os.WriteFile(f, []byte(idl), 0o644); err != nil {
			res.Fatal(o.Out, err)
		}
		out, err := runCmd(tmp, 60*time.Second, filepath.Join(tmp, "tars2go"), "-without-trace=true", "-add-servant=false", "-outdir=out", "-module=genmod/out", name+".tars")
		if err != nil {
			keep := filepath.Join("/verif/out", "failed-"+name+".tars")
			os.WriteFile(keep, []byte(idl), 0o644)
			res.Violate(common.Violation{Signature: prop + ":generator-rejects-valid-idl:tars2go", What: "tars2go failed on a grammar-generated IDL module: " + strings.TrimSpace(lastLines(out, 3)),
				Case: common.Case{Stream: "idl", Op: map[string]string{"idl": idl}, Impl: lastLines(out, 5)}})
			continue
		}
		src, err := os.ReadFile(filepath.Join(tmp, "out", name, name+".go"))
		if err != nil {
			res.Fatal(o.Out, fmt.Errorf("generated file missing: %v (%s)", err, out))
		}
		pkgs = append(pkgs, name)
		for _, m := range structRe.FindAllStringSubmatch(string(src), -1) {
			regs = append(regs, fmt.Sprintf(`{Name: "%s.%s", New: func() codecrun.Codec { return new(%s.%s) }},`, name, m[1], name, m[1]))
		}
	}
	// 3. child module
	var mb strings.Builder
	mb.WriteString("package main\n\nimport (\n\t\"os\"\n\t\"verifharness/codecrun\"\n\t\"verifharness/fwtypes\"\n")
	for _, p := range pkgs {
		fmt.Fprintf(&mb, "\t%s \"genmod/out/%s\"\n", p, p)
	}
	mb.WriteString(")\n\nfunc main() {\n\ttypes := append(fwtypes.Types(), []codecrun.TypeInfo{\n")
	for _, r := range regs {
		mb.WriteString("\t\t" + r + "\n")
	}
	mb.WriteString("\t}...)\n\tcodecrun.Main(os.Getenv(\"VERIF_PROP\"), types)\n}\n")
	os.WriteFile(filepath.Join(tmp, "main.go"), []byte(mb.String()), 0o644)
	gomod := fmt.Sprintf("module genmod\n\ngo 1.23\n\nrequire (\n\tgithub.com/TarsCloud/TarsGo v0.0.0\n\tverifharness v0.0.0\n)\n\nreplace github.com/TarsCloud/TarsGo => %s\n\nreplace verifharness => /verif/harness\n", repo)
	os.WriteFile(filepath.Join(tmp, "go.mod"), []byte(gomod), 0o644)
	if sum, err := os.ReadFile(filepath.Join(repo, "go.sum")); err == nil {
		os.WriteFile(filepath.Join(tmp, "go.sum"), sum, 0o644)
	}
	if out, err := runCmd(tmp, 10*time.Minute, "go", "build", "-tags", "verif", "-o", "child", "."); err != nil {
		res.Violate(common.Violation{Signature: prop + ":generated-code-does-not-compile:tars2go", What: "code emitted by tars2go for grammar-generated IDL does not compile: " + lastLines(out, 6),
			Case: common.Case{Stream: "idl", Op: map[string]interface{}{"modules": pkgs}, Impl: lastLines(out, 12)}})
		res.Write(o.Out)
		os.Exit(0)
	}
	// 4. run the child with the same arguments
	cmd := exec.Command(filepath.Join(tmp, "child"), os.Args[1:]...)
	cmd.Env = append(os.Environ(), "VERIF_PROP="+prop, "VERIF_CHILD=1")
	cmd.Stdout = os.Stdout
	cmd.Stderr = os.Stderr
	err = cmd.Run()
	if len(res.Violations) > 0 {
		// merge launcher-level violations into the child's result file
		mergeViolations(o.Out, res)
	}
	if err != nil {
		if ee, ok := err.(*exec.ExitError); ok {
			os.Exit(ee.ExitCode())
		}
		res.Fatal(o.Out, err)
	}
}

func runDirect(prop string, o *common.Opts, types []TypeInfo) {
	e, err := NewEngine(prop, o, types)
	if err != nil {
		r := common.NewResult(prop, o)
		r.Fatal(o.Out, err)
	}
	defer e.M.Close()
	Runners[prop](e)
	if err := e.Res.Write(o.Out); err != nil {
		panic(err)
	}
}

func lastLines(s string, n int) string {
	ls := strings.Split(strings.TrimSpace(s), "\n")
	if len(ls) > n {
		ls = ls[len(ls)-n:]
	}
	return strings.Join(ls, "\n")
}

func mergeViolations(path string, extra *common.Result) {
	if path == "" {
		return
	}
	r, err := common.LoadResult(path)
	if err != nil {
		return
	}
	r.Violations = append(r.Violations, extra.Violations...)
	for k, v := range extra.Histogram {
		r.Histogram[k] += v
	}
	r.WriteRaw(path)
}
