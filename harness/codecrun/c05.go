package codecrun

import (
	"encoding/binary"
	"fmt"
	"math/rand"
	"os"
	"os/exec"
	"reflect"
	"runtime"
	"strings"
	"syscall"
	"time"

	"verifharness/common"
)

// C05Case: one hostile input (also the replay format).
type C05Case struct {
	Type  string `json:"type"`
	Kind  string `json:"kind"`
	Hex   string `json:"hex,omitempty"`   // the input (omitted when huge; rebuilt from Bomb)
	Bomb  string `json:"bomb,omitempty"`  // generator of a large input: "<kind>:<n>"
	Entry string `json:"entry,omitempty"` // decode entry point: readfrom (default)
}

// allocation bound of the property: a fixed multiple of the input length
const allocK = 1024
const allocC = 1 << 20

// measureAlloc: whether measureDecode reads the allocation counters (a stop-the-world operation whose
// cost grows with the heap; the thorough tier measures every case whose kind is about lengths or
// counts and one in eight of the others)
var measureAlloc = true

func measureDecode(target Codec, data []byte) (outcome string, pos int, alloc uint64) {
	var m0, m1 runtime.MemStats
	if measureAlloc {
		runtime.ReadMemStats(&m0)
	}
	// a decoder that does not terminate cannot be stopped from outside: it runs in its own goroutine
	// and is given up after hangAfter (outcome "hang"; the caller reports and ends the run)
	type res struct {
		o string
		p int
	}
	ch := make(chan res, 1)
	go func() {
		o, p := Decode(target, data)
		ch <- res{o, p}
	}()
	tm := time.NewTimer(hangAfter)
	select {
	case r := <-ch:
		tm.Stop()
		outcome, pos = r.o, r.p
	case <-tm.C:
		return "hang", 0, 0
	}
	if !measureAlloc {
		return outcome, pos, 0
	}
	runtime.ReadMemStats(&m1)
	return outcome, pos, m1.TotalAlloc - m0.TotalAlloc
}

// hangAfter: a decode of a few hundred bytes takes microseconds
const hangAfter = 4 * time.Second

// buildBomb builds large structured inputs.
func buildBomb(spec string) []byte {
	var kind string
	var n int
	fmt.Sscanf(strings.Replace(spec, ":", " ", 1), "%s %d", &kind, &n)
	switch kind {
	case "struct-nest": // n nested StructBegin heads with tag 0
		return bytesRepeat([]byte{0x0A}, n)
	case "list-nest": // LIST of one LIST of one LIST …
		return bytesRepeat([]byte{0x09, 0x00, 0x01}, n)
	case "map-nest":
		return bytesRepeat([]byte{0x08, 0x00, 0x01, 0x0C}, n) // map{0: map{0: …}} keys are zero ints; values follow
	case "list-count": // a LIST at tag t announcing n elements and providing none: "list-count:n" uses tag from Type at run time
		return nil
	}
	return nil
}

func bytesRepeat(b []byte, n int) []byte {
	out := make([]byte, 0, len(b)*n)
	for i := 0; i < n; i++ {
		out = append(out, b...)
	}
	return out
}

// hostileFor derives hostile inputs from a valid encoding.
func (e *Engine) hostileFor(s *Struct, gb []byte, fields []tlv, rng *rand.Rand) []C05Case {
	var out []C05Case
	add := func(kind string, b []byte) {
		out = append(out, C05Case{Type: s.Name, Kind: kind, Hex: common.Hex(b)})
	}
	cp := func() []byte { return append([]byte{}, gb...) }
	if len(gb) > 0 {
		for i := 0; i < 4; i++ {
			b := cp()
			for k := 0; k <= rng.Intn(3); k++ {
				b[rng.Intn(len(b))] ^= 1 << uint(rng.Intn(8))
			}
			add("bitflip", b)
		}
		b := cp()
		b[rng.Intn(len(b))] = byte(rng.Intn(256))
		add("byte-replace", b)
		add("truncate", gb[:rng.Intn(len(gb))])
		// type nibble substitution on a head
		if len(fields) > 0 {
			f := fields[rng.Intn(len(fields))]
			b := cp()
			b[f.beg] = b[f.beg]&0xF0 | byte(rng.Intn(16))
			add("type-nibble", b)
		}
	}
	// embedded lengths replaced by hostile values
	var lens []tlv
	var walk func(fs []tlv)
	walk = func(fs []tlv) {
		for _, f := range fs {
			if f.lenEnd > f.lenBeg {
				lens = append(lens, f)
			}
			walk(f.kids)
		}
	}
	walk(fields)
	for _, f := range lens {
		for _, nl := range []int64{-1, -2147483648, 1 << 22, int64(len(gb)) + 1} {
			var lb []byte
			switch f.ty {
			case 6:
				continue
			case 7:
				lb = binary.BigEndian.AppendUint32(nil, uint32(nl))
			default:
				lb = wfInt(nl, 0)
			}
			b := append(append(append([]byte{}, gb[:f.lenBeg]...), lb...), gb[f.lenEnd:]...)
			add(fmt.Sprintf("length:%d:wire%d", nl, f.ty), b)
		}
	}
	// malformed UNKNOWN members (they are skipped, not read): a tag the schema does not have, placed
	// where tag order allows, whose embedded length/count is negative or far too large. Small negative
	// lengths matter: a skip that moves the reader backwards re-reads its own head for ever.
	{
		known := map[int]bool{}
		for _, fd := range s.Fields {
			known[fd.Tag] = true
		}
		prev := -1
		type gap struct{ at, tag int }
		var gaps []gap
		for _, f := range fields {
			for u := prev + 1; u < f.tag && u < 256; u++ {
				if !known[u] {
					gaps = append(gaps, gap{f.beg, u})
					break
				}
			}
			prev = f.tag
		}
		if len(gaps) > 0 {
			ins := func(kind string, g gap, field []byte) {
				b := append(append(append([]byte{}, gb[:g.at]...), field...), gb[g.at:]...)
				add(kind, b)
			}
			for k := 0; k < 3; k++ {
				g := gaps[rng.Intn(len(gaps))]
				l := int64(-1 - rng.Intn(9))
				ins(fmt.Sprintf("unknown-simplelist-len:%d", l), g, append(append(wfHead(13, g.tag), wfHead(0, 0)...), wfInt(l, 0)...))
			}
			g := gaps[rng.Intn(len(gaps))]
			ins("unknown-simplelist-len:huge", g, append(append(wfHead(13, g.tag), wfHead(0, 0)...), wfInt(1<<30, 0)...))
			g = gaps[rng.Intn(len(gaps))]
			ins("unknown-list-count:negative", g, append(wfHead(9, g.tag), wfInt(int64(-1-rng.Intn(5)), 0)...))
			g = gaps[rng.Intn(len(gaps))]
			ins("unknown-map-count:negative", g, append(wfHead(8, g.tag), wfInt(int64(-1-rng.Intn(5)), 0)...))
			g = gaps[rng.Intn(len(gaps))]
			ins("unknown-string4-len:huge", g, append(wfHead(7, g.tag), 0xff, 0xff, 0xff, byte(0xf0+rng.Intn(16))))
			// a skipped LIST / MAP announcing 2^31-1 elements with the input ending inside it (alone and
			// nested three deep): the skipper must stop at the end of the input, not count down
			g = gaps[rng.Intn(len(gaps))]
			hugeList := append(wfHead(9, g.tag), wfInt(0x7fffffff, 0)...)
			add("unknown-list-count:huge-truncated", append(append([]byte{}, gb[:g.at]...), hugeList...))
			nested := append([]byte{}, hugeList...)
			for k := 0; k < 2; k++ {
				nested = append(nested, append(wfHead(9, 0), wfInt(0x7fffffff, 0)...)...)
			}
			add("unknown-list-count:huge-nested-truncated", append(append([]byte{}, gb[:g.at]...), nested...))
			hugeMap := append(append(wfHead(8, g.tag), wfInt(0x3fffffff, 0)...), append(wfHead(8, 0), wfInt(0x3fffffff, 0)...)...)
			add("unknown-map-count:huge-nested-truncated", append(append([]byte{}, gb[:g.at]...), hugeMap...))
			g = gaps[rng.Intn(len(gaps))]
			inner := append(append(wfHead(13, 3), wfHead(0, 0)...), wfInt(int64(-1-rng.Intn(9)), 0)...)
			ins("unknown-struct-with-bad-simplelist", g, append(append(wfHead(10, g.tag), inner...), wfHead(11, 0)...))
		}
	}
	// a byte vector sent as a LIST with a negative count / an array with one element too many
	for _, f := range fields {
		for _, fd := range s.Fields {
			if fd.Tag != f.tag {
				continue
			}
			if fd.Ty.Kind == "v" {
				b := append(append(append([]byte{}, gb[:f.beg]...), append(wfHead(9, f.tag), wfInt(-1, 0)...)...), gb[f.end:]...)
				add("list-negative-count", b)
			}
			if fd.Ty.Kind == "a" && f.ty == 9 {
				extra := append(wfHead(9, f.tag), wfInt(int64(fd.Ty.N+1), 0)...)
				for k := 0; k <= fd.Ty.N; k++ {
					extra = append(extra, wfHead(12, 0)...)
				}
				b := append(append(append([]byte{}, gb[:f.beg]...), extra...), gb[f.end:]...)
				add("array-one-too-many", b)
			}
		}
	}
	// random bytes
	for i := 0; i < 3; i++ {
		b := make([]byte, rng.Intn(48))
		rng.Read(b)
		add("random", b)
	}
	// moderate nesting bombs (in-process; the deep ones run in child processes)
	for _, k := range []string{"struct-nest:2000", "list-nest:700", "map-nest:500"} {
		out = append(out, C05Case{Type: s.Name, Kind: "nest", Bomb: k})
	}
	return out
}

func (c C05Case) bytes() []byte {
	if c.Bomb != "" {
		return buildBomb(c.Bomb)
	}
	b, _ := unhex(c.Hex)
	return b
}

func panicSite(outcome string) string {
	return strings.TrimPrefix(PanicClass(outcome), "panic:")
}

// RunC05: decoder totality for every registered generated struct.
func (e *Engine) RunC05(perType int) {
	var lines []string
	type pending struct {
		ti TypeInfo
		cs C05Case
		b  []byte
	}
	var pend []pending
	replayCase := C05Case{}
	if e.Opts.Replay != "" {
		if err := common.ReadReplay(e.Opts.Replay, &replayCase); err != nil {
			e.Res.Fatal(e.Opts.Out, err)
		}
	}
	// the cases are judged in batches (the thorough tier has millions of them)
	stopped := false
	flush := func() {
		if stopped || len(pend) == 0 {
			pend, lines = pend[:0], lines[:0]
			return
		}
		ans, err := e.M.Batch(lines)
		if err != nil {
			e.Res.Fatal(e.Opts.Out, err)
		}
		for i, p := range pend {
			s := e.St[p.ti.Name]
			tgt := p.ti.New()
			measureAlloc = !e.Opts.Thorough() || i%8 == 0 || strings.Contains(p.cs.Kind, "len") || strings.Contains(p.cs.Kind, "count") || strings.Contains(p.cs.Kind, "array")
			out, pos, alloc := measureDecode(tgt, p.b)
			if out == "hang" {
				small := p.cs
				if len(small.Hex) > 4000 {
					small.Hex = small.Hex[:4000]
				}
				e.Res.Violate(common.Violation{Signature: "C05:hang:generated-ReadFrom", What: fmt.Sprintf("decoding %d hostile bytes did not return within %v", len(p.b), hangAfter),
					Case: common.Case{Stream: "schema", Op: small, Impl: out}})
				// the decoder is still spinning in its goroutine (and still writing to tgt): end the stream
				stopped = true
				break
			}
			got := ImplAnswer(out, pos, reflect.ValueOf(tgt).Elem(), s)
			cls := "err"
			if out == "ok" {
				cls = "ok"
			} else if out != "err" {
				cls = PanicClass(out)
			}
			kind := p.cs.Kind
			if j := strings.Index(kind, ":"); j > 0 {
				kind = kind[:j]
			}
			key := p.ti.Name + "/" + common.Hex(p.b)
			if len(key) > 160 {
				key = key[:160]
			}
			e.Res.Count(key, kind+":"+cls, len(p.b) > 0)
			if i%1499 == 0 {
				e.Res.Sample(map[string]interface{}{"type": p.ti.Name, "kind": p.cs.Kind, "bytes": trunc(common.Hex(p.b)), "impl": trunc(got), "alloc": alloc})
			}
			small := p.cs
			if len(small.Hex) > 4000 {
				small.Hex = small.Hex[:4000]
			}
			// oracle
			if strings.HasPrefix(cls, "panic") {
				e.Res.Violate(common.Violation{Signature: "C05:" + strings.Replace(cls, ":", "-", 1) + ":" + PanicLocus(out), What: "decoding hostile bytes panicked: " + out,
					Case: common.Case{Stream: "schema", Op: small, Impl: out}})
			}
			if alloc > uint64(allocK*len(p.b)+allocC) {
				e.Res.Violate(common.Violation{Signature: "C05:alloc-unbounded:generated-ReadFrom", What: fmt.Sprintf("decoding %d bytes allocated %d bytes (bound %d·len+%d)", len(p.b), alloc, allocK, allocC),
					Case: common.Case{Stream: "schema", Op: small, Impl: fmt.Sprint(alloc)}})
			}
			e.Res.TracesValidated++
			if ans[i] == common.NoModel {
				continue
			}
			if cm := CanonModelAnswer(ans[i], len(p.b)); cm != got {
				e.Res.Diverge(common.Case{Stream: "schema", Op: small, Model: trunc(cm), Impl: trunc(got)})
			}
		}
		pend, lines = pend[:0], lines[:0]
	}
	for _, ti := range e.Types {
		s := e.St[ti.Name]
		if e.Opts.Replay != "" {
			if replayCase.Type == s.Name || replayCase.Type == ti.Name {
				b := replayCase.bytes()
				pend = append(pend, pending{ti, replayCase, b})
				lines = append(lines, fmt.Sprintf("dec %s fresh %s", s.Name, common.Hex(b)))
			}
			continue
		}
		for i := 0; i < perType; i++ {
			seed := e.Rng.Int63()
			c, _ := e.genValue(ti, seed)
			gb, out := Encode(c)
			if out != "ok" {
				continue
			}
			fields, _ := parseFields(gb)
			rng := rand.New(rand.NewSource(seed ^ 0x3c6ef372))
			for _, cs := range e.hostileFor(s, gb, fields, rng) {
				b := cs.bytes()
				pend = append(pend, pending{ti, cs, b})
				lines = append(lines, fmt.Sprintf("dec %s fresh %s", s.Name, common.Hex(b)))
			}
			if len(pend) >= 20000 {
				flush()
			}
		}
	}
	flush()
	if e.Opts.Replay == "" {
		e.runFatalChildren()
	}
}

// ---- fatal cases: run in child processes (stack exhaustion and out-of-memory cannot be recovered) ----

// ChildDecode is the child entry: decode the bomb for the type named in VERIF_C05_CHILD and exit 0.
func (e *Engine) ChildDecode(spec string) {
	// spec = "<TypeName>|<bomb>"
	parts := strings.SplitN(spec, "|", 2)
	var lim syscall.Rlimit
	lim.Cur, lim.Max = 4<<30, 4<<30
	syscall.Setrlimit(syscall.RLIMIT_AS, &lim)
	for _, ti := range e.Types {
		if ti.Name != parts[0] {
			continue
		}
		b := buildBomb(parts[1])
		if strings.HasPrefix(parts[1], "hex:") {
			b, _ = unhex(parts[1][4:])
		}
		out, _ := Decode(ti.New(), b)
		fmt.Println("child outcome:", trunc(out))
		os.Exit(0)
	}
	os.Exit(7)
}

func (e *Engine) runFatalChildren() {
	self, err := os.Executable()
	if err != nil {
		e.Res.Note("cannot locate own executable: %v", err)
		return
	}
	// types to aim at: the request/response packets (network entry points) and one generated type
	// with a vector of structs (count bomb)
	var targets []TypeInfo
	for _, ti := range e.Types {
		if ti.Name == "requestf.RequestPacket" || ti.Name == "requestf.ResponsePacket" {
			targets = append(targets, ti)
		}
	}
	type job struct {
		ti   TypeInfo
		spec string
		kind string
	}
	var jobs []job
	depth := 6 << 20
	if e.Opts.Thorough() {
		depth = 10<<20 - 64
	}
	for _, ti := range targets {
		jobs = append(jobs, job{ti, fmt.Sprintf("struct-nest:%d", depth), "fatal-stack"})
	}
	// count bombs: first vector-of-non-byte member found
	for _, ti := range e.Types {
		s := e.St[ti.Name]
		done := false
		for _, f := range s.Fields {
			if f.Ty.Kind == "v" && f.Ty.Elem.Kind != "i8" && f.Ty.Elem.Kind != "u8" && !done {
				b := append(wfHead(9, f.Tag), wfInt(2147483647, 0)...)
				// required members with smaller tags must be present: put the count bomb first only
				// when this is the first member; otherwise prefix a valid encoding of the earlier ones
				if f.Tag == s.Fields[0].Tag {
					jobs = append(jobs, job{ti, "hex:" + common.Hex(b), "fatal-oom"})
					done = true
				}
			}
		}
		if len(jobs) >= len(targets)+3 {
			break
		}
	}
	for _, j := range jobs {
		cmd := exec.Command(self, os.Args[1:]...)
		cmd.Env = append(os.Environ(), "VERIF_C05_CHILD="+j.ti.Name+"|"+j.spec, "GOMEMLIMIT=2GiB")
		done := make(chan struct{})
		var out []byte
		var err error
		go func() { out, err = cmd.CombinedOutput(); close(done) }()
		timedOut := false
		select {
		case <-done:
		case <-time.After(180 * time.Second):
			cmd.Process.Kill()
			<-done
			timedOut = true
		}
		cs := C05Case{Type: j.ti.Name, Kind: j.kind, Bomb: j.spec}
		o := string(out)
		status := "exit0"
		switch {
		case timedOut:
			status = "hang"
		case strings.Contains(o, "stack exceeds") || strings.Contains(o, "stack overflow"):
			status = "fatal-stack"
		case strings.Contains(o, "out of memory") || strings.Contains(o, "cannot allocate"):
			status = "fatal-oom"
		case err != nil:
			status = "killed"
		}
		e.Res.Count("child/"+j.ti.Name+"/"+j.spec[:min(len(j.spec), 40)], "child:"+j.kind+":"+status, true)
		e.Res.TracesValidated++
		if status != "exit0" {
			e.Res.Violate(common.Violation{Signature: "C05:" + status + ":" + map[string]string{"fatal-stack": "skipField-recursion", "fatal-oom": "make-from-count", "hang": "decode", "killed": "decode"}[status],
				What: "a single input terminated the decoding process: " + lastLines(firstLines(o, 3), 3),
				Case: common.Case{Stream: "child", Op: cs, Impl: status}})
		} else if strings.Contains(o, "panic") {
			e.Res.Violate(common.Violation{Signature: "C05:panic-" + panicSite(o) + ":generated-ReadFrom", What: "decoding hostile bytes panicked: " + lastLines(o, 1),
				Case: common.Case{Stream: "child", Op: cs, Impl: lastLines(o, 1)}})
		}
	}
}

func firstLines(s string, n int) string {
	ls := strings.Split(strings.TrimSpace(s), "\n")
	if len(ls) > n {
		ls = ls[:n]
	}
	return strings.Join(ls, "\n")
}

func init() {
	Runners["C05"] = func(e *Engine) {
		if spec := os.Getenv("VERIF_C05_CHILD"); spec != "" {
			e.ChildDecode(spec)
			return
		}
		n := 12
		if e.Opts.Thorough() {
			n = 60 // the Lean driver answers about 1000 struct decodes per second
		}
		e.RunC05(n)
		e.Res.Rule = "per generated struct type and random valid encoding: bit flips, byte replacement, truncation, type-nibble substitution, every embedded length replaced by " +
			"{-1, -2^31, 2^22, len+1}, random bytes, moderate nesting bombs (struct/list/map) in-process with allocation measured (bound 1024·len+1MiB); " +
			"deep StructBegin nesting and 2^31-1 element counts in resource-limited child processes; non-trivial = distinct (type, input)"
	}
}

// HostileInput is a hostile byte string derived from valid encodings of a registered type.
type HostileInput struct {
	Kind  string
	Bytes []byte
}

// HostileInputs returns hostile inputs for the registered type `name` (n valid encodings are
// mutated); deep nesting bombs of the given depth are appended when depth > 0.
func (e *Engine) HostileInputs(name string, n int, depth int) []HostileInput {
	var out []HostileInput
	for _, ti := range e.Types {
		if ti.Name != name {
			continue
		}
		s := e.St[ti.Name]
		for i := 0; i < n; i++ {
			seed := e.Rng.Int63()
			c, _ := e.genValue(ti, seed)
			gb, o := Encode(c)
			if o != "ok" {
				continue
			}
			out = append(out, HostileInput{"valid", gb})
			fields, _ := parseFields(gb)
			rng := rand.New(rand.NewSource(seed ^ 0x3c6ef372))
			for _, cs := range e.hostileFor(s, gb, fields, rng) {
				out = append(out, HostileInput{cs.Kind, cs.bytes()})
			}
		}
		if depth > 0 {
			out = append(out, HostileInput{"deep-struct-nest", buildBomb(fmt.Sprintf("struct-nest:%d", depth))})
		}
	}
	return out
}
