package codecrun

import (
	"fmt"
	"math/rand"
	"reflect"
	"strings"

	"verifharness/common"
)

// Engine holds the universe of registered types and the model connection.
type Engine struct {
	U     *Universe
	Types []TypeInfo
	St    map[string]*Struct
	M     *common.Model
	Res   *common.Result
	Opts  *common.Opts
	Rng   *rand.Rand
}

func NewEngine(prop string, o *common.Opts, types []TypeInfo) (*Engine, error) {
	e := &Engine{U: NewUniverse(), Types: types, St: map[string]*Struct{}, Opts: o, Rng: o.Rand()}
	e.Res = common.NewResult(prop, o)
	e.Res.Streams = []string{"schema"}
	for _, t := range types {
		s, err := e.U.Add(reflect.TypeOf(t.New()).Elem())
		if err != nil {
			return nil, fmt.Errorf("schema of %s: %v", t.Name, err)
		}
		e.St[t.Name] = s
	}
	m, err := common.StartModel(o.Model, "schema")
	if err != nil {
		return nil, err
	}
	e.M = m
	ans, err := m.Batch(e.U.SchemaLines())
	if err != nil {
		return nil, err
	}
	for i, a := range ans {
		if a != "ok" && a != common.NoModel {
			return nil, fmt.Errorf("model rejected schema line %q: %s", e.U.SchemaLines()[i], a)
		}
	}
	return e, nil
}

type caseID struct {
	ti   TypeInfo
	seed int64
}

// cases enumerates (type, per-case seed) pairs: perType random ones per registered type, or exactly
// the one named by a replay file ({"type","seed"} inside its "case").
func (e *Engine) cases(perType int) []caseID {
	if e.Opts.Replay != "" {
		var c struct {
			Type string `json:"type"`
			Seed int64  `json:"seed"`
		}
		if err := common.ReadReplay(e.Opts.Replay, &c); err != nil {
			e.Res.Fatal(e.Opts.Out, err)
		}
		for _, ti := range e.Types {
			if ti.Name == c.Type {
				return []caseID{{ti, c.Seed}}
			}
		}
		e.Res.Fatal(e.Opts.Out, fmt.Errorf("replay: type %s is not registered in this run (generated types depend on -seed)", c.Type))
	}
	var out []caseID
	for _, ti := range e.Types {
		for i := 0; i < perType; i++ {
			out = append(out, caseID{ti, e.Rng.Int63()})
		}
	}
	return out
}

// C03Case is one round-trip case (also the replay format).
type C03Case struct {
	Type  string `json:"type"`
	Value string `json:"value"` // canonical value text of the generated value
	Seed  int64  `json:"seed"`  // per-case seed: the value is regenerated from it
}

// genValue regenerates the value of a case.
func (e *Engine) genValue(ti TypeInfo, seed int64) (Codec, reflect.Value) {
	c := ti.New()
	v := reflect.ValueOf(c).Elem()
	e.U.GenStruct(rand.New(rand.NewSource(seed)), v, e.St[ti.Name], 0)
	return c, v
}

func trunc(s string) string {
	if len(s) > 300 {
		return s[:300] + "…"
	}
	return s
}

// RunC03: round trip + wire conformance for every registered type.
func (e *Engine) RunC03(perType int) {
	type pending struct {
		ti    TypeInfo
		cs    C03Case
		gb    []byte
		maxm  int
		normT string
	}
	var lines []string
	var pend []pending
	for _, cid := range e.cases(perType) {
		ti, seed := cid.ti, cid.seed
		s := e.St[ti.Name]
		{
			c, v := e.genValue(ti, seed)
			text := StructText(v, s)
			cs := C03Case{Type: ti.Name, Value: trunc(text), Seed: seed}
			gb, out := Encode(c)
			if out != "ok" {
				e.Res.Violate(common.Violation{Signature: "C03:encode-failed:" + ti.Name, What: "WriteTo failed: " + out,
					Case: common.Case{Stream: "schema", Op: cs, Impl: out}})
				continue
			}
			// normalised expectation
			nc, nv := e.genValue(ti, seed)
			_ = nc
			Norm(nv, s)
			normT := StructText(nv, s)
			lines = append(lines, fmt.Sprintf("dec %s fresh %s", s.Name, common.Hex(gb)))
			lines = append(lines, fmt.Sprintf("enc %s %s", s.Name, text))
			pend = append(pend, pending{ti, cs, gb, MaxMapLen(v, &Ty{Kind: "t", St: s}), normT})
		}
	}
	ans, err := e.M.Batch(lines)
	if err != nil {
		e.Res.Fatal(e.Opts.Out, err)
	}
	strict := RefDecoder{Strict: true}
	for i, p := range pend {
		s := e.St[p.ti.Name]
		mdec, menc := ans[2*i], ans[2*i+1]
		key := p.ti.Name + "/" + common.Hex(p.gb)
		if len(key) > 160 {
			key = key[:160]
		}
		e.Res.Count(key, "rt:"+p.ti.Name, len(p.gb) > 0)
		if i%97 == 0 {
			e.Res.Sample(map[string]string{"type": p.ti.Name, "value": p.cs.Value, "bytes": trunc(common.Hex(p.gb))})
		}
		// --- oracle on the implementation ---
		// (1) Go → Go round trip into a fresh struct
		tgt := p.ti.New()
		out, pos := Decode(tgt, p.gb)
		got := ImplAnswer(out, pos, reflect.ValueOf(tgt).Elem(), s)
		want := fmt.Sprintf("ok %s %d", p.normT, len(p.gb))
		if got != want {
			e.Res.Violate(common.Violation{Signature: "C03:round-trip:" + p.ti.Name, What: "decode(encode(v)) differs from v",
				Case: common.Case{Stream: "schema", Op: p.cs, Impl: trunc(got), Note: "expected " + trunc(want)}})
		}
		// (2) independent strict reference decoder
		rt, rerr := strict.Decode(s, p.gb)
		if rerr != nil {
			e.Res.Violate(common.Violation{Signature: "C03:not-well-formed:" + p.ti.Name, What: "encoding rejected by the strict reference decoder: " + rerr.Error(),
				Case: common.Case{Stream: "schema", Op: p.cs, Impl: trunc(common.Hex(p.gb))}})
		} else if rt != p.normT {
			e.Res.Violate(common.Violation{Signature: "C03:reference-mismatch:" + p.ti.Name, What: "reference decoder maps the bytes to a different value",
				Case: common.Case{Stream: "schema", Op: p.cs, Impl: trunc(rt), Note: "expected " + trunc(p.normT)}})
		}
		e.Res.TracesValidated++
		// --- correspondence with the model ---
		if mdec == common.NoModel {
			continue
		}
		if cm := CanonModelAnswer(mdec, len(p.gb)); cm != got {
			e.Res.Diverge(common.Case{Stream: "schema", Op: p.cs, Model: trunc(cm), Impl: trunc(got), Note: "dec of implementation bytes " + trunc(common.Hex(p.gb))})
		}
		// model bytes: byte-exact when no map has more than one entry; always decodable by Go to the value
		if p.maxm <= 1 && menc != common.Hex(p.gb) {
			e.Res.Diverge(common.Case{Stream: "schema", Op: p.cs, Model: trunc(menc), Impl: trunc(common.Hex(p.gb)), Note: "enc bytes differ"})
		} else if p.maxm > 1 {
			mb, ok := unhex(menc)
			if !ok {
				e.Res.Diverge(common.Case{Stream: "schema", Op: p.cs, Model: trunc(menc), Note: "model enc answer unparsable"})
				continue
			}
			t2 := p.ti.New()
			o2, p2 := Decode(t2, mb)
			g2 := ImplAnswer(o2, p2, reflect.ValueOf(t2).Elem(), s)
			w2 := fmt.Sprintf("ok %s %d", p.normT, len(mb))
			if g2 != w2 {
				e.Res.Diverge(common.Case{Stream: "schema", Op: p.cs, Model: trunc(menc), Impl: trunc(g2), Note: "implementation decoding model bytes; expected " + trunc(w2)})
			}
		}
	}
}

func unhex(s string) ([]byte, bool) {
	if s == "-" {
		return nil, true
	}
	if len(s)%2 != 0 || strings.ContainsAny(s, " ghijklmnopqrstuvwxyz") {
		return nil, false
	}
	b := make([]byte, len(s)/2)
	_, err := fmt.Sscanf(s, "%x", &b)
	return b, err == nil
}

func init() {
	Runners["C03"] = func(e *Engine) {
		n := 150
		if e.Opts.Thorough() {
			n = 3000
		}
		e.RunC03(n)
		e.Res.Rule = "per generated struct type (framework protocol structs + structs of random IDL modules compiled by the working-tree tars2go): " +
			"type-directed random values (boundary integers, random/NaN/±0/Inf floats, strings 0..300 bytes incl. arbitrary bytes, " +
			"nil/empty/large containers, optional members at their default with p=1/3); non-trivial = distinct (type, encoded bytes), non-empty"
	}
}
