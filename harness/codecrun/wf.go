package codecrun

import (
	"encoding/binary"
	"math/rand"
)

// Generators of well-formed wire fields (written from the format description, independent of
// codec.go), used as unknown members (C04) and as type substitutions (C06).

func wfHead(ty, tag int) []byte {
	if tag < 15 {
		return []byte{byte(tag<<4 | ty)}
	}
	return []byte{byte(0xF0 | ty), byte(tag)}
}

func wfInt(v int64, tag int) []byte {
	switch {
	case v == 0:
		return wfHead(12, tag)
	case v >= -128 && v <= 127:
		return append(wfHead(0, tag), byte(v))
	case v >= -32768 && v <= 32767:
		return binary.BigEndian.AppendUint16(wfHead(1, tag), uint16(v))
	case v >= -2147483648 && v <= 2147483647:
		return binary.BigEndian.AppendUint32(wfHead(2, tag), uint32(v))
	}
	return binary.BigEndian.AppendUint64(wfHead(3, tag), uint64(v))
}

// WFField returns a random well-formed field of wire type ty (0..13 except 11) with the given tag.
func WFField(rng *rand.Rand, ty, tag, depth int) []byte {
	rb := func(n int) []byte { b := make([]byte, n); rng.Read(b); return b }
	small := func() int {
		if depth >= 3 {
			return rng.Intn(2)
		}
		return rng.Intn(4)
	}
	switch ty {
	case 0:
		return append(wfHead(0, tag), rb(1)...)
	case 1:
		return append(wfHead(1, tag), rb(2)...)
	case 2:
		return append(wfHead(2, tag), rb(4)...)
	case 3:
		return append(wfHead(3, tag), rb(8)...)
	case 4:
		return append(wfHead(4, tag), rb(4)...)
	case 5:
		return append(wfHead(5, tag), rb(8)...)
	case 6:
		n := []int{0, 1, 5, 255}[rng.Intn(4)]
		return append(append(wfHead(6, tag), byte(n)), rb(n)...)
	case 7:
		n := []int{0, 3, 256, 1000}[rng.Intn(4)]
		return append(binary.BigEndian.AppendUint32(wfHead(7, tag), uint32(n)), rb(n)...)
	case 8:
		n := small()
		out := append(wfHead(8, tag), wfInt(int64(n), 0)...)
		for i := 0; i < n; i++ {
			out = append(out, WFField(rng, wfKind(rng, depth+1), 0, depth+1)...)
			out = append(out, WFField(rng, wfKind(rng, depth+1), 1, depth+1)...)
		}
		return out
	case 9:
		n := small()
		if depth == 0 && rng.Intn(6) == 0 {
			n = 200
		}
		out := append(wfHead(9, tag), wfInt(int64(n), 0)...)
		for i := 0; i < n; i++ {
			out = append(out, WFField(rng, wfKind(rng, depth+1), 0, depth+1)...)
		}
		return out
	case 10:
		out := wfHead(10, tag)
		n := small()
		t := rng.Intn(3)
		for i := 0; i < n; i++ {
			out = append(out, WFField(rng, wfKind(rng, depth+1), t, depth+1)...)
			t += 1 + rng.Intn(20)
			if t > 255 {
				break
			}
		}
		return append(out, wfHead(11, 0)...)
	case 12:
		return wfHead(12, tag)
	case 13:
		n := []int{0, 1, 7, 300}[rng.Intn(4)]
		out := append(wfHead(13, tag), wfHead(0, 0)...)
		out = append(out, wfInt(int64(n), 0)...)
		return append(out, rb(n)...)
	}
	return wfHead(12, tag)
}

var wfKinds = []int{0, 1, 2, 3, 4, 5, 6, 7, 8, 9, 10, 12, 13}

func wfKind(rng *rand.Rand, depth int) int {
	if depth >= 4 {
		return []int{0, 1, 2, 3, 4, 5, 6, 12}[rng.Intn(8)]
	}
	return wfKinds[rng.Intn(len(wfKinds))]
}
