package codecrun

import (
	"fmt"
	"reflect"
	"runtime/debug"
	"strings"

	"github.com/TarsCloud/TarsGo/tars/protocol/codec"
)

// Encode runs the real WriteTo. outcome: "ok" | "err" | "panic: …"
func Encode(c Codec) (data []byte, outcome string) {
	defer func() {
		if r := recover(); r != nil {
			outcome = fmt.Sprintf("panic: %v", r)
		}
	}()
	b := codec.NewBuffer()
	if err := c.WriteTo(b); err != nil {
		return nil, "err"
	}
	out := append([]byte{}, b.ToBytes()...)
	return out, "ok"
}

// Decode runs the real ReadFrom into target. outcome: "ok" | "err" | "panic: …"; pos is the reader
// position afterwards (clamped to len(data): a reader seeked past the end has nothing left).
func Decode(target Codec, data []byte) (outcome string, pos int) {
	defer func() {
		if r := recover(); r != nil {
			outcome = fmt.Sprintf("panic: %v @%s", r, panicFrame(debug.Stack()))
		}
	}()
	rd := codec.NewReader(data)
	if err := target.ReadFrom(rd); err != nil {
		return "err", 0
	}
	rest := rd.Next(1 << 40)
	return "ok", len(data) - len(rest)
}

// panicFrame extracts the function in which the panic was raised (first non-runtime frame below
// the panic call), normalised: generated methods become "generated.<Method>".
func panicFrame(stack []byte) string {
	lines := strings.Split(string(stack), "\n")
	seenPanic := false
	for _, l := range lines {
		if strings.HasPrefix(l, "panic(") {
			seenPanic = true
			continue
		}
		if !seenPanic || strings.HasPrefix(l, "\t") || strings.HasPrefix(l, "runtime.") || l == "" {
			continue
		}
		fn := l
		if i := strings.LastIndex(fn, "("); i > 0 {
			fn = fn[:i]
		}
		if i := strings.LastIndex(fn, "/"); i >= 0 {
			fn = fn[i+1:]
		}
		if strings.HasPrefix(fn, "codec.") {
			return fn
		}
		if i := strings.LastIndex(fn, "."); i >= 0 {
			return "generated" + fn[i:]
		}
		return fn
	}
	return "unknown"
}

// PanicLocus returns the function recorded by Decode for a panic outcome.
func PanicLocus(outcome string) string {
	if i := strings.LastIndex(outcome, " @"); i >= 0 {
		return outcome[i+2:]
	}
	return "unknown"
}

// PanicClass maps a Go panic message to the model's panic site vocabulary.
func PanicClass(outcome string) string {
	switch {
	case strings.Contains(outcome, "makeslice"):
		return "panic:makeslice"
	case strings.Contains(outcome, "index out of range"):
		return "panic:index"
	case strings.Contains(outcome, "slice bounds"):
		return "panic:slice-bounds"
	case strings.Contains(outcome, "nil map"):
		return "panic:nil-map"
	}
	return "panic:other"
}

// ImplAnswer renders a decode result in the model driver's answer syntax.
func ImplAnswer(outcome string, pos int, target reflect.Value, s *Struct) string {
	switch {
	case outcome == "ok":
		return fmt.Sprintf("ok %s %d", StructText(target, s), pos)
	case outcome == "err":
		return "err"
	default:
		return "err " + PanicClass(outcome)
	}
}

// CanonModelAnswer: clamp the position, drop error kinds (except panic sites), sort map entries.
func CanonModelAnswer(ans string, n int) string {
	f := strings.Fields(ans)
	if len(f) == 3 && f[0] == "ok" {
		p := 0
		fmt.Sscanf(f[2], "%d", &p)
		if p > n {
			p = n
		}
		return fmt.Sprintf("ok %s %d", CanonText(f[1]), p)
	}
	if len(f) >= 2 && f[0] == "err" {
		if strings.HasPrefix(f[1], "panic:") {
			return "err " + f[1]
		}
		return "err"
	}
	return ans
}
