package codecrun

// Independent schema-directed reference decoder for the Tars wire format (the oracle named by C03
// and C06). Written from the format description, sharing no code with tars/protocol/codec:
// first a schema-free TLV parse into a tree (strict about lengths and the end of input), then a
// schema-directed interpretation.
//
// Strict mode (C03): every member under its declared tag and an admissible wire type, at most
// once, ascending tag order, required members present, integers in their narrowest width, no
// unknown member, nothing after the last field.
// Lenient mode (C04/C06): additionally tolerates unknown members (skipped) and non-narrowest
// integer widths that fit the declared type — exactly the tolerance the properties allow.

import (
	"encoding/binary"
	"errors"
	"fmt"
	"math"
	"strconv"
	"strings"
)

type tlv struct {
	tag   int
	ty    int
	ival  int64  // BYTE SHORT INT LONG (sign-extended), ZERO
	width int    // 0,1,2,4,8
	bits  uint64 // FLOAT, DOUBLE
	str   []byte // STRING1/4, SimpleList payload
	kids  []tlv  // LIST elems, MAP k/v alternating, STRUCT members
	beg   int    // offset of the head
	body  int    // offset just after the head
	end   int    // offset just after the field
	lenBeg, lenEnd int // offsets of the embedded length/count (strings, simple lists, lists, maps)
}

var errRef = errors.New("ref: malformed")

func refErr(f string, a ...interface{}) error { return fmt.Errorf("ref: "+f, a...) }

// parseHead returns ty, tag, new position.
func parseHead(b []byte, p int) (int, int, int, error) {
	if p >= len(b) {
		return 0, 0, p, refErr("truncated head")
	}
	ty := int(b[p] & 0x0f)
	tag := int(b[p] >> 4)
	p++
	if tag == 15 {
		if p >= len(b) {
			return 0, 0, p, refErr("truncated extended tag")
		}
		tag = int(b[p])
		p++
		if tag < 15 {
			return 0, 0, p, refErr("non-canonical extended tag %d", tag)
		}
	}
	return ty, tag, p, nil
}

func need(b []byte, p, n int) error {
	if n < 0 || p+n > len(b) || p+n < p {
		return refErr("field announces %d bytes, %d remain", n, len(b)-p)
	}
	return nil
}

// parseLen parses an integer field with tag 0 used as a length/count.
func parseLen(b []byte, p int, depth int) (int, int, error) {
	f, q, err := parseField(b, p, depth)
	if err != nil {
		return 0, q, err
	}
	if f.tag != 0 || !(f.ty == 12 || f.ty <= 2) {
		return 0, q, refErr("bad length field")
	}
	if f.ival < 0 {
		return 0, q, refErr("negative length")
	}
	return int(f.ival), q, nil
}

func parseField(b []byte, p int, depth int) (tlv, int, error) {
	f, q, err := parseField1(b, p, depth)
	f.end = q
	return f, q, err
}

func parseField1(b []byte, p int, depth int) (tlv, int, error) {
	if depth > 200 {
		return tlv{}, p, refErr("nesting too deep")
	}
	beg := p
	ty, tag, p, err := parseHead(b, p)
	if err != nil {
		return tlv{}, p, err
	}
	f := tlv{tag: tag, ty: ty, beg: beg, body: p}
	switch ty {
	case 0:
		if err := need(b, p, 1); err != nil {
			return f, p, err
		}
		f.ival, f.width = int64(int8(b[p])), 1
		p++
	case 1:
		if err := need(b, p, 2); err != nil {
			return f, p, err
		}
		f.ival, f.width = int64(int16(binary.BigEndian.Uint16(b[p:]))), 2
		p += 2
	case 2:
		if err := need(b, p, 4); err != nil {
			return f, p, err
		}
		f.ival, f.width = int64(int32(binary.BigEndian.Uint32(b[p:]))), 4
		p += 4
	case 3:
		if err := need(b, p, 8); err != nil {
			return f, p, err
		}
		f.ival, f.width = int64(binary.BigEndian.Uint64(b[p:])), 8
		p += 8
	case 4:
		if err := need(b, p, 4); err != nil {
			return f, p, err
		}
		f.bits = uint64(binary.BigEndian.Uint32(b[p:]))
		p += 4
	case 5:
		if err := need(b, p, 8); err != nil {
			return f, p, err
		}
		f.bits = binary.BigEndian.Uint64(b[p:])
		p += 8
	case 6:
		if err := need(b, p, 1); err != nil {
			return f, p, err
		}
		n := int(b[p])
		f.lenBeg, f.lenEnd = p, p+1
		p++
		if err := need(b, p, n); err != nil {
			return f, p, err
		}
		f.str = b[p : p+n]
		p += n
	case 7:
		if err := need(b, p, 4); err != nil {
			return f, p, err
		}
		n64 := binary.BigEndian.Uint32(b[p:])
		f.lenBeg, f.lenEnd = p, p+4
		p += 4
		if uint64(n64) > uint64(len(b)) {
			return f, p, refErr("string4 length %d exceeds input", n64)
		}
		n := int(n64)
		if err := need(b, p, n); err != nil {
			return f, p, err
		}
		f.str = b[p : p+n]
		p += n
	case 8:
		n, q, err := parseLen(b, p, depth+1)
		if err != nil {
			return f, q, err
		}
		f.lenBeg, f.lenEnd = p, q
		p = q
		if n > len(b) {
			return f, p, refErr("map count %d exceeds input", n)
		}
		for i := 0; i < n; i++ {
			k, q, err := parseField(b, p, depth+1)
			if err != nil {
				return f, q, err
			}
			v, q2, err := parseField(b, q, depth+1)
			if err != nil {
				return f, q2, err
			}
			if k.tag != 0 || v.tag != 1 {
				return f, q2, refErr("map entry tags %d/%d", k.tag, v.tag)
			}
			f.kids = append(f.kids, k, v)
			p = q2
		}
	case 9:
		n, q, err := parseLen(b, p, depth+1)
		if err != nil {
			return f, q, err
		}
		f.lenBeg, f.lenEnd = p, q
		p = q
		if n > len(b) {
			return f, p, refErr("list count %d exceeds input", n)
		}
		for i := 0; i < n; i++ {
			e, q, err := parseField(b, p, depth+1)
			if err != nil {
				return f, q, err
			}
			if e.tag != 0 {
				return f, q, refErr("list element tag %d", e.tag)
			}
			f.kids = append(f.kids, e)
			p = q
		}
	case 10:
		for {
			if p >= len(b) {
				return f, p, refErr("unterminated struct")
			}
			if b[p]&0x0f == 11 {
				// StructEnd: tag must be 0
				_, tg, q, err := parseHead(b, p)
				if err != nil {
					return f, q, err
				}
				if tg != 0 {
					return f, q, refErr("struct end with tag %d", tg)
				}
				p = q
				break
			}
			m, q, err := parseField(b, p, depth+1)
			if err != nil {
				return f, q, err
			}
			f.kids = append(f.kids, m)
			p = q
		}
	case 11:
		return f, p, refErr("stray struct end")
	case 12:
		f.ival, f.width = 0, 0
	case 13:
		ty2, tag2, q, err := parseHead(b, p)
		if err != nil {
			return f, q, err
		}
		if ty2 != 0 || tag2 != 0 {
			return f, q, refErr("simple list element head %d/%d", ty2, tag2)
		}
		n, q2, err := parseLen(b, q, depth+1)
		if err != nil {
			return f, q2, err
		}
		f.lenBeg, f.lenEnd = q, q2
		p = q2
		if err := need(b, p, n); err != nil {
			return f, p, err
		}
		f.str = b[p : p+n]
		p += n
	default:
		return f, p, refErr("unknown wire type %d", ty)
	}
	return f, p, nil
}

// parseFields parses a whole buffer as a sequence of fields (a struct body at top level).
func parseFields(b []byte) ([]tlv, error) {
	var out []tlv
	p := 0
	for p < len(b) {
		f, q, err := parseField(b, p, 0)
		if err != nil {
			return nil, err
		}
		out = append(out, f)
		p = q
	}
	return out, nil
}

func minWidth(v int64) int {
	switch {
	case v == 0:
		return 0
	case v >= -128 && v <= 127:
		return 1
	case v >= -32768 && v <= 32767:
		return 2
	case v >= math.MinInt32 && v <= math.MaxInt32:
		return 4
	}
	return 8
}

func intRange(kind string) (lo, hi int64, maxw int) {
	switch kind {
	case "i8":
		return -128, 127, 1
	case "u8":
		return 0, 255, 2
	case "i16":
		return -32768, 32767, 2
	case "u16":
		return 0, 65535, 4
	case "i32", "e":
		return math.MinInt32, math.MaxInt32, 4
	case "u32":
		return 0, 4294967295, 8
	}
	return math.MinInt64, math.MaxInt64, 8
}

type RefDecoder struct {
	Strict bool
}

func (d RefDecoder) interp(ty *Ty, f tlv) (string, error) {
	switch ty.Kind {
	case "b", "i8", "u8", "i16", "u16", "i32", "u32", "i64", "e":
		if !(f.ty == 12 || f.ty <= 3) {
			return "", refErr("wire type %d inadmissible for %s", f.ty, ty.Kind)
		}
		if ty.Kind == "b" {
			if f.width > 1 {
				return "", refErr("bool wider than a byte")
			}
			if d.Strict && f.ival != 0 && f.ival != 1 {
				return "", refErr("bool value %d", f.ival)
			}
			if f.ival != 0 {
				return "B1", nil
			}
			return "B0", nil
		}
		lo, hi, maxw := intRange(ty.Kind)
		if f.width > maxw {
			return "", refErr("integer width %d inadmissible for %s", f.width, ty.Kind)
		}
		if f.ival < lo || f.ival > hi {
			return "", refErr("value %d out of range of %s", f.ival, ty.Kind)
		}
		if d.Strict && f.width != minWidth(f.ival) {
			return "", refErr("integer %d not in narrowest width (%d)", f.ival, f.width)
		}
		return "I" + strconv.FormatInt(f.ival, 10), nil
	case "f32":
		if f.ty == 12 && !d.Strict {
			return "F0", nil
		}
		if f.ty != 4 {
			return "", refErr("wire type %d inadmissible for float", f.ty)
		}
		return "F" + strconv.FormatUint(f.bits, 10), nil
	case "f64":
		if f.ty == 12 && !d.Strict {
			return "D0", nil
		}
		if f.ty == 4 && !d.Strict {
			return "D" + strconv.FormatUint(math.Float64bits(float64(math.Float32frombits(uint32(f.bits)))), 10), nil
		}
		if f.ty != 5 {
			return "", refErr("wire type %d inadmissible for double", f.ty)
		}
		return "D" + strconv.FormatUint(f.bits, 10), nil
	case "s":
		if f.ty != 6 && f.ty != 7 {
			return "", refErr("wire type %d inadmissible for string", f.ty)
		}
		if d.Strict && (f.ty == 7) != (len(f.str) > 255) {
			return "", refErr("string length form")
		}
		return "S" + hexOf(f.str), nil
	case "v", "a":
		var elems []string
		if f.ty == 13 {
			if ty.Elem.Kind != "i8" && ty.Elem.Kind != "u8" {
				return "", refErr("simple list for non-byte vector")
			}
			if ty.Kind == "a" {
				return "", refErr("simple list for array")
			}
			for _, c := range f.str {
				if ty.Elem.Kind == "i8" {
					elems = append(elems, "I"+strconv.Itoa(int(int8(c))))
				} else {
					elems = append(elems, "I"+strconv.Itoa(int(c)))
				}
			}
		} else if f.ty == 9 {
			if d.Strict && ty.Elem.Kind == "i8" && ty.Kind == "v" {
				return "", refErr("vector<byte> must be a simple list")
			}
			for _, k := range f.kids {
				e, err := d.interp(ty.Elem, k)
				if err != nil {
					return "", err
				}
				elems = append(elems, e)
			}
		} else {
			return "", refErr("wire type %d inadmissible for vector", f.ty)
		}
		if ty.Kind == "a" {
			if len(elems) > ty.N || (d.Strict && len(elems) != ty.N) {
				return "", refErr("array of %d elements, declared %d", len(elems), ty.N)
			}
			for len(elems) < ty.N {
				elems = append(elems, ZeroText(ty.Elem))
			}
		}
		return "L[" + strings.Join(elems, ",") + "]", nil
	case "m":
		if f.ty != 8 {
			return "", refErr("wire type %d inadmissible for map", f.ty)
		}
		n := &vnode{kind: 'M'}
		seen := map[string]int{}
		for i := 0; i+1 < len(f.kids); i += 2 {
			k, err := d.interp(ty.Key, f.kids[i])
			if err != nil {
				return "", err
			}
			v, err := d.interp(ty.Elem, f.kids[i+1])
			if err != nil {
				return "", err
			}
			if j, dup := seen[k]; dup {
				if d.Strict {
					return "", refErr("duplicate map key")
				}
				n.elems[j] = &vnode{kind: 'A', atom: v}
				continue
			}
			seen[k] = len(n.keys)
			n.keys = append(n.keys, &vnode{kind: 'A', atom: k})
			n.elems = append(n.elems, &vnode{kind: 'A', atom: v})
		}
		return n.canon(), nil
	case "t":
		if f.ty != 10 {
			return "", refErr("wire type %d inadmissible for struct", f.ty)
		}
		return d.interpStruct(ty.St, f.kids)
	}
	return "", refErr("unknown schema type")
}

// ZeroText is the Go zero value of a type in value syntax.
func ZeroText(ty *Ty) string {
	switch ty.Kind {
	case "b":
		return "B0"
	case "f32":
		return "F0"
	case "f64":
		return "D0"
	case "s":
		return "S-"
	case "v":
		return "L[]"
	case "a":
		parts := make([]string, ty.N)
		for i := range parts {
			parts[i] = ZeroText(ty.Elem)
		}
		return "L[" + strings.Join(parts, ",") + "]"
	case "m":
		return "M[]"
	case "t":
		return DefaultText(ty.St)
	}
	return "I0"
}

// DefaultText: a struct with every member at its IDL default (what a fresh target holds after
// ResetDefault).
func DefaultText(s *Struct) string {
	parts := make([]string, len(s.Fields))
	for i, f := range s.Fields {
		if f.HasDflt {
			parts[i] = f.Dflt
		} else {
			parts[i] = ZeroText(f.Ty)
		}
	}
	return "T[" + strings.Join(parts, ",") + "]"
}

func (d RefDecoder) interpStruct(s *Struct, members []tlv) (string, error) {
	parts := make([]string, len(s.Fields))
	have := make([]bool, len(s.Fields))
	last := -1
	for _, m := range members {
		if m.tag <= last {
			return "", refErr("tags not strictly ascending (%d after %d)", m.tag, last)
		}
		last = m.tag
		idx := -1
		for i, f := range s.Fields {
			if f.Tag == m.tag {
				idx = i
			}
		}
		if idx < 0 {
			if d.Strict {
				return "", refErr("unknown member tag %d", m.tag)
			}
			continue
		}
		t, err := d.interp(s.Fields[idx].Ty, m)
		if err != nil {
			return "", err
		}
		parts[idx] = t
		have[idx] = true
	}
	for i, f := range s.Fields {
		if have[i] {
			continue
		}
		if f.Req {
			return "", refErr("required member tag %d missing", f.Tag)
		}
		if f.HasDflt {
			parts[i] = f.Dflt
		} else {
			parts[i] = ZeroText(f.Ty)
		}
	}
	return "T[" + strings.Join(parts, ",") + "]", nil
}

// Decode decodes a struct body (as produced by WriteTo).
func (d RefDecoder) Decode(s *Struct, b []byte) (string, error) {
	fs, err := parseFields(b)
	if err != nil {
		return "", err
	}
	return d.interpStruct(s, fs)
}
