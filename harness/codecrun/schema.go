// Package codecrun: generic, reflection-driven engine for the generated-struct codec properties
// (C03–C06): derives the schema of any tars2go-generated struct from its `tars:` tags, generates
// type-directed values, prints/parses the model's value syntax, and runs the real
// WriteTo/ReadFrom.
package codecrun

import (
	"fmt"
	"math"
	"math/rand"
	"reflect"
	"sort"
	"strconv"
	"strings"

	"github.com/TarsCloud/TarsGo/tars/protocol/codec"
)

// Codec is what every generated struct implements.
type Codec interface {
	WriteTo(buf *codec.Buffer) error
	ReadFrom(readBuf *codec.Reader) error
	ResetDefault()
}

// TypeInfo is a registry entry.
type TypeInfo struct {
	Name string
	New  func() Codec
}

// Ty mirrors the Lean `Ty`.
type Ty struct {
	Kind string // b i8 u8 i16 u16 i32 u32 i64 f32 f64 s e v a m t
	Elem *Ty    // v, a, m (value)
	Key  *Ty    // m
	N    int    // a
	Name string // t
	St   *Struct
}

func (t *Ty) String() string {
	switch t.Kind {
	case "v":
		return "v<" + t.Elem.String() + ">"
	case "a":
		return fmt.Sprintf("a<%d,%s>", t.N, t.Elem.String())
	case "m":
		return "m<" + t.Key.String() + "," + t.Elem.String() + ">"
	case "t":
		return "t<" + t.Name + ">"
	}
	return t.Kind
}

type Field struct {
	Tag     int
	Req     bool
	Ty      *Ty
	Dflt    string // model Val text of the explicit default, or "-"
	GoName  string
	Index   int
	HasDflt bool
}

type Struct struct {
	Name   string
	Fields []Field
	GoType reflect.Type
}

// Universe collects the structs reachable from the registered types, in dependency order.
type Universe struct {
	ByType map[reflect.Type]*Struct
	Order  []*Struct
	names  map[string]int
}

func NewUniverse() *Universe {
	return &Universe{ByType: map[reflect.Type]*Struct{}, names: map[string]int{}}
}

// TyOf derives the model type of any Go type the generator can emit.
func (u *Universe) TyOf(t reflect.Type) (*Ty, error) { return u.tyOf(t) }

func (u *Universe) tyOf(t reflect.Type) (*Ty, error) {
	switch t.Kind() {
	case reflect.Bool:
		return &Ty{Kind: "b"}, nil
	case reflect.Int8:
		return &Ty{Kind: "i8"}, nil
	case reflect.Uint8:
		return &Ty{Kind: "u8"}, nil
	case reflect.Int16:
		return &Ty{Kind: "i16"}, nil
	case reflect.Uint16:
		return &Ty{Kind: "u16"}, nil
	case reflect.Int32:
		if t.Name() != "int32" {
			return &Ty{Kind: "e"}, nil
		}
		return &Ty{Kind: "i32"}, nil
	case reflect.Uint32:
		return &Ty{Kind: "u32"}, nil
	case reflect.Int64:
		return &Ty{Kind: "i64"}, nil
	case reflect.Float32:
		return &Ty{Kind: "f32"}, nil
	case reflect.Float64:
		return &Ty{Kind: "f64"}, nil
	case reflect.String:
		return &Ty{Kind: "s"}, nil
	case reflect.Slice:
		e, err := u.tyOf(t.Elem())
		if err != nil {
			return nil, err
		}
		return &Ty{Kind: "v", Elem: e}, nil
	case reflect.Array:
		e, err := u.tyOf(t.Elem())
		if err != nil {
			return nil, err
		}
		return &Ty{Kind: "a", N: t.Len(), Elem: e}, nil
	case reflect.Map:
		k, err := u.tyOf(t.Key())
		if err != nil {
			return nil, err
		}
		e, err := u.tyOf(t.Elem())
		if err != nil {
			return nil, err
		}
		return &Ty{Kind: "m", Key: k, Elem: e}, nil
	case reflect.Struct:
		s, err := u.Add(t)
		if err != nil {
			return nil, err
		}
		return &Ty{Kind: "t", Name: s.Name, St: s}, nil
	}
	return nil, fmt.Errorf("unsupported Go type %s", t)
}

// Add derives the schema of a generated struct type (and of everything it contains).
func (u *Universe) Add(t reflect.Type) (*Struct, error) {
	if s, ok := u.ByType[t]; ok {
		return s, nil
	}
	name := t.Name()
	if p := t.PkgPath(); p != "" {
		name = p[strings.LastIndex(p, "/")+1:] + "." + t.Name()
	}
	if n := u.names[name]; n > 0 {
		name = fmt.Sprintf("%s_%d", name, n)
	}
	u.names[name]++
	s := &Struct{Name: name, GoType: t}
	u.ByType[t] = s
	for i := 0; i < t.NumField(); i++ {
		f := t.Field(i)
		tg := f.Tag.Get("tars")
		if tg == "" {
			continue
		}
		parts := strings.Split(tg, ",")
		fld := Field{GoName: f.Name, Index: i, Dflt: "-", Tag: -1}
		for _, p := range parts[1:] {
			if strings.HasPrefix(p, "tag:") {
				fld.Tag, _ = strconv.Atoi(p[4:])
			}
			if strings.HasPrefix(p, "require:") {
				fld.Req = p[8:] == "true"
			}
		}
		if fld.Tag < 0 {
			return nil, fmt.Errorf("%s.%s: no tag in %q", name, f.Name, tg)
		}
		ty, err := u.tyOf(f.Type)
		if err != nil {
			return nil, fmt.Errorf("%s.%s: %v", name, f.Name, err)
		}
		fld.Ty = ty
		s.Fields = append(s.Fields, fld)
	}
	// explicit defaults: what ResetDefault assigns. Observed on two differently filled targets so
	// that a default equal to a filler value is still recognised.
	if _, ok := reflect.New(t).Interface().(Codec); ok {
		a := reflect.New(t)
		b := reflect.New(t)
		fill(a.Elem(), 1)
		fill(b.Elem(), 2)
		a.Interface().(Codec).ResetDefault()
		b.Interface().(Codec).ResetDefault()
		for i := range s.Fields {
			f := &s.Fields[i]
			if f.Ty.Kind == "t" || f.Ty.Kind == "v" || f.Ty.Kind == "m" || f.Ty.Kind == "a" {
				continue
			}
			va := ValText(a.Elem().Field(f.Index), f.Ty)
			vb := ValText(b.Elem().Field(f.Index), f.Ty)
			if va == vb {
				f.HasDflt = true
				f.Dflt = va
			}
		}
	}
	u.Order = append(u.Order, s)
	return s, nil
}

// fill assigns recognisable non-default values (variant 1 or 2) to scalar members.
func fill(v reflect.Value, variant int) {
	switch v.Kind() {
	case reflect.Bool:
		v.SetBool(variant == 1)
	case reflect.Int8, reflect.Int16, reflect.Int32, reflect.Int64:
		v.SetInt(int64(50 + variant))
	case reflect.Uint8, reflect.Uint16, reflect.Uint32:
		v.SetUint(uint64(50 + variant))
	case reflect.Float32, reflect.Float64:
		v.SetFloat(float64(variant) + 0.25)
	case reflect.String:
		v.SetString(fmt.Sprintf("fill%d", variant))
	case reflect.Struct:
		for i := 0; i < v.NumField(); i++ {
			if v.Field(i).CanSet() {
				fill(v.Field(i), variant)
			}
		}
	}
}

// SchemaLines are the `schema` ops announcing the universe to the model driver.
func (u *Universe) SchemaLines() []string {
	var out []string
	for _, s := range u.Order {
		var fs []string
		for _, f := range s.Fields {
			r := 0
			if f.Req {
				r = 1
			}
			fs = append(fs, fmt.Sprintf("%d:%d:%s:%s", f.Tag, r, f.Ty.String(), f.Dflt))
		}
		body := strings.Join(fs, ";")
		if body == "" {
			body = "-"
		}
		out = append(out, fmt.Sprintf("schema %s %s", s.Name, body))
	}
	return out
}

// ---- value text (the model's Val syntax); canonical: map entries sorted by key text ----

func hexOf(b []byte) string {
	if len(b) == 0 {
		return "-"
	}
	return fmt.Sprintf("%x", b)
}

func ValText(v reflect.Value, ty *Ty) string {
	switch ty.Kind {
	case "b":
		if v.Bool() {
			return "B1"
		}
		return "B0"
	case "i8", "i16", "i32", "i64", "e":
		return "I" + strconv.FormatInt(v.Int(), 10)
	case "u8", "u16", "u32":
		return "I" + strconv.FormatUint(v.Uint(), 10)
	case "f32":
		// not v.Float(): the float32→float64→float32 round trip quiets signalling NaNs
		if f, ok := v.Interface().(float32); ok {
			return "F" + strconv.FormatUint(uint64(math.Float32bits(f)), 10)
		}
		return "F" + strconv.FormatUint(uint64(math.Float32bits(float32(v.Float()))), 10)
	case "f64":
		return "D" + strconv.FormatUint(math.Float64bits(v.Float()), 10)
	case "s":
		return "S" + hexOf([]byte(v.String()))
	case "v", "a":
		var sb strings.Builder
		sb.WriteString("L[")
		for i := 0; i < v.Len(); i++ {
			if i > 0 {
				sb.WriteByte(',')
			}
			sb.WriteString(ValText(v.Index(i), ty.Elem))
		}
		sb.WriteByte(']')
		return sb.String()
	case "m":
		type kv struct{ k, v string }
		var kvs []kv
		it := v.MapRange()
		for it.Next() {
			kvs = append(kvs, kv{ValText(it.Key(), ty.Key), ValText(it.Value(), ty.Elem)})
		}
		sort.Slice(kvs, func(i, j int) bool { return kvs[i].k < kvs[j].k })
		var sb strings.Builder
		sb.WriteString("M[")
		for i, e := range kvs {
			if i > 0 {
				sb.WriteByte(',')
			}
			sb.WriteString(e.k + "=" + e.v)
		}
		sb.WriteByte(']')
		return sb.String()
	case "t":
		return StructText(v, ty.St)
	}
	return "?"
}

func StructText(v reflect.Value, s *Struct) string {
	var sb strings.Builder
	sb.WriteString("T[")
	for i, f := range s.Fields {
		if i > 0 {
			sb.WriteByte(',')
		}
		sb.WriteString(ValText(v.Field(f.Index), f.Ty))
	}
	sb.WriteByte(']')
	return sb.String()
}

// CanonText re-sorts the map entries of a model-printed value (the model keeps insertion order).
func CanonText(s string) string {
	p := &vparser{s: s}
	n, err := p.node()
	if err != nil || p.i != len(s) {
		return s
	}
	return n.canon()
}

type vnode struct {
	kind  byte // 'A' atom, 'L', 'T', 'M'
	atom  string
	elems []*vnode
	keys  []*vnode
}

func (n *vnode) canon() string {
	switch n.kind {
	case 'A':
		return n.atom
	case 'L', 'T':
		parts := make([]string, len(n.elems))
		for i, e := range n.elems {
			parts[i] = e.canon()
		}
		return string(n.kind) + "[" + strings.Join(parts, ",") + "]"
	case 'M':
		type kv struct{ k, v string }
		kvs := make([]kv, len(n.elems))
		for i := range n.elems {
			kvs[i] = kv{n.keys[i].canon(), n.elems[i].canon()}
		}
		sort.Slice(kvs, func(i, j int) bool { return kvs[i].k < kvs[j].k })
		parts := make([]string, len(kvs))
		for i, e := range kvs {
			parts[i] = e.k + "=" + e.v
		}
		return "M[" + strings.Join(parts, ",") + "]"
	}
	return "?"
}

type vparser struct {
	s string
	i int
}

func (p *vparser) node() (*vnode, error) {
	if p.i >= len(p.s) {
		return nil, fmt.Errorf("eof")
	}
	c := p.s[p.i]
	if (c == 'L' || c == 'T' || c == 'M') && p.i+1 < len(p.s) && p.s[p.i+1] == '[' {
		p.i += 2
		n := &vnode{kind: c}
		for {
			if p.i >= len(p.s) {
				return nil, fmt.Errorf("eof")
			}
			if p.s[p.i] == ']' {
				p.i++
				return n, nil
			}
			if p.s[p.i] == ',' {
				p.i++
				continue
			}
			e, err := p.node()
			if err != nil {
				return nil, err
			}
			if c == 'M' {
				if p.i >= len(p.s) || p.s[p.i] != '=' {
					return nil, fmt.Errorf("expected =")
				}
				p.i++
				v, err := p.node()
				if err != nil {
					return nil, err
				}
				n.keys = append(n.keys, e)
				n.elems = append(n.elems, v)
			} else {
				n.elems = append(n.elems, e)
			}
		}
	}
	j := p.i
	for j < len(p.s) && p.s[j] != ',' && p.s[j] != ']' && p.s[j] != '=' {
		j++
	}
	n := &vnode{kind: 'A', atom: p.s[p.i:j]}
	p.i = j
	return n, nil
}

// ---- generators ----

var intEdges = []int64{0, 1, -1, 2, 127, 128, -128, -129, 255, 256, 32767, 32768, -32768, -32769, 65535, 65536,
	2147483647, 2147483648, -2147483648, -2147483649, 4294967295, math.MaxInt64, math.MinInt64}

func genInt(rng *rand.Rand, lo, hi int64) int64 {
	for tries := 0; tries < 8; tries++ {
		var v int64
		switch rng.Intn(3) {
		case 0:
			v = intEdges[rng.Intn(len(intEdges))]
		case 1:
			v = int64(rng.Intn(5)) - 2
		default:
			v = rng.Int63() >> uint(rng.Intn(64))
			if rng.Intn(2) == 0 {
				v = -v
			}
		}
		if v >= lo && v <= hi {
			return v
		}
	}
	return lo + rng.Int63n(hi-lo+1)
}

var f32Edges = []uint32{0, 0x80000000, 0x7f800000, 0xff800000, 0x7fc00000, 0x7f800001, 0xffc12345, 1, 0x3f800000, 0x3f000000, 0x7f7fffff}
var f64Edges = []uint64{0, 1 << 63, 0x7ff0000000000000, 0xfff0000000000000, 0x7ff8000000000000, 0x7ff0000000000001, 1, 0x3ff0000000000000, 0x3fe0000000000000}

func genString(rng *rand.Rand) string {
	var n int
	switch rng.Intn(10) {
	case 0:
		n = 0
	case 1:
		n = []int{254, 255, 256, 257, 300}[rng.Intn(5)]
	default:
		n = rng.Intn(12)
	}
	b := make([]byte, n)
	if rng.Intn(3) == 0 {
		rng.Read(b)
	} else {
		for i := range b {
			b[i] = byte('a' + rng.Intn(26))
		}
	}
	return string(b)
}

// GenInto fills v (settable) with a random value of its type; optional scalar members are set to
// their default with probability 1/3; depth bounds nesting of containers.
func (u *Universe) GenInto(rng *rand.Rand, v reflect.Value, ty *Ty, depth int) {
	switch ty.Kind {
	case "b":
		v.SetBool(rng.Intn(2) == 0)
	case "i8":
		v.SetInt(genInt(rng, -128, 127))
	case "i16":
		v.SetInt(genInt(rng, -32768, 32767))
	case "i32", "e":
		v.SetInt(genInt(rng, math.MinInt32, math.MaxInt32))
	case "i64":
		v.SetInt(genInt(rng, math.MinInt64, math.MaxInt64))
	case "u8":
		v.SetUint(uint64(genInt(rng, 0, 255)))
	case "u16":
		v.SetUint(uint64(genInt(rng, 0, 65535)))
	case "u32":
		v.SetUint(uint64(genInt(rng, 0, 4294967295)))
	case "f32":
		var b uint32
		if rng.Intn(3) == 0 {
			b = f32Edges[rng.Intn(len(f32Edges))]
		} else {
			b = rng.Uint32()
		}
		v.Set(reflect.ValueOf(math.Float32frombits(b)).Convert(v.Type()))
	case "f64":
		var b uint64
		if rng.Intn(3) == 0 {
			b = f64Edges[rng.Intn(len(f64Edges))]
		} else {
			b = rng.Uint64()
		}
		v.SetFloat(math.Float64frombits(b))
	case "s":
		v.SetString(genString(rng))
	case "v":
		n := containerLen(rng, depth)
		if n == 0 && rng.Intn(2) == 0 {
			v.Set(reflect.Zero(v.Type())) // nil
			return
		}
		s := reflect.MakeSlice(v.Type(), n, n)
		for i := 0; i < n; i++ {
			u.GenInto(rng, s.Index(i), ty.Elem, depth+1)
		}
		v.Set(s)
	case "a":
		for i := 0; i < v.Len(); i++ {
			u.GenInto(rng, v.Index(i), ty.Elem, depth+1)
		}
	case "m":
		n := containerLen(rng, depth)
		if n == 0 && rng.Intn(2) == 0 {
			v.Set(reflect.Zero(v.Type()))
			return
		}
		m := reflect.MakeMapWithSize(v.Type(), n)
		for i := 0; i < n; i++ {
			k := reflect.New(v.Type().Key()).Elem()
			u.GenInto(rng, k, ty.Key, depth+1)
			if ty.Key.Kind == "f32" || ty.Key.Kind == "f64" {
				if f := k.Float(); f != f {
					continue // NaN keys are unreachable in Go maps
				}
			}
			e := reflect.New(v.Type().Elem()).Elem()
			u.GenInto(rng, e, ty.Elem, depth+1)
			m.SetMapIndex(k, e)
		}
		v.Set(m)
	case "t":
		u.GenStruct(rng, v, ty.St, depth+1)
	}
}

func containerLen(rng *rand.Rand, depth int) int {
	if depth >= 3 {
		return rng.Intn(2)
	}
	switch rng.Intn(12) {
	case 0, 1:
		return 0
	case 2:
		if depth == 0 {
			return []int{127, 128, 255, 256, 300}[rng.Intn(5)]
		}
		return 3
	default:
		return 1 + rng.Intn(4)
	}
}

func (u *Universe) GenStruct(rng *rand.Rand, v reflect.Value, s *Struct, depth int) {
	for _, f := range s.Fields {
		fv := v.Field(f.Index)
		if !f.Req && rng.Intn(3) == 0 {
			// at the default: zero value, then the explicit default if any
			fv.Set(reflect.Zero(fv.Type()))
			if f.HasDflt {
				setFromText(fv, f.Ty, f.Dflt)
			}
			continue
		}
		u.GenInto(rng, fv, f.Ty, depth)
	}
}

func setFromText(v reflect.Value, ty *Ty, text string) {
	switch ty.Kind {
	case "b":
		v.SetBool(text == "B1")
	case "i8", "i16", "i32", "i64", "e":
		n, _ := strconv.ParseInt(text[1:], 10, 64)
		v.SetInt(n)
	case "u8", "u16", "u32":
		n, _ := strconv.ParseUint(text[1:], 10, 64)
		v.SetUint(n)
	case "f32":
		n, _ := strconv.ParseUint(text[1:], 10, 32)
		v.Set(reflect.ValueOf(math.Float32frombits(uint32(n))).Convert(v.Type()))
	case "f64":
		n, _ := strconv.ParseUint(text[1:], 10, 64)
		v.SetFloat(math.Float64frombits(n))
	case "s":
		if text[1:] == "-" {
			v.SetString("")
		} else {
			var b []byte
			fmt.Sscanf(text[1:], "%x", &b)
			v.SetString(string(b))
		}
	}
}

// MaxMapLen returns the largest number of entries of any map inside v (encoding order is
// unobservable for maps with more than one entry).
func MaxMapLen(v reflect.Value, ty *Ty) int {
	switch ty.Kind {
	case "v", "a":
		m := 0
		for i := 0; i < v.Len(); i++ {
			if x := MaxMapLen(v.Index(i), ty.Elem); x > m {
				m = x
			}
		}
		return m
	case "m":
		m := v.Len()
		it := v.MapRange()
		for it.Next() {
			if x := MaxMapLen(it.Value(), ty.Elem); x > m {
				m = x
			}
		}
		return m
	case "t":
		m := 0
		for _, f := range ty.St.Fields {
			if x := MaxMapLen(v.Field(f.Index), f.Ty); x > m {
				m = x
			}
		}
		return m
	}
	return 0
}

// Norm applies the property's normalisation in place: an optional float member equal (Go ==) to
// its default is not written, so it decodes as the default (-0.0 → +0.0).
func Norm(v reflect.Value, s *Struct) {
	for _, f := range s.Fields {
		fv := v.Field(f.Index)
		normVal(fv, f.Ty)
		if !f.Req && (f.Ty.Kind == "f32" || f.Ty.Kind == "f64") {
			d := reflect.New(fv.Type()).Elem()
			if f.HasDflt {
				setFromText(d, f.Ty, f.Dflt)
			}
			if fv.Float() == d.Float() {
				fv.Set(d)
			}
		}
	}
}

// NormValue applies Norm inside any value (vectors, maps, structs).
func NormValue(v reflect.Value, ty *Ty) { normVal(v, ty) }

func normVal(v reflect.Value, ty *Ty) {
	switch ty.Kind {
	case "v", "a":
		for i := 0; i < v.Len(); i++ {
			normVal(v.Index(i), ty.Elem)
		}
	case "m":
		if ty.Elem.Kind == "t" || ty.Elem.Kind == "v" || ty.Elem.Kind == "m" || ty.Elem.Kind == "a" {
			it := v.MapRange()
			for it.Next() {
				e := reflect.New(v.Type().Elem()).Elem()
				e.Set(it.Value())
				normVal(e, ty.Elem)
				v.SetMapIndex(it.Key(), e)
			}
		}
	case "t":
		Norm(v, ty.St)
	}
}
