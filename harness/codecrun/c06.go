package codecrun

import (
	"encoding/binary"
	"fmt"
	"math/rand"
	"reflect"

	"verifharness/common"
)

// C06Case: truncation / inflation / substitution case (also the replay format: all variants of
// (type, seed) are re-derived deterministically).
type C06Case struct {
	Type    string `json:"type"`
	Seed    int64  `json:"seed"`
	Variant string `json:"variant"` // prefix | inflate | substitute
	At      int    `json:"at"`      // cut position / offset of the mutated field
	Hex     string `json:"hex"`
}

// innermost returns the wire type of the innermost field whose encoding strictly contains offset c.
func innermost(fields []tlv, c int) (int, bool) {
	for _, f := range fields {
		if c > f.beg && c < f.end {
			if ty, ok := innermost(f.kids, c); ok {
				return ty, true
			}
			return f.ty, true
		}
	}
	return 0, false
}

func cutClass(ty int, in bool) string {
	if !in {
		return "field-boundary"
	}
	switch ty {
	case 1, 2, 3, 4, 5:
		return "short-read-padded"
	case 6, 7:
		return "partial-string"
	case 13:
		return "zero-filled-slice"
	case 0:
		return "byte-payload"
	case 8, 9, 10:
		return "container"
	}
	return "other"
}

// admissible wire types per schema kind (what the generated reader accepts)
func admissible(ty *Ty) map[int]bool {
	m := map[int]bool{}
	add := func(xs ...int) {
		for _, x := range xs {
			m[x] = true
		}
	}
	switch ty.Kind {
	case "b", "i8":
		add(12, 0)
	case "i16", "u8":
		add(12, 0, 1)
	case "i32", "u16", "e":
		add(12, 0, 1, 2)
	case "i64", "u32":
		add(12, 0, 1, 2, 3)
	case "f32":
		add(12, 4)
	case "f64":
		add(12, 4, 5)
	case "s":
		add(6, 7)
	case "v":
		add(9)
		if ty.Elem.Kind == "i8" || ty.Elem.Kind == "u8" {
			add(13)
		}
	case "a":
		add(9)
	case "m":
		add(8)
	case "t":
		add(10)
	}
	return m
}

func (e *Engine) RunC06(perType int) {
	type pending struct {
		ti       TypeInfo
		cs       C06Case
		data     []byte
		complete []tlv  // complete top-level members the result may be built from; nil+mustErr → error demanded
		mustErr  bool
		class    string
	}
	var lines []string
	var pend []pending
	lenient := RefDecoder{Strict: false}
	for _, cid := range e.cases(perType) {
		ti, seed := cid.ti, cid.seed
		s := e.St[ti.Name]
		c, _ := e.genValue(ti, seed)
		gb, out := Encode(c)
		if out != "ok" || len(gb) == 0 {
			continue
		}
		fields, err := parseFields(gb)
		if err != nil {
			continue
		}
		rng := rand.New(rand.NewSource(seed ^ 0x6a09e667))
		add := func(variant string, at int, data []byte, complete []tlv, mustErr bool, class string) {
			cs := C06Case{Type: ti.Name, Seed: seed, Variant: variant, At: at, Hex: trunc(common.Hex(data))}
			lines = append(lines, fmt.Sprintf("dec %s fresh %s", s.Name, common.Hex(data)))
			pend = append(pend, pending{ti, cs, data, complete, mustErr, class})
		}
		before := func(c int) []tlv {
			var out []tlv
			for _, f := range fields {
				if f.end <= c {
					out = append(out, f)
				}
			}
			return out
		}
		// (a) every proper prefix (sampled when long)
		var cuts []int
		if len(gb) <= 150 {
			for c := 1; c < len(gb); c++ {
				cuts = append(cuts, c)
			}
		} else {
			seen := map[int]bool{}
			for _, f := range fields {
				for _, c := range []int{f.beg, f.beg + 1, f.body, f.body + 1, f.end - 1} {
					if c > 0 && c < len(gb) && !seen[c] {
						seen[c] = true
						cuts = append(cuts, c)
					}
				}
			}
			for i := 0; i < 60; i++ {
				c := 1 + rng.Intn(len(gb)-1)
				if !seen[c] {
					seen[c] = true
					cuts = append(cuts, c)
				}
			}
		}
		for _, c := range cuts {
			ty, in := innermost(fields, c)
			add("prefix", c, gb[:c], before(c), false, cutClass(ty, in))
		}
		// (b) inflation of embedded lengths beyond what remains
		var lens []tlv
		var walk func(fs []tlv)
		walk = func(fs []tlv) {
			for _, f := range fs {
				if f.lenEnd > f.lenBeg {
					lens = append(lens, f)
				}
				walk(f.kids)
			}
		}
		walk(fields)
		for _, f := range lens {
			remain := len(gb) - f.lenEnd
			for _, nl := range []int{remain + 1, remain*2 + 7, 0x7fffffff} {
				var lb []byte
				switch f.ty {
				case 6:
					if nl > 255 {
						continue
					}
					lb = []byte{byte(nl)}
				case 7:
					lb = binary.BigEndian.AppendUint32(nil, uint32(nl))
				default:
					if nl > 1<<20 {
						continue // huge counts / byte-vector lengths are C05's allocation cases (the decoder allocates them)
					}
					lb = wfInt(int64(nl), 0)
				}
				data := append(append(append([]byte{}, gb[:f.lenBeg]...), lb...), gb[f.lenEnd:]...)
				cls := map[int]string{6: "partial-string", 7: "partial-string", 13: "zero-filled-slice", 8: "container-count", 9: "container-count"}[f.ty]
				// the enclosing top-level member and everything after it are no longer complete
				top := f.beg
				for _, tf := range fields {
					if f.beg >= tf.beg && f.beg < tf.end {
						top = tf.beg
					}
				}
				add("inflate", f.lenBeg, data, before(top), false, cls)
			}
		}
		// (c) substitution of one member by a well-formed field of an inadmissible wire type
		for k := 0; k < 3 && len(fields) > 0; k++ {
			f := fields[rng.Intn(len(fields))]
			var fd *Field
			for i := range s.Fields {
				if s.Fields[i].Tag == f.tag {
					fd = &s.Fields[i]
				}
			}
			if fd == nil {
				continue
			}
			adm := admissible(fd.Ty)
			var cand []int
			for _, t := range wfKinds {
				if !adm[t] {
					cand = append(cand, t)
				}
			}
			if len(cand) == 0 {
				continue
			}
			nt := cand[rng.Intn(len(cand))]
			sub := WFField(rng, nt, f.tag, 1)
			data := append(append(append([]byte{}, gb[:f.beg]...), sub...), gb[f.end:]...)
			add("substitute", f.beg, data, nil, true, fmt.Sprintf("%s<-wire%d", fd.Ty.Kind, nt))
		}
	}
	ans, err := e.M.Batch(lines)
	if err != nil {
		e.Res.Fatal(e.Opts.Out, err)
	}
	for i, p := range pend {
		s := e.St[p.ti.Name]
		tgt := p.ti.New()
		out, pos := Decode(tgt, p.data)
		got := ImplAnswer(out, pos, reflect.ValueOf(tgt).Elem(), s)
		key := p.cs.Variant + "/" + p.ti.Name + "/" + common.Hex(p.data)
		if len(key) > 160 {
			key = key[:160]
		}
		outc := "err"
		if out == "ok" {
			outc = "ok"
		} else if out != "err" {
			outc = "panic"
		}
		e.Res.Count(key, p.cs.Variant+":"+p.class+":"+outc, true)
		if i%997 == 0 {
			e.Res.Sample(map[string]interface{}{"type": p.ti.Name, "variant": p.cs.Variant, "at": p.cs.At, "class": p.class, "bytes": p.cs.Hex, "impl": trunc(got)})
		}
		// oracle: error, or exactly the value determined by the complete members present
		if out == "ok" {
			var gv string
			fmt.Sscanf(got, "ok %s", &gv)
			bad := ""
			if p.mustErr {
				bad = "a member with an inadmissible wire type was accepted"
			} else if want, err := lenient.interpStruct(s, p.complete); err != nil {
				bad = "decoding succeeded although the complete members present do not determine a value (" + err.Error() + ")"
			} else if want != gv {
				bad = "decoded value is not the one determined by the complete members present; expected " + trunc(want)
			}
			if bad != "" {
				sig := "C06:" + p.class + ":" + p.cs.Variant
				if p.mustErr {
					sig = "C06:mistyped-accepted:" + p.class
				}
				e.Res.Violate(common.Violation{Signature: sig, What: bad,
					Case: common.Case{Stream: "schema", Op: p.cs, Impl: trunc(got), Note: "bytes " + trunc(common.Hex(p.data))}})
			}
		}
		e.Res.TracesValidated++
		if ans[i] == common.NoModel {
			continue
		}
		if cm := CanonModelAnswer(ans[i], len(p.data)); cm != got {
			e.Res.Diverge(common.Case{Stream: "schema", Op: p.cs, Model: trunc(cm), Impl: trunc(got), Note: "bytes " + trunc(common.Hex(p.data))})
		}
	}
}

func init() {
	Runners["C06"] = func(e *Engine) {
		n := 25
		if e.Opts.Thorough() {
			n = 100 // bounded by the Lean driver's throughput and by the memory of the un-batched case list
		}
		e.RunC06(n)
		e.Res.Rule = "per generated struct type and random value: every proper prefix of the encoding (sampled at field boundaries±1 and 60 random cuts when longer than 150 bytes), " +
			"every embedded string/simple-list/list/map length inflated beyond the remaining input (3 sizes), 3 substitutions of a member by a well-formed field of an inadmissible wire type; " +
			"judged against the independent lenient reference decoder applied to the complete members present; non-trivial = distinct (variant,type,bytes)"
	}
}
