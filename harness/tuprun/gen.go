package tuprun

// Generators: structured mostly-valid attribute sets, mutated encodings, random bytes, the
// exhaustive short inputs.

import (
	"encoding/binary"
	"fmt"
	"math/rand"
	"sort"
)

type genCase struct {
	b    []byte
	note string
}

func randBytes(rng *rand.Rand, n int) []byte {
	b := make([]byte, n)
	for i := range b {
		b[i] = byte(rng.Intn(256))
	}
	return b
}

func keyLen(rng *rand.Rand, big bool) int {
	switch x := rng.Intn(20); {
	case x == 0:
		return 0
	case x < 12:
		return 1 + rng.Intn(16)
	case x < 14:
		return 254 + rng.Intn(4) // around the STRING1/STRING4 switch
	case x < 16:
		return 256 + rng.Intn(200) // STRING4
	case x == 16 && big:
		return 60000 + rng.Intn(10000)
	default:
		return 1 + rng.Intn(64)
	}
}

func valLen(rng *rand.Rand, big bool) int {
	switch x := rng.Intn(20); {
	case x < 2:
		return 0
	case x < 12:
		return 1 + rng.Intn(32)
	case x < 14:
		return 126 + rng.Intn(4) // around the BYTE/SHORT switch of the length field
	case x < 16:
		return 254 + rng.Intn(100)
	case x == 16 && big:
		return 32766 + rng.Intn(4) // around the SHORT/INT switch
	default:
		return 1 + rng.Intn(200)
	}
}

// genSet: 0–20 entries with distinct keys (dup adds repeated keys for hostile inputs).
func genSet(rng *rand.Rand, big, dup bool) [][2][]byte {
	n := rng.Intn(21)
	if rng.Intn(4) == 0 {
		n = rng.Intn(4)
	}
	seen := map[string]bool{}
	var kv [][2][]byte
	for len(kv) < n {
		k := randBytes(rng, keyLen(rng, big))
		if rng.Intn(3) == 0 { // printable keys, as applications use
			for i := range k {
				k[i] = byte('a' + rng.Intn(26))
			}
		}
		if seen[string(k)] {
			if len(k) == 0 { // only one empty key possible
				k = []byte{byte(len(kv))}
				if seen[string(k)] {
					continue
				}
			} else {
				continue
			}
		}
		seen[string(k)] = true
		kv = append(kv, [2][]byte{k, randBytes(rng, valLen(rng, big))})
	}
	if dup && len(kv) > 0 {
		for i := 0; i < 1+rng.Intn(3); i++ {
			j := rng.Intn(len(kv))
			at := rng.Intn(len(kv) + 1)
			e := [2][]byte{kv[j][0], randBytes(rng, valLen(rng, false))}
			kv = append(kv[:at], append([][2][]byte{e}, kv[at:]...)...)
		}
	}
	return kv
}

func splice(b []byte, from, to int, with []byte) []byte {
	out := make([]byte, 0, len(b)-(to-from)+len(with))
	out = append(out, b[:from]...)
	out = append(out, with...)
	return append(out, b[to:]...)
}

// hostileInts: the values every embedded count / length is replaced by.
func hostileInts(remaining int) []int64 {
	return []int64{-1, -128, -32768, -2147483648, 0, 1, int64(remaining), int64(remaining) + 1,
		255, 256, 65535, 65536, 1 << 20, 1 << 23, 1<<31 - 1}
}

// mutations of one reference encoding.
func mutate(rng *rand.Rand, kv [][2][]byte, thorough bool) []genCase {
	b, spots, ents := RefEncode(kv, int64(len(kv)))
	var out []genCase
	add := func(nb []byte, f string, a ...interface{}) { out = append(out, genCase{nb, fmt.Sprintf(f, a...)}) }
	add(b, "valid")
	// truncation at every offset (sampled when long, but always at every structural spot)
	step := 1
	if len(b) > 400 {
		step = len(b)/200 + 1
	}
	cut := map[int]bool{}
	for i := 0; i < len(b); i += step {
		cut[i] = true
	}
	for _, s := range spots {
		for _, o := range []int{s.Off, s.Off + 1, s.End - 1, s.End} {
			if o >= 0 && o < len(b) {
				cut[o] = true
			}
		}
	}
	for _, e := range ents {
		for _, o := range []int{e.KeyOff, e.ValOff, e.ValOff + 1, e.End - 1} {
			if o >= 0 && o < len(b) {
				cut[o] = true
			}
		}
	}
	offs := make([]int, 0, len(cut))
	for i := range cut {
		offs = append(offs, i)
	}
	sort.Ints(offs)
	for _, i := range offs {
		add(b[:i:i], "truncate@%d", i)
	}
	// bit flips
	flips := 24
	if thorough {
		flips = 96
	}
	for i := 0; i < flips && len(b) > 0; i++ {
		p := rng.Intn(len(b))
		if i < len(spots) { // aim at the structure first
			s := spots[i]
			p = s.Off + rng.Intn(s.End-s.Off)
		}
		nb := append([]byte{}, b...)
		bit := rng.Intn(8)
		nb[p] ^= 1 << bit
		add(nb, "flip@%d.%d", p, bit)
	}
	// every count / length replaced by hostile values
	for _, s := range spots {
		rem := len(b) - s.End
		switch s.Kind {
		case "count", "vallen":
			for _, v := range hostileInts(rem) {
				add(splice(b, s.Off, s.End, refInt(v, 0)), "%s@%d=%d", s.Kind, s.Off, v)
			}
			for ty := 0; ty < 16; ty++ { // type nibble of the integer field's head
				if byte(ty) == b[s.Off]&0x0f {
					continue
				}
				nb := append([]byte{}, b...)
				nb[s.Off] = nb[s.Off]&0xf0 | byte(ty)
				add(nb, "%s-type@%d=%d", s.Kind, s.Off, ty)
			}
			for _, tag := range []int{1, 2} {
				nb := append([]byte{}, b...)
				nb[s.Off] = byte(tag)<<4 | nb[s.Off]&0x0f
				add(nb, "%s-tag@%d=%d", s.Kind, s.Off, tag)
			}
			// legal but wider than necessary
			if s.Kind == "count" {
				add(splice(b, s.Off, s.End, refIntWide(int64(len(kv)), 0, 4)), "count-wide4")
				add(splice(b, s.Off, s.End, refIntWide(int64(len(kv)), 0, 2)), "count-wide2")
			}
		case "keylen1":
			for _, v := range []byte{0, 1, byte(rem), byte(rem + 1), 0x7f, 0x80, 0xff} {
				nb := append([]byte{}, b...)
				nb[s.Off] = v
				add(nb, "keylen1@%d=%d", s.Off, v)
			}
		case "keylen4":
			for _, v := range []uint32{0, 1, uint32(rem), uint32(rem + 1), 0x7fffffff, 0x80000000, 0xffffffff} {
				nb := append([]byte{}, b...)
				binary.BigEndian.PutUint32(nb[s.Off:], v)
				add(nb, "keylen4@%d=%d", s.Off, v)
			}
		case "head":
			for ty := 0; ty < 16; ty++ { // type nibble substitution
				if byte(ty) == b[s.Off]&0x0f {
					continue
				}
				nb := append([]byte{}, b...)
				nb[s.Off] = nb[s.Off]&0xf0 | byte(ty)
				add(nb, "type@%d=%d", s.Off, ty)
			}
			for _, tag := range []int{0, 1, 2, 14} { // tag changes
				if byte(tag) == b[s.Off]>>4 {
					continue
				}
				nb := append([]byte{}, b...)
				nb[s.Off] = byte(tag)<<4 | nb[s.Off]&0x0f
				add(nb, "tag@%d=%d", s.Off, tag)
			}
			// extended-tag forms: canonical (tag 200) and non-canonical (the same tag written long)
			add(splice(b, s.Off, s.Off+1, []byte{0xF0 | b[s.Off]&0x0f, 200}), "tag@%d=ext200", s.Off)
			add(splice(b, s.Off, s.Off+1, []byte{0xF0 | b[s.Off]&0x0f, b[s.Off] >> 4}), "tag@%d=longform", s.Off)
		}
	}
	// per entry: missing value, missing key, extra tag-0 field between key and value, StructEnd instead of the value
	for i, e := range ents {
		keyEnd := e.KeyOff + len(e.Key)
		add(splice(b, keyEnd, e.End, nil), "entry%d:no-value", i)
		add(splice(b, e.Beg, keyEnd, nil), "entry%d:no-key", i)
		add(splice(b, keyEnd, keyEnd, refInt(77, 0)), "entry%d:extra-tag0-int", i)
		add(splice(b, keyEnd, keyEnd, refString([]byte("xx"), 0)), "entry%d:extra-tag0-string", i)
		add(splice(b, keyEnd, keyEnd, []byte{0x0A, 0x0B}), "entry%d:extra-tag0-struct", i)
		add(splice(b, keyEnd, e.End, []byte{0x1B}), "entry%d:value-structend", i)
		add(splice(b, keyEnd, e.End, append(refHead(9, 1), 0x0C)), "entry%d:value-emptylist", i)
		add(splice(b, e.End, e.End, refInt(5, 2)), "entry%d:trailing-tag2", i)
	}
	// count mismatches
	for _, c := range []int64{int64(len(kv)) + 1, int64(len(kv)) - 1, int64(len(kv)) * 1000, int64(len(b))} {
		nb, _, _ := RefEncode(kv, c)
		add(nb, "count=%d-of-%d", c, len(kv))
	}
	// trailing bytes
	add(append(append([]byte{}, b...), randBytes(rng, 1+rng.Intn(8))...), "trailing-bytes")
	return out
}

func randomInputs(rng *rand.Rand, n int) []genCase {
	var out []genCase
	for i := 0; i < n; i++ {
		l := rng.Intn(64)
		if rng.Intn(10) == 0 {
			l = rng.Intn(600)
		}
		b := randBytes(rng, l)
		note := "random"
		if l > 0 && rng.Intn(2) == 0 { // bias towards a plausible header
			b[0] = 0x08
			note = "random-map"
			if l > 1 && rng.Intn(2) == 0 {
				b[1] = []byte{0x0C, 0x00, 0x01, 0x02}[rng.Intn(4)]
				if b[1] == 0x00 && l > 2 {
					b[2] = byte(rng.Intn(6))
				}
			}
		}
		out = append(out, genCase{b, note})
	}
	return out
}

// exhaustiveShort: every input of length ≤ 2; with thorough also every `08 xx yy` and `08 0c xx yy`.
func exhaustiveShort(thorough bool) []genCase {
	var out []genCase
	out = append(out, genCase{nil, "exhaustive-0"})
	for a := 0; a < 256; a++ {
		out = append(out, genCase{[]byte{byte(a)}, "exhaustive-1"})
	}
	for a := 0; a < 256; a++ {
		for c := 0; c < 256; c++ {
			out = append(out, genCase{[]byte{byte(a), byte(c)}, "exhaustive-2"})
		}
	}
	if thorough {
		for a := 0; a < 256; a++ {
			for c := 0; c < 256; c++ {
				out = append(out, genCase{[]byte{0x08, byte(a), byte(c)}, "exhaustive-3-map"})
				out = append(out, genCase{[]byte{0x08, 0x00, 0x01, byte(a), byte(c)}, "exhaustive-5-one-entry"})
			}
		}
	}
	return out
}
