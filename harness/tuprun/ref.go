// Package tuprun: correspondence harness and property oracles (C05, C06) for the TUP attribute set
// tars/protocol/tup.UniAttribute (Encode / Decode / PutBuffer / GetBuffer).
//
// This file: an independent reference for the wire form of an attribute set, written from the
// format description and sharing no code with tars/protocol/codec or the Lean model:
//
//	MAP head at tag 0, entry count (integer field, tag 0), then per entry
//	  key   : STRING1/STRING4 at tag 0
//	  value : SimpleList at tag 1 = BYTE head at tag 0, length (integer field, tag 0), the bytes
//
// RefEncode writes that form (narrowest integer width, as the Go and C++ writers do) and records
// where every head, length and payload lies; RefParse reads it back STRICTLY and says exactly how
// far a byte string is a well-formed attribute set and why it stops being one.
package tuprun

import (
	"encoding/binary"
	"fmt"
)

// Entry is one key/value pair with the offsets of its parts in the byte string it was found in.
type Entry struct {
	Key, Val       []byte
	Beg, End       int // the whole entry
	KeyOff, ValOff int // first byte of the key / value payload
}

// Spot is a place in a reference encoding that the mutators aim at.
type Spot struct {
	Kind string // head | count | keylen1 | keylen4 | vallen
	Off  int    // offset of the field's head byte (head, count, vallen) or of the length bytes (keylen*)
	End  int    // end of the field (count, vallen: head + payload; keylen*: the length bytes)
}

func refHead(ty, tag int) []byte {
	if tag < 15 {
		return []byte{byte(tag<<4 | ty)}
	}
	return []byte{byte(0xF0 | ty), byte(tag)}
}

// refInt: integer field in its narrowest width.
func refInt(v int64, tag int) []byte {
	switch {
	case v == 0:
		return refHead(12, tag)
	case v >= -128 && v <= 127:
		return append(refHead(0, tag), byte(v))
	case v >= -32768 && v <= 32767:
		return binary.BigEndian.AppendUint16(refHead(1, tag), uint16(v))
	default:
		return binary.BigEndian.AppendUint32(refHead(2, tag), uint32(v))
	}
}

// refIntWide: the same value in a chosen width (1, 2, 4 bytes), for non-narrowest but legal input.
func refIntWide(v int64, tag, width int) []byte {
	switch width {
	case 1:
		return append(refHead(0, tag), byte(v))
	case 2:
		return binary.BigEndian.AppendUint16(refHead(1, tag), uint16(v))
	default:
		return binary.BigEndian.AppendUint32(refHead(2, tag), uint32(v))
	}
}

func refString(s []byte, tag int) []byte {
	if len(s) > 255 {
		b := binary.BigEndian.AppendUint32(refHead(7, tag), uint32(len(s)))
		return append(b, s...)
	}
	b := append(refHead(6, tag), byte(len(s)))
	return append(b, s...)
}

// RefEncodeEntry: one entry.
func RefEncodeEntry(k, v []byte) []byte {
	b := refString(k, 0)
	b = append(b, refHead(13, 1)...)
	b = append(b, refHead(0, 0)...)
	b = append(b, refInt(int64(len(v)), 0)...)
	return append(b, v...)
}

// RefEncode writes the attribute set with the entries in the given order and the given count
// (normally len(kv)); it also returns the spots.
func RefEncode(kv [][2][]byte, count int64) ([]byte, []Spot, []Entry) {
	var spots []Spot
	var ents []Entry
	b := refHead(8, 0)
	spots = append(spots, Spot{"head", 0, 1})
	c := refInt(count, 0)
	spots = append(spots, Spot{"count", len(b), len(b) + len(c)})
	b = append(b, c...)
	for _, e := range kv {
		k, v := e[0], e[1]
		en := Entry{Key: k, Val: v, Beg: len(b)}
		spots = append(spots, Spot{"head", len(b), len(b) + 1})
		if len(k) > 255 {
			spots = append(spots, Spot{"keylen4", len(b) + 1, len(b) + 5})
			en.KeyOff = len(b) + 5
		} else {
			spots = append(spots, Spot{"keylen1", len(b) + 1, len(b) + 2})
			en.KeyOff = len(b) + 2
		}
		b = append(b, refString(k, 0)...)
		spots = append(spots, Spot{"head", len(b), len(b) + 1})
		b = append(b, refHead(13, 1)...)
		spots = append(spots, Spot{"head", len(b), len(b) + 1})
		b = append(b, refHead(0, 0)...)
		l := refInt(int64(len(v)), 0)
		spots = append(spots, Spot{"vallen", len(b), len(b) + len(l)})
		b = append(b, l...)
		en.ValOff = len(b)
		b = append(b, v...)
		en.End = len(b)
		ents = append(ents, en)
	}
	return b, spots, ents
}

// ---- strict parser ----

// Parsed is what RefParse found.
type Parsed struct {
	HeaderOK bool    // MAP head at tag 0 and a count field were read
	Count    int64   // the announced count (valid when HeaderOK)
	BodyOff  int     // offset of the first entry
	Entries  []Entry // the complete, strictly well-formed entries, in order
	End      int     // offset behind the last complete entry (or behind the header)
	// Why parsing stopped before Count entries were read ("" when all were read):
	//   eof-boundary        the input ends exactly at an entry boundary
	//   eof-key             the input ends inside the key field (head read, payload incomplete)
	//   eof-after-key       the input ends right behind a complete key
	//   eof-value           the input ends inside the value field (behind its SimpleList head)
	//   key-wrong-type      a head with tag 0 whose wire type is not a string (and not StructEnd)
	//   value-wrong-type    a head with tag 1 whose wire type is not SimpleList (and not StructEnd)
	//   elem-wrong-type     the SimpleList's element head is not BYTE at tag 0
	//   len-wrong-type      the value length is not an integer field at tag 0
	//   negative-length     the value length is negative
	//   other               anything else (foreign tags, non-canonical heads, …): no statement made
	Stop string
	// header failure ("" when HeaderOK): eof | not-map | count
	HeaderStop string
}

type refReader struct {
	b []byte
	p int
}

var errEOF = fmt.Errorf("eof")

// head reads one head strictly (canonical form only); ok=false with eof=true when the input ends.
func (r *refReader) head() (ty, tag int, canonical bool, err error) {
	if r.p >= len(r.b) {
		return 0, 0, true, errEOF
	}
	d := r.b[r.p]
	ty, tag = int(d&0x0f), int(d>>4)
	r.p++
	canonical = true
	if tag == 15 {
		if r.p >= len(r.b) {
			return ty, tag, true, errEOF
		}
		tag = int(r.b[r.p])
		r.p++
		if tag < 15 {
			canonical = false
		}
	}
	return ty, tag, canonical, nil
}

// intPayload reads the payload of an integer field of wire type ty (12, 0, 1, 2).
func (r *refReader) intPayload(ty int) (int64, bool, error) {
	need := map[int]int{12: 0, 0: 1, 1: 2, 2: 4}
	n, ok := need[ty]
	if !ok {
		return 0, false, nil
	}
	if r.p+n > len(r.b) {
		r.p = len(r.b)
		return 0, true, errEOF
	}
	var v int64
	switch n {
	case 1:
		v = int64(int8(r.b[r.p]))
	case 2:
		v = int64(int16(binary.BigEndian.Uint16(r.b[r.p:])))
	case 4:
		v = int64(int32(binary.BigEndian.Uint32(r.b[r.p:])))
	}
	r.p += n
	return v, true, nil
}

// RefParse parses b strictly.
func RefParse(b []byte) Parsed {
	r := &refReader{b: b}
	var out Parsed
	ty, tag, canon, err := r.head()
	if err != nil {
		out.HeaderStop = "eof"
		return out
	}
	if !canon || tag != 0 || ty != 8 {
		out.HeaderStop = "not-map"
		return out
	}
	ty, tag, canon, err = r.head()
	if err != nil {
		out.HeaderStop = "eof"
		return out
	}
	if !canon || tag != 0 {
		out.HeaderStop = "count"
		return out
	}
	c, isInt, err := r.intPayload(ty)
	if !isInt {
		out.HeaderStop = "count"
		return out
	}
	if err != nil {
		out.HeaderStop = "eof"
		return out
	}
	out.HeaderOK, out.Count, out.BodyOff, out.End = true, c, r.p, r.p
	for int64(len(out.Entries)) < c {
		beg := r.p
		if r.p >= len(b) {
			out.Stop = "eof-boundary"
			return out
		}
		// key
		ty, tag, canon, err = r.head()
		if err != nil || !canon {
			// a lone extended-tag marker at the end, or a non-canonical head: no statement
			out.Stop = "other"
			return out
		}
		if tag != 0 {
			out.Stop = "other"
			return out
		}
		var klen int
		switch ty {
		case 6:
			if r.p >= len(b) {
				out.Stop = "eof-key"
				return out
			}
			klen = int(b[r.p])
			r.p++
		case 7:
			if r.p+4 > len(b) {
				out.Stop = "eof-key"
				return out
			}
			u := binary.BigEndian.Uint32(b[r.p:])
			r.p += 4
			if uint64(u) > uint64(len(b)) {
				out.Stop = "eof-key"
				return out
			}
			klen = int(u)
		case 11:
			out.Stop = "other"
			return out
		default:
			out.Stop = "key-wrong-type"
			return out
		}
		if r.p+klen > len(b) {
			out.Stop = "eof-key"
			return out
		}
		en := Entry{Beg: beg, KeyOff: r.p, Key: b[r.p : r.p+klen]}
		r.p += klen
		// value
		if r.p >= len(b) {
			out.Stop = "eof-after-key"
			return out
		}
		ty, tag, canon, err = r.head()
		if err != nil {
			out.Stop = "other" // a lone 0xF? byte
			return out
		}
		if !canon || tag != 1 || ty == 11 {
			out.Stop = "other"
			return out
		}
		if ty != 13 {
			out.Stop = "value-wrong-type"
			return out
		}
		if r.p >= len(b) {
			out.Stop = "eof-value"
			return out
		}
		ty, tag, canon, err = r.head()
		if err != nil {
			out.Stop = "eof-value"
			return out
		}
		if !canon {
			out.Stop = "other"
			return out
		}
		if ty != 0 || tag != 0 {
			out.Stop = "elem-wrong-type"
			return out
		}
		if r.p >= len(b) {
			out.Stop = "eof-value"
			return out
		}
		ty, tag, canon, err = r.head()
		if err != nil {
			out.Stop = "eof-value"
			return out
		}
		if !canon {
			out.Stop = "other"
			return out
		}
		if tag != 0 || ty == 11 {
			out.Stop = "other"
			return out
		}
		vlen, isInt, err := r.intPayload(ty)
		if !isInt {
			out.Stop = "len-wrong-type"
			return out
		}
		if err != nil {
			out.Stop = "eof-value"
			return out
		}
		if vlen < 0 {
			out.Stop = "negative-length"
			return out
		}
		if int64(r.p)+vlen > int64(len(b)) {
			out.Stop = "eof-value"
			return out
		}
		en.ValOff = r.p
		en.Val = b[r.p : r.p+int(vlen)]
		r.p += int(vlen)
		en.End = r.p
		out.Entries = append(out.Entries, en)
		out.End = r.p
	}
	return out
}

// MapOf: the map a sequence of entries denotes (a later entry under the same key wins).
func MapOf(es []Entry) map[string][]byte {
	m := map[string][]byte{}
	for _, e := range es {
		m[string(e.Key)] = e.Val
	}
	return m
}
