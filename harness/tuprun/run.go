package tuprun

// Launch: runs the real tup.UniAttribute and the Lean model (driver tm_wire, ops tupdec / tupenc)
// on the same cases and evaluates, on the implementation and independently of the model, the
// clauses of the selected property:
//
//	C05  no panic; bytes allocated ≤ allocK·|input| + allocC (runtime.MemStats); CPU time of one
//	     decode ≤ cpuBase + cpuPerByte·|input| (thread CPU clock) — class `hang`
//	C06  every key and value in the map is a contiguous piece of the input; judged against the
//	     strict reference parser (ref.go): a well-formed set decodes to exactly its entries and
//	     ends behind them; an input that ends inside a key or value field, an inflated length, a
//	     key / value / element / length head of an inadmissible wire type is an error; whatever
//	     the outcome the map holds exactly a prefix of the complete entries (all of them on
//	     success) and never anything else
//
// Both properties run the same streams and the same correspondence.

import (
	"bytes"
	"encoding/hex"
	"fmt"
	"os"
	"path/filepath"
	"runtime"
	"sort"
	"strconv"
	"strings"
	"syscall"
	"time"

	"github.com/TarsCloud/TarsGo/tars/protocol/codec"
	"github.com/TarsCloud/TarsGo/tars/protocol/tup"

	"verifharness/common"
)

// Op is one case (also the replay format).
type Op struct {
	Kind    string      `json:"kind"`              // dec | enc
	Hex     string      `json:"hex,omitempty"`     // dec: the input
	Entries [][2]string `json:"entries,omitempty"` // enc: PutBuffer calls in order (hex key, hex value)
	Note    string      `json:"note,omitempty"`    // how the input was derived
}

const (
	allocK     = 128
	allocC     = 1 << 16
	cpuBase    = 40 * time.Millisecond
	cpuPerByte = 2 * time.Microsecond
	// a count this far beyond the bytes that follow it is not executed any more once the spin
	// has been demonstrated (each such case costs seconds of CPU on a tree that spins)
	spinSkip = 1 << 16
)

func unhex(s string) []byte {
	if s == "-" || s == "" {
		return nil
	}
	b, err := hex.DecodeString(s)
	if err != nil {
		panic(err)
	}
	return b
}

func plainHex(b []byte) string { return hex.EncodeToString(b) }

// ---- observing the implementation ----

type obs struct {
	outcome string // ok | err | panic <value>
	ents    map[string][]byte
	enumErr string // the map could not be enumerated consistently
	pos     int
	alloc   uint64
	wall    time.Duration
	cpu     time.Duration // > 0: CPU time of the decode, confirmed to exceed the bound
}

func safeDecode(u *tup.UniAttribute, rd *codec.Reader) (out string) {
	defer func() {
		if r := recover(); r != nil {
			out = fmt.Sprintf("panic %v", r)
		}
	}()
	if err := u.Decode(rd); err != nil {
		return "err"
	}
	return "ok"
}

// enumerate lists the content of the attribute set without access to its private map: the
// implementation's own Encode writes every entry, the strict reference parser reads them back,
// GetBuffer confirms each, and (short inputs) every byte string the input could announce as a key
// is probed so that an entry Encode does not write would be noticed.
func enumerate(u *tup.UniAttribute, input []byte) (m map[string][]byte, problem string) {
	defer func() {
		if r := recover(); r != nil {
			problem = fmt.Sprintf("Encode/GetBuffer panicked: %v", r)
		}
	}()
	os := codec.NewBuffer()
	if err := u.Encode(os); err != nil {
		return nil, "Encode failed: " + err.Error()
	}
	enc := os.ToBytes()
	p := RefParse(enc)
	if !p.HeaderOK || p.Stop != "" || p.Count != int64(len(p.Entries)) || p.End != len(enc) {
		return nil, "Encode output is not a well-formed attribute set: " + plainHex(enc)
	}
	m = map[string][]byte{}
	for _, e := range p.Entries {
		if _, dup := m[string(e.Key)]; dup {
			return nil, "Encode wrote a key twice"
		}
		var buf []byte
		if err := u.GetBuffer(string(e.Key), &buf); err != nil || !bytes.Equal(buf, e.Val) {
			return nil, fmt.Sprintf("GetBuffer(%x) disagrees with what Encode wrote", e.Key)
		}
		m[string(e.Key)] = append([]byte{}, e.Val...)
	}
	if len(input) <= 300 {
		probe := func(k []byte) bool {
			var buf []byte
			if err := u.GetBuffer(string(k), &buf); err == nil {
				if _, ok := m[string(k)]; !ok {
					problem = fmt.Sprintf("GetBuffer(%x) finds an entry that Encode did not write", k)
					return false
				}
			}
			return true
		}
		if !probe(nil) {
			return nil, problem
		}
		for i := 0; i < len(input); i++ {
			if l := int(input[i]); i+1+l <= len(input) {
				if !probe(input[i+1 : i+1+l]) {
					return nil, problem
				}
			}
			if i+4 <= len(input) {
				l := int(uint32(input[i])<<24 | uint32(input[i+1])<<16 | uint32(input[i+2])<<8 | uint32(input[i+3]))
				if l >= 0 && i+4+l <= len(input) && l > 255 {
					if !probe(input[i+4 : i+4+l]) {
						return nil, problem
					}
				}
			}
		}
	}
	return m, ""
}

func implDecode(b []byte, measure bool) obs {
	u := tup.NewUniAttribute()
	rd := codec.NewReader(b)
	var m0, m1 runtime.MemStats
	if measure {
		runtime.ReadMemStats(&m0)
	}
	t0 := time.Now()
	out := safeDecode(u, rd)
	wall := time.Since(t0)
	if measure {
		runtime.ReadMemStats(&m1)
	}
	o := obs{outcome: out, wall: wall, alloc: m1.TotalAlloc - m0.TotalAlloc}
	o.ents, o.enumErr = enumerate(u, b)
	if !strings.HasPrefix(out, "panic") {
		rest := rd.Next(1 << 40)
		o.pos = len(b) - len(rest)
	}
	return o
}

func threadCPU() time.Duration {
	var ru syscall.Rusage
	if err := syscall.Getrusage(1 /* RUSAGE_THREAD */, &ru); err != nil {
		return -1
	}
	return time.Duration(ru.Utime.Nano() + ru.Stime.Nano())
}

// decodeCPU: CPU time of one Decode on the calling (locked) thread; wall time if the clock is not available.
func decodeCPU(b []byte) time.Duration {
	u := tup.NewUniAttribute()
	rd := codec.NewReader(b)
	c0 := threadCPU()
	t0 := time.Now()
	safeDecode(u, rd)
	if c0 < 0 {
		return time.Since(t0)
	}
	return threadCPU() - c0
}

func showEntries(m map[string][]byte) string {
	if len(m) == 0 {
		return "-"
	}
	keys := make([]string, 0, len(m))
	for k := range m {
		keys = append(keys, plainHex([]byte(k)))
	}
	sort.Strings(keys)
	parts := make([]string, len(keys))
	for i, k := range keys {
		kb, _ := hex.DecodeString(k)
		parts[i] = k + "=" + plainHex(m[string(kb)])
	}
	return strings.Join(parts, ",")
}

func (o obs) canon() string {
	if strings.HasPrefix(o.outcome, "panic") {
		return "panic"
	}
	return fmt.Sprintf("%s %s pos=%d", o.outcome, showEntries(o.ents), o.pos)
}

// canonModel: `ok|err:<class> <entries> pos=<n> iters=<i> alloc=<a>` → outcome, entries, clamped position.
func canonModel(ans string, n int) (canon string, iters, alloc int64) {
	f := strings.Fields(ans)
	if len(f) != 5 {
		return ans, 0, 0
	}
	oc := f[0]
	if strings.HasPrefix(oc, "err:panic") {
		return "panic", 0, 0
	}
	if strings.HasPrefix(oc, "err") {
		oc = "err"
	}
	pos, _ := strconv.Atoi(strings.TrimPrefix(f[2], "pos="))
	if pos > n {
		pos = n
	}
	iters, _ = strconv.ParseInt(strings.TrimPrefix(f[3], "iters="), 10, 64)
	alloc, _ = strconv.ParseInt(strings.TrimPrefix(f[4], "alloc="), 10, 64)
	return fmt.Sprintf("%s %s pos=%d", oc, f[1], pos), iters, alloc
}

func panicClass(out string) string {
	switch {
	case strings.Contains(out, "index out of range"):
		return "panic-index"
	case strings.Contains(out, "slice bounds"):
		return "panic-slice-bounds"
	case strings.Contains(out, "makeslice"):
		return "panic-makeslice"
	case strings.Contains(out, "nil map"):
		return "panic-nil-map"
	case strings.Contains(out, "nil pointer"):
		return "panic-nil-deref"
	}
	return "panic-other"
}

func trunc(s string) string {
	if len(s) > 600 {
		return s[:600] + "…"
	}
	return s
}

// ---- the run ----

type runner struct {
	prop    string
	o       *common.Opts
	res     *common.Result
	m       *common.Model
	spin    bool // the tree spins on an exhausted input (demonstrated by the probe)
	replay  bool
	checked string // variant the model driver runs
}

func (r *runner) violate(class, locus, what string, op Op, impl string) {
	small := op
	if len(small.Hex) > 4000 {
		small.Hex = small.Hex[:4000]
	}
	r.res.Violate(common.Violation{Signature: r.prop + ":" + class + ":" + locus, What: what,
		Case: common.Case{Stream: "wire", Op: small, Impl: trunc(impl)}})
}

// spinRisk: how many iterations beyond the bytes that follow the count the header announces.
func spinRisk(p Parsed, n int) int64 {
	if !p.HeaderOK {
		return 0
	}
	return p.Count - int64(n-p.BodyOff)
}

func equalMaps(a, b map[string][]byte) bool {
	if len(a) != len(b) {
		return false
	}
	for k, v := range a {
		w, ok := b[k]
		if !ok || !bytes.Equal(v, w) {
			return false
		}
	}
	return true
}

// oracle05: totality, allocation, CPU.
func (r *runner) oracle05(op Op, b []byte, o obs, measured bool) {
	if strings.HasPrefix(o.outcome, "panic") {
		r.violate(panicClass(o.outcome), "tup.Decode", "UniAttribute.Decode panicked: "+o.outcome, op, o.outcome)
	}
	if measured && o.alloc > uint64(allocK*len(b)+allocC) {
		r.violate("alloc-unbounded", "tup.Decode", fmt.Sprintf("decoding %d bytes allocated %d bytes (bound %d·len+%d)", len(b), o.alloc, allocK, allocC), op, fmt.Sprint(o.alloc))
	}
	if o.cpu > 0 {
		what := fmt.Sprintf("decoding %d bytes kept the CPU busy for %v (bound %v + %v per byte)", len(b), o.cpu.Round(time.Millisecond), cpuBase, cpuPerByte)
		if p := RefParse(b); spinRisk(p, len(b)) > 0 {
			what += fmt.Sprintf(": the header announces %d entries and %d bytes follow; the loop runs the announced number of iterations although an iteration need not consume input", p.Count, len(b)-p.BodyOff)
		}
		r.violate("hang", "tup.Decode", what, op, fmt.Sprintf("%s after %v CPU", o.outcome, o.cpu.Round(time.Millisecond)))
	}
}

// busy: when a decode took suspiciously long, confirm on the thread CPU clock, twice, so that a
// descheduled harness is not mistaken for a busy decoder; returns the CPU time when it exceeds
// the bound (and remembers that the tree spins), 0 otherwise.
func (r *runner) busy(b []byte, wall time.Duration) time.Duration {
	limit := cpuBase + time.Duration(len(b))*cpuPerByte
	if wall <= limit {
		return 0
	}
	c1 := decodeCPU(b)
	c2 := decodeCPU(b)
	if c2 < c1 {
		c1 = c2
	}
	if c1 > limit {
		r.spin = true
		return c1
	}
	return 0
}

// oracle06: no made-up data; strict reference.
func (r *runner) oracle06(op Op, b []byte, o obs, p Parsed) (class string) {
	if strings.HasPrefix(o.outcome, "panic") {
		return "panic"
	}
	if o.enumErr != "" {
		r.violate("wrong-value", "tup.Encode", "the decoded attribute set cannot be listed consistently: "+o.enumErr, op, o.canon())
		return "enum"
	}
	for k, v := range o.ents {
		if !bytes.Contains(b, []byte(k)) || !bytes.Contains(b, v) {
			r.violate("made-up-data", "tup.Decode", fmt.Sprintf("entry %x=%x is not a contiguous piece of the input (partial string or zero-filled buffer)", k, v), op, o.canon())
			return "made-up"
		}
	}
	if !p.HeaderOK {
		return "header-" + p.HeaderStop
	}
	ok := o.outcome == "ok"
	// which prefixes of the complete entries the map may hold
	prefixOK := func(all bool) bool {
		if all {
			return equalMaps(o.ents, MapOf(p.Entries))
		}
		for j := len(p.Entries); j >= 0; j-- {
			if equalMaps(o.ents, MapOf(p.Entries[:j])) {
				return true
			}
		}
		return false
	}
	switch {
	case p.Count < 0:
		if len(o.ents) != 0 {
			r.violate("partial-entry", "tup.Decode", "a negative count, yet entries were stored", op, o.canon())
		}
		return "negative-count"
	case p.Stop == "":
		// a complete well-formed set (possibly followed by other bytes)
		if !ok {
			// the validated tree may reject a count that exceeds the bytes behind it — impossible here, every entry has ≥ 5 bytes
			r.violate("wrong-value", "tup.Decode", "a well-formed attribute set was rejected", op, o.canon())
		} else if !prefixOK(true) || o.pos != p.End {
			r.violate("wrong-value", "tup.Decode", fmt.Sprintf("a well-formed attribute set decoded to other entries or another end position than the reference (%s pos=%d)", showEntries(MapOf(p.Entries)), p.End), op, o.canon())
		}
		return "well-formed"
	case p.Stop == "eof-key" || p.Stop == "eof-value" || p.Stop == "negative-length":
		if ok {
			r.violate("truncation-accepted", "tup.Decode", "the input ends inside a "+strings.TrimPrefix(p.Stop, "eof-")+" field (or the field announces more than remains), yet Decode returned nil", op, o.canon())
		} else if !prefixOK(false) {
			r.violate("partial-entry", "tup.Decode", "after a cut inside a field the map holds something else than complete entries", op, o.canon())
		}
		return p.Stop
	case p.Stop == "key-wrong-type" || p.Stop == "value-wrong-type" || p.Stop == "elem-wrong-type" || p.Stop == "len-wrong-type":
		if ok {
			r.violate("mistyped-accepted", "tup.Decode", "a "+p.Stop+" head was accepted", op, o.canon())
		} else if !prefixOK(false) {
			r.violate("partial-entry", "tup.Decode", "after a mistyped field the map holds something else than the complete entries before it", op, o.canon())
		}
		return p.Stop
	case p.Stop == "eof-boundary" || p.Stop == "eof-after-key":
		// error, or exactly the value determined by the complete entries present
		if !prefixOK(ok) {
			r.violate("partial-entry", "tup.Decode", "input cut at an entry boundary / behind a key: the map is not the complete entries present", op, o.canon())
		}
		return p.Stop
	}
	return "other"
}

func (r *runner) runDec(cases []genCase, stream string, measure bool) {
	if os.Getenv("VERIF_TUP_TIMING") != "" {
		t0 := time.Now()
		defer func() { fmt.Fprintf(os.Stderr, "stream %s: %d cases %v\n", stream, len(cases), time.Since(t0)) }()
	}
	type item struct {
		gc   genCase
		p    Parsed
		skip bool
	}
	items := make([]item, len(cases))
	var lines []string
	var idx []int
	for i, gc := range cases {
		p := RefParse(gc.b)
		it := item{gc: gc, p: p}
		if r.spin && spinRisk(p, len(gc.b)) > spinSkip {
			it.skip = true
		} else {
			lines = append(lines, "tupdec "+common.Hex(gc.b))
			idx = append(idx, i)
		}
		items[i] = it
	}
	ans, err := r.m.Batch(lines)
	if err != nil {
		r.res.Fatal(r.o.Out, err)
	}
	model := map[int]string{}
	for j, i := range idx {
		model[i] = ans[j]
	}
	for i, it := range items {
		b := it.gc.b
		op := Op{Kind: "dec", Hex: common.Hex(b), Note: it.gc.note}
		kind := it.gc.note
		if j := strings.IndexAny(kind, "@=:"); j > 0 {
			kind = kind[:j]
		}
		if strings.HasPrefix(kind, "entry") {
			kind = "entry-" + it.gc.note[strings.Index(it.gc.note, ":")+1:]
		}
		key := common.Hex(b)
		if len(key) > 160 {
			key = key[:160]
		}
		if it.skip {
			r.res.Count(key, stream+":"+kind+":not-run-after-hang", false)
			continue
		}
		o := implDecode(b, measure)
		o.cpu = r.busy(b, o.wall)
		var cls string
		if r.prop == "C05" {
			r.oracle05(op, b, o, measure)
			cls = strings.Fields(o.outcome)[0]
		} else {
			cls = r.oracle06(op, b, o, it.p)
		}
		r.res.Count(key, stream+":"+kind+":"+cls, len(b) > 0)
		r.res.TracesValidated++
		if i%2503 == 0 {
			r.res.Sample(map[string]interface{}{"stream": stream, "note": it.gc.note, "bytes": trunc(common.Hex(b)), "impl": trunc(o.canon()), "alloc": o.alloc})
		}
		ma := model[i]
		if r.replay {
			fmt.Printf("input  %s\nmodel  %s\nimpl   %s (alloc %d, wall %v)\nref    header=%v count=%d complete=%d stop=%q\n", common.Hex(b), ma, o.canon(), o.alloc, o.wall, it.p.HeaderOK, it.p.Count, len(it.p.Entries), it.p.Stop)
		}
		if ma == common.NoModel {
			continue
		}
		cm, _, malloc := canonModel(ma, len(b))
		if cm != o.canon() {
			r.res.Diverge(common.Case{Stream: "wire", Op: op, Model: trunc(ma), Impl: trunc(o.canon())})
		} else if measure && o.outcome != "panic" && uint64(malloc) > o.alloc+64 {
			// the model's allocation count is a lower bound of what the real decoder requests
			r.res.Diverge(common.Case{Stream: "wire", Op: op, Model: trunc(ma), Impl: fmt.Sprintf("%s allocated %d", o.canon(), o.alloc), Note: "model counts more allocated bytes than the runtime reports"})
		}
	}
}

// runEnc: PutBuffer the entries in order, Encode, compare with the model (entries in the order the
// implementation wrote them) and with the reference; Decode the result.
func (r *runner) runEnc(sets [][][2][]byte) {
	type item struct {
		op   Op
		enc  []byte
		want map[string][]byte
		bad  string
	}
	var items []item
	var lines []string
	for _, kv := range sets {
		it := item{op: Op{Kind: "enc"}, want: map[string][]byte{}}
		u := tup.NewUniAttribute()
		for _, e := range kv {
			it.op.Entries = append(it.op.Entries, [2]string{plainHex(e[0]), plainHex(e[1])})
			src := append([]byte{}, e[1]...)
			u.PutBuffer(string(e[0]), src)
			for i := range src { // PutBuffer stores a copy
				src[i] ^= 0xff
			}
			it.want[string(e[0])] = e[1]
		}
		os := codec.NewBuffer()
		if err := u.Encode(os); err != nil {
			it.bad = "Encode failed: " + err.Error()
		}
		it.enc = append([]byte{}, os.ToBytes()...)
		p := RefParse(it.enc)
		line := "tupenc -"
		if it.bad == "" {
			if !p.HeaderOK || p.Stop != "" || p.Count != int64(len(p.Entries)) || p.End != len(it.enc) {
				it.bad = "the encoding is not a well-formed attribute set"
			} else if !equalMaps(MapOf(p.Entries), it.want) || len(p.Entries) != len(it.want) {
				it.bad = "the encoding does not hold exactly the entries put"
			} else {
				// independent writer, same order
				var ord [][2][]byte
				var parts []string
				for _, e := range p.Entries {
					ord = append(ord, [2][]byte{e.Key, e.Val})
					parts = append(parts, plainHex(e.Key)+"="+plainHex(e.Val))
				}
				if ref, _, _ := RefEncode(ord, int64(len(ord))); !bytes.Equal(ref, it.enc) {
					it.bad = "the encoding differs from the reference writer's for the same entry order"
				}
				if len(parts) > 0 {
					line = "tupenc " + strings.Join(parts, ",")
				}
			}
		}
		var absent []byte = []byte("\x00absent\xff")
		var buf []byte
		if _, there := it.want[string(absent)]; !there && it.bad == "" {
			if err := u.GetBuffer(string(absent), &buf); err == nil {
				it.bad = "GetBuffer of a key that was never put succeeded"
			}
		}
		items = append(items, it)
		lines = append(lines, line)
	}
	ans, err := r.m.Batch(lines)
	if err != nil {
		r.res.Fatal(r.o.Out, err)
	}
	var back []genCase
	for i, it := range items {
		key := "enc/" + common.Hex(it.enc)
		if len(key) > 160 {
			key = key[:160]
		}
		r.res.Count(key, fmt.Sprintf("enc:%d-entries", len(it.want)/5*5), len(it.want) > 0)
		r.res.TracesValidated++
		if it.bad != "" {
			r.violate("round-trip", "tup.Encode", it.bad, it.op, common.Hex(it.enc))
			continue
		}
		if r.replay {
			fmt.Printf("entries %v\nmodel  %s\nimpl   %s\n", it.op.Entries, ans[i], common.Hex(it.enc))
		}
		if ans[i] != common.NoModel && ans[i] != common.Hex(it.enc) {
			r.res.Diverge(common.Case{Stream: "wire", Op: it.op, Model: trunc(ans[i]), Impl: trunc(common.Hex(it.enc))})
		}
		back = append(back, genCase{it.enc, "encoded-by-impl"})
	}
	r.runDec(back, "roundtrip", true)
}

// Launch runs the harness for property prop ("C05" or "C06"; "" = taken from -extra).
func Launch(prop string) {
	o := common.ParseOpts()
	if prop == "" {
		prop = strings.ToUpper(o.Extra)
		if prop != "C05" && prop != "C06" {
			fmt.Fprintln(os.Stderr, "ctup: select the property with -extra C05|C06")
			os.Exit(2)
		}
	}
	runtime.LockOSThread()
	res := common.NewResult(prop, o)
	res.Streams = []string{"wire"}
	res.Rule = "tup.UniAttribute vs Model/Tup.lean (tupdec/tupenc of tm_wire): outcome, map content, reader position; oracle of " + prop + " on the implementation (strict reference parser, MemStats, thread CPU clock)"
	// the TUP model lives in the codec driver tm_wire, next to whatever driver vcheck names
	bin := o.Model
	if bin != "" {
		bin = filepath.Join(filepath.Dir(bin), "tm_wire")
		if _, err := os.Stat(bin); err != nil {
			bin = ""
			res.Note("model driver tm_wire not built: correspondence skipped")
		}
	}
	m, err := common.StartModel(bin, "wire")
	if err != nil {
		res.Fatal(o.Out, err)
	}
	defer m.Close()
	r := &runner{prop: prop, o: o, res: res, m: m, replay: o.Replay != ""}
	if v, err := m.Ask("tupvariant"); err == nil {
		r.checked = v
		res.Note("model variant of UniAttribute.Decode: %s", v)
	}

	if o.Replay != "" {
		var op Op
		if err := common.ReadReplay(o.Replay, &op); err != nil {
			res.Fatal(o.Out, err)
		}
		switch op.Kind {
		case "enc":
			var kv [][2][]byte
			for _, e := range op.Entries {
				kv = append(kv, [2][]byte{unhex(e[0]), unhex(e[1])})
			}
			r.runEnc([][][2][]byte{kv})
		default:
			r.runDec([]genCase{{unhex(op.Hex), op.Note}}, "replay", true)
		}
		res.Write(o.Out)
		return
	}

	rng := o.Rand()
	// 1. probe: does a count beyond the end of the input make the loop spin? (2^23 idle iterations
	//    cost ≈ 0.1 s when it does, microseconds when the count is validated)
	r.runDec([]genCase{{[]byte{0x08, 0x02, 0x00, 0x80, 0x00, 0x00}, "count=8388608-probe"}}, "probe", true)
	if !r.spin {
		// the other way an iteration can consume nothing: a head with a tag greater than 1
		r.runDec([]genCase{{[]byte{0x08, 0x02, 0x00, 0x80, 0x00, 0x00, 0x2c}, "count=8388608-probe-tag2"}}, "probe", true)
	}
	if r.spin {
		res.Note("UniAttribute.Decode spins over an exhausted input: cases announcing more than %d entries beyond the bytes that follow are not executed", spinSkip)
	}
	// 2. exhaustive short inputs
	r.runDec(exhaustiveShort(o.Thorough()), "exhaustive", false)
	// 3. structured sets: encode with the implementation (round trip), then mutate the reference encoding
	nsets, nhost, nrand := 60, 30, 4000
	if o.Thorough() {
		nsets, nhost, nrand = 600, 300, 60000
	}
	var sets [][][2][]byte
	for i := 0; i < nsets; i++ {
		sets = append(sets, genSet(rng, i%7 == 0, i%3 == 0))
	}
	sets = append(sets, nil, [][2][]byte{{nil, nil}})
	r.runEnc(sets)
	for i := 0; i < nhost; i++ {
		kv := genSet(rng, i%9 == 0, i%4 == 0)
		if i < 8 { // small sets: every mutation of every position stays cheap
			kv = genSet(rng, false, i%2 == 0)
			if len(kv) > 3 {
				kv = kv[:3]
			}
		}
		ms := mutate(rng, kv, o.Thorough())
		if len(ms) > 0 && len(ms[0].b) > 4096 && len(ms) > 150 {
			// long encodings: a sample of the mutations (the model reads every case as a hex line)
			rng.Shuffle(len(ms)-1, func(a, b int) { ms[a+1], ms[b+1] = ms[b+1], ms[a+1] })
			ms = ms[:150]
		}
		r.runDec(ms, "mutated", true)
	}
	// 4. random bytes
	r.runDec(randomInputs(rng, nrand), "random", true)

	res.Write(o.Out)
}
