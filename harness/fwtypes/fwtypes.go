// Package fwtypes registers the framework's own tars2go-generated protocol structs.
package fwtypes

import (
	"github.com/TarsCloud/TarsGo/tars/protocol/res/authf"
	"github.com/TarsCloud/TarsGo/tars/protocol/res/configf"
	"github.com/TarsCloud/TarsGo/tars/protocol/res/endpointf"
	"github.com/TarsCloud/TarsGo/tars/protocol/res/logf"
	"github.com/TarsCloud/TarsGo/tars/protocol/res/nodef"
	"github.com/TarsCloud/TarsGo/tars/protocol/res/notifyf"
	"github.com/TarsCloud/TarsGo/tars/protocol/res/propertyf"
	"github.com/TarsCloud/TarsGo/tars/protocol/res/requestf"
	"github.com/TarsCloud/TarsGo/tars/protocol/res/statf"

	"verifharness/codecrun"
)

// Types returns the registry of framework structs.
func Types() []codecrun.TypeInfo {
	return []codecrun.TypeInfo{
		{Name: "requestf.RequestPacket", New: func() codecrun.Codec { return new(requestf.RequestPacket) }},
		{Name: "requestf.ResponsePacket", New: func() codecrun.Codec { return new(requestf.ResponsePacket) }},
		{Name: "endpointf.EndpointF", New: func() codecrun.Codec { return new(endpointf.EndpointF) }},
		{Name: "statf.StatMicMsgHead", New: func() codecrun.Codec { return new(statf.StatMicMsgHead) }},
		{Name: "statf.StatMicMsgBody", New: func() codecrun.Codec { return new(statf.StatMicMsgBody) }},
		{Name: "statf.StatSampleMsg", New: func() codecrun.Codec { return new(statf.StatSampleMsg) }},
		{Name: "statf.ProxyInfo", New: func() codecrun.Codec { return new(statf.ProxyInfo) }},
		{Name: "propertyf.StatPropMsgHead", New: func() codecrun.Codec { return new(propertyf.StatPropMsgHead) }},
		{Name: "propertyf.StatPropInfo", New: func() codecrun.Codec { return new(propertyf.StatPropInfo) }},
		{Name: "propertyf.StatPropMsgBody", New: func() codecrun.Codec { return new(propertyf.StatPropMsgBody) }},
		{Name: "configf.ConfigInfo", New: func() codecrun.Codec { return new(configf.ConfigInfo) }},
		{Name: "configf.GetConfigListInfo", New: func() codecrun.Codec { return new(configf.GetConfigListInfo) }},
		{Name: "logf.LogInfo", New: func() codecrun.Codec { return new(logf.LogInfo) }},
		{Name: "nodef.ServerInfo", New: func() codecrun.Codec { return new(nodef.ServerInfo) }},
		{Name: "notifyf.ReportInfo", New: func() codecrun.Codec { return new(notifyf.ReportInfo) }},
		{Name: "authf.BasicAuthInfo", New: func() codecrun.Codec { return new(authf.BasicAuthInfo) }},
		{Name: "authf.BasicAuthPackage", New: func() codecrun.Codec { return new(authf.BasicAuthPackage) }},
		{Name: "authf.TokenKey", New: func() codecrun.Codec { return new(authf.TokenKey) }},
		{Name: "authf.AuthRequest", New: func() codecrun.Codec { return new(authf.AuthRequest) }},
		{Name: "authf.TokenRequest", New: func() codecrun.Codec { return new(authf.TokenRequest) }},
		{Name: "authf.TokenResponse", New: func() codecrun.Codec { return new(authf.TokenResponse) }},
		{Name: "authf.ApplyTokenRequest", New: func() codecrun.Codec { return new(authf.ApplyTokenRequest) }},
		{Name: "authf.ApplyTokenResponse", New: func() codecrun.Codec { return new(authf.ApplyTokenResponse) }},
		{Name: "authf.DeleteTokenRequest", New: func() codecrun.Codec { return new(authf.DeleteTokenRequest) }},
	}
}
