module verifharness

go 1.23

require github.com/TarsCloud/TarsGo v0.0.0

replace github.com/TarsCloud/TarsGo => /repo
