module verifharness

go 1.23

require github.com/TarsCloud/TarsGo v0.0.0

require go.uber.org/automaxprocs v1.5.2 // indirect

replace github.com/TarsCloud/TarsGo => /repo
