package gendisp

// Build-time half of the generated-dispatch stream: generate the interfaces, run the working tree's
// tars2go, write the glue, build ONE child program (one `go build`) and run it.

import (
	"encoding/json"
	"fmt"
	"math/rand"
	"os"
	"os/exec"
	"path/filepath"
	"strings"
	"time"

	"verifharness/common"
	"verifharness/idlgen"
)

func repoDir() string {
	if d := os.Getenv("VERIF_REPO"); d != "" {
		return d
	}
	return "/repo"
}

func goEnv() []string {
	return append(os.Environ(), "GOFLAGS=-mod=mod", "GOPROXY=off", "GOSUMDB=off", "GOTOOLCHAIN=local", "CGO_ENABLED=0")
}

func runCmd(dir string, timeout time.Duration, env []string, name string, args ...string) (string, error) {
	cmd := exec.Command(name, args...)
	cmd.Dir = dir
	cmd.Env = env
	done := make(chan struct{})
	var out []byte
	var err error
	go func() { out, err = cmd.CombinedOutput(); close(done) }()
	select {
	case <-done:
		return string(out), err
	case <-time.After(timeout):
		if cmd.Process != nil {
			cmd.Process.Kill()
		}
		<-done
		return string(out), fmt.Errorf("timeout after %v", timeout)
	}
}

func upperFirst(s string) string { return strings.ToUpper(s[:1]) + s[1:] }

func lastLines(s string, n int) string {
	ls := strings.Split(strings.TrimSpace(s), "\n")
	if len(ls) > n {
		ls = ls[len(ls)-n:]
	}
	return strings.Join(ls, "\n")
}

// ---- the fixed module: every answer shape the property distinguishes ----

func sc(k string) *idlgen.IType           { return &idlgen.IType{Kind: k} }
func st(n string) *idlgen.IType           { return &idlgen.IType{Kind: "struct", Name: n} }
func vec(e *idlgen.IType) *idlgen.IType   { return &idlgen.IType{Kind: "vector", Elem: e} }
func mp(k, e *idlgen.IType) *idlgen.IType { return &idlgen.IType{Kind: "map", Key: k, Elem: e} }

func fixedModule() *idlgen.ModuleDesc {
	in := func(n string, t *idlgen.IType) idlgen.Param { return idlgen.Param{Name: n, Ty: t} }
	out := func(n string, t *idlgen.IType) idlgen.Param { return idlgen.Param{Name: n, Ty: t, Out: true} }
	md := &idlgen.ModuleDesc{Name: "Fix", Funcs: []idlgen.Func{
		{Name: "retOneOut", Ret: sc("int"), Params: []idlgen.Param{in("a", sc("int")), out("b", sc("string"))}},
		{Name: "retOuts", Ret: sc("long"), Params: []idlgen.Param{in("a", sc("string")), out("p", st("P")), out("v", vec(sc("int"))), out("m", mp(sc("int"), sc("string")))}},
		{Name: "voidOuts", Params: []idlgen.Param{in("a", st("P")), out("q", st("Q")), out("f", sc("bool"))}},
		{Name: "voidOneOut", Params: []idlgen.Param{out("ps", vec(st("P")))}},
		{Name: "retOnly", Ret: st("Q"), Params: []idlgen.Param{in("q", st("Q")), in("n", sc("short"))}},
		{Name: "retOutFirst", Ret: sc("string"), Params: []idlgen.Param{out("x", sc("unsigned byte")), in("a", sc("int")), out("y", sc("long"))}},
		{Name: "retStructOut", Ret: st("P"), Params: []idlgen.Param{out("p", st("P"))}},
		{Name: "bytesBoth", Ret: vec(sc("byte")), Params: []idlgen.Param{in("a", vec(sc("byte"))), out("b", vec(sc("byte")))}},
		{Name: "nothing"},
		{Name: "floats", Ret: sc("double"), Params: []idlgen.Param{in("f", sc("float")), out("g", sc("float")), out("h", sc("double"))}},
		{Name: "mapOut", Ret: sc("bool"), Params: []idlgen.Param{out("m", mp(sc("string"), st("P")))}},
	}}
	var sb strings.Builder
	sb.WriteString("module Fix\n{\n")
	sb.WriteString("    struct P\n    {\n        0 require int a;\n        1 optional string s;\n        2 optional vector<long> v;\n    };\n")
	sb.WriteString("    struct Q\n    {\n        0 require P p;\n        1 optional map<string, P> m;\n        3 optional double d = 2.5;\n    };\n")
	sb.WriteString("    interface Ifc\n    {\n")
	for _, f := range md.Funcs {
		ret := "void"
		if f.Ret != nil {
			ret = f.Ret.IDL()
		}
		var ps []string
		for _, p := range f.Params {
			o := ""
			if p.Out {
				o = "out "
			}
			ps = append(ps, o+p.Ty.IDL()+" "+p.Name)
		}
		fmt.Fprintf(&sb, "        %s %s(%s);\n", ret, f.Name, strings.Join(ps, ", "))
	}
	sb.WriteString("    };\n};\n")
	md.IDL = sb.String()
	return md
}

// glue: the scripted implementation (every method calls Hook) and the registration of one module.
func glue(md *idlgen.ModuleDesc) string {
	var sb strings.Builder
	pkg := md.Name
	fmt.Fprintf(&sb, "type imp%s struct{}\n\n", pkg)
	var descs []string
	for _, f := range md.Funcs {
		var sig, ins, outs, pds []string
		for _, p := range f.Params {
			gt := p.Ty.Go(pkg)
			ptr := p.Out || p.Ty.Kind == "struct"
			if ptr {
				sig = append(sig, p.Name+" *"+gt)
			} else {
				sig = append(sig, p.Name+" "+gt)
			}
			switch {
			case p.Out:
				outs = append(outs, p.Name)
			case ptr:
				ins = append(ins, p.Name)
			default:
				ins = append(ins, "&"+p.Name)
			}
			pds = append(pds, fmt.Sprintf("{Name: %q, Out: %v, Type: reflect.TypeOf((*%s)(nil)).Elem()}", p.Name, p.Out, gt))
		}
		retDecl, retPtr, retTy := "err error", "nil", "nil"
		if f.Ret != nil {
			retDecl, retPtr = "ret "+f.Ret.Go(pkg)+", err error", "&ret"
			retTy = fmt.Sprintf("reflect.TypeOf((*%s)(nil)).Elem()", f.Ret.Go(pkg))
		}
		args := "tarsCtx context.Context"
		if len(sig) > 0 {
			args += ", " + strings.Join(sig, ", ")
		}
		fmt.Fprintf(&sb, "func (imp%s) %s(%s) (%s) {\n\terr = gendisp.Hook(tarsCtx, %q, []interface{}{%s}, []interface{}{%s}, %s)\n\treturn\n}\n\n",
			pkg, upperFirst(f.Name), args, retDecl, pkg+"."+f.Name, strings.Join(ins, ", "), strings.Join(outs, ", "), retPtr)
		descs = append(descs, fmt.Sprintf("\t\t{Name: %q, Ret: %s, Params: []gendisp.ParamDesc{%s}},", f.Name, retTy, strings.Join(pds, ", ")))
	}
	fmt.Fprintf(&sb, "func init() {\n\tgendisp.Register(%q, new(%s.Ifc), imp%s{}, []gendisp.FuncDesc{\n%s\n\t})\n}\n\n", pkg, pkg, pkg, strings.Join(descs, "\n"))
	return sb.String()
}

// Launch is the main of cmd/c10gen.
func Launch() {
	o := common.ParseOpts()
	res := common.NewResult("C10", o)
	res.Streams = []string{"generated-dispatch"}
	tmp, err := os.MkdirTemp("", "verif-c10gen-")
	if err != nil {
		res.Fatal(o.Out, err)
	}
	if os.Getenv("VERIF_GENDISP_KEEP") == "" {
		defer os.RemoveAll(tmp)
	} else {
		fmt.Fprintln(os.Stderr, "keeping", tmp)
	}
	fail := func(err error) {
		if os.Getenv("VERIF_GENDISP_KEEP") == "" {
			os.RemoveAll(tmp)
		}
		res.Fatal(o.Out, err)
	}
	repo := repoDir()
	t0 := time.Now()
	if out, err := runCmd(filepath.Join(repo, "tars/tools/tars2go"), 5*time.Minute, goEnv(), "go", "build", "-o", filepath.Join(tmp, "tars2go"), "."); err != nil {
		fail(fmt.Errorf("tars2go does not build: %v\n%s", err, lastLines(out, 10)))
	}
	genSeed, genTier := o.Seed, o.Tier
	if o.Replay != "" {
		var c Case
		if err := common.ReadReplay(o.Replay, &c); err != nil {
			fail(err)
		}
		if c.GenTier != "" {
			genSeed, genTier = c.GenSeed, c.GenTier
		}
	}
	nmod := 3
	if genTier == "thorough" {
		nmod = 10
	}
	rng := rand.New(rand.NewSource(genSeed))
	mods := []*idlgen.ModuleDesc{fixedModule()}
	for i := 0; i < nmod; i++ {
		mods = append(mods, idlgen.Describe(fmt.Sprintf("Gen%d", i), rng.Int63(), idlgen.Options{Structs: 3, Funcs: 4, AvoidOptionalByteNoDefault: true}))
	}
	idl := map[string]string{}
	for _, md := range mods {
		idl[md.Name] = md.IDL
		os.WriteFile(filepath.Join(tmp, md.Name+".tars"), []byte(md.IDL), 0o644)
		if out, err := runCmd(tmp, 60*time.Second, goEnv(), filepath.Join(tmp, "tars2go"), "-outdir=out", "-module=genmod/out", md.Name+".tars"); err != nil {
			fail(fmt.Errorf("the working tree's tars2go failed on %s.tars (whether it accepts valid IDL is C16's subject; this stream cannot run):\n%s\n%s", md.Name, lastLines(out, 5), md.IDL))
		}
	}
	var mb strings.Builder
	mb.WriteString("package main\n\nimport (\n\t\"context\"\n\t\"reflect\"\n\n\t\"verifharness/gendisp\"\n")
	for _, m := range mods {
		fmt.Fprintf(&mb, "\t%s \"genmod/out/%s\"\n", m.Name, m.Name)
	}
	mb.WriteString(")\n\nvar _ = context.Background\nvar _ = reflect.TypeOf\n\nfunc main() { gendisp.ChildMain() }\n\n")
	for _, m := range mods {
		mb.WriteString(glue(m))
	}
	os.WriteFile(filepath.Join(tmp, "main.go"), []byte(mb.String()), 0o644)
	gomod := fmt.Sprintf("module genmod\n\ngo 1.23\n\nrequire (\n\tgithub.com/TarsCloud/TarsGo v0.0.0\n\tverifharness v0.0.0\n)\n\nreplace github.com/TarsCloud/TarsGo => %s\n\nreplace verifharness => /verif/harness\n", repo)
	os.WriteFile(filepath.Join(tmp, "go.mod"), []byte(gomod), 0o644)
	if sum, err := os.ReadFile(filepath.Join(repo, "go.sum")); err == nil {
		os.WriteFile(filepath.Join(tmp, "go.sum"), sum, 0o644)
	}
	if out, err := runCmd(tmp, 10*time.Minute, goEnv(), "go", "build", "-tags", "verif", "-o", "child", "."); err != nil {
		keep := filepath.Join("/verif/out", "failed-c10gen-main.go")
		os.WriteFile(keep, []byte(mb.String()), 0o644)
		fail(fmt.Errorf("the emitted dispatcher code (or the glue, kept as %s) does not compile (C16's subject; this stream cannot run):\n%s", keep, lastLines(out, 12)))
	}
	buildS := time.Since(t0).Seconds()
	outFile := filepath.Join(tmp, "res.json")
	args := []string{"-tier", o.Tier, "-seed", fmt.Sprint(o.Seed), "-model", o.Model, "-out", outFile}
	if o.Replay != "" {
		args = append(args, "-replay", o.Replay)
	}
	idlJSON, _ := json.Marshal(idl)
	env := append(os.Environ(), fmt.Sprintf("VERIF_GENDISP_GENSEED=%d", genSeed), "VERIF_GENDISP_GENTIER="+genTier, "VERIF_GENDISP_IDL="+string(idlJSON))
	var r *common.Result
	var out string
	var lerr error
	for attempt := 0; attempt < 3; attempt++ {
		os.Remove(outFile)
		out, err = runCmd(tmp, 20*time.Minute, env, filepath.Join(tmp, "child"), args...)
		r, lerr = common.LoadResult(outFile)
		if lerr == nil && (strings.Contains(r.HarnessError, "did not start") || strings.Contains(r.HarnessError, "Run returned")) {
			continue // another process took a port between FreePort and the bind: nothing was tested
		}
		break
	}
	if o.Replay != "" {
		fmt.Print(out)
	}
	if lerr != nil {
		fail(fmt.Errorf("the child failed: %v %v\n%s", err, lerr, lastLines(out, 20)))
	}
	r.Note("generated-dispatch: tars2go + go build of the child: %.1fs", buildS)
	if err := r.WriteRaw(o.Out); err != nil {
		panic(err)
	}
	if r.HarnessError != "" {
		fmt.Fprintln(os.Stderr, r.HarnessError)
		os.RemoveAll(tmp)
		os.Exit(3)
	}
}
