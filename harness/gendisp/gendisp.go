// Package gendisp: the "generated-dispatch" stream of C10.
//
// The main C10 harness (cmd/c10) drives real servers with a hand-written dispatcher; the version
// branches of the dispatcher that tars2go EMITS (TARS / TUP / JSON argument decoding and answer
// encoding in gen_go.go's genSwitchCase) are never executed there. This stream closes that gap:
// interfaces (a fixed module with every answer shape + random idlgen modules) are compiled with the
// working tree's tars2go into a temporary module, the emitted dispatchers are registered with a REAL
// TarsGo application (AddServantWithContext, TCP adapter, Protocol.Invoke, rsp2Byte/req2Byte) inside a
// child process, and the same process sends hand-built TARS-, TUP- and JSON-versioned RequestPackets
// over TCP with a scripted implementation behind the dispatcher.
//
// Oracle (no generated code and no tars/protocol/codec reader involved in judging the answer payload):
//
//	TARS  the strict reference decoder of codecrun over the synthetic schema {0: ret, k+1: out k}
//	TUP   the strict reference parser of tuprun for the attribute set, which must hold exactly the
//	      attributes "" and "tars_ret" (functions with a return value) and one attribute per out
//	      parameter, each value being exactly ONE field at tag 0 of the declared type
//	JSON  encoding/json: exactly the members "tars_ret" + the out parameter names
//
// plus: one answer per two-way request with the request's id/version/packet type and the encoding of
// its version, none per one-way request, iRet 0 on success, the error's code and message when the
// implementation fails (status map entries for TUP), the implementation called exactly once with
// exactly the in arguments.
//
// This file is the run-time half (linked into the generated child); launch.go builds and runs it.
package gendisp

import (
	"context"
	"encoding/binary"
	"encoding/hex"
	"encoding/json"
	"errors"
	"fmt"
	"hash/fnv"
	"io"
	"math"
	"math/rand"
	"net"
	"os"
	"reflect"
	"sort"
	"strconv"
	"strings"
	"sync"
	"time"

	"github.com/TarsCloud/TarsGo/tars"
	"github.com/TarsCloud/TarsGo/tars/protocol/codec"
	"github.com/TarsCloud/TarsGo/tars/protocol/res/requestf"
	"github.com/TarsCloud/TarsGo/tars/util/current"

	"verifharness/codecrun"
	"verifharness/common"
	"verifharness/srv"
	"verifharness/tuprun"
)

const callKey = "vcall"

// ParamDesc / FuncDesc / registration: filled in by the generated glue.
type ParamDesc struct {
	Name string
	Out  bool
	Type reflect.Type
}

type FuncDesc struct {
	Name   string
	Params []ParamDesc
	Ret    reflect.Type // nil = void
}

type servant struct {
	mod   string
	obj   string
	disp  srv.Dispatcher
	imp   interface{}
	funcs []FuncDesc
}

var servants []*servant

// Register is called from the generated glue's init functions.
func Register(mod string, d srv.Dispatcher, imp interface{}, funcs []FuncDesc) {
	servants = append(servants, &servant{mod: mod, obj: "App.Server." + mod + "Obj", disp: d, imp: imp, funcs: funcs})
}

// ---- values ----

var (
	uni = codecrun.NewUniverse()
	uMu sync.Mutex
)

func tyOf(t reflect.Type) *codecrun.Ty {
	uMu.Lock()
	defer uMu.Unlock()
	ty, err := uni.TyOf(t)
	if err != nil {
		panic(err)
	}
	return ty
}

func text(v reflect.Value) string { return codecrun.ValText(v, tyOf(v.Type())) }

// gen: a random value of type t, normalised the way the codec normalises (an optional float member
// equal under == to its default is not transmitted).
func gen(rng *rand.Rand, t reflect.Type) reflect.Value {
	v := reflect.New(t).Elem()
	ty := tyOf(t)
	uMu.Lock()
	uni.GenInto(rng, v, ty, 1)
	codecrun.NormValue(v, ty)
	uMu.Unlock()
	return v
}

// jsonable makes v representable by encoding/json without loss: strings become printable ASCII,
// NaN/Inf finite. ok=false: the type has map keys encoding/json cannot carry (bool, float).
func jsonable(v reflect.Value) (ok bool) {
	switch v.Kind() {
	case reflect.String:
		b := []byte(v.String())
		for i := range b {
			b[i] = 32 + b[i]%95
			if b[i] == '<' || b[i] == '>' || b[i] == '&' {
				b[i] = '_'
			}
		}
		v.SetString(string(b))
	case reflect.Float32, reflect.Float64:
		f := v.Float()
		if math.IsNaN(f) || math.IsInf(f, 0) {
			v.SetFloat(1.5)
		}
	case reflect.Slice, reflect.Array:
		for i := 0; i < v.Len(); i++ {
			if !jsonable(v.Index(i)) {
				return false
			}
		}
	case reflect.Map:
		switch v.Type().Key().Kind() {
		case reflect.Bool, reflect.Float32, reflect.Float64, reflect.Struct, reflect.Slice, reflect.Map, reflect.Array:
			return false
		}
		if v.IsNil() {
			return true
		}
		m := reflect.MakeMap(v.Type())
		it := v.MapRange()
		for it.Next() {
			k := reflect.New(v.Type().Key()).Elem()
			k.Set(it.Key())
			e := reflect.New(v.Type().Elem()).Elem()
			e.Set(it.Value())
			if !jsonable(k) || !jsonable(e) {
				return false
			}
			m.SetMapIndex(k, e)
		}
		v.Set(m)
	case reflect.Struct:
		for i := 0; i < v.NumField(); i++ {
			if !jsonable(v.Field(i)) {
				return false
			}
		}
	}
	return true
}

// ---- request-side reflective encoder (what the parameter templates must accept) ----

type blockT interface {
	WriteBlock(*codec.Buffer, byte) error
}

func enc(b *codec.Buffer, v reflect.Value, tag byte) error {
	switch v.Kind() {
	case reflect.Bool:
		return b.WriteBool(v.Bool(), tag)
	case reflect.Int8:
		return b.WriteInt8(int8(v.Int()), tag)
	case reflect.Int16:
		return b.WriteInt16(int16(v.Int()), tag)
	case reflect.Int32:
		return b.WriteInt32(int32(v.Int()), tag)
	case reflect.Int64:
		return b.WriteInt64(v.Int(), tag)
	case reflect.Uint8:
		return b.WriteUint8(uint8(v.Uint()), tag)
	case reflect.Uint16:
		return b.WriteUint16(uint16(v.Uint()), tag)
	case reflect.Uint32:
		return b.WriteUint32(uint32(v.Uint()), tag)
	case reflect.Float32:
		return b.WriteFloat32(v.Interface().(float32), tag)
	case reflect.Float64:
		return b.WriteFloat64(v.Float(), tag)
	case reflect.String:
		return b.WriteString(v.String(), tag)
	case reflect.Slice, reflect.Array:
		if v.Kind() == reflect.Slice && v.Type().Elem().Kind() == reflect.Int8 {
			if err := b.WriteHead(codec.SimpleList, tag); err != nil {
				return err
			}
			if err := b.WriteHead(codec.BYTE, 0); err != nil {
				return err
			}
			if err := b.WriteInt32(int32(v.Len()), 0); err != nil {
				return err
			}
			s := make([]int8, v.Len())
			for i := range s {
				s[i] = int8(v.Index(i).Int())
			}
			return b.WriteSliceInt8(s)
		}
		if err := b.WriteHead(codec.LIST, tag); err != nil {
			return err
		}
		if err := b.WriteInt32(int32(v.Len()), 0); err != nil {
			return err
		}
		for i := 0; i < v.Len(); i++ {
			if err := enc(b, v.Index(i), 0); err != nil {
				return err
			}
		}
		return nil
	case reflect.Map:
		if err := b.WriteHead(codec.MAP, tag); err != nil {
			return err
		}
		if err := b.WriteInt32(int32(v.Len()), 0); err != nil {
			return err
		}
		it := v.MapRange()
		for it.Next() {
			if err := enc(b, it.Key(), 0); err != nil {
				return err
			}
			if err := enc(b, it.Value(), 1); err != nil {
				return err
			}
		}
		return nil
	case reflect.Struct:
		p := reflect.New(v.Type())
		p.Elem().Set(v)
		return p.Interface().(blockT).WriteBlock(b, tag)
	}
	return fmt.Errorf("enc: unsupported kind %v", v.Kind())
}

func encBytes(v reflect.Value, tag byte) ([]byte, error) {
	b := codec.NewBuffer()
	if err := enc(b, v, tag); err != nil {
		return nil, err
	}
	return b.ToBytes(), nil
}

// ---- scenarios and the implementation hook ----

// Script: how the implementation answers.
type Script struct {
	Err  string `json:"err"` // "" | tars | plain
	Code int32  `json:"code"`
	Msg  string `json:"msg"`
}

type scenario struct {
	id     string
	fd     *FuncDesc
	ins    []reflect.Value
	outs   []reflect.Value
	ret    reflect.Value
	script Script

	mu     sync.Mutex
	called int
	gotIns []string
	gotFn  string
}

var scenarios sync.Map

// Hook is what every generated implementation method calls: ins/outs are pointers to the in / out
// parameters in declaration order, ret a pointer to the return variable (nil for void).
func Hook(ctx context.Context, fn string, ins []interface{}, outs []interface{}, ret interface{}) error {
	rc, _ := current.GetRequestContext(ctx)
	x, ok := scenarios.Load(rc[callKey])
	if !ok {
		return fmt.Errorf("gendisp: call without scenario (%q)", rc[callKey])
	}
	sc := x.(*scenario)
	sc.mu.Lock()
	defer sc.mu.Unlock()
	sc.called++
	sc.gotFn = fn
	sc.gotIns = nil
	for _, p := range ins {
		sc.gotIns = append(sc.gotIns, text(reflect.ValueOf(p).Elem()))
	}
	switch sc.script.Err {
	case "tars":
		return &tars.Error{Code: sc.script.Code, Message: sc.script.Msg}
	case "plain":
		return errors.New(sc.script.Msg)
	}
	for i, p := range outs {
		reflect.ValueOf(p).Elem().Set(sc.outs[i])
	}
	if ret != nil {
		reflect.ValueOf(ret).Elem().Set(sc.ret)
	}
	return nil
}

// ---- one case ----

// Case is what a replay file holds.
type Case struct {
	GenSeed int64  `json:"gen_seed"`
	GenTier string `json:"gen_tier"`
	Module  string `json:"module"`
	IDL     string `json:"idl,omitempty"`
	Func    string `json:"func"`
	Sig     string `json:"signature_of_func,omitempty"`
	Version string `json:"version"` // tars | tup | json
	OneWay  bool   `json:"one_way"`
	Seed    int64  `json:"value_seed"`
	Script  Script `json:"script"`
}

var versionNo = map[string]int16{"tars": 1, "tup": 3, "json": 5}

func hx(b []byte) string {
	if len(b) == 0 {
		return "-"
	}
	return hex.EncodeToString(b)
}

type stray struct {
	cs   Case
	what string
}

type client struct {
	conn   net.Conn
	nextID int32
	// one-way requests sent on this connection: an answer to one of them may arrive any time later
	oneWays map[int32]Case
	strays  []stray
}

// note an answer nobody waits for; false = it belongs to no one-way request of this connection either
func (c *client) noteStray(body []byte) bool {
	a, err := decodeAnswer(body)
	if err != nil {
		return false
	}
	cs, ok := c.oneWays[a.id]
	if ok {
		c.strays = append(c.strays, stray{cs, fmt.Sprintf("a one-way request (id %d) was answered: %s version %d packet type %d return code %d %q", a.id, a.kind, a.ver, a.ptype, a.ret, a.desc)})
	}
	return ok
}

func (c *client) send(p *requestf.RequestPacket) error {
	b := codec.NewBuffer()
	if err := p.WriteTo(b); err != nil {
		return err
	}
	body := b.ToBytes()
	out := make([]byte, 4, 4+len(body))
	binary.BigEndian.PutUint32(out, uint32(4+len(body)))
	c.conn.SetWriteDeadline(time.Now().Add(20 * time.Second))
	_, err := c.conn.Write(append(out, body...))
	return err
}

// recv reads one frame; wait bounds the time to its first byte.
func (c *client) recv(wait time.Duration) ([]byte, error) {
	c.conn.SetReadDeadline(time.Now().Add(wait))
	hdr := make([]byte, 4)
	if _, err := io.ReadFull(c.conn, hdr); err != nil {
		return nil, err
	}
	l := int(binary.BigEndian.Uint32(hdr))
	if l < 4 || l > 64<<20 {
		return nil, fmt.Errorf("frame length %d", l)
	}
	body := make([]byte, l-4)
	c.conn.SetReadDeadline(time.Now().Add(20 * time.Second))
	if _, err := io.ReadFull(c.conn, body); err != nil {
		return nil, err
	}
	return body, nil
}

type answer struct {
	kind   string // rsp | req
	ver    int16
	ptype  int8
	id     int32
	ret    int32
	desc   string
	status map[string]string
	buf    []byte
}

func decodeAnswer(body []byte) (*answer, error) {
	var rsp requestf.ResponsePacket
	var req requestf.RequestPacket
	e1 := rsp.ReadFrom(codec.NewReader(body))
	e2 := req.ReadFrom(codec.NewReader(body))
	u8 := func(s []int8) []byte {
		b := make([]byte, len(s))
		for i, x := range s {
			b[i] = byte(x)
		}
		return b
	}
	switch {
	case e1 == nil && e2 != nil:
		return &answer{kind: "rsp", ver: rsp.IVersion, ptype: rsp.CPacketType, id: rsp.IRequestId, ret: rsp.IRet, desc: rsp.SResultDesc, status: rsp.Status, buf: u8(rsp.SBuffer)}, nil
	case e2 == nil && e1 != nil:
		a := &answer{kind: "req", ver: req.IVersion, ptype: req.CPacketType, id: req.IRequestId, status: req.Status, buf: u8(req.SBuffer)}
		if c, ok := req.Status["STATUS_RESULT_CODE"]; ok {
			n, err := strconv.ParseInt(c, 10, 32)
			if err != nil {
				return nil, fmt.Errorf("STATUS_RESULT_CODE %q", c)
			}
			a.ret = int32(n)
			a.desc = req.Status["STATUS_RESULT_DESC"]
		}
		return a, nil
	}
	return nil, fmt.Errorf("decodes neither as ResponsePacket (%v) nor as RequestPacket (%v)", e1, e2)
}

// verdict of one case: part == "" means the property held.
type verdict struct {
	part, msg string
	skipped   bool
	modelLine string // tupattrs line for the model ("" = none)
	implAttrs string // what the real answer's attribute set is, in the model's notation
}

func field(tag int, t reflect.Type) codecrun.Field {
	return codecrun.Field{Tag: tag, Req: true, Ty: tyOf(t), Dflt: "-"}
}

// refOne decodes a byte string that must be exactly one field (tag) of type t.
func refOne(b []byte, tag int, t reflect.Type, strict bool) (string, error) {
	s := &codecrun.Struct{Name: "one", Fields: []codecrun.Field{field(tag, t)}}
	txt, err := codecrun.RefDecoder{Strict: strict}.Decode(s, b)
	if err != nil {
		return "", err
	}
	return codecrun.CanonText(strings.TrimSuffix(strings.TrimPrefix(txt, "T["), "]")), nil
}

func canon(v reflect.Value) string { return codecrun.CanonText(text(v)) }

func (sc *scenario) outIdx() []int {
	var idx []int
	for k, p := range sc.fd.Params {
		if p.Out {
			idx = append(idx, k)
		}
	}
	return idx
}

// checkPayload judges the answer buffer of a successful call.
func (sc *scenario) checkPayload(version string, buf []byte) (v verdict) {
	fd := sc.fd
	oi := sc.outIdx()
	switch version {
	case "tars":
		s := &codecrun.Struct{Name: "answer"}
		if fd.Ret != nil {
			s.Fields = append(s.Fields, field(0, fd.Ret))
		}
		for _, k := range oi {
			s.Fields = append(s.Fields, field(k+1, fd.Params[k].Type))
		}
		if fd.Ret != nil {
			got, err := refOne(buf, 0, fd.Ret, false)
			if err != nil {
				return verdict{part: "ret", msg: "return value (tag 0): " + err.Error()}
			}
			if want := canon(sc.ret); got != want {
				return verdict{part: "ret", msg: fmt.Sprintf("implementation returned %s, the answer carries %s", want, got)}
			}
		}
		for j, k := range oi {
			got, err := refOne(buf, k+1, fd.Params[k].Type, false)
			if err != nil {
				return verdict{part: "out-args", msg: fmt.Sprintf("out parameter %s (tag %d): %v", fd.Params[k].Name, k+1, err)}
			}
			if want := canon(sc.outs[j]); got != want {
				return verdict{part: "out-args", msg: fmt.Sprintf("out parameter %s: implementation set %s, the answer carries %s", fd.Params[k].Name, want, got)}
			}
		}
		if _, err := (codecrun.RefDecoder{Strict: true}).Decode(s, buf); err != nil {
			return verdict{part: "payload", msg: "the answer buffer is not exactly {0: ret, k+1: out k}: " + err.Error()}
		}
	case "tup":
		p := tuprun.RefParse(buf)
		if !p.HeaderOK || p.Stop != "" || int64(len(p.Entries)) != p.Count || p.End != len(buf) {
			return verdict{part: "attributes", msg: fmt.Sprintf("the answer buffer is not a well-formed attribute set (header %v %s, %d of %d entries, stop %q, %d of %d bytes)",
				p.HeaderOK, p.HeaderStop, len(p.Entries), p.Count, p.Stop, p.End, len(buf))}
		}
		got := map[string][]byte{}
		var attrs []string
		for _, e := range p.Entries {
			if _, dup := got[string(e.Key)]; dup {
				return verdict{part: "attributes", msg: fmt.Sprintf("attribute %q occurs twice", e.Key)}
			}
			got[string(e.Key)] = e.Val
			attrs = append(attrs, hx(e.Key)+":"+hx(e.Val))
		}
		sort.Strings(attrs)
		v.implAttrs = strings.Join(attrs, ",")
		if len(attrs) == 0 {
			v.implAttrs = "-"
		}
		// the model's input: the reference encodings of the scripted values
		retArg := "-"
		if fd.Ret != nil {
			b, err := encBytes(sc.ret, 0)
			if err != nil {
				return verdict{part: "harness", msg: err.Error()}
			}
			retArg = "=" + hex.EncodeToString(b)
		}
		var outArgs []string
		for j, k := range oi {
			b, err := encBytes(sc.outs[j], 0)
			if err != nil {
				return verdict{part: "harness", msg: err.Error()}
			}
			outArgs = append(outArgs, hx([]byte(fd.Params[k].Name))+":"+hx(b))
		}
		// byte-level comparison with the model only where the encoding is unique (a Go map with two
		// or more entries is written in iteration order)
		unique := !sc.ret.IsValid() || deterministic(sc.ret)
		for _, x := range sc.outs {
			unique = unique && deterministic(x)
		}
		if unique {
			v.modelLine = "tupattrs " + retArg + " -"
			if len(outArgs) > 0 {
				v.modelLine = "tupattrs " + retArg + " " + strings.Join(outArgs, ",")
			}
		}
		want := map[string]bool{}
		if fd.Ret != nil {
			want[""], want["tars_ret"] = true, true
		}
		for _, k := range oi {
			want[fd.Params[k].Name] = true
		}
		for k := range want {
			if _, ok := got[k]; !ok {
				v.part, v.msg = "attributes", fmt.Sprintf("the answer has no attribute %q (it has %v)", k, keysOf(got))
				return
			}
		}
		for k := range got {
			if !want[k] {
				v.part, v.msg = "attributes", fmt.Sprintf("the answer has an attribute %q that is neither the return value nor an out parameter", k)
				return
			}
		}
		if fd.Ret != nil {
			for _, key := range []string{"", "tars_ret"} {
				g, err := refOne(got[key], 0, fd.Ret, true)
				if err != nil {
					v.part, v.msg = "ret", fmt.Sprintf("attribute %q is not exactly the return value at tag 0: %v (bytes %s)", key, err, hx(got[key]))
					return
				}
				if w := canon(sc.ret); g != w {
					v.part, v.msg = "ret", fmt.Sprintf("attribute %q: implementation returned %s, the answer carries %s", key, w, g)
					return
				}
			}
		}
		for j, k := range oi {
			name := fd.Params[k].Name
			g, err := refOne(got[name], 0, fd.Params[k].Type, true)
			if err != nil {
				v.part, v.msg = "out-args", fmt.Sprintf("attribute %q is not exactly that out parameter at tag 0: %v (bytes %s)", name, err, hx(got[name]))
				return
			}
			if w := canon(sc.outs[j]); g != w {
				v.part, v.msg = "out-args", fmt.Sprintf("attribute %q: implementation set %s, the answer carries %s", name, w, g)
				return
			}
		}
	case "json":
		var m map[string]json.RawMessage
		if err := json.Unmarshal(buf, &m); err != nil {
			return verdict{part: "payload", msg: "the answer buffer is not a JSON object: " + err.Error()}
		}
		want := map[string]bool{}
		if fd.Ret != nil {
			want["tars_ret"] = true
		}
		for _, k := range oi {
			want[fd.Params[k].Name] = true
		}
		for k := range want {
			if _, ok := m[k]; !ok {
				return verdict{part: "attributes", msg: fmt.Sprintf("the answer has no member %q", k)}
			}
		}
		for k := range m {
			if !want[k] {
				return verdict{part: "attributes", msg: fmt.Sprintf("the answer has a member %q that is neither tars_ret nor an out parameter", k)}
			}
		}
		one := func(raw json.RawMessage, wantV reflect.Value) (string, string, error) {
			p := reflect.New(wantV.Type())
			if err := json.Unmarshal(raw, p.Interface()); err != nil {
				return "", "", err
			}
			return canon(p.Elem()), canon(wantV), nil
		}
		if fd.Ret != nil {
			g, w, err := one(m["tars_ret"], sc.ret)
			if err != nil {
				return verdict{part: "ret", msg: "tars_ret: " + err.Error()}
			}
			if g != w {
				return verdict{part: "ret", msg: fmt.Sprintf("implementation returned %s, the answer carries %s", w, g)}
			}
		}
		for j, k := range oi {
			g, w, err := one(m[fd.Params[k].Name], sc.outs[j])
			if err != nil {
				return verdict{part: "out-args", msg: fd.Params[k].Name + ": " + err.Error()}
			}
			if g != w {
				return verdict{part: "out-args", msg: fmt.Sprintf("out parameter %s: implementation set %s, the answer carries %s", fd.Params[k].Name, w, g)}
			}
		}
	}
	return
}

// deterministic: the value has exactly one encoding (no map with more than one entry inside)
func deterministic(v reflect.Value) bool {
	switch v.Kind() {
	case reflect.Map:
		if v.Len() > 1 {
			return false
		}
		it := v.MapRange()
		for it.Next() {
			if !deterministic(it.Key()) || !deterministic(it.Value()) {
				return false
			}
		}
	case reflect.Slice, reflect.Array:
		for i := 0; i < v.Len(); i++ {
			if !deterministic(v.Index(i)) {
				return false
			}
		}
	case reflect.Struct:
		for i := 0; i < v.NumField(); i++ {
			if !deterministic(v.Field(i)) {
				return false
			}
		}
	}
	return true
}

func keysOf(m map[string][]byte) []string {
	var ks []string
	for k := range m {
		ks = append(ks, k)
	}
	sort.Strings(ks)
	return ks
}

func seedFor(seed int64, id string) int64 {
	h := fnv.New64a()
	h.Write([]byte(id))
	// below 2^52: the value passes through JSON numbers (float64) when results are merged and replayed
	return (seed ^ int64(h.Sum64()&0x7fffffffffffffff)) & (1<<52 - 1)
}

var scenarioNo int64

// runCase: one request through the real server.
func runCase(c *client, sv *servant, fd *FuncDesc, cs *Case) (v verdict) {
	defer func() {
		if r := recover(); r != nil {
			v = verdict{part: "harness", msg: fmt.Sprintf("panic in the driver: %v", r)}
		}
	}()
	rng := rand.New(rand.NewSource(cs.Seed))
	scenarioNo++
	sc := &scenario{id: fmt.Sprintf("s%d", scenarioNo), fd: fd, script: cs.Script}
	isJSON := cs.Version == "json"
	mk := func(t reflect.Type) (reflect.Value, bool) {
		x := gen(rng, t)
		if isJSON && !jsonable(x) {
			return x, false
		}
		return x, true
	}
	for _, p := range fd.Params {
		x, ok := mk(p.Type)
		if !ok {
			return verdict{skipped: true}
		}
		if p.Out {
			sc.outs = append(sc.outs, x)
		} else {
			sc.ins = append(sc.ins, x)
		}
	}
	if fd.Ret != nil {
		x, ok := mk(fd.Ret)
		if !ok {
			return verdict{skipped: true}
		}
		sc.ret = x
	}
	scenarios.Store(sc.id, sc)
	defer scenarios.Delete(sc.id)

	// ---- the request buffer ----
	var sbuf []byte
	switch cs.Version {
	case "tars":
		b := codec.NewBuffer()
		ii := 0
		for k, p := range fd.Params {
			if p.Out {
				continue
			}
			if err := enc(b, sc.ins[ii], byte(k+1)); err != nil {
				return verdict{part: "harness", msg: err.Error()}
			}
			ii++
		}
		sbuf = b.ToBytes()
	case "tup":
		var kv [][2][]byte
		ii := 0
		for _, p := range fd.Params {
			if p.Out {
				continue
			}
			b, err := encBytes(sc.ins[ii], 0)
			if err != nil {
				return verdict{part: "harness", msg: err.Error()}
			}
			kv = append(kv, [2][]byte{[]byte(p.Name), b})
			ii++
		}
		sbuf, _, _ = tuprun.RefEncode(kv, int64(len(kv)))
	case "json":
		in := map[string]interface{}{}
		ii := 0
		for _, p := range fd.Params {
			if p.Out {
				continue
			}
			in[p.Name] = sc.ins[ii].Interface()
			ii++
		}
		var err error
		if sbuf, err = json.Marshal(in); err != nil {
			return verdict{skipped: true}
		}
		for _, x := range append(append([]reflect.Value{}, sc.outs...), sc.ret) {
			if x.IsValid() {
				if _, err := json.Marshal(x.Interface()); err != nil {
					return verdict{skipped: true}
				}
			}
		}
	}
	i8 := make([]int8, len(sbuf))
	for i, x := range sbuf {
		i8[i] = int8(x)
	}
	c.nextID += 1 + int32(rng.Intn(50))
	id := c.nextID
	if rng.Intn(3) == 0 {
		id = -id
	}
	ptype := int8(0)
	if cs.OneWay {
		ptype = 1
	}
	req := &requestf.RequestPacket{IVersion: versionNo[cs.Version], CPacketType: ptype, IRequestId: id, SServantName: sv.obj, SFuncName: fd.Name,
		SBuffer: i8, Context: map[string]string{callKey: sc.id}, Status: map[string]string{}}
	if err := c.send(req); err != nil {
		return verdict{part: "harness", msg: "send: " + err.Error()}
	}

	called := func() int { sc.mu.Lock(); defer sc.mu.Unlock(); return sc.called }
	checkImpl := func() (string, string) {
		sc.mu.Lock()
		defer sc.mu.Unlock()
		if sc.called != 1 {
			return "impl-calls", fmt.Sprintf("the implementation was called %d times", sc.called)
		}
		if sc.gotFn != sv.mod+"."+fd.Name {
			return "impl-calls", fmt.Sprintf("%s was called instead of %s", sc.gotFn, sv.mod+"."+fd.Name)
		}
		if len(sc.gotIns) != len(sc.ins) {
			return "in-args", "number of in arguments"
		}
		for i, g := range sc.gotIns {
			if w := text(sc.ins[i]); codecrun.CanonText(g) != codecrun.CanonText(w) {
				return "in-args", fmt.Sprintf("in argument #%d: sent %s, the implementation got %s", i, w, g)
			}
		}
		return "", ""
	}

	if cs.OneWay {
		// no answer; the implementation runs once
		deadline := time.Now().Add(15 * time.Second)
		for called() == 0 && time.Now().Before(deadline) {
			time.Sleep(2 * time.Millisecond)
		}
		if part, msg := checkImpl(); part != "" {
			return verdict{part: part, msg: msg}
		}
		// an answer to it would be written right after Dispatch returned: it shows up in front of the
		// next answer on this connection, or in the quiet period at the end (drain)
		if c.oneWays == nil {
			c.oneWays = map[int32]Case{}
		}
		c.oneWays[id] = *cs
		return
	}
	var a *answer
	for {
		body, err := c.recv(30 * time.Second)
		if err != nil {
			return verdict{part: "unanswered", msg: "no answer: " + err.Error()}
		}
		a, err = decodeAnswer(body)
		if err != nil {
			return verdict{part: "payload", msg: "the answer " + err.Error()}
		}
		if a.id != id && c.noteStray(body) {
			continue
		}
		break
	}
	if a.id != id || a.ver != versionNo[cs.Version] || a.ptype != ptype {
		return verdict{part: "identity", msg: fmt.Sprintf("request id %d version %d packet type %d, answer id %d version %d packet type %d", id, versionNo[cs.Version], ptype, a.id, a.ver, a.ptype)}
	}
	if (cs.Version == "tup") != (a.kind == "req") {
		return verdict{part: "identity", msg: "a " + cs.Version + " request was answered in the encoding " + a.kind}
	}
	if part, msg := checkImpl(); part != "" {
		return verdict{part: part, msg: msg}
	}
	switch cs.Script.Err {
	case "tars", "plain":
		code := cs.Script.Code
		if cs.Script.Err == "plain" {
			code = 1
		}
		if a.ret != code || a.desc != cs.Script.Msg {
			return verdict{part: "error", msg: fmt.Sprintf("the implementation failed with (%d, %q), the answer carries (%d, %q)", code, cs.Script.Msg, a.ret, a.desc)}
		}
		return
	}
	if a.ret != 0 {
		return verdict{part: "iret", msg: fmt.Sprintf("successful call answered with return code %d (%q)", a.ret, a.desc)}
	}
	return sc.checkPayload(cs.Version, a.buf)
}

// drain: the bounded quiet period at the end of a connection's script.
func (c *client) drain(quiet time.Duration) {
	for {
		body, err := c.recv(quiet)
		if err != nil {
			return
		}
		if !c.noteStray(body) {
			c.strays = append(c.strays, stray{Case{}, "a packet that answers no request of this connection: " + hx(body)})
		}
	}
}

func reportStrays(c *client, res *common.Result, idl map[string]string) {
	for _, s := range c.strays {
		cs := s.cs
		cs.IDL = idl[cs.Module]
		part, version := "oneway-answered", cs.Version
		if cs.Func == "" {
			part, version = "spurious", "any"
		}
		res.Violate(common.Violation{Signature: "C10:wrong-value:generated-" + version + "-" + part, What: s.what,
			Case: common.Case{Stream: "generated-dispatch", Op: cs, Impl: part + ": " + s.what}})
	}
	c.strays = nil
}

// sig renders a function signature for reports.
func (fd *FuncDesc) sig() string {
	var ps []string
	for _, p := range fd.Params {
		o := ""
		if p.Out {
			o = "out "
		}
		ps = append(ps, o+p.Type.String()+" "+p.Name)
	}
	r := "void"
	if fd.Ret != nil {
		r = fd.Ret.String()
	}
	return r + " " + fd.Name + "(" + strings.Join(ps, ", ") + ")"
}

func shape(fd *FuncDesc) string {
	outs := 0
	for _, p := range fd.Params {
		if p.Out {
			outs++
		}
	}
	r := "void"
	if fd.Ret != nil {
		r = "ret"
	}
	o := "0out"
	switch {
	case outs == 1:
		o = "1out"
	case outs > 1:
		o = "nout"
	}
	return r + "+" + o
}

// ChildMain: the generated child's main.
func ChildMain() {
	o := common.ParseOpts()
	res := common.NewResult("C10", o)
	res.Streams = []string{"generated-dispatch"}
	genSeed, _ := strconv.ParseInt(os.Getenv("VERIF_GENDISP_GENSEED"), 10, 64)
	genTier := os.Getenv("VERIF_GENDISP_GENTIER")
	idl := map[string]string{}
	json.Unmarshal([]byte(os.Getenv("VERIF_GENDISP_IDL")), &idl)
	var only *Case
	if o.Replay != "" {
		var c Case
		if err := common.ReadReplay(o.Replay, &c); err != nil {
			res.Fatal(o.Out, err)
		}
		only = &c
	}
	sort.Slice(servants, func(i, j int) bool { return servants[i].mod < servants[j].mod })
	dir, err := os.MkdirTemp("", "verif-c10gen-srv-")
	if err != nil {
		res.Fatal(o.Out, err)
	}
	defer os.RemoveAll(dir)
	cfg := &srv.Config{Servants: map[string]srv.ServantDef{}, Dir: dir, QueueCap: 4096}
	ports := map[string]int{}
	for _, sv := range servants {
		ports[sv.obj] = srv.FreePort("127.0.0.1")
		cfg.Adapters = append(cfg.Adapters, srv.Adapter{Obj: sv.obj, Proto: "tcp", Host: "127.0.0.1", Port: ports[sv.obj]})
		cfg.Servants[sv.obj] = srv.ServantDef{D: sv.disp, Imp: sv.imp}
	}
	if len(servants) == 0 {
		res.Fatal(o.Out, fmt.Errorf("no generated servant registered"))
	}
	if err := srv.Start(cfg, servants[0].disp, servants[0].imp, true); err != nil {
		os.RemoveAll(dir)
		res.Fatal(o.Out, err)
	}
	m, err := common.StartModel(o.Model, "srvinvoke")
	if err != nil {
		os.RemoveAll(dir)
		res.Fatal(o.Out, err)
	}
	defer m.Close()
	iters := 6
	if o.Thorough() {
		iters = 40
	}
	type pending struct {
		cs   Case
		v    verdict
		line string
	}
	var modelQ []pending
	nFuncs := 0
	for _, sv := range servants {
		conn, err := net.DialTimeout("tcp", fmt.Sprintf("127.0.0.1:%d", ports[sv.obj]), 5*time.Second)
		if err != nil {
			os.RemoveAll(dir)
			res.Fatal(o.Out, err)
		}
		cl := &client{conn: conn, nextID: 1000}
		for fi := range sv.funcs {
			fd := &sv.funcs[fi]
			nFuncs++
			for _, version := range []string{"tars", "tup", "json"} {
				for k := 0; k < iters; k++ {
					cs := Case{GenSeed: genSeed, GenTier: genTier, Module: sv.mod, Func: fd.Name, Sig: fd.sig(), Version: version,
						Seed: seedFor(o.Seed, fmt.Sprintf("%s.%s/%s/%d", sv.mod, fd.Name, version, k))}
					switch {
					case k == 3:
						cs.Script = Script{Err: "tars", Code: []int32{77, -3, 100000, -2147483648}[int(uint64(cs.Seed)%4)], Msg: fmt.Sprintf("boom %d", k)}
					case k == 4:
						cs.Script = Script{Err: "plain", Msg: "plain failure"}
					case k == 5:
						cs.OneWay = true
					case k > 5 && k%9 == 0:
						cs.Script = Script{Err: "tars", Code: int32(1 + k), Msg: "e"}
					case k > 5 && k%13 == 0:
						cs.OneWay = true
					}
					if only != nil {
						if only.Module != sv.mod || only.Func != fd.Name || only.Version != version {
							continue
						}
						if k > 0 {
							break
						}
						cs = *only
					}
					v := runCase(cl, sv, fd, &cs)
					class := fmt.Sprintf("gen:%s:%s", version, shape(fd))
					switch {
					case cs.Script.Err != "":
						class += ":error"
					case cs.OneWay:
						class += ":oneway"
					}
					if v.skipped {
						res.Count("", "gen:"+version+":skipped-not-json-representable", false)
						continue
					}
					res.Count(fmt.Sprintf("%s.%s/%s/%d", sv.mod, fd.Name, version, k), class, true)
					res.TracesValidated++
					if only != nil {
						fmt.Printf("case: %+v\nresult: %s %s\n", cs, v.part, v.msg)
					}
					if v.part == "harness" {
						res.HarnessError = "generated-dispatch driver: " + sv.mod + "." + fd.Name + ": " + v.msg
						continue
					}
					cs.IDL = idl[sv.mod]
					if v.part != "" {
						msg := v.msg
						if len(msg) > 700 {
							msg = msg[:700] + "…"
						}
						res.Violate(common.Violation{Signature: "C10:wrong-value:generated-" + version + "-" + v.part,
							What: fmt.Sprintf("%s %s.%s [%s], %s-versioned request through the emitted dispatcher: %s", sv.mod, sv.mod, fd.Name, fd.sig(), version, msg),
							Case: common.Case{Stream: "generated-dispatch", Op: cs, Impl: v.part + ": " + msg, Model: v.modelLine}})
						// a connection may be out of step after a missing/extra answer
						conn.Close()
						conn, err = net.DialTimeout("tcp", fmt.Sprintf("127.0.0.1:%d", ports[sv.obj]), 5*time.Second)
						if err != nil {
							res.HarnessError = "the server no longer accepts connections: " + err.Error()
							break
						}
						cl.conn = conn
					}
					if v.modelLine != "" {
						modelQ = append(modelQ, pending{cs, v, v.modelLine})
					}
					if only != nil && cs.OneWay {
						cl.drain(400 * time.Millisecond)
					}
					reportStrays(cl, res, idl)
					if len(res.Samples) < 6 && k == 0 {
						res.Sample(map[string]interface{}{"function": sv.mod + "." + fd.sig(), "version": version, "verdict": v.part})
					}
				}
			}
		}
		cl.drain(300 * time.Millisecond)
		reportStrays(cl, res, idl)
		cl.conn.Close()
	}
	// correspondence with the Lean model of the emitted TUP answer branch: the attribute set
	lines := make([]string, len(modelQ))
	for i, p := range modelQ {
		lines[i] = p.line
	}
	ans, err := m.Batch(lines)
	if err != nil {
		res.HarnessError = "model driver: " + err.Error()
	}
	for i, p := range modelQ {
		if i >= len(ans) || ans[i] == common.NoModel {
			continue
		}
		want := strings.Split(ans[i], ",")
		sort.Strings(want)
		w := strings.Join(want, ",")
		if w != p.v.implAttrs {
			cs := p.cs
			cs.IDL = idl[cs.Module]
			res.Diverge(common.Case{Stream: "generated-dispatch", Op: cs, Model: w, Impl: p.v.implAttrs,
				Note: "attribute set of the TUP answer: model of the emitted code (genTupRspAttrs) vs the reference-parsed answer of the real dispatcher"})
		} else {
			res.Histogram["branch:generated-tup-attrs"]++
		}
	}
	if srv.Exited() {
		res.HarnessError = "the application's Run returned (port taken by another process?)"
	}
	res.Note("generated-dispatch: %d emitted functions of %d interfaces x 3 versions x %d scripted calls through a real server", nFuncs, len(servants), iters)
	res.Rule = "interfaces (one fixed module with every answer shape: return value + out parameters, void + out parameters, return value only, struct/vector/map outs; plus random idlgen modules) " +
		"compiled by the working-tree tars2go; the emitted dispatchers serve in a real TarsGo application (TCP); hand-built TARS/TUP/JSON requests with scripted implementation results and errors; " +
		"answers judged by independent reference decoders (codecrun strict decoder, tuprun attribute-set parser, encoding/json); non-trivial = distinct (function, version, call)"
	if err := res.Write(o.Out); err != nil {
		panic(err)
	}
	if res.HarnessError != "" {
		fmt.Fprintln(os.Stderr, res.HarnessError)
		os.RemoveAll(dir)
		os.Exit(3)
	}
}
