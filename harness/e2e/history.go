package e2e

// Filter-registration histories (C01: "registered client and server filters … see the call exactly
// once, in registration order"): a dedicated child process starts WITHOUT filters and, between
// calls, registers further recording pass-through filters of every kind on both sides. Every call
// must be seen exactly once, in registration order, by exactly the filters that were registered
// before the call was issued (the history is strictly sequential and the process is quiescent when
// a filter is registered — the registration functions of the framework are not synchronised — so
// "before the call was issued" and "before it was dispatched" coincide).
//
// What can be registered repeatedly (tars/filter.go): pre, post and middleware registrations
// accumulate in order; the legacy single filter is one slot, a later registration replaces the
// earlier one. Selection per call: single filter if set, else the middleware chain if non-empty,
// else pre filters, the call, post filters.
//
// The oracle is the recorded per-call event list (filters log under the call's id) against the
// registration state snapshot taken when the call was issued; the Lean filter model is asked the
// same state as for fixed configurations.

import (
	"context"
	"fmt"
	"math/rand"
	"strings"
	"time"

	"github.com/TarsCloud/TarsGo/tars"
	"github.com/TarsCloud/TarsGo/tars/protocol/res/requestf"
	"github.com/TarsCloud/TarsGo/tars/util/current"
)

// FilterState: how many filters of each kind are registered, and how often the single slot has
// been (re)registered on each side.
type FilterState struct {
	Cfg        FilterCfg
	CGen, SGen int
}

var fstate FilterState

func singleName(side string, gen int) string {
	if gen > 1 {
		return fmt.Sprintf("%s.single@%d", side, gen)
	}
	return side + ".single"
}

// RegisterOne registers one more recording pass-through filter. side: c | s; kind: single | mw | pre | post.
func RegisterOne(side, kind string) {
	lookupC := func(msg *tars.Message) *Record { return cRec(msg) }
	lookupS := func(req *requestf.RequestPacket) *Record { return sRec(req) }
	switch side + "." + kind {
	case "c.single":
		fstate.CGen++
		fstate.Cfg.CSingle = 1
		name := singleName("c", fstate.CGen)
		tars.RegisterClientFilter(func(ctx context.Context, msg *tars.Message, invoke tars.Invoke, timeout time.Duration) error {
			r := lookupC(msg)
			if r != nil {
				r.Event(name + ".before")
			}
			err := invoke(ctx, msg, timeout)
			if r != nil {
				r.Event(name + ".after")
				capture(r, msg)
			}
			return err
		})
	case "c.mw":
		i := fstate.Cfg.CMw
		fstate.Cfg.CMw++
		tars.UseClientFilterMiddleware(func(next tars.ClientFilter) tars.ClientFilter {
			return func(ctx context.Context, msg *tars.Message, invoke tars.Invoke, timeout time.Duration) error {
				r := lookupC(msg)
				if r != nil {
					r.Event(fmt.Sprintf("c.mw%d.before", i))
				}
				err := next(ctx, msg, invoke, timeout)
				if r != nil {
					r.Event(fmt.Sprintf("c.mw%d.after", i))
					capture(r, msg)
				}
				return err
			}
		})
	case "c.pre":
		i := fstate.Cfg.CPre
		fstate.Cfg.CPre++
		tars.RegisterPreClientFilter(func(ctx context.Context, msg *tars.Message, invoke tars.Invoke, timeout time.Duration) error {
			if r := lookupC(msg); r != nil {
				r.Event(fmt.Sprintf("c.pre%d", i))
			}
			return nil
		})
	case "c.post":
		i := fstate.Cfg.CPost
		fstate.Cfg.CPost++
		tars.RegisterPostClientFilter(func(ctx context.Context, msg *tars.Message, invoke tars.Invoke, timeout time.Duration) error {
			if r := lookupC(msg); r != nil {
				r.Event(fmt.Sprintf("c.post%d", i))
				capture(r, msg)
			}
			return nil
		})
	case "s.single":
		fstate.SGen++
		fstate.Cfg.SSingle = 1
		name := singleName("s", fstate.SGen)
		tars.RegisterServerFilter(func(ctx context.Context, d tars.Dispatch, imp interface{}, req *requestf.RequestPacket, resp *requestf.ResponsePacket, withContext bool) error {
			r := lookupS(req)
			if r != nil {
				r.Event(name + ".before")
			}
			err := d(ctx, imp, req, resp, withContext)
			if r != nil {
				r.Event(name + ".after")
			}
			return err
		})
	case "s.mw":
		i := fstate.Cfg.SMw
		fstate.Cfg.SMw++
		tars.UseServerFilterMiddleware(func(next tars.ServerFilter) tars.ServerFilter {
			return func(ctx context.Context, d tars.Dispatch, imp interface{}, req *requestf.RequestPacket, resp *requestf.ResponsePacket, withContext bool) error {
				r := lookupS(req)
				if r != nil {
					r.Event(fmt.Sprintf("s.mw%d.before", i))
				}
				err := next(ctx, d, imp, req, resp, withContext)
				if r != nil {
					r.Event(fmt.Sprintf("s.mw%d.after", i))
				}
				return err
			}
		})
	case "s.pre":
		i := fstate.Cfg.SPre
		fstate.Cfg.SPre++
		tars.RegisterPreServerFilter(func(ctx context.Context, d tars.Dispatch, imp interface{}, req *requestf.RequestPacket, resp *requestf.ResponsePacket, withContext bool) error {
			if r := lookupS(req); r != nil {
				r.Event(fmt.Sprintf("s.pre%d", i))
			}
			return nil
		})
	case "s.post":
		i := fstate.Cfg.SPost
		fstate.Cfg.SPost++
		tars.RegisterPostServerFilter(func(ctx context.Context, d tars.Dispatch, imp interface{}, req *requestf.RequestPacket, resp *requestf.ResponsePacket, withContext bool) error {
			if r := lookupS(req); r != nil {
				r.Event(fmt.Sprintf("s.post%d", i))
			}
			return nil
		})
	default:
		panic("e2e: RegisterOne " + side + "." + kind)
	}
}

// expectedTraceAt: expectedTrace for a registration state (the single slot by its generation).
func expectedTraceAt(side string, st FilterState) []string {
	var tr []string
	gen := st.CGen
	if side == "c" {
		tr = expectedTrace("c", st.Cfg.CSingle, st.Cfg.CMw, st.Cfg.CPre, st.Cfg.CPost)
	} else {
		tr = expectedTrace("s", st.Cfg.SSingle, st.Cfg.SMw, st.Cfg.SPre, st.Cfg.SPost)
		gen = st.SGen
	}
	for i, e := range tr {
		if strings.HasPrefix(e, side+".single.") {
			tr[i] = singleName(side, gen) + strings.TrimPrefix(e, side+".single")
		}
	}
	return tr
}

// History describes the phase: Variant selects how the order of registrations is drawn.
//
//	staged: no filters, then pre/post, then middlewares one by one, then further pre/post (ignored
//	        from then on), then the single slot (twice), then further middlewares (ignored);
//	        client and server side advance independently
//	mwfirst: register mw A, call, register mw B, call, register mw C, call … before anything else
//	random: any kind at any time
type History struct {
	Variant string `json:"variant"`
	Seed    int64  `json:"seed"` // < 2^50
	Steps   int    `json:"steps"`
}

func (h *History) String() string { return fmt.Sprintf("%s,%d,%d", h.Variant, h.Steps, h.Seed) }

// ParseHistory reads "variant,steps[,seed]".
func ParseHistory(s string) *History {
	f := strings.Split(s, ",")
	if len(f) < 2 || f[0] == "" {
		return nil
	}
	h := &History{Variant: f[0]}
	fmt.Sscanf(f[1], "%d", &h.Steps)
	if len(f) > 2 {
		fmt.Sscanf(f[2], "%d", &h.Seed)
	}
	return h
}

// HistStep is one step as executed (kept in the replay for reading; the replay re-derives it).
type HistStep struct {
	Reg  string `json:"reg,omitempty"` // "<side>.<kind>"
	Call string `json:"call,omitempty"`
}

func (h *History) plan(rng *rand.Rand) []string {
	var regs []string
	sides := func(kind string) { // both sides, in random order, each with probability 3/4
		for _, s := range rng.Perm(2) {
			if rng.Intn(4) != 0 {
				regs = append(regs, []string{"c", "s"}[s]+"."+kind)
			}
		}
	}
	switch h.Variant {
	case "mwfirst":
		for i := 0; i < 3+rng.Intn(3); i++ {
			regs = append(regs, "c.mw", "s.mw")
		}
		for i := 0; i < 4; i++ {
			sides([]string{"pre", "post"}[rng.Intn(2)])
		}
		sides("single")
		sides("mw")
		sides("single")
	case "random":
		kinds := []string{"pre", "post", "mw", "mw", "pre", "post", "mw", "single"}
		for i := 0; i < h.Steps; i++ {
			regs = append(regs, []string{"c", "s"}[rng.Intn(2)]+"."+kinds[rng.Intn(len(kinds))])
		}
	default: // staged
		for i := 0; i < 3+rng.Intn(3); i++ {
			sides([]string{"pre", "post"}[rng.Intn(2)])
		}
		for i := 0; i < 3+rng.Intn(2); i++ {
			sides("mw")
		}
		for i := 0; i < 2; i++ {
			sides([]string{"pre", "post"}[rng.Intn(2)])
		}
		sides("single")
		sides("mw")
		sides("single")
		sides("mw")
	}
	if len(regs) > h.Steps {
		regs = regs[:h.Steps]
	}
	return regs
}

// RunHistory executes the history: calls with no filters first, then after every registration one
// to three calls (two-way and one-way).
func RunHistory(h *History) []*Record {
	rng := rand.New(rand.NewSource(h.Seed))
	var recs []*Record
	step := 0
	calls := func(n int) {
		for i := 0; i < n; i++ {
			fn := FuncNames[rng.Intn(len(FuncNames))]
			mode := []string{"opts1", "opts2", "oneway", "opts1"}[rng.Intn(4)]
			cs := NewCall(fn, mode, smallSeed(rng))
			st := fstate
			cs.Rec.FState, cs.Rec.Hist, cs.Rec.Index = &st, h, step
			invokeRecovering(Calls[fn], current.ContextWithClientCurrent(context.Background()), cs)
			if mode == "oneway" {
				// quiescence before the next registration: the implementation has run and the server
				// filters expected for this call have logged their last event (bounded wait)
				waitInvoked(cs.Rec)
				want := len(withoutCall(expectedTraceAt("s", st)))
				for t := time.Now(); time.Since(t) < 2*time.Second; time.Sleep(time.Millisecond) {
					cs.Rec.mu.Lock()
					n := len(sideTrace(cs.Rec.Events, "s"))
					cs.Rec.mu.Unlock()
					if n >= want {
						break
					}
				}
				time.Sleep(time.Millisecond)
			}
			recs = append(recs, cs.Rec)
			step++
		}
	}
	calls(2) // first calls with no filters at all
	for _, reg := range h.plan(rng) {
		i := strings.Index(reg, ".")
		RegisterOne(reg[:i], reg[i+1:])
		step++
		calls(1 + rng.Intn(3))
	}
	return recs
}
