package e2e

// Worker-pool scenarios (C01 under server-side queueing): the server runs with maxroutine = 1 or 2;
// scripted slow implementation calls ("blockers") occupy every worker while further calls of the
// same servant — one-way and two-way, each with its own client timeout, set either with
// current.SetClientTimeout or as a context deadline — wait in the server's queue. Calls whose
// timeout is shorter than the wait expire there (Protocol.Invoke's queue-timeout branch).
//
// What the property demands, whatever the server decides to do with an expired request:
//   - it is executed at most once (and, if executed, with exactly the arguments passed);
//   - a two-way caller that is not served gets an error, never a fabricated success;
//   - a one-way request is never answered on the wire (judged by the tap, tap.go);
//   - calls whose timeout is long are served exactly once, transparently (the ordinary oracle).

import (
	"context"
	"fmt"
	"math/rand"
	"sync"
	"time"

	"github.com/TarsCloud/TarsGo/tars/util/current"
)

const longTimeoutMs = 20000

// PoolCall is one call of a scenario.
type PoolCall struct {
	Fn        string `json:"fn"`
	Mode      string `json:"mode"` // opts1 | opts2 | oneway
	Seed      int64  `json:"seed"` // < 2^50: survives a JSON round trip through float64
	Role      string `json:"role"` // blocker | queued
	SleepMs   int    `json:"sleep_ms,omitempty"`
	TimeoutMs int    `json:"timeout_ms"`
	Via       string `json:"via"` // current | deadline
}

// Scenario: Workers blockers first (they must have reached the implementation), then the queued calls.
type Scenario struct {
	Workers int        `json:"workers"`
	Obj     string     `json:"obj"`
	Calls   []PoolCall `json:"calls"`
}

func smallSeed(rng *rand.Rand) int64 { return rng.Int63n(1 << 50) }

func objOf(fn string) string {
	for i := len(fn) - 1; i >= 0; i-- {
		if fn[i] == '.' {
			return fn[:i]
		}
	}
	return fn
}

// GenScenario draws a scenario for a pool of the given size over the functions of one servant.
// Every scenario has at least one ONE-WAY call whose timeout is shorter than its wait in the queue.
func GenScenario(rng *rand.Rand, workers int) *Scenario {
	obj := objOf(FuncNames[rng.Intn(len(FuncNames))])
	var fns []string
	for _, f := range FuncNames {
		if objOf(f) == obj {
			fns = append(fns, f)
		}
	}
	pick := func() string { return fns[rng.Intn(len(fns))] }
	via := func() string { return []string{"current", "deadline"}[rng.Intn(2)] }
	sc := &Scenario{Workers: workers, Obj: obj}
	hold := 320 + rng.Intn(130)
	for i := 0; i < workers; i++ {
		mode := []string{"opts1", "opts2", "opts1", "oneway"}[rng.Intn(4)]
		sc.Calls = append(sc.Calls, PoolCall{Fn: pick(), Mode: mode, Seed: smallSeed(rng), Role: "blocker", SleepMs: hold, TimeoutMs: longTimeoutMs, Via: via()})
	}
	n := 2 + rng.Intn(4)
	forced := rng.Intn(n)
	for i := 0; i < n; i++ {
		mode := []string{"oneway", "oneway", "opts1", "opts2"}[rng.Intn(4)]
		to := longTimeoutMs
		if rng.Intn(5) < 3 {
			to = 50 + rng.Intn(80)
		}
		if i == forced {
			mode, to = "oneway", 50+rng.Intn(80)
		}
		sc.Calls = append(sc.Calls, PoolCall{Fn: pick(), Mode: mode, Seed: smallSeed(rng), Role: "queued", TimeoutMs: to, Via: via()})
	}
	return sc
}

func callCtx(pc PoolCall) (context.Context, context.CancelFunc) {
	ctx := current.ContextWithClientCurrent(context.Background())
	if pc.TimeoutMs <= 0 {
		return ctx, func() {}
	}
	if pc.Via == "deadline" {
		return context.WithTimeout(ctx, time.Duration(pc.TimeoutMs)*time.Millisecond)
	}
	current.SetClientTimeout(ctx, pc.TimeoutMs)
	return ctx, func() {}
}

func srvCount(r *Record) int32 {
	r.mu.Lock()
	defer r.mu.Unlock()
	return r.SrvCount
}

func waitCount(r *Record, d time.Duration) bool {
	for t := time.Now(); time.Since(t) < d; time.Sleep(time.Millisecond) {
		if srvCount(r) > 0 {
			return true
		}
	}
	return false
}

// RunScenario executes sc and returns the records of its calls (plus a trailing fence call).
// ok=false: the blockers did not get hold of the workers (nothing is concluded from such a run
// beyond the ordinary per-call oracle).
func RunScenario(sc *Scenario) (recs []*Record, ok bool) {
	var wg sync.WaitGroup
	start := func(pc PoolCall) *Record {
		cs := NewCall(pc.Fn, pc.Mode, pc.Seed)
		r := cs.Rec
		r.Role, r.TimeoutMs, r.Via, r.Scn = pc.Role, pc.TimeoutMs, pc.Via, sc
		r.Script.SleepMs = pc.SleepMs
		if pc.Role == "queued" {
			r.Script.ErrKind = "" // an error seen by the caller can only be the timeout
			r.Short = pc.TimeoutMs < longTimeoutMs
		}
		recs = append(recs, r)
		wg.Add(1)
		go func() {
			defer wg.Done()
			ctx, cancel := callCtx(pc)
			defer cancel()
			invokeRecovering(Calls[pc.Fn], ctx, cs)
		}()
		return r
	}
	ok = true
	var blockers []*Record
	for _, pc := range sc.Calls {
		if pc.Role == "blocker" {
			blockers = append(blockers, start(pc))
		}
	}
	for _, b := range blockers {
		if !waitCount(b, 5*time.Second) {
			ok = false
		}
	}
	for _, pc := range sc.Calls {
		if pc.Role == "queued" {
			start(pc)
		}
	}
	wg.Wait()
	// fence: a two-way call behind everything queued so far (the queue is FIFO); when it has been
	// served, every earlier request has been taken up by a worker
	fn := sc.Calls[0].Fn
	fcs := NewCall(fn, "opts1", smallSeed(rand.New(rand.NewSource(sc.Calls[0].Seed))))
	fcs.Rec.Role, fcs.Rec.TimeoutMs, fcs.Rec.Via, fcs.Rec.Scn = "fence", longTimeoutMs, "current", sc
	fctx, cancel := callCtx(PoolCall{TimeoutMs: longTimeoutMs, Via: "current"})
	invokeRecovering(Calls[fn], fctx, fcs)
	cancel()
	recs = append(recs, fcs.Rec)
	// one-way calls with a long timeout are served (exactly once): wait for them
	for _, r := range recs {
		if r.Mode == "oneway" && !r.Short {
			waitCount(r, 10*time.Second)
		}
	}
	time.Sleep(120 * time.Millisecond) // replies still on their way through the relay; late duplicates
	return recs, ok
}

// poolClass is the histogram bucket of a pool call.
func poolClass(r *Record) string {
	if r.Role != "queued" {
		return fmt.Sprintf("call:pool-%s:%s", r.Role, r.Mode)
	}
	to := "long-timeout"
	if r.Short {
		to = "short-timeout"
	}
	fate := "executed"
	if srvCount(r) == 0 {
		fate = "expired-in-queue"
	}
	return fmt.Sprintf("call:pool-queued:%s:%s:%s", r.Mode, to, fate)
}
