package e2e

import (
	"context"
	"fmt"
	"math/rand"
	"os"
	"path/filepath"
	"strconv"
	"strings"
	"sync"
	"time"

	"github.com/TarsCloud/TarsGo/tars"
	"github.com/TarsCloud/TarsGo/tars/protocol/res/requestf"
	"github.com/TarsCloud/TarsGo/tars/util/current"

	"verifharness/codecrun"
	"verifharness/common"
	"verifharness/srv"
)

// ---- registration by the generated glue ----

type servantReg struct {
	obj string
	d   srv.Dispatcher
	imp interface{}
}

type proxyReg struct {
	obj string
	prx tars.ProxyPrx
}

var servants []servantReg
var proxies []proxyReg

func RegisterServant(obj string, d srv.Dispatcher, imp interface{}) {
	servants = append(servants, servantReg{obj, d, imp})
}
func RegisterProxy(obj string, prx tars.ProxyPrx) { proxies = append(proxies, proxyReg{obj, prx}) }

// ---- recording pass-through filters ----

// FilterCfg: how many filters of each kind are registered on each side.
type FilterCfg struct {
	CSingle, CMw, CPre, CPost int
	SSingle, SMw, SPre, SPost int
}

func (f FilterCfg) String() string {
	return fmt.Sprintf("c%d.%d.%d.%d-s%d.%d.%d.%d", f.CSingle, f.CMw, f.CPre, f.CPost, f.SSingle, f.SMw, f.SPre, f.SPost)
}

func ParseFilterCfg(s string) (f FilterCfg) {
	fmt.Sscanf(s, "c%d.%d.%d.%d-s%d.%d.%d.%d", &f.CSingle, &f.CMw, &f.CPre, &f.CPost, &f.SSingle, &f.SMw, &f.SPre, &f.SPost)
	return
}

func cRec(msg *tars.Message) *Record {
	return Lookup(msg.Req.Context, msg.Req.SServantName+"."+msg.Req.SFuncName)
}

func sRec(req *requestf.RequestPacket) *Record {
	return Lookup(req.Context, req.SServantName+"."+req.SFuncName)
}

func hexI8(b []int8) string {
	if len(b) == 0 {
		return "-"
	}
	var sb strings.Builder
	for _, x := range b {
		fmt.Fprintf(&sb, "%02x", byte(x))
	}
	return sb.String()
}

func capture(r *Record, msg *tars.Message) {
	if r == nil {
		return
	}
	r.mu.Lock()
	r.ReqSBuf = hexI8(msg.Req.SBuffer)
	if msg.Resp != nil {
		r.RspSBuf = hexI8(msg.Resp.SBuffer)
	}
	r.mu.Unlock()
}

func registerFilters(f FilterCfg) {
	if f.CSingle > 0 {
		tars.RegisterClientFilter(func(ctx context.Context, msg *tars.Message, invoke tars.Invoke, timeout time.Duration) error {
			r := cRec(msg)
			if r != nil {
				r.Event("c.single.before")
			}
			err := invoke(ctx, msg, timeout)
			if r != nil {
				r.Event("c.single.after")
				capture(r, msg)
			}
			return err
		})
	}
	for i := 0; i < f.CMw; i++ {
		i := i
		tars.UseClientFilterMiddleware(func(next tars.ClientFilter) tars.ClientFilter {
			return func(ctx context.Context, msg *tars.Message, invoke tars.Invoke, timeout time.Duration) error {
				r := cRec(msg)
				if r != nil {
					r.Event(fmt.Sprintf("c.mw%d.before", i))
				}
				err := next(ctx, msg, invoke, timeout)
				if r != nil {
					r.Event(fmt.Sprintf("c.mw%d.after", i))
					capture(r, msg)
				}
				return err
			}
		})
	}
	for i := 0; i < f.CPre; i++ {
		i := i
		tars.RegisterPreClientFilter(func(ctx context.Context, msg *tars.Message, invoke tars.Invoke, timeout time.Duration) error {
			if r := cRec(msg); r != nil {
				r.Event(fmt.Sprintf("c.pre%d", i))
			}
			return nil
		})
	}
	for i := 0; i < f.CPost; i++ {
		i := i
		tars.RegisterPostClientFilter(func(ctx context.Context, msg *tars.Message, invoke tars.Invoke, timeout time.Duration) error {
			if r := cRec(msg); r != nil {
				r.Event(fmt.Sprintf("c.post%d", i))
				capture(r, msg)
			}
			return nil
		})
	}
	if f.SSingle > 0 {
		tars.RegisterServerFilter(func(ctx context.Context, d tars.Dispatch, imp interface{}, req *requestf.RequestPacket, resp *requestf.ResponsePacket, withContext bool) error {
			r := sRec(req)
			if r != nil {
				r.Event("s.single.before")
			}
			err := d(ctx, imp, req, resp, withContext)
			if r != nil {
				r.Event("s.single.after")
			}
			return err
		})
	}
	for i := 0; i < f.SMw; i++ {
		i := i
		tars.UseServerFilterMiddleware(func(next tars.ServerFilter) tars.ServerFilter {
			return func(ctx context.Context, d tars.Dispatch, imp interface{}, req *requestf.RequestPacket, resp *requestf.ResponsePacket, withContext bool) error {
				r := sRec(req)
				if r != nil {
					r.Event(fmt.Sprintf("s.mw%d.before", i))
				}
				err := next(ctx, d, imp, req, resp, withContext)
				if r != nil {
					r.Event(fmt.Sprintf("s.mw%d.after", i))
				}
				return err
			}
		})
	}
	for i := 0; i < f.SPre; i++ {
		i := i
		tars.RegisterPreServerFilter(func(ctx context.Context, d tars.Dispatch, imp interface{}, req *requestf.RequestPacket, resp *requestf.ResponsePacket, withContext bool) error {
			if r := sRec(req); r != nil {
				r.Event(fmt.Sprintf("s.pre%d", i))
			}
			return nil
		})
	}
	for i := 0; i < f.SPost; i++ {
		i := i
		tars.RegisterPostServerFilter(func(ctx context.Context, d tars.Dispatch, imp interface{}, req *requestf.RequestPacket, resp *requestf.ResponsePacket, withContext bool) error {
			if r := sRec(req); r != nil {
				r.Event(fmt.Sprintf("s.post%d", i))
			}
			return nil
		})
	}
}

// expectedTrace: the property's oracle for pass-through filters: registration order, each once,
// the call once. side = "c" or "s".
func expectedTrace(side string, single, mw, pre, post int) []string {
	var out []string
	switch {
	case single > 0:
		out = append(out, side+".single.before", "call", side+".single.after")
	case mw > 0:
		for i := 0; i < mw; i++ {
			out = append(out, fmt.Sprintf("%s.mw%d.before", side, i))
		}
		out = append(out, "call")
		for i := mw - 1; i >= 0; i-- {
			out = append(out, fmt.Sprintf("%s.mw%d.after", side, i))
		}
	default:
		for i := 0; i < pre; i++ {
			out = append(out, fmt.Sprintf("%s.pre%d", side, i))
		}
		out = append(out, "call")
		for i := 0; i < post; i++ {
			out = append(out, fmt.Sprintf("%s.post%d", side, i))
		}
	}
	return out
}

// splitTrace separates client and server events of a record; the server hook marks "call" on the
// server side, the wire round trip is the client's "call".
func sideTrace(events []string, side string) []string {
	var out []string
	for _, e := range events {
		if strings.HasPrefix(e, side+".") {
			out = append(out, e)
		}
	}
	return out
}

func withoutCall(tr []string) []string {
	var out []string
	for _, e := range tr {
		if e != "call" {
			out = append(out, e)
		}
	}
	return out
}

// ---- the child's main ----

func invokeRecovering(fn CallFn, ctx context.Context, cs *CallState) {
	defer func() {
		if p := recover(); p != nil {
			cs.Rec.mu.Lock()
			cs.Rec.Panic = fmt.Sprint(p)
			cs.Rec.mu.Unlock()
		}
	}()
	fn(ctx, cs)
}

// ChildMain runs one filter configuration in this process.
func ChildMain() {
	o := common.ParseOpts()
	res := common.NewResult("C01", o)
	res.Streams = []string{"callpath", "schema"}
	fcfg := ParseFilterCfg(os.Getenv("VERIF_E2E_FILTERS"))
	registerFilters(fcfg)
	port := srv.FreePort("127.0.0.1")
	cfg := &srv.Config{Servants: map[string]srv.ServantDef{}}
	for _, s := range servants {
		cfg.Adapters = append(cfg.Adapters, srv.Adapter{Obj: s.obj, Proto: "tcp", Host: "127.0.0.1", Port: port})
		cfg.Servants[s.obj] = srv.ServantDef{D: s.d, Imp: s.imp}
		port = srv.FreePort("127.0.0.1")
	}
	dir, _ := os.MkdirTemp("", "verif-c01-")
	defer os.RemoveAll(dir)
	cfg.Dir = dir
	if err := srv.Start(cfg, nil, nil, true); err != nil {
		res.Fatal(o.Out, err)
	}
	comm := tars.NewCommunicator()
	for _, p := range proxies {
		for _, a := range cfg.Adapters {
			if a.Obj == p.obj {
				comm.StringToProxy(fmt.Sprintf("%s@tcp -h %s -p %d -t 5000", p.obj, a.Host, a.Port), p.prx)
			}
		}
	}
	rng := o.Rand()
	perFn := 6
	conc := 16
	if o.Thorough() {
		perFn = 40
		conc = 64
	}
	if s := os.Getenv("VERIF_E2E_PERFN"); s != "" {
		perFn, _ = strconv.Atoi(s)
	}
	newCtx := func() context.Context { return current.ContextWithClientCurrent(context.Background()) }
	var recs []*Record
	// sequential phase: every function in every mode
	modes := []string{"opts0", "opts1", "opts2", "oneway"}
	for _, fn := range FuncNames {
		for i := 0; i < perFn; i++ {
			mode := modes[i%len(modes)]
			cs := NewCall(fn, mode, rng.Int63())
			if mode == "opts0" {
				cs.Rec.Script.RespCtx, cs.Rec.Script.RespStatus = nil, nil
			}
			invokeRecovering(Calls[fn], newCtx(), cs)
			if mode == "oneway" {
				waitInvoked(cs.Rec)
			}
			recs = append(recs, cs.Rec)
		}
	}
	// boundary: nil option map with a response context set by the implementation (D20)
	if len(FuncNames) > 0 && os.Getenv("VERIF_E2E_NILMAP") != "0" {
		cs := NewCall(FuncNames[0], "nilmap", rng.Int63())
		cs.Rec.Script.ErrKind = ""
		cs.Rec.Script.RespCtx = map[string]string{"rc": "v"}
		invokeRecovering(Calls[FuncNames[0]], newCtx(), cs)
		recs = append(recs, cs.Rec)
	}
	// concurrent phase: callers sharing the proxies
	var wg sync.WaitGroup
	var mu sync.Mutex
	for g := 0; g < conc; g++ {
		seed := rng.Int63()
		wg.Add(1)
		go func(seed int64) {
			defer wg.Done()
			r := rand.New(rand.NewSource(seed))
			for i := 0; i < perFn; i++ {
				fn := FuncNames[r.Intn(len(FuncNames))]
				mode := []string{"opts1", "opts2", "oneway"}[r.Intn(3)]
				cs := NewCall(fn, mode, r.Int63())
				invokeRecovering(Calls[fn], newCtx(), cs)
				if mode == "oneway" {
					waitInvoked(cs.Rec)
				}
				mu.Lock()
				recs = append(recs, cs.Rec)
				mu.Unlock()
			}
		}(seed)
	}
	wg.Wait()
	time.Sleep(300 * time.Millisecond) // late duplicate deliveries of one-way calls would show up here
	judgeAll(o, res, fcfg, recs)
	if err := res.Write(o.Out); err != nil {
		panic(err)
	}
	os.Exit(0)
}

func waitInvoked(r *Record) {
	for t := time.Now(); time.Since(t) < 3*time.Second; time.Sleep(2 * time.Millisecond) {
		r.mu.Lock()
		n := r.SrvCount
		r.mu.Unlock()
		if n > 0 {
			return
		}
	}
}

// Case is the replay description of one call.
type Case struct {
	Filters string `json:"filters"`
	Fn      string `json:"fn"`
	Mode    string `json:"mode"`
	Seed    int64  `json:"seed"`
	Note    string `json:"note,omitempty"`
}

func judgeAll(o *common.Opts, res *common.Result, fcfg FilterCfg, recs []*Record) {
	dirModel := filepath.Dir(o.Model)
	var mCall, mSchema *common.Model
	if o.Model != "" {
		var err error
		if mCall, err = common.StartModel(o.Model, "callpath"); err != nil {
			res.Fatal(o.Out, err)
		}
		defer mCall.Close()
		if mSchema, err = common.StartModel(filepath.Join(dirModel, "tm_schema"), "schema"); err != nil {
			res.Fatal(o.Out, err)
		}
		defer mSchema.Close()
		uMu.Lock()
		lines := U.SchemaLines()
		uMu.Unlock()
		if ans, err := mSchema.Batch(lines); err != nil {
			res.Fatal(o.Out, err)
		} else {
			for i, a := range ans {
				if a != "ok" {
					res.Fatal(o.Out, fmt.Errorf("model rejected %q: %s", lines[i], a))
				}
			}
		}
	}
	for i, r := range recs {
		cs := Case{Filters: fcfg.String(), Fn: r.Fn, Mode: r.Mode, Seed: r.Seed}
		errk := r.Script.ErrKind
		if errk == "" {
			errk = "ok"
		}
		res.Count(fmt.Sprintf("%s/%s/%s/%d", fcfg, r.Fn, r.Mode, r.Seed), "call:"+r.Mode+":"+errk, true)
		if i%53 == 0 {
			res.Sample(map[string]interface{}{"filters": fcfg.String(), "fn": r.Fn, "mode": r.Mode, "sent": trunc(strings.Join(r.SentIns, " ")), "got_ret": trunc(r.GotRet), "got_err": r.GotErr, "events": r.Events})
		}
		// --- property oracle ---
		for _, p := range Judge(r) {
			res.Violate(common.Violation{Signature: "C01:" + p.Class + ":" + p.Locus, What: p.What, Case: common.Case{Stream: "e2e", Op: cs, Impl: trunc(p.What)}})
		}
		// filters: each once, in registration order, around exactly one call
		if r.Panic == "" && r.SrvCount == 1 {
			ct := sideTrace(r.Events, "c")
			st := sideTrace(r.Events, "s")
			wc := withoutCall(expectedTrace("c", fcfg.CSingle, fcfg.CMw, fcfg.CPre, fcfg.CPost))
			ws := withoutCall(expectedTrace("s", fcfg.SSingle, fcfg.SMw, fcfg.SPre, fcfg.SPost))
			if !eqStrs(ct, wc) {
				res.Violate(common.Violation{Signature: "C01:filter-trace:client", What: fmt.Sprintf("client filters saw %v, expected %v", ct, wc), Case: common.Case{Stream: "e2e", Op: cs}})
			}
			if !eqStrs(st, ws) {
				res.Violate(common.Violation{Signature: "C01:filter-trace:server", What: fmt.Sprintf("server filters saw %v, expected %v", st, ws), Case: common.Case{Stream: "e2e", Op: cs}})
			}
			// model: the same configuration through the Lean filter model
			if mCall != nil {
				callerr := 0
				if r.Script.ErrKind != "" {
					callerr = 1
				}
				q := []string{
					fmt.Sprintf("cfilters %d %d %d %d %d", fcfg.CSingle, fcfg.CMw, fcfg.CPre, fcfg.CPost, callerr),
					fmt.Sprintf("sfilters repaired %d %d %d %d %d", fcfg.SSingle, fcfg.SMw, fcfg.SPre, fcfg.SPost, callerr),
				}
				ans, err := mCall.Batch(q)
				if err != nil {
					res.Fatal(o.Out, err)
				}
				gotOutcome := "ok"
				if r.GotErr != "nil" {
					gotOutcome = "err"
				}
				for k, side := range []string{"c", "s"} {
					tr := ct
					if side == "s" {
						tr = st
					}
					impl := modelTraceForm(tr, side)
					mt, mo := splitModelTrace(ans[k])
					if r.Mode == "oneway" {
						mo = gotOutcome
					}
					if ans[k] != common.NoModel && (mt != impl || (side == "c" && mo != gotOutcome)) {
						res.Diverge(common.Case{Stream: "callpath", Op: cs, Model: ans[k], Impl: impl + " => " + gotOutcome, Note: q[k]})
					}
				}
			}
		}
		// error mapping through the model
		if mCall != nil && r.Mode != "oneway" && r.Panic == "" && r.SrvCount == 1 {
			kind := "nil"
			if r.Script.ErrKind != "" {
				kind = r.Script.ErrKind
			}
			a1, err := mCall.Ask(fmt.Sprintf("serr %s %d %s", kind, r.Script.ErrCode, common.Hex([]byte(r.Script.ErrMsg))))
			if err != nil {
				res.Fatal(o.Out, err)
			}
			f := strings.Fields(a1)
			if len(f) == 2 {
				a2, _ := mCall.Ask(fmt.Sprintf("cerr %s %s", f[0], f[1]))
				impl := "ok"
				if strings.HasPrefix(r.GotErr, "plain:") {
					impl = "plain " + common.Hex([]byte(r.GotErr[6:]))
				} else if strings.HasPrefix(r.GotErr, "tars:") {
					rest := r.GotErr[5:]
					j := strings.Index(rest, ":")
					impl = "tars " + rest[:j] + " " + common.Hex([]byte(rest[j+1:]))
				}
				if a2 != impl {
					res.Diverge(common.Case{Stream: "callpath", Op: cs, Model: a1 + " / " + a2, Impl: impl, Note: "error mapping"})
				}
			} else if a1 != common.NoModel {
				res.Diverge(common.Case{Stream: "callpath", Op: cs, Model: a1, Note: "serr answer unparsable"})
			}
		}
		// byte-level correspondence of the argument encoding with the schema model
		if mSchema != nil && r.ReqSBuf != "" && r.Panic == "" {
			checkBuffers(res, mSchema, cs, r)
		}
		res.TracesValidated++
	}
}

func modelTraceForm(tr []string, side string) string {
	var out []string
	for _, e := range tr {
		out = append(out, strings.TrimPrefix(e, side+"."))
	}
	return strings.Join(out, " ")
}

func splitModelTrace(ans string) (string, string) {
	i := strings.Index(ans, "=>")
	if i < 0 {
		return ans, ""
	}
	var evs []string
	for _, e := range strings.Fields(ans[:i]) {
		if e != "call" {
			evs = append(evs, e)
		}
	}
	return strings.Join(evs, " "), strings.TrimSpace(ans[i+2:])
}

var pseudoN int

// checkBuffers: the request sBuffer captured by a client filter must be what the schema model
// decodes to the arguments the caller passed (pseudo-struct: parameter i under tag i+1, required).
func checkBuffers(res *common.Result, m *common.Model, cs Case, r *Record) {
	r.mu.Lock()
	defer r.mu.Unlock()
	if len(r.ReqTys) == 0 {
		return
	}
	pseudoN++
	name := fmt.Sprintf("Req%d", pseudoN)
	var fs []string
	for i, t := range r.ReqTys {
		fs = append(fs, fmt.Sprintf("%d:1:%s:-", i+1, t))
	}
	ans, err := m.Batch([]string{
		fmt.Sprintf("schema %s %s", name, strings.Join(fs, ";")),
		fmt.Sprintf("dec %s fresh %s", name, r.ReqSBuf),
	})
	if err != nil || len(ans) != 2 || ans[0] == common.NoModel {
		return
	}
	f := strings.Fields(ans[1])
	if len(f) != 3 || f[0] != "ok" {
		res.Diverge(common.Case{Stream: "schema", Op: cs, Model: trunc(ans[1]), Impl: trunc(r.ReqSBuf), Note: "model cannot decode the request buffer written by the proxy"})
		return
	}
	// the in parameters, in order, as canonical text
	vals := topLevel(codecrun.CanonText(f[1]))
	var ins []string
	for _, i := range r.InIdx {
		if i < len(vals) {
			ins = append(ins, vals[i])
		}
	}
	if !eqStrs(ins, r.SentIns) {
		res.Diverge(common.Case{Stream: "schema", Op: cs, Model: trunc(strings.Join(ins, " ")), Impl: trunc(strings.Join(r.SentIns, " ")), Note: "request buffer decodes (model) to other arguments than the caller passed"})
	}
}

// topLevel splits "T[a,b,c]" into its top-level elements.
func topLevel(s string) []string {
	if !strings.HasPrefix(s, "T[") || !strings.HasSuffix(s, "]") {
		return nil
	}
	s = s[2 : len(s)-1]
	var out []string
	depth, start := 0, 0
	for i := 0; i < len(s); i++ {
		switch s[i] {
		case '[':
			depth++
		case ']':
			depth--
		case ',':
			if depth == 0 {
				out = append(out, s[start:i])
				start = i + 1
			}
		}
	}
	if start < len(s) || len(s) > 0 {
		out = append(out, s[start:])
	}
	return out
}

func trunc(s string) string {
	if len(s) > 300 {
		return s[:300] + "…"
	}
	return s
}
