package e2e

import (
	"context"
	"fmt"
	"math/rand"
	"os"
	"path/filepath"
	"strconv"
	"strings"
	"sync"
	"time"

	"github.com/TarsCloud/TarsGo/tars"
	"github.com/TarsCloud/TarsGo/tars/protocol/res/requestf"
	"github.com/TarsCloud/TarsGo/tars/util/current"

	"verifharness/codecrun"
	"verifharness/common"
	"verifharness/srv"
)

// ---- registration by the generated glue ----

type servantReg struct {
	obj string
	d   srv.Dispatcher
	imp interface{}
}

type proxyReg struct {
	obj string
	prx tars.ProxyPrx
}

var servants []servantReg
var proxies []proxyReg

func RegisterServant(obj string, d srv.Dispatcher, imp interface{}) {
	servants = append(servants, servantReg{obj, d, imp})
}
func RegisterProxy(obj string, prx tars.ProxyPrx) { proxies = append(proxies, proxyReg{obj, prx}) }

// ---- recording pass-through filters ----

// FilterCfg: how many filters of each kind are registered on each side.
type FilterCfg struct {
	CSingle, CMw, CPre, CPost int
	SSingle, SMw, SPre, SPost int
}

func (f FilterCfg) String() string {
	return fmt.Sprintf("c%d.%d.%d.%d-s%d.%d.%d.%d", f.CSingle, f.CMw, f.CPre, f.CPost, f.SSingle, f.SMw, f.SPre, f.SPost)
}

func ParseFilterCfg(s string) (f FilterCfg) {
	fmt.Sscanf(s, "c%d.%d.%d.%d-s%d.%d.%d.%d", &f.CSingle, &f.CMw, &f.CPre, &f.CPost, &f.SSingle, &f.SMw, &f.SPre, &f.SPost)
	return
}

func cRec(msg *tars.Message) *Record {
	return Lookup(msg.Req.Context, msg.Req.SServantName+"."+msg.Req.SFuncName)
}

func sRec(req *requestf.RequestPacket) *Record {
	return Lookup(req.Context, req.SServantName+"."+req.SFuncName)
}

func hexI8(b []int8) string {
	if len(b) == 0 {
		return "-"
	}
	var sb strings.Builder
	for _, x := range b {
		fmt.Fprintf(&sb, "%02x", byte(x))
	}
	return sb.String()
}

func capture(r *Record, msg *tars.Message) {
	if r == nil || r.Big != nil {
		return // large phase: buffers of up to 1 MiB are not handed to the schema model
	}
	r.mu.Lock()
	r.ReqSBuf = hexI8(msg.Req.SBuffer)
	if msg.Resp != nil {
		r.RspSBuf = hexI8(msg.Resp.SBuffer)
	}
	r.mu.Unlock()
}

func registerFilters(f FilterCfg) {
	if f.CSingle > 0 {
		RegisterOne("c", "single")
	}
	for i := 0; i < f.CMw; i++ {
		RegisterOne("c", "mw")
	}
	for i := 0; i < f.CPre; i++ {
		RegisterOne("c", "pre")
	}
	for i := 0; i < f.CPost; i++ {
		RegisterOne("c", "post")
	}
	if f.SSingle > 0 {
		RegisterOne("s", "single")
	}
	for i := 0; i < f.SMw; i++ {
		RegisterOne("s", "mw")
	}
	for i := 0; i < f.SPre; i++ {
		RegisterOne("s", "pre")
	}
	for i := 0; i < f.SPost; i++ {
		RegisterOne("s", "post")
	}
}

// expectedTrace: the property's oracle for pass-through filters: registration order, each once,
// the call once. side = "c" or "s".
func expectedTrace(side string, single, mw, pre, post int) []string {
	var out []string
	switch {
	case single > 0:
		out = append(out, side+".single.before", "call", side+".single.after")
	case mw > 0:
		for i := 0; i < mw; i++ {
			out = append(out, fmt.Sprintf("%s.mw%d.before", side, i))
		}
		out = append(out, "call")
		for i := mw - 1; i >= 0; i-- {
			out = append(out, fmt.Sprintf("%s.mw%d.after", side, i))
		}
	default:
		for i := 0; i < pre; i++ {
			out = append(out, fmt.Sprintf("%s.pre%d", side, i))
		}
		out = append(out, "call")
		for i := 0; i < post; i++ {
			out = append(out, fmt.Sprintf("%s.post%d", side, i))
		}
	}
	return out
}

// splitTrace separates client and server events of a record; the server hook marks "call" on the
// server side, the wire round trip is the client's "call".
func sideTrace(events []string, side string) []string {
	var out []string
	for _, e := range events {
		if strings.HasPrefix(e, side+".") {
			out = append(out, e)
		}
	}
	return out
}

func withoutCall(tr []string) []string {
	var out []string
	for _, e := range tr {
		if e != "call" {
			out = append(out, e)
		}
	}
	return out
}

// ---- the child's main ----

func invokeRecovering(fn CallFn, ctx context.Context, cs *CallState) {
	defer func() {
		if p := recover(); p != nil {
			cs.Rec.mu.Lock()
			cs.Rec.Panic = fmt.Sprint(p)
			cs.Rec.mu.Unlock()
		}
	}()
	fn(ctx, cs)
}

// ChildMain runs one filter configuration in this process.
func ChildMain() {
	o := common.ParseOpts()
	res := common.NewResult("C01", o)
	res.Streams = []string{"callpath", "schema"}
	fcfg := ParseFilterCfg(os.Getenv("VERIF_E2E_FILTERS"))
	registerFilters(fcfg)
	pool, _ := strconv.Atoi(os.Getenv("VERIF_E2E_POOL"))
	var replay *Case
	if f := os.Getenv("VERIF_E2E_REPLAY"); f != "" {
		var c Case
		if err := common.ReadReplay(f, &c); err == nil && (c.Scenario != nil || c.Large != nil) {
			replay = &c
		}
	}
	ports := newPortAlloc()
	cfg := &srv.Config{Servants: map[string]srv.ServantDef{}}
	// long-run child (longrun.go): small objqueuemax and its own default timeout on the client
	longrun := ParseLongRun(os.Getenv("VERIF_E2E_LONGRUN"))
	if longrun != nil {
		cfg.AsyncInvokeTimeout = longrun.AsyncTimeout
		cfg.ClientExtra = map[string]string{"objqueuemax": fmt.Sprint(longrun.ObjQueueMax)}
	}
	if pool > 0 {
		// worker pool: requests queue up behind busy workers (the framework default queue capacity
		// of 10^7 entries would allocate 80 MB per adapter)
		cfg.MaxRoutine, cfg.QueueCap = pool, 4096
	}
	for _, s := range servants {
		port, err := ports.probe()
		if err != nil {
			res.Fatal(o.Out, fmt.Errorf("%s: %v", startupTrouble, err))
		}
		cfg.Adapters = append(cfg.Adapters, srv.Adapter{Obj: s.obj, Proto: "tcp", Host: "127.0.0.1", Port: port})
		cfg.Servants[s.obj] = srv.ServantDef{D: s.d, Imp: s.imp}
	}
	// inside the launcher's scratch directory (the child's working directory), which the launcher
	// removes: this process ends with os.Exit and runs no deferred clean-up
	base := ""
	if wd, err := os.Getwd(); err == nil && strings.HasPrefix(filepath.Base(wd), "verif-c01-") {
		base = wd
	}
	dir, _ := os.MkdirTemp(base, "verif-c01-srv-")
	defer os.RemoveAll(dir)
	cfg.Dir = dir
	if err := srv.Start(cfg, nil, nil, true); err != nil {
		res.Fatal(o.Out, fmt.Errorf("%s: %v", startupTrouble, err))
	}
	serverGone := func() {
		// an adapter could not bind its port (taken by another process in the meantime): the
		// application has shut down and nothing observed in this process says anything about the
		// code under test; the launcher starts the child again
		if srv.Exited() {
			res.Fatal(o.Out, fmt.Errorf("%s: the server application has exited (an adapter could not listen)", startupTrouble))
		}
	}
	time.Sleep(50 * time.Millisecond)
	serverGone()
	// every proxy talks to its adapter through a frame-level tap (tap.go)
	var taps []*Tap
	comm := tars.NewCommunicator()
	for _, p := range proxies {
		for _, a := range cfg.Adapters {
			if a.Obj == p.obj {
				ln, tport, err := ports.listen()
				if err != nil {
					res.Fatal(o.Out, fmt.Errorf("%s: %v", startupTrouble, err))
				}
				tap, err := StartTap(a.Obj, fmt.Sprintf("%s:%d", a.Host, a.Port), ln, tport)
				if err != nil {
					res.Fatal(o.Out, err)
				}
				taps = append(taps, tap)
				comm.StringToProxy(fmt.Sprintf("%s@tcp -h %s -p %d -t 5000", p.obj, a.Host, tap.Port), p.prx)
			}
		}
	}
	rng := o.Rand()
	perFn := 6
	conc := 16
	nScen := 0
	if o.Thorough() {
		perFn = 40
		conc = 64
	}
	if pool > 0 {
		// the ordinary phases in a reduced form (calls are served by the pool's workers), then the
		// queueing scenarios
		perFn, conc, nScen = 4, 8, 6
		if o.Thorough() {
			perFn, conc, nScen = 8, 16, 40
		}
	}
	if s := os.Getenv("VERIF_E2E_PERFN"); s != "" {
		perFn, _ = strconv.Atoi(s)
	}
	if s := os.Getenv("VERIF_E2E_NSCEN"); s != "" {
		nScen, _ = strconv.Atoi(s)
	}
	newCtx := func() context.Context { return current.ContextWithClientCurrent(context.Background()) }
	var recs []*Record
	var scens []scenRun
	if hist := ParseHistory(os.Getenv("VERIF_E2E_HISTORY")); hist != nil && len(FuncNames) > 0 {
		if hist.Seed == 0 {
			hist.Seed = smallSeed(rng)
		}
		recs = RunHistory(hist)
		time.Sleep(300 * time.Millisecond)
		serverGone()
		judgeAll(o, res, fcfg, pool, recs, scens, taps)
		if err := res.Write(o.Out); err != nil {
			panic(err)
		}
		os.Exit(0)
	}
	if longrun != nil && len(FuncNames) > 0 {
		if longrun.Seed == 0 {
			longrun.Seed = smallSeed(rng)
		}
		recs = RunLongRun(longrun)
		time.Sleep(300 * time.Millisecond)
		serverGone()
		judgeAll(o, res, fcfg, pool, recs, scens, taps)
		if err := res.Write(o.Out); err != nil {
			panic(err)
		}
		os.Exit(0)
	}
	if replay != nil && replay.Large != nil {
		// replay of a large phase: same values; repeated until the violation shows (interleaving)
		for i := 0; i < 6; i++ {
			rs := RunLarge(replay.Large)
			recs = append(recs, rs...)
			bad := false
			for _, r := range rs {
				if len(Judge(r)) > 0 {
					bad = true
				}
			}
			if bad {
				break
			}
		}
		time.Sleep(300 * time.Millisecond)
		serverGone()
		judgeAll(o, res, fcfg, pool, recs, scens, taps)
		if err := res.Write(o.Out); err != nil {
			panic(err)
		}
		os.Exit(0)
	}
	if replay != nil {
		// replay of one worker-pool scenario: exactly its calls
		for _, pc := range replay.Scenario.Calls {
			if Calls[pc.Fn] == nil {
				res.Fatal(o.Out, fmt.Errorf("replay: function %s is not among the generated interfaces (gen_seed %d, gen_tier %s)", pc.Fn, replay.GenSeed, replay.GenTier))
			}
		}
		rs, ok := RunScenario(replay.Scenario)
		scens = append(scens, scenRun{replay.Scenario, ok})
		recs = append(recs, rs...)
		time.Sleep(300 * time.Millisecond)
		serverGone()
		judgeAll(o, res, fcfg, pool, recs, scens, taps)
		if err := res.Write(o.Out); err != nil {
			panic(err)
		}
		os.Exit(0)
	}
	// sequential phase: every function in every mode
	modes := []string{"opts0", "opts1", "opts2", "oneway"}
	for _, fn := range FuncNames {
		for i := 0; i < perFn; i++ {
			mode := modes[i%len(modes)]
			cs := NewCall(fn, mode, rng.Int63())
			if mode == "opts0" {
				cs.Rec.Script.RespCtx, cs.Rec.Script.RespStatus = nil, nil
			}
			invokeRecovering(Calls[fn], newCtx(), cs)
			if mode == "oneway" {
				waitInvoked(cs.Rec)
			}
			recs = append(recs, cs.Rec)
		}
	}
	// boundary: nil option map with a response context set by the implementation (D20)
	if len(FuncNames) > 0 && os.Getenv("VERIF_E2E_NILMAP") != "0" {
		cs := NewCall(FuncNames[0], "nilmap", rng.Int63())
		cs.Rec.Script.ErrKind = ""
		cs.Rec.Script.RespCtx = map[string]string{"rc": "v"}
		invokeRecovering(Calls[FuncNames[0]], newCtx(), cs)
		recs = append(recs, cs.Rec)
	}
	// worker-pool phase: calls queue up behind scripted slow calls (pool.go)
	if len(FuncNames) > 0 && pool > 0 {
		for i := 0; i < nScen; i++ {
			sc := GenScenario(rng, pool)
			rs, ok := RunScenario(sc)
			scens = append(scens, scenRun{sc, ok})
			recs = append(recs, rs...)
		}
	}
	// concurrent phase: callers sharing the proxies
	var wg sync.WaitGroup
	var mu sync.Mutex
	for g := 0; g < conc; g++ {
		seed := rng.Int63()
		wg.Add(1)
		go func(seed int64) {
			defer wg.Done()
			r := rand.New(rand.NewSource(seed))
			for i := 0; i < perFn; i++ {
				fn := FuncNames[r.Intn(len(FuncNames))]
				mode := []string{"opts1", "opts2", "oneway"}[r.Intn(3)]
				cs := NewCall(fn, mode, r.Int63())
				invokeRecovering(Calls[fn], newCtx(), cs)
				if mode == "oneway" {
					waitInvoked(cs.Rec)
				}
				mu.Lock()
				recs = append(recs, cs.Rec)
				mu.Unlock()
			}
		}(seed)
	}
	wg.Wait()
	// large phase: concurrent callers on one connection with requests/responses of 63 KiB - 1 MiB
	if len(BigFuncNames) > 0 && os.Getenv("VERIF_E2E_LARGE") != "0" {
		lp := &LargePhase{Seed: smallSeed(rng), Callers: 24, Calls: 24, Huge: 60}
		if o.Thorough() {
			lp.Callers, lp.Calls, lp.Huge = 32, 60, 25
		}
		if pool > 0 {
			lp.Callers, lp.Calls = 8, 12
		}
		if s := os.Getenv("VERIF_E2E_LARGE"); s != "" { // experiments: callers,calls,huge
			fmt.Sscanf(s, "%d,%d,%d", &lp.Callers, &lp.Calls, &lp.Huge)
		}
		recs = append(recs, RunLarge(lp)...)
	}
	time.Sleep(300 * time.Millisecond) // late duplicate deliveries of one-way calls and late reply frames would show up here
	serverGone()
	judgeAll(o, res, fcfg, pool, recs, scens, taps)
	if err := res.Write(o.Out); err != nil {
		panic(err)
	}
	os.Exit(0)
}

// startupTrouble marks harness errors that say the child's server did not come up on ports of its
// own; the launcher retries such a child.
const startupTrouble = "e2e-server-startup"

type scenRun struct {
	sc *Scenario
	ok bool
}

func waitInvoked(r *Record) {
	for t := time.Now(); time.Since(t) < 3*time.Second; time.Sleep(2 * time.Millisecond) {
		r.mu.Lock()
		n := r.SrvCount
		r.mu.Unlock()
		if n > 0 {
			return
		}
	}
}

// Case is the replay description of one call.
type Case struct {
	Filters string `json:"filters"`
	Fn      string `json:"fn"`
	Mode    string `json:"mode"`
	Seed    int64  `json:"seed"`
	Note    string `json:"note,omitempty"`
	// worker-pool scenarios (pool.go): pool size of the server and the whole scenario, so that a
	// replay executes exactly these calls; GenSeed/GenTier regenerate the same interfaces
	Pool     int       `json:"pool,omitempty"`
	Role     string    `json:"role,omitempty"`
	Scenario *Scenario `json:"scenario,omitempty"`
	// large phase (big.go): the whole phase is re-run on replay (the values follow from the seed;
	// the interleaving of the callers does not, so a replay repeats the phase a few times)
	// long-run phase (longrun.go): the sequential stream is re-run; Index = the offending call
	// filter-registration history (history.go): re-run on replay; Index = the step of the call,
	// State = the registration state when it was issued
	History *History     `json:"history,omitempty"`
	State   *FilterState `json:"state,omitempty"`
	LongRun *LongRun     `json:"longrun,omitempty"`
	Index   int          `json:"index,omitempty"`
	Large   *LargePhase  `json:"large,omitempty"`
	Big     *BigSpec     `json:"big,omitempty"`
	GenSeed int64        `json:"gen_seed,omitempty"`
	GenTier string       `json:"gen_tier,omitempty"`
}

func judgeAll(o *common.Opts, res *common.Result, fcfg FilterCfg, pool int, recs []*Record, scens []scenRun, taps []*Tap) {
	genSeed, _ := strconv.ParseInt(os.Getenv("VERIF_E2E_GENSEED"), 10, 64)
	genTier := os.Getenv("VERIF_E2E_GENTIER")
	caseOf := func(r *Record) Case {
		c := Case{Filters: fcfg.String(), Fn: r.Fn, Mode: r.Mode, Seed: r.Seed, GenSeed: genSeed, GenTier: genTier, Pool: pool}
		if r.Scn != nil {
			c.Role, c.Scenario = r.Role, r.Scn
		}
		if r.Big != nil {
			c.Large, c.Big = r.Phase, r.Big
		}
		if r.Long != nil {
			c.Role, c.LongRun, c.Index = r.Role, r.Long, r.Index
		}
		if r.Hist != nil {
			c.History, c.State, c.Index = r.Hist, r.FState, r.Index
		}
		return c
	}
	dirModel := filepath.Dir(o.Model)
	var mCall, mSchema *common.Model
	if o.Model != "" {
		var err error
		if mCall, err = common.StartModel(o.Model, "callpath"); err != nil {
			res.Fatal(o.Out, err)
		}
		defer mCall.Close()
		if mSchema, err = common.StartModel(filepath.Join(dirModel, "tm_schema"), "schema"); err != nil {
			res.Fatal(o.Out, err)
		}
		defer mSchema.Close()
		uMu.Lock()
		lines := U.SchemaLines()
		uMu.Unlock()
		if ans, err := mSchema.Batch(lines); err != nil {
			res.Fatal(o.Out, err)
		} else {
			for i, a := range ans {
				if a != "ok" {
					res.Fatal(o.Out, fmt.Errorf("model rejected %q: %s", lines[i], a))
				}
			}
		}
	}
	owBefore := make([]int, len(recs)+1) // one-way calls before position i
	for i, r := range recs {
		owBefore[i+1] = owBefore[i]
		if r.Mode == "oneway" {
			owBefore[i+1]++
		}
	}
	sentOnWire := map[string]bool{}
	for _, t := range taps {
		t.SentVCalls(sentOnWire)
	}
	for i, r := range recs {
		cs := caseOf(r)
		errk := r.Script.ErrKind
		if errk == "" {
			errk = "ok"
		}
		if r.Hist != nil {
			res.Count(fmt.Sprintf("history/%s/%d", r.Hist, r.Index), fmt.Sprintf("call:history:%s:client-%s:server-%s", r.Hist.Variant,
				selName(r.FState.CGen, r.FState.Cfg.CMw, r.FState.Cfg.CPre+r.FState.Cfg.CPost),
				selName(r.FState.SGen, r.FState.Cfg.SMw, r.FState.Cfg.SPre+r.FState.Cfg.SPost)), true)
		} else if r.Long != nil {
			res.Count(fmt.Sprintf("%s/longrun/%s/%d", fcfg, r.Long, r.Index), longClass(r), true)
		} else if r.Big != nil {
			res.Count(fmt.Sprintf("%s/pool%d/large/%s/%s/%d", fcfg, pool, r.Fn, r.Mode, r.Seed), bigClass(r), true)
		} else if r.Role != "" {
			res.Count(fmt.Sprintf("%s/pool%d/%s/%s/%d", fcfg, pool, r.Fn, r.Mode, r.Seed), poolClass(r), true)
		} else {
			res.Count(fmt.Sprintf("%s/pool%d/%s/%s/%d", fcfg, pool, r.Fn, r.Mode, r.Seed), "call:"+r.Mode+":"+errk, true)
		}
		// a call that ran out of time in the server's queue has no counterpart in the call path
		// model (which describes served calls): implementation-side oracle only
		timedOut := r.Role == "queued" && r.Short && (r.SrvCount != 1 || (r.Mode != "oneway" && r.GotErr != "nil"))
		if r.Role == "timeout" || (r.Long != nil && r.Index >= 1500) {
			// caller-side timeouts have no counterpart in the call path model; of a very long stream
			// the first 1500 calls are compared with the model, all are judged on the implementation
			timedOut = true
		}
		// long run: a call that never appeared on the wire although nothing was in flight
		if r.Long != nil && r.Panic == "" && r.SrvCount == 0 && r.GotErr != "nil" && !sentOnWire[r.ID] {
			locus := "not-sent"
			if strings.Contains(r.GotErr, "queue is full") {
				locus = "objqueue-leak"
			}
			nOW := owBefore[i]
			what := fmt.Sprintf("call %d of a strictly sequential stream on one proxy (objqueuemax %d; %d one-way calls before it, nothing in flight) was refused and never sent: %s", r.Index, r.Long.ObjQueueMax, nOW, r.GotErr)
			res.Violate(common.Violation{Signature: "C01:call-refused:" + locus, What: what, Case: common.Case{Stream: "e2e", Op: cs, Impl: trunc(what)}})
			res.TracesValidated++
			continue
		}
		if i%53 == 0 {
			res.Sample(map[string]interface{}{"filters": fcfg.String(), "fn": r.Fn, "mode": r.Mode, "sent": trunc(strings.Join(r.SentIns, " ")), "got_ret": trunc(r.GotRet), "got_err": r.GotErr, "events": r.Events})
		}
		// --- property oracle ---
		for _, p := range Judge(r) {
			res.Violate(common.Violation{Signature: "C01:" + p.Class + ":" + p.Locus, What: p.What, Case: common.Case{Stream: "e2e", Op: cs, Impl: trunc(p.What)}})
		}
		// filters: each once, in registration order, around exactly one call
		if r.Panic == "" && r.SrvCount == 1 {
			ct := sideTrace(r.Events, "c")
			st := sideTrace(r.Events, "s")
			// the registration state that applies to this call: the child's fixed configuration, or
			// (history.go) the state when the call was issued
			fst := FilterState{Cfg: fcfg, CGen: 1, SGen: 1}
			if r.FState != nil {
				fst = *r.FState
			}
			fcfg := fst.Cfg
			wc := withoutCall(expectedTraceAt("c", fst))
			ws := withoutCall(expectedTraceAt("s", fst))
			if !eqStrs(ct, wc) {
				res.Violate(common.Violation{Signature: "C01:filter-trace:client" + histLocus(r), What: fmt.Sprintf("client filters saw %v, expected %v%s", ct, wc, histWhat(r)), Case: common.Case{Stream: "e2e", Op: cs}})
			}
			if !eqStrs(st, ws) {
				res.Violate(common.Violation{Signature: "C01:filter-trace:server" + histLocus(r), What: fmt.Sprintf("server filters saw %v, expected %v%s", st, ws, histWhat(r)), Case: common.Case{Stream: "e2e", Op: cs}})
			}
			// model: the same configuration through the Lean filter model
			if mCall != nil && !timedOut {
				callerr := 0
				if r.Script.ErrKind != "" {
					callerr = 1
				}
				q := []string{
					fmt.Sprintf("cfilters %d %d %d %d %d", fcfg.CSingle, fcfg.CMw, fcfg.CPre, fcfg.CPost, callerr),
					fmt.Sprintf("sfilters repaired %d %d %d %d %d", fcfg.SSingle, fcfg.SMw, fcfg.SPre, fcfg.SPost, callerr),
				}
				ans, err := mCall.Batch(q)
				if err != nil {
					res.Fatal(o.Out, err)
				}
				gotOutcome := "ok"
				if r.GotErr != "nil" {
					gotOutcome = "err"
				}
				for k, side := range []string{"c", "s"} {
					tr := ct
					if side == "s" {
						tr = st
					}
					impl := modelTraceForm(tr, side)
					mt, mo := splitModelTrace(ans[k])
					if r.Mode == "oneway" {
						mo = gotOutcome
					}
					if ans[k] != common.NoModel && (mt != impl || (side == "c" && mo != gotOutcome)) {
						res.Diverge(common.Case{Stream: "callpath", Op: cs, Model: ans[k], Impl: impl + " => " + gotOutcome, Note: q[k]})
					}
				}
			}
		}
		// error mapping through the model
		if mCall != nil && r.Mode != "oneway" && r.Panic == "" && r.SrvCount == 1 && !timedOut {
			kind := "nil"
			if r.Script.ErrKind != "" {
				kind = r.Script.ErrKind
			}
			a1, err := mCall.Ask(fmt.Sprintf("serr %s %d %s", kind, r.Script.ErrCode, common.Hex([]byte(r.Script.ErrMsg))))
			if err != nil {
				res.Fatal(o.Out, err)
			}
			f := strings.Fields(a1)
			if len(f) == 2 {
				a2, _ := mCall.Ask(fmt.Sprintf("cerr %s %s", f[0], f[1]))
				impl := "ok"
				if strings.HasPrefix(r.GotErr, "plain:") {
					impl = "plain " + common.Hex([]byte(r.GotErr[6:]))
				} else if strings.HasPrefix(r.GotErr, "tars:") {
					rest := r.GotErr[5:]
					j := strings.Index(rest, ":")
					impl = "tars " + rest[:j] + " " + common.Hex([]byte(rest[j+1:]))
				}
				if a2 != impl {
					res.Diverge(common.Case{Stream: "callpath", Op: cs, Model: a1 + " / " + a2, Impl: impl, Note: "error mapping"})
				}
			} else if a1 != common.NoModel {
				res.Diverge(common.Case{Stream: "callpath", Op: cs, Model: a1, Note: "serr answer unparsable"})
			}
		}
		// byte-level correspondence of the argument encoding with the schema model
		if mSchema != nil && r.ReqSBuf != "" && r.Panic == "" && !(r.Long != nil && r.Index >= 1500) {
			checkBuffers(res, mSchema, cs, r)
		}
		res.TracesValidated++
	}
	// --- worker-pool scenarios: what ran ---
	for _, sr := range scens {
		ow, tw := 0, 0
		for _, pc := range sr.sc.Calls {
			if pc.Role == "queued" && pc.TimeoutMs < longTimeoutMs {
				if pc.Mode == "oneway" {
					ow++
				} else {
					tw++
				}
			}
		}
		class := fmt.Sprintf("pool-scenario:workers%d", sr.sc.Workers)
		if !sr.ok {
			class += ":blockers-not-running"
		}
		res.Count(fmt.Sprintf("%s/scenario/%d/%d", fcfg, sr.sc.Workers, sr.sc.Calls[0].Seed), class, true)
		if ow > 0 {
			res.Histogram["pool-scenario:oneway-expiring-in-queue"]++
		}
		if tw > 0 {
			res.Histogram["pool-scenario:twoway-expiring-in-queue"]++
		}
	}
	// --- wire oracle (tap.go): replies seen on the wire ---
	byID := map[string]*Record{}
	for _, r := range recs {
		byID[r.ID] = r
	}
	for _, t := range taps {
		ps, st := t.Problems()
		res.Histogram["wire:request-frames"] += st.Requests
		res.Histogram["wire:request-frames-oneway"] += st.OneWay
		res.Histogram["wire:response-frames"] += st.Responses
		res.Histogram["wire:connections"] += st.Conns
		if st.Pushes > 0 {
			res.Note("tap %s: %d server push frames (request id 0) ignored", t.Obj, st.Pushes)
		}
		for _, b := range st.Broken {
			res.Note("tap %s: %s", t.Obj, b)
		}
		for _, p := range ps {
			cs := Case{Filters: fcfg.String(), Fn: p.Func, Mode: "opts0", GenSeed: genSeed, GenTier: genTier, Pool: pool, Note: "no call id on the wire (call without options or framework request)"}
			if r := byID[p.VCall]; r != nil {
				cs = caseOf(r)
			}
			res.Violate(common.Violation{Signature: "C01:" + p.Class + ":" + p.Locus, What: p.What, Case: common.Case{Stream: "e2e", Op: cs, Impl: trunc(p.What)}})
		}
		// a two-way call that the caller saw succeed was answered by exactly one frame (more than
		// one is reported above); none at all means the tap has not seen the traffic: harness error
		if len(st.Broken) == 0 {
			rc := t.ReplyCounts()
			for _, r := range recs {
				if n, ok := rc[r.ID]; ok && n == 0 && r.Mode != "oneway" && r.GotErr == "nil" && r.Panic == "" {
					res.Fatal(o.Out, fmt.Errorf("tap %s saw no response frame for %s (%s %s) although the caller got a successful result", t.Obj, r.ID, r.Fn, r.Mode))
				}
			}
		}
	}
}

// selName: which registration applies to a call in a given state
func selName(gen, mw, prepost int) string {
	switch {
	case gen > 1:
		return "single-replaced"
	case gen == 1:
		return "single"
	case mw > 1:
		return "mw-chain"
	case mw == 1:
		return "mw-one"
	case prepost > 0:
		return "prepost"
	}
	return "none"
}

func histLocus(r *Record) string {
	if r.Hist != nil {
		return "-registration-history"
	}
	return ""
}

func histWhat(r *Record) string {
	if r.Hist == nil {
		return ""
	}
	return fmt.Sprintf(" (step %d of a registration history; registered when the call was issued: %s, single slot registered %d/%d times)", r.Index, r.FState.Cfg, r.FState.CGen, r.FState.SGen)
}

func modelTraceForm(tr []string, side string) string {
	var out []string
	for _, e := range tr {
		e = strings.TrimPrefix(e, side+".")
		// the model names the single slot "single"; which registration fills it is judged by the
		// implementation-side oracle (expectedTraceAt)
		if strings.HasPrefix(e, "single@") {
			if j := strings.Index(e, "."); j > 0 {
				e = "single" + e[j:]
			}
		}
		out = append(out, e)
	}
	return strings.Join(out, " ")
}

func splitModelTrace(ans string) (string, string) {
	i := strings.Index(ans, "=>")
	if i < 0 {
		return ans, ""
	}
	var evs []string
	for _, e := range strings.Fields(ans[:i]) {
		if e != "call" {
			evs = append(evs, e)
		}
	}
	return strings.Join(evs, " "), strings.TrimSpace(ans[i+2:])
}

var pseudoN int

// checkBuffers: the request sBuffer captured by a client filter must be what the schema model
// decodes to the arguments the caller passed (pseudo-struct: parameter i under tag i+1, required).
func checkBuffers(res *common.Result, m *common.Model, cs Case, r *Record) {
	r.mu.Lock()
	defer r.mu.Unlock()
	if len(r.ReqTys) == 0 {
		return
	}
	pseudoN++
	name := fmt.Sprintf("Req%d", pseudoN)
	var fs []string
	for i, t := range r.ReqTys {
		fs = append(fs, fmt.Sprintf("%d:1:%s:-", i+1, t))
	}
	ans, err := m.Batch([]string{
		fmt.Sprintf("schema %s %s", name, strings.Join(fs, ";")),
		fmt.Sprintf("dec %s fresh %s", name, r.ReqSBuf),
	})
	if err != nil || len(ans) != 2 || ans[0] == common.NoModel {
		return
	}
	f := strings.Fields(ans[1])
	if len(f) != 3 || f[0] != "ok" {
		res.Diverge(common.Case{Stream: "schema", Op: cs, Model: trunc(ans[1]), Impl: trunc(r.ReqSBuf), Note: "model cannot decode the request buffer written by the proxy"})
		return
	}
	// the in parameters, in order, as canonical text
	vals := topLevel(codecrun.CanonText(f[1]))
	var ins []string
	for _, i := range r.InIdx {
		if i < len(vals) {
			ins = append(ins, vals[i])
		}
	}
	if !eqStrs(ins, r.SentIns) {
		res.Diverge(common.Case{Stream: "schema", Op: cs, Model: trunc(strings.Join(ins, " ")), Impl: trunc(strings.Join(r.SentIns, " ")), Note: "request buffer decodes (model) to other arguments than the caller passed"})
	}
}

// topLevel splits "T[a,b,c]" into its top-level elements.
func topLevel(s string) []string {
	if !strings.HasPrefix(s, "T[") || !strings.HasSuffix(s, "]") {
		return nil
	}
	s = s[2 : len(s)-1]
	var out []string
	depth, start := 0, 0
	for i := 0; i < len(s); i++ {
		switch s[i] {
		case '[':
			depth++
		case ']':
			depth--
		case ',':
			if depth == 0 {
				out = append(out, s[start:i])
				start = i + 1
			}
		}
	}
	if start < len(s) || len(s) > 0 {
		out = append(out, s[start:])
	}
	return out
}

func trunc(s string) string {
	if len(s) > 300 {
		return s[:300] + "…"
	}
	return s
}
