package e2e

import (
	"fmt"
	"math/rand"
	"os"
	"os/exec"
	"path/filepath"
	"strings"
	"sync"
	"time"

	"verifharness/common"
	"verifharness/idlgen"
)

func repoDir() string {
	if d := os.Getenv("VERIF_REPO"); d != "" {
		return d
	}
	return "/repo"
}

func goEnv() []string {
	return append(os.Environ(), "GOFLAGS=-mod=mod", "GOPROXY=off", "GOSUMDB=off", "GOTOOLCHAIN=local", "CGO_ENABLED=0")
}

func runCmd(dir string, timeout time.Duration, env []string, name string, args ...string) (string, error) {
	cmd := exec.Command(name, args...)
	cmd.Dir = dir
	cmd.Env = env
	done := make(chan struct{})
	var out []byte
	var err error
	go func() { out, err = cmd.CombinedOutput(); close(done) }()
	select {
	case <-done:
		return string(out), err
	case <-time.After(timeout):
		if cmd.Process != nil {
			cmd.Process.Kill()
		}
		<-done
		return string(out), fmt.Errorf("timeout after %v", timeout)
	}
}

func upperFirst(s string) string { return strings.ToUpper(s[:1]) + s[1:] }

// glue renders the servant implementation and the client callers of one module.
func glue(md *idlgen.ModuleDesc) string {
	var sb strings.Builder
	pkg := md.Name
	obj := "App.Server." + pkg + "Obj"
	fmt.Fprintf(&sb, "type imp%s struct{}\n\nvar prx%s = new(%s.Ifc)\n\n", pkg, pkg, pkg)
	for _, f := range md.Funcs {
		gname := upperFirst(f.Name)
		var sig, ins, outs, decl, ptrs, isOut, callArgs []string
		for _, p := range f.Params {
			gt := p.Ty.Go(pkg)
			if p.Out || p.Ty.Kind == "struct" {
				sig = append(sig, p.Name+" *"+gt)
			} else {
				sig = append(sig, p.Name+" "+gt)
			}
			switch {
			case p.Out:
				outs = append(outs, p.Name)
			case p.Ty.Kind == "struct":
				ins = append(ins, p.Name)
			default:
				ins = append(ins, "&"+p.Name)
			}
			decl = append(decl, fmt.Sprintf("\t\tvar %s %s", p.Name, gt))
			ptrs = append(ptrs, "&"+p.Name)
			isOut = append(isOut, fmt.Sprint(p.Out))
			if p.Out || p.Ty.Kind == "struct" {
				callArgs = append(callArgs, "&"+p.Name)
			} else {
				callArgs = append(callArgs, p.Name)
			}
		}
		full := obj + "." + f.Name
		retDecl, retPtr := "err error", "nil"
		if f.Ret != nil {
			retDecl, retPtr = "ret "+f.Ret.Go(pkg)+", err error", "&ret"
		}
		args := "tarsCtx context.Context"
		if len(sig) > 0 {
			args += ", " + strings.Join(sig, ", ")
		}
		fmt.Fprintf(&sb, "func (imp%s) %s(%s) (%s) {\n\terr = e2e.ServerHook(tarsCtx, %q, []interface{}{%s}, []interface{}{%s}, %s)\n\treturn\n}\n\n",
			pkg, gname, args, retDecl, full, strings.Join(ins, ", "), strings.Join(outs, ", "), retPtr)
		// caller
		var outPtrs []string
		for _, p := range f.Params {
			if p.Out {
				outPtrs = append(outPtrs, "&"+p.Name)
			}
		}
		ca := "ctx"
		if len(callArgs) > 0 {
			ca += ", " + strings.Join(callArgs, ", ")
		}
		ca += ", cs.Opts()..."
		fmt.Fprintf(&sb, "func init() {\n\te2e.RegisterCall(%q, func(ctx context.Context, cs *e2e.CallState) error {\n%s\n\t\tcs.Params([]interface{}{%s}, []bool{%s})\n",
			full, strings.Join(decl, "\n"), strings.Join(ptrs, ", "), strings.Join(isOut, ", "))
		if f.Ret != nil {
			fmt.Fprintf(&sb, "\t\tif cs.Rec.Mode == \"oneway\" {\n\t\t\t_, err := prx%s.%sOneWayWithContext(%s)\n\t\t\treturn cs.Done(err, nil, nil)\n\t\t}\n", pkg, gname, ca)
			fmt.Fprintf(&sb, "\t\tret, err := prx%s.%sWithContext(%s)\n\t\treturn cs.Done(err, []interface{}{%s}, &ret)\n\t})\n}\n\n", pkg, gname, ca, strings.Join(outPtrs, ", "))
		} else {
			fmt.Fprintf(&sb, "\t\tif cs.Rec.Mode == \"oneway\" {\n\t\t\terr := prx%s.%sOneWayWithContext(%s)\n\t\t\treturn cs.Done(err, nil, nil)\n\t\t}\n", pkg, gname, ca)
			fmt.Fprintf(&sb, "\t\terr := prx%s.%sWithContext(%s)\n\t\treturn cs.Done(err, []interface{}{%s}, nil)\n\t})\n}\n\n", pkg, gname, ca, strings.Join(outPtrs, ", "))
		}
	}
	fmt.Fprintf(&sb, "func init() {\n\te2e.RegisterServant(%q, new(%s.Ifc), imp%s{})\n\te2e.RegisterProxy(%q, prx%s)\n}\n\n", obj, pkg, pkg, obj, pkg)
	return sb.String()
}

// bigIDL: the fixed interface of the large phase (big.go): byte vectors (signed and unsigned),
// strings, vectors of strings, nested vectors and a struct carrying such members, in and out.
const bigIDL = `module Big
{
    struct Box
    {
        0 require int tag;
        1 optional vector<byte> data;
        2 optional string note;
        3 optional vector<vector<int>> grid;
        5 optional vector<unsigned byte> raw;
    };
    interface Ifc
    {
        int blob(int tag, vector<byte> data, out vector<byte> echo, out string tagEcho);
        int boxEcho(Box b, out Box e);
        vector<string> strs(int tag, vector<string> data, out vector<vector<int>> grid);
        void rawEcho(int tag, vector<unsigned byte> data, out vector<unsigned byte> echo, out Box e);
    };
};
`

func bigModule() *idlgen.ModuleDesc {
	sc := func(k string) *idlgen.IType { return &idlgen.IType{Kind: k} }
	vec := func(e *idlgen.IType) *idlgen.IType { return &idlgen.IType{Kind: "vector", Elem: e} }
	box := &idlgen.IType{Kind: "struct", Name: "Box"}
	in := func(n string, t *idlgen.IType) idlgen.Param { return idlgen.Param{Name: n, Ty: t} }
	out := func(n string, t *idlgen.IType) idlgen.Param { return idlgen.Param{Name: n, Ty: t, Out: true} }
	return &idlgen.ModuleDesc{Name: "Big", IDL: bigIDL, Funcs: []idlgen.Func{
		{Name: "blob", Ret: sc("int"), Params: []idlgen.Param{in("tag", sc("int")), in("data", vec(sc("byte"))), out("echo", vec(sc("byte"))), out("tagEcho", sc("string"))}},
		{Name: "boxEcho", Ret: sc("int"), Params: []idlgen.Param{in("b", box), out("e", box)}},
		{Name: "strs", Ret: vec(sc("string")), Params: []idlgen.Param{in("tag", sc("int")), in("data", vec(sc("string"))), out("grid", vec(vec(sc("int"))))}},
		{Name: "rawEcho", Params: []idlgen.Param{in("tag", sc("int")), in("data", vec(sc("unsigned byte"))), out("echo", vec(sc("unsigned byte"))), out("e", box)}},
	}}
}

// FilterConfigs of a tier.
func FilterConfigs(thorough bool) []string {
	base := []string{"c0.0.0.0-s0.0.0.0", "c1.0.0.0-s1.0.0.0", "c0.2.0.0-s0.2.0.0", "c0.0.2.1-s0.0.1.2", "c1.2.1.1-s1.2.1.1", "c0.3.2.2-s0.1.3.3"}
	if !thorough {
		return base
	}
	for _, x := range []string{"c0.1.0.0-s0.0.3.0", "c0.0.3.0-s0.3.0.0", "c0.0.0.3-s0.0.0.3", "c1.0.3.3-s0.0.0.1", "c0.0.1.1-s1.3.0.0", "c0.1.1.0-s0.0.2.2",
		"c0.0.1.0-s0.0.0.2", "c0.3.0.0-s1.0.1.0", "c1.1.0.0-s0.2.1.1", "c0.0.2.2-s0.0.3.1"} {
		base = append(base, x)
	}
	return base
}

// childCfg: one child process = one filter configuration and one server configuration (pool = 0:
// a goroutine per request, the framework default; pool > 0: maxroutine workers).
type childCfg struct {
	filters string
	pool    int
	longrun string // "objqueuemax,async-invoke-timeout,n[,seed]": long-run child (longrun.go)
	history string // "variant,steps[,seed]": filter-registration history child (history.go)
}

// ChildConfigs of a tier: every filter configuration on the default server, plus worker-pool
// servers (pool.go) of size 1 and 2.
func ChildConfigs(thorough bool) []childCfg {
	var out []childCfg
	for _, f := range FilterConfigs(thorough) {
		out = append(out, childCfg{f, 0, "", ""})
	}
	out = append(out, childCfg{"c0.0.0.0-s0.0.0.0", 1, "", ""}, childCfg{"c0.2.0.0-s0.2.0.0", 2, "", ""})
	if thorough {
		out = append(out, childCfg{"c1.0.0.0-s1.0.0.0", 2, "", ""}, childCfg{"c0.0.2.1-s0.0.1.2", 1, "", ""}, childCfg{"c0.3.2.2-s0.1.3.3", 2, "", ""}, childCfg{"c0.2.0.0-s0.2.0.0", 1, "", ""})
	}
	// long-run children: small objqueuemax, varied async-invoke-timeout, N sequential calls on one proxy
	out = append(out, childCfg{"c0.0.0.0-s0.0.0.0", 0, "40,3000,500", ""}, childCfg{"c0.2.0.0-s0.2.0.0", 0, "25,1200,350", ""})
	if thorough {
		// 2^16+1 calls and more (16-bit wraps); the default objqueuemax with a stream longer than it
		// would take 10^5 one-way calls: covered by the small limits
		out = append(out, childCfg{"c0.0.0.0-s0.0.0.0", 0, "40,3000,70000", ""}, childCfg{"c1.0.0.0-s1.0.0.0", 0, "7,800,3000", ""},
			childCfg{"c0.0.2.1-s0.0.1.2", 0, "100,5000,4000", ""}, childCfg{"c0.0.0.0-s0.0.0.0", 2, "16,1500,2500", ""})
	}
	// filter-registration histories: the process starts without filters and registers them between calls
	out = append(out, childCfg{"c0.0.0.0-s0.0.0.0", 0, "", "staged,40"}, childCfg{"c0.0.0.0-s0.0.0.0", 0, "", "mwfirst,40"})
	if thorough {
		out = append(out, childCfg{"c0.0.0.0-s0.0.0.0", 0, "", "random,60"}, childCfg{"c0.0.0.0-s0.0.0.0", 0, "", "random,25"},
			childCfg{"c0.0.0.0-s0.0.0.0", 0, "", "staged,40"}, childCfg{"c0.0.0.0-s0.0.0.0", 2, "", "mwfirst,40"}, childCfg{"c0.0.0.0-s0.0.0.0", 0, "", "random,40"})
	}
	return out
}

// Launch: generate interfaces, compile them with the working tree's tars2go, build the child and
// run it once per filter configuration; merge the results.
func Launch() {
	o := common.ParseOpts()
	res := common.NewResult("C01", o)
	res.Streams = []string{"callpath", "schema"}
	tmp, err := os.MkdirTemp("", "verif-c01-")
	if err != nil {
		res.Fatal(o.Out, err)
	}
	if os.Getenv("VERIF_E2E_KEEP") == "" { // debugging aid: keep the generated module and the child binary
		defer os.RemoveAll(tmp)
	} else {
		fmt.Fprintln(os.Stderr, "keeping", tmp)
	}
	repo := repoDir()
	if out, err := runCmd(filepath.Join(repo, "tars/tools/tars2go"), 5*time.Minute, goEnv(), "go", "build", "-o", filepath.Join(tmp, "tars2go"), "."); err != nil {
		res.Fatal(o.Out, fmt.Errorf("tars2go does not build: %v\n%s", err, out))
	}
	// a replay names the generator seed and tier of the run that produced it: same interfaces
	var rcase *Case
	if o.Replay != "" {
		var c Case
		if err := common.ReadReplay(o.Replay, &c); err == nil && c.Filters != "" {
			rcase = &c
		}
	}
	genSeed, genTier := o.Seed, o.Tier
	if rcase != nil && rcase.GenTier != "" {
		genSeed, genTier = rcase.GenSeed, rcase.GenTier
	}
	nmod := 2
	if genTier == "thorough" {
		nmod = 12
	}
	rng := rand.New(rand.NewSource(genSeed))
	var mods []*idlgen.ModuleDesc
	for i := 0; i < nmod; i++ {
		name := fmt.Sprintf("Gen%d", i)
		md := idlgen.Describe(name, rng.Int63(), idlgen.Options{Structs: 3, Funcs: 4, AvoidOptionalByteNoDefault: true})
		os.WriteFile(filepath.Join(tmp, name+".tars"), []byte(md.IDL), 0o644)
		out, err := runCmd(tmp, 60*time.Second, goEnv(), filepath.Join(tmp, "tars2go"), "-outdir=out", "-module=genmod/out", name+".tars")
		if err != nil {
			os.WriteFile(filepath.Join("/verif/out", "failed-c01-"+name+".tars"), []byte(md.IDL), 0o644)
			res.Violate(common.Violation{Signature: "C01:generator-rejects-valid-idl:tars2go", What: "tars2go failed on a grammar-generated interface: " + lastLines(out, 3),
				Case: common.Case{Stream: "idl", Op: map[string]string{"idl": md.IDL}, Impl: lastLines(out, 5)}})
			continue
		}
		mods = append(mods, md)
	}
	// the fixed interface of the large phase
	{
		md := bigModule()
		os.WriteFile(filepath.Join(tmp, "Big.tars"), []byte(md.IDL), 0o644)
		if out, err := runCmd(tmp, 60*time.Second, goEnv(), filepath.Join(tmp, "tars2go"), "-outdir=out", "-module=genmod/out", "Big.tars"); err != nil {
			res.Violate(common.Violation{Signature: "C01:generator-rejects-valid-idl:tars2go", What: "tars2go failed on the fixed interface Big: " + lastLines(out, 3),
				Case: common.Case{Stream: "idl", Op: map[string]string{"idl": md.IDL}, Impl: lastLines(out, 5)}})
		} else {
			mods = append(mods, md)
		}
	}
	var mb strings.Builder
	mb.WriteString("package main\n\nimport (\n\t\"context\"\n\n\t\"verifharness/e2e\"\n")
	for _, m := range mods {
		fmt.Fprintf(&mb, "\t%s \"genmod/out/%s\"\n", m.Name, m.Name)
	}
	mb.WriteString(")\n\nvar _ = context.Background\n\nfunc main() { e2e.ChildMain() }\n\n")
	for _, m := range mods {
		mb.WriteString(glue(m))
	}
	os.WriteFile(filepath.Join(tmp, "main.go"), []byte(mb.String()), 0o644)
	gomod := fmt.Sprintf("module genmod\n\ngo 1.23\n\nrequire (\n\tgithub.com/TarsCloud/TarsGo v0.0.0\n\tverifharness v0.0.0\n)\n\nreplace github.com/TarsCloud/TarsGo => %s\n\nreplace verifharness => /verif/harness\n", repo)
	os.WriteFile(filepath.Join(tmp, "go.mod"), []byte(gomod), 0o644)
	if sum, err := os.ReadFile(filepath.Join(repo, "go.sum")); err == nil {
		os.WriteFile(filepath.Join(tmp, "go.sum"), sum, 0o644)
	}
	if out, err := runCmd(tmp, 10*time.Minute, goEnv(), "go", "build", "-tags", "verif", "-o", "child", "."); err != nil {
		keep := filepath.Join("/verif/out", "failed-c01-main.go")
		os.WriteFile(keep, []byte(mb.String()), 0o644)
		res.Violate(common.Violation{Signature: "C01:generated-code-does-not-compile:tars2go", What: "proxy/dispatcher code emitted by tars2go (or the harness glue, see " + keep + ") does not compile: " + lastLines(out, 8),
			Case: common.Case{Stream: "idl", Op: map[string]interface{}{"modules": len(mods)}, Impl: lastLines(out, 14)}})
		res.Write(o.Out)
		return
	}
	cfgs := ChildConfigs(o.Thorough())
	if rcase != nil {
		cfgs = []childCfg{{rcase.Filters, rcase.Pool, "", ""}}
		if rcase.LongRun != nil {
			cfgs[0].longrun = rcase.LongRun.String()
		}
		if rcase.History != nil {
			cfgs[0].filters, cfgs[0].history = "c0.0.0.0-s0.0.0.0", rcase.History.String()
		}
	}
	var wg sync.WaitGroup
	var mu sync.Mutex
	sem := make(chan struct{}, 12)
	only := os.Getenv("VERIF_E2E_ONLY") // debugging aid: "<filters>:<pool>" runs just that child (same seed as in a full run)
	for i, fc := range cfgs {
		if only != "" && only != fmt.Sprintf("%s:%d", fc.filters, fc.pool) && !(only == fc.longrun && only != "") && !(only == fc.history && only != "") {
			continue
		}
		wg.Add(1)
		go func(i int, fc childCfg) {
			defer wg.Done()
			sem <- struct{}{}
			defer func() { <-sem }()
			outFile := filepath.Join(tmp, fmt.Sprintf("res%d.json", i))
			args := []string{"-tier", o.Tier, "-seed", fmt.Sprint(o.Seed + int64(i)), "-model", o.Model, "-out", outFile}
			env := append(os.Environ(), "VERIF_E2E_FILTERS="+fc.filters, fmt.Sprintf("VERIF_E2E_POOL=%d", fc.pool),
				fmt.Sprintf("VERIF_E2E_GENSEED=%d", genSeed), "VERIF_E2E_GENTIER="+genTier, "VERIF_E2E_LONGRUN="+fc.longrun, "VERIF_E2E_HISTORY="+fc.history)
			if rcase != nil && (rcase.Scenario != nil || rcase.Large != nil) {
				env = append(env, "VERIF_E2E_REPLAY="+o.Replay)
			}
			var out string
			var err, lerr error
			var r *common.Result
			for attempt := 0; attempt < 3; attempt++ {
				// a private port slot per child and attempt (ports.go)
				slot := os.Getpid()*32 + i + attempt*101
				os.Remove(outFile)
				out, err = runCmd(tmp, 15*time.Minute, append(env, fmt.Sprintf("VERIF_E2E_SLOT=%d", slot)), filepath.Join(tmp, "child"), args...)
				r, lerr = common.LoadResult(outFile)
				if lerr == nil && strings.Contains(r.HarnessError, startupTrouble) {
					// the child's server did not come up on ports of its own: nothing was tested
					continue
				}
				break
			}
			mu.Lock()
			defer mu.Unlock()
			if lerr != nil {
				res.HarnessError = fmt.Sprintf("child for filters %s pool %d failed: %v %v\n%s", fc.filters, fc.pool, err, lerr, lastLines(out, 15))
				return
			}
			res.Merge(r)
		}(i, fc)
	}
	wg.Wait()
	res.Rule = "random IDL interfaces (4 functions each over all member kinds, in/out parameters, void and typed returns) compiled by the working-tree tars2go; real proxy → TCP loopback → " +
		"real dispatcher in one process; per function calls in modes {no options, context, context+status, one-way} with scripted implementation results (values, plain and tars errors, " +
		"response context/status), then concurrent callers sharing the proxies; once per filter configuration (legacy single, middleware chains, pre/post) with recording pass-through filters; " +
		"plus servers with a worker pool (maxroutine 1 and 2) where scripted slow calls hold every worker while one-way and two-way calls with their own client timeouts (shorter or longer than the wait) " +
		"queue up; a large phase where 8-32 concurrent callers share one connection of a fixed interface (byte vectors, strings, nested vectors, struct) with request/response payloads of 63 KiB - 1 MiB that are functions of a per-call tag (recorded as digests); " +
		"long-run processes (client objqueuemax 7-100, own async-invoke-timeout) with 350-70000 strictly sequential calls on one proxy mixing one-way, two-way, erroring and timed-out calls (no call may be refused, every one-way call delivered once); " +
		"filter-registration histories (processes that start without filters and register single/pre/post/middleware filters on both sides between sequential calls; each call judged against the registration state when it was issued); " +
		"every byte between proxy and server passes a frame-parsing relay whose record of request and response frames is judged at the end (no reply to a one-way request, at most one reply per request, no unsolicited reply); " +
		"non-trivial = distinct (filters, function, mode, seed)"
	if res.HarnessError != "" {
		res.Write(o.Out)
		fmt.Fprintln(os.Stderr, res.HarnessError)
		os.Exit(3)
	}
	// distinct count: children counted disjoint cases
	res.WriteRaw(o.Out)
}

func lastLines(s string, n int) string {
	ls := strings.Split(strings.TrimSpace(s), "\n")
	if len(ls) > n {
		ls = ls[len(ls)-n:]
	}
	return strings.Join(ls, "\n")
}
