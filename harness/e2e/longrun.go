package e2e

// Long-run phase (C01 for ANY number of calls on one proxy): a dedicated child process whose client
// is configured with a SMALL objqueuemax (the limit of calls in flight per proxy, by default
// 100000) and its own async-invoke-timeout, so that whatever the proxy accumulates per call reaches
// its thresholds after tens of calls instead of 100000. One caller issues N strictly sequential
// calls on ONE proxy: one-way calls (at least 3 x objqueuemax of them), two-way calls with scripted
// results and errors, and two-way calls that time out at the caller (scripted slow implementation,
// per-call timeout or the configured default). At most one call is in flight at any time, so
//
//   - no call may be refused ("invoke queue is full") or otherwise not be sent;
//   - every one-way call's arguments are delivered exactly once;
//   - every two-way call returns exactly what the implementation produced (ordinary oracle).

import (
	"context"
	"fmt"
	"math/rand"
	"time"

	"github.com/TarsCloud/TarsGo/tars/util/current"
)

// LongRun describes the phase; everything follows from these numbers.
type LongRun struct {
	Seed         int64 `json:"seed"` // < 2^50
	N            int   `json:"n"`
	ObjQueueMax  int   `json:"objqueuemax"`
	AsyncTimeout int   `json:"async_invoke_timeout"` // ms, the client's default timeout
}

func (lr *LongRun) String() string {
	return fmt.Sprintf("%d,%d,%d,%d", lr.ObjQueueMax, lr.AsyncTimeout, lr.N, lr.Seed)
}

// ParseLongRun reads "objqueuemax,async-invoke-timeout,n,seed".
func ParseLongRun(s string) *LongRun {
	lr := &LongRun{}
	if n, _ := fmt.Sscanf(s, "%d,%d,%d,%d", &lr.ObjQueueMax, &lr.AsyncTimeout, &lr.N, &lr.Seed); n < 3 || lr.ObjQueueMax <= 0 {
		return nil
	}
	return lr
}

// RunLongRun executes the phase and returns the records in call order.
func RunLongRun(lr *LongRun) []*Record {
	rng := rand.New(rand.NewSource(lr.Seed))
	obj := objOf(FuncNames[rng.Intn(len(FuncNames))])
	var fns []string
	for _, f := range FuncNames {
		if objOf(f) == obj {
			fns = append(fns, f)
		}
	}
	recs := make([]*Record, 0, lr.N)
	// one call that runs into the client's configured default timeout, when that is short enough
	defaultTimeoutAt := -1
	if lr.AsyncTimeout <= 1500 {
		defaultTimeoutAt = lr.N / 3
	}
	for i := 0; i < lr.N; i++ {
		fn := fns[rng.Intn(len(fns))]
		k := rng.Intn(100)
		mode := "oneway"
		switch {
		case k >= 55 && k < 80:
			mode = "opts1"
		case k >= 80:
			mode = "opts2"
		}
		timeoutMs, via, sleep, role := 0, "", 0, "longrun"
		if k >= 96 && lr.N <= 5000 || k == 99 && rng.Intn(40) == 0 {
			// times out at the caller: the implementation is still busy when the per-call timeout ends
			timeoutMs, via, sleep, role = 30+rng.Intn(30), []string{"current", "deadline"}[rng.Intn(2)], 140, "timeout"
		}
		if i == defaultTimeoutAt {
			mode, timeoutMs, via, sleep, role = "opts1", 0, "", lr.AsyncTimeout+250, "timeout"
		}
		cs := NewCall(fn, mode, smallSeed(rng))
		r := cs.Rec
		r.Role, r.Long, r.Index, r.TimeoutMs, r.Via = role, lr, i, timeoutMs, via
		if role == "timeout" {
			r.Script.ErrKind, r.Script.SleepMs = "", sleep
		}
		ctx, cancel := callCtx(PoolCall{TimeoutMs: timeoutMs, Via: via})
		invokeRecovering(Calls[fn], ctx, cs)
		cancel()
		recs = append(recs, r)
	}
	// a final two-way call: the proxy still works after everything above
	{
		fn := fns[0]
		cs := NewCall(fn, "opts1", smallSeed(rng))
		cs.Rec.Role, cs.Rec.Long, cs.Rec.Index = "longrun", lr, lr.N
		invokeRecovering(Calls[fn], current.ContextWithClientCurrent(context.Background()), cs)
		recs = append(recs, cs.Rec)
	}
	// one-way calls are delivered asynchronously: give the last ones time (those that were never
	// sent will not arrive; the wait is bounded)
	deadline := time.Now().Add(10 * time.Second)
	for i := len(recs) - 1; i >= 0 && time.Now().Before(deadline); i-- {
		if recs[i].Mode == "oneway" && recs[i].GotErr == "nil" {
			for srvCount(recs[i]) == 0 && time.Now().Before(deadline) {
				time.Sleep(2 * time.Millisecond)
			}
		}
	}
	return recs
}

func longClass(r *Record) string {
	if r.Role == "timeout" {
		return "call:longrun:caller-timeout:" + r.Mode
	}
	errk := r.Script.ErrKind
	if errk == "" {
		errk = "ok"
	}
	return "call:longrun:" + r.Mode + ":" + errk
}
