package e2e

// Port allocation for the child processes. Several children (and other harnesses) start at the
// same time; a port found free with bind(0)-and-close (srv.FreePort) can be taken by another
// process before the server binds it, and the proxy would then talk to a foreign server. Children
// therefore take their ports from a private slot below the kernel's ephemeral range (so nobody's
// bind(0) or outgoing connection can land there); the slot is assigned by the launcher. The relay
// listeners (tap.go) keep their ports open from the moment they are found.

import (
	"fmt"
	"net"
	"os"
	"strconv"
)

type portAlloc struct {
	next, lo, hi int
	private      bool
}

const slotSize = 64

func newPortAlloc() *portAlloc {
	p := &portAlloc{lo: 10240, hi: 32000}
	if b, err := os.ReadFile("/proc/sys/net/ipv4/ip_local_port_range"); err == nil {
		var a, z int
		if n, _ := fmt.Sscanf(string(b), "%d %d", &a, &z); n == 2 {
			if a-256 >= p.lo+64*slotSize {
				p.hi, p.private = a-256, true
			}
		}
	}
	slot, err := strconv.Atoi(os.Getenv("VERIF_E2E_SLOT"))
	if err != nil {
		slot = os.Getpid()
	}
	nslots := (p.hi - p.lo) / slotSize
	p.next = p.lo + (slot%nslots)*slotSize
	return p
}

// listen returns a listener on the next free port of the slot (kept open by the caller).
func (p *portAlloc) listen() (net.Listener, int, error) {
	if !p.private {
		ln, err := net.Listen("tcp", "127.0.0.1:0")
		if err != nil {
			return nil, 0, err
		}
		return ln, ln.Addr().(*net.TCPAddr).Port, nil
	}
	var last error
	for i := 0; i < p.hi-p.lo; i++ {
		port := p.next
		p.next++
		if p.next >= p.hi {
			p.next = p.lo
		}
		ln, err := net.Listen("tcp", fmt.Sprintf("127.0.0.1:%d", port))
		if err == nil {
			return ln, port, nil
		}
		last = err
	}
	return nil, 0, last
}

// probe returns a port that was free a moment ago (for the server's adapters, which bind it themselves).
func (p *portAlloc) probe() (int, error) {
	ln, port, err := p.listen()
	if err != nil {
		return 0, err
	}
	ln.Close()
	return port, nil
}
