package e2e

// Large concurrent calls (C01: "for every argument value of every IDL type … for any number of
// concurrent callers"): a fixed interface Big (launch.go: bigIDL) whose functions carry byte
// vectors, strings, vectors of strings, nested vectors and a struct with such members, in and out.
// In the "large" phase 8-24 callers share ONE proxy (one connection) and issue calls whose request
// and/or response is 63 KiB … 1 MiB (sizes around the 64 KiB boundary and well above it). Every
// payload is a function of the call's unique tag (and of the byte position), so the answer of a
// different concurrent call, a truncated, shifted or partly overwritten payload all differ from
// what the implementation produced for THIS call. Values are recorded as digests (length + hash)
// in the ordinary per-call record and judged by the ordinary oracle (Judge) plus the wire tap.

import (
	"context"
	"crypto/sha256"
	"encoding/binary"
	"fmt"
	"hash"
	"math"
	"math/rand"
	"reflect"
	"strings"
	"sync"
	"sync/atomic"
	"time"
	"unsafe"

	"github.com/TarsCloud/TarsGo/tars/util/current"
)

// BigSpec marks a record of the large phase.
type BigSpec struct {
	Tag  int32
	Req  int // payload bytes of the in parameters (split among the bulk parameters)
	Resp int // payload bytes of the out parameters
}

// BigFuncNames: the functions of the fixed interface (kept out of the ordinary phases).
var BigFuncNames []string

func isBigFn(name string) bool { return strings.Contains(name, ".BigObj.") }

var bigSizes = []int{63 << 10, 64<<10 - 48, 64 << 10, 65 << 10, 100000, 128 << 10, 200000, 300000}

const bigHuge = 1 << 20

// ---- digests ----

func digestInto(h hash.Hash, v reflect.Value, n *int) {
	var b [8]byte
	put := func(x uint64) { binary.LittleEndian.PutUint64(b[:], x); h.Write(b[:]) }
	switch v.Kind() {
	case reflect.Ptr:
		digestInto(h, v.Elem(), n)
	case reflect.Slice, reflect.Array:
		put(uint64(v.Len()))
		switch v.Type().Elem().Kind() {
		case reflect.Int8, reflect.Uint8:
			if v.Len() > 0 {
				// the elements as bytes, in place (int8 and uint8 have the same representation)
				h.Write(unsafe.Slice((*byte)(v.Index(0).Addr().UnsafePointer()), v.Len()))
			}
			*n += v.Len()
		default:
			for i := 0; i < v.Len(); i++ {
				digestInto(h, v.Index(i), n)
			}
		}
	case reflect.String:
		put(uint64(v.Len()))
		h.Write([]byte(v.String()))
		*n += v.Len()
	case reflect.Struct:
		for i := 0; i < v.NumField(); i++ {
			digestInto(h, v.Field(i), n)
		}
	case reflect.Bool:
		if v.Bool() {
			put(1)
		} else {
			put(0)
		}
	case reflect.Int, reflect.Int8, reflect.Int16, reflect.Int32, reflect.Int64:
		put(uint64(v.Int()))
		*n += 4
	case reflect.Uint, reflect.Uint8, reflect.Uint16, reflect.Uint32, reflect.Uint64:
		put(v.Uint())
		*n += 4
	case reflect.Float32, reflect.Float64:
		put(math.Float64bits(v.Float()))
	default:
		panic("e2e: digest of " + v.Kind().String())
	}
}

// digestOf: canonical short text of a (large) value: type, payload bytes, hash. nil and empty
// slices are the same value, as on the wire.
func digestOf(p interface{}) string {
	v := reflect.ValueOf(p).Elem()
	h := sha256.New()
	n := 0
	digestInto(h, v, &n)
	return fmt.Sprintf("%s[%dB]#%x", v.Type().String(), n, h.Sum(nil)[:8])
}

// ---- payloads ----

func isBulk(t reflect.Type) bool {
	switch t.Kind() {
	case reflect.Ptr:
		return isBulk(t.Elem())
	case reflect.Slice, reflect.String:
		return true
	case reflect.Struct:
		for i := 0; i < t.NumField(); i++ {
			if isBulk(t.Field(i).Type) {
				return true
			}
		}
	}
	return false
}

// fillBig sets v to the payload of (tag, budget): every scalar is derived from the tag, every bulk
// member gets its share of the budget with content that depends on the tag and the position.
func fillBig(v reflect.Value, tag int32, budget int) {
	if budget < 0 {
		budget = 0
	}
	pat := func(i int) byte { return byte(uint32(tag)>>(8*uint(i%4))) ^ byte(i>>10) ^ byte(i>>18) }
	switch v.Kind() {
	case reflect.Ptr:
		fillBig(v.Elem(), tag, budget)
	case reflect.String:
		unit := fmt.Sprintf("<%d>", tag)
		var sb strings.Builder
		for i := 0; sb.Len() < budget; i++ {
			sb.WriteString(unit)
			if i%64 == 63 {
				fmt.Fprintf(&sb, "@%d;", sb.Len())
			}
		}
		s := sb.String()
		if len(s) > budget {
			s = s[:budget]
		}
		v.SetString(s)
	case reflect.Slice:
		et := v.Type().Elem()
		switch et.Kind() {
		case reflect.Int8, reflect.Uint8:
			s := reflect.MakeSlice(v.Type(), budget, budget)
			if budget > 0 {
				bs := unsafe.Slice((*byte)(s.Index(0).Addr().UnsafePointer()), budget)
				for i := range bs {
					bs[i] = pat(i)
				}
			}
			v.Set(s)
		case reflect.Int32:
			n := budget / 4
			s := reflect.MakeSlice(v.Type(), n, n)
			for i := 0; i < n; i++ {
				s.Index(i).SetInt(int64(tag) + int64(i)*7919)
			}
			v.Set(s)
		default:
			// vector of strings / vectors / structs: elements of about 4 KiB
			n := budget/4096 + 1
			s := reflect.MakeSlice(v.Type(), n, n)
			for i := 0; i < n; i++ {
				fillBig(s.Index(i), tag+int32(i)*65537, budget/n)
			}
			v.Set(s)
		}
	case reflect.Struct:
		nb := 0
		for i := 0; i < v.NumField(); i++ {
			if isBulk(v.Field(i).Type()) {
				nb++
			}
		}
		for i := 0; i < v.NumField(); i++ {
			if isBulk(v.Field(i).Type()) {
				fillBig(v.Field(i), tag+int32(i), budget/nb)
			} else {
				fillBig(v.Field(i), tag, 0)
			}
		}
	case reflect.Bool:
		v.SetBool(tag&1 == 1)
	case reflect.Int8, reflect.Int16, reflect.Int32, reflect.Int64, reflect.Int:
		switch v.Kind() {
		case reflect.Int8:
			v.SetInt(int64(int8(tag)))
		case reflect.Int16:
			v.SetInt(int64(int16(tag)))
		default:
			v.SetInt(int64(tag))
		}
	case reflect.Uint8, reflect.Uint16, reflect.Uint32, reflect.Uint64:
		switch v.Kind() {
		case reflect.Uint8:
			v.SetUint(uint64(uint8(tag)))
		case reflect.Uint16:
			v.SetUint(uint64(uint16(tag)))
		default:
			v.SetUint(uint64(uint32(tag)))
		}
	case reflect.Float32, reflect.Float64:
		v.SetFloat(float64(tag) / 4)
	}
}

// fillAll fills the given variables (pointers) of one direction: the budget is split among the
// bulk ones.
func fillAll(ptrs []interface{}, tag int32, budget int) {
	nb := 0
	for _, p := range ptrs {
		if isBulk(reflect.TypeOf(p)) {
			nb++
		}
	}
	for i, p := range ptrs {
		if isBulk(reflect.TypeOf(p)) {
			fillBig(reflect.ValueOf(p), tag+int32(i)*257, budget/nb)
		} else {
			fillBig(reflect.ValueOf(p), tag, 0)
		}
	}
}

// bigParams is Params for a record of the large phase.
func (cs *CallState) bigParams(ptrs []interface{}, isOut []bool) {
	var ins []interface{}
	for i, p := range ptrs {
		if !isOut[i] {
			ins = append(ins, p)
		}
	}
	fillAll(ins, cs.Rec.Big.Tag, cs.Rec.Big.Req)
	for _, p := range ins {
		cs.Rec.SentIns = append(cs.Rec.SentIns, digestOf(p))
	}
}

// ---- the phase ----

// LargePhase describes one large-concurrent phase; everything follows from these numbers.
type LargePhase struct {
	Seed    int64 `json:"seed"` // < 2^50
	Callers int   `json:"callers"`
	Calls   int   `json:"calls"` // per caller
	Huge    int   `json:"huge"`  // one call in Huge is 1 MiB (0: none)
}

type bigCall struct {
	fn, mode  string
	seed      int64
	req, resp int
}

func (lp *LargePhase) plan(caller int) []bigCall {
	r := rand.New(rand.NewSource(lp.Seed + int64(caller)*1000003))
	size := func() int {
		if lp.Huge > 0 && r.Intn(lp.Huge) == 0 {
			return bigHuge
		}
		return bigSizes[r.Intn(len(bigSizes))]
	}
	var out []bigCall
	for i := 0; i < lp.Calls; i++ {
		c := bigCall{fn: BigFuncNames[r.Intn(len(BigFuncNames))], mode: []string{"opts1", "opts2"}[r.Intn(2)], seed: smallSeed(r)}
		switch k := r.Intn(20); {
		case k < 12: // large response
			c.req, c.resp = 16+r.Intn(200), size()
		case k < 17: // large request
			c.req, c.resp = size(), 16+r.Intn(200)
			if r.Intn(3) == 0 {
				c.mode = "oneway"
			}
		default: // both
			c.req, c.resp = size(), size()
		}
		out = append(out, c)
	}
	return out
}

const bigTimeoutMs = 8000

// RunLarge executes the phase: Callers goroutines share the one proxy of the Big interface. A
// caller that gets an error (the scripts of this phase never fail) stops all callers: what
// remains to be said is said by the judge, and a broken stream must not cost a timeout per call.
func RunLarge(lp *LargePhase) []*Record {
	var mu sync.Mutex
	var recs []*Record
	var stop int32
	var wg sync.WaitGroup
	for g := 0; g < lp.Callers; g++ {
		wg.Add(1)
		go func(g int) {
			defer wg.Done()
			for _, c := range lp.plan(g) {
				if atomic.LoadInt32(&stop) != 0 {
					return
				}
				cs := NewCall(c.fn, c.mode, c.seed)
				r := cs.Rec
				var n int32
				fmt.Sscanf(r.ID, "c%d", &n)
				r.Big = &BigSpec{Tag: n*31 + 1000003, Req: c.req, Resp: c.resp}
				r.Script.ErrKind, r.JunkOuts, r.Phase = "", false, lp
				ctx := current.ContextWithClientCurrent(context.Background())
				current.SetClientTimeout(ctx, bigTimeoutMs)
				invokeRecovering(Calls[c.fn], ctx, cs)
				mu.Lock()
				recs = append(recs, r)
				mu.Unlock()
				r.mu.Lock()
				bad := r.GotErr != "nil" || r.Panic != ""
				r.mu.Unlock()
				if bad {
					atomic.StoreInt32(&stop, 1)
				}
			}
		}(g)
	}
	wg.Wait()
	for _, r := range recs {
		if r.Mode == "oneway" && atomic.LoadInt32(&stop) == 0 {
			waitCount(r, 10*time.Second)
		}
	}
	return recs
}

// bigClass is the histogram bucket of a record of the large phase.
func bigClass(r *Record) string {
	b := func(n int) string {
		switch {
		case n < 60<<10:
			return "small"
		case n < 64<<10:
			return "just-below-64K"
		case n <= 65<<10:
			return "64K-65K"
		case n < bigHuge:
			return "64K+"
		}
		return "1M"
	}
	return fmt.Sprintf("call:large:%s:req-%s:resp-%s", r.Mode, b(r.Big.Req), b(r.Big.Resp))
}
