package e2e

// Frame-level wire tap (C01, one-way clause "produces no reply"; two-way: exactly one reply).
//
// A TCP relay sits between the client proxy and the in-process server: the proxy's endpoint is the
// relay's port, the relay dials the adapter. Both directions are forwarded verbatim and at once
// (read → write → only then a COPY of the bytes is handed to the frame parser), so the relay neither
// reorders nor holds back anything; the parser tolerates frames that arrive in pieces and several
// frames in one read. Request frames are decoded as requestf.RequestPacket, response frames as
// requestf.ResponsePacket (TARS version; the harness never sends TUP/JSON).
//
// The oracle (Tap.Problems) is evaluated once, after the last scenario and a settle time, and only
// looks at frames that exist: a response whose id was never sent as a request on this relay, a
// response to a request that was sent one-way, more than one response to the same request.

import (
	"encoding/binary"
	"fmt"
	"net"
	"sort"
	"sync"
	"time"

	"github.com/TarsCloud/TarsGo/tars/protocol/codec"
	"github.com/TarsCloud/TarsGo/tars/protocol/res/basef"
	"github.com/TarsCloud/TarsGo/tars/protocol/res/requestf"
)

const tapMaxFrame = 64 << 20

// TapReq is one request frame seen on the wire.
type TapReq struct {
	ID      int32
	PType   int8
	Servant string
	Func    string
	Timeout int32
	VCall   string // the harness's call id carried in the request context ("" for calls without options)
	At      time.Time
	N       int // how many request frames carried this id
}

// TapRsp is one response frame seen on the wire.
type TapRsp struct {
	ID    int32
	Ret   int32
	PType int8
	Desc  string
	At    time.Time
}

// Tap is the relay in front of one adapter.
type Tap struct {
	Obj    string
	Port   int
	target string
	ln     net.Listener

	mu     sync.Mutex
	reqs   map[int32]*TapReq
	rsps   []TapRsp
	broken []string // parser trouble (never a property verdict)
	conns  int
}

// StartTap relays every connection accepted on ln (a loopback listener on port) to target.
func StartTap(obj, target string, ln net.Listener, port int) (*Tap, error) {
	t := &Tap{Obj: obj, Port: port, target: target, ln: ln, reqs: map[int32]*TapReq{}}
	go t.accept()
	return t, nil
}

func (t *Tap) accept() {
	for {
		c, err := t.ln.Accept()
		if err != nil {
			return
		}
		s, err := net.DialTimeout("tcp", t.target, 5*time.Second)
		if err != nil {
			c.Close()
			continue
		}
		for _, x := range []net.Conn{c, s} {
			if tc, ok := x.(*net.TCPConn); ok {
				tc.SetNoDelay(true)
			}
		}
		t.mu.Lock()
		t.conns++
		t.mu.Unlock()
		var once sync.Once
		closeBoth := func() { once.Do(func() { c.Close(); s.Close() }) }
		go t.pipe(s, c, &frameParser{onFrame: t.onRequest, onBroken: t.onBroken("client→server")}, closeBoth)
		go t.pipe(c, s, &frameParser{onFrame: t.onResponse, onBroken: t.onBroken("server→client")}, closeBoth)
	}
}

// pipe forwards src to dst verbatim; parsing happens on a copy after the bytes have been passed on.
func (t *Tap) pipe(dst, src net.Conn, p *frameParser, done func()) {
	defer done()
	buf := make([]byte, 64<<10)
	for {
		n, err := src.Read(buf)
		if n > 0 {
			if _, werr := dst.Write(buf[:n]); werr != nil {
				p.feed(buf[:n])
				return
			}
			p.feed(buf[:n])
		}
		if err != nil {
			return
		}
	}
}

// frameParser cuts a byte stream into frames: 4 byte big endian total length (including the 4),
// then the packet.
type frameParser struct {
	acc      []byte
	dead     bool
	onFrame  func(body []byte)
	onBroken func(what string)
}

func (p *frameParser) feed(b []byte) {
	if p.dead {
		return
	}
	p.acc = append(p.acc, b...) // copy
	for len(p.acc) >= 4 {
		n := int(binary.BigEndian.Uint32(p.acc[:4]))
		if n < 4 || n > tapMaxFrame {
			p.dead = true
			p.onBroken(fmt.Sprintf("frame length %d", n))
			return
		}
		if len(p.acc) < n {
			return
		}
		body := make([]byte, n-4)
		copy(body, p.acc[4:n])
		p.acc = p.acc[n:]
		p.onFrame(body)
	}
	if len(p.acc) == 0 {
		p.acc = nil
	}
}

func (t *Tap) onBroken(dir string) func(string) {
	return func(what string) {
		t.mu.Lock()
		t.broken = append(t.broken, dir+": "+what)
		t.mu.Unlock()
	}
}

// tapFullDecode: frames up to this size are decoded with the generated ReadFrom; of larger ones
// (large phase, big.go) only the members the oracle needs are read with the same codec reader,
// which steps over sBuffer without copying it.
const tapFullDecode = 32 << 10

func readReqHead(body []byte, p *requestf.RequestPacket) error {
	if len(body) <= tapFullDecode {
		return p.ReadFrom(codec.NewReader(body))
	}
	r := codec.NewReader(body)
	if err := r.ReadInt16(&p.IVersion, 1, true); err != nil {
		return err
	}
	if err := r.ReadInt8(&p.CPacketType, 2, true); err != nil {
		return err
	}
	if err := r.ReadInt32(&p.IMessageType, 3, true); err != nil {
		return err
	}
	if err := r.ReadInt32(&p.IRequestId, 4, true); err != nil {
		return err
	}
	if err := r.ReadString(&p.SServantName, 5, true); err != nil {
		return err
	}
	if err := r.ReadString(&p.SFuncName, 6, true); err != nil {
		return err
	}
	if err := r.ReadInt32(&p.ITimeout, 8, true); err != nil { // steps over sBuffer (7)
		return err
	}
	if _, err := r.SkipTo(codec.MAP, 9, true); err != nil {
		return err
	}
	var n int32
	if err := r.ReadInt32(&n, 0, true); err != nil {
		return err
	}
	if err := r.CheckLength(n); err != nil {
		return err
	}
	p.Context = map[string]string{}
	for i := int32(0); i < n; i++ {
		var k, v string
		if err := r.ReadString(&k, 0, true); err != nil {
			return err
		}
		if err := r.ReadString(&v, 1, true); err != nil {
			return err
		}
		p.Context[k] = v
	}
	return nil
}

func readRspHead(body []byte, p *requestf.ResponsePacket) error {
	if len(body) <= tapFullDecode {
		return p.ReadFrom(codec.NewReader(body))
	}
	r := codec.NewReader(body)
	if err := r.ReadInt16(&p.IVersion, 1, true); err != nil {
		return err
	}
	if err := r.ReadInt8(&p.CPacketType, 2, true); err != nil {
		return err
	}
	if err := r.ReadInt32(&p.IRequestId, 3, true); err != nil {
		return err
	}
	if err := r.ReadInt32(&p.IMessageType, 4, true); err != nil {
		return err
	}
	if err := r.ReadInt32(&p.IRet, 5, true); err != nil {
		return err
	}
	return r.ReadString(&p.SResultDesc, 8, false) // steps over sBuffer (6) and status (7)
}

func (t *Tap) onRequest(body []byte) {
	var p requestf.RequestPacket
	if err := readReqHead(body, &p); err != nil {
		t.onBroken("client→server")(fmt.Sprintf("request frame of %d bytes does not decode: %v", len(body), err))
		return
	}
	t.mu.Lock()
	defer t.mu.Unlock()
	if q, ok := t.reqs[p.IRequestId]; ok {
		q.N++
		return
	}
	t.reqs[p.IRequestId] = &TapReq{ID: p.IRequestId, PType: p.CPacketType, Servant: p.SServantName, Func: p.SFuncName,
		Timeout: p.ITimeout, VCall: p.Context[callKey], At: time.Now(), N: 1}
}

func (t *Tap) onResponse(body []byte) {
	var p requestf.ResponsePacket
	if err := readRspHead(body, &p); err != nil {
		t.onBroken("server→client")(fmt.Sprintf("response frame of %d bytes does not decode: %v", len(body), err))
		return
	}
	t.mu.Lock()
	t.rsps = append(t.rsps, TapRsp{ID: p.IRequestId, Ret: p.IRet, PType: p.CPacketType, Desc: p.SResultDesc, At: time.Now()})
	t.mu.Unlock()
}

// TapProblem is a wire-level violation; VCall/Func identify the call it belongs to.
type TapProblem struct {
	Class string
	Locus string
	What  string
	VCall string
	Func  string // servant.func of the request ("" when the response matches no request)
}

// replyKind names a reply frame by what it says (line-number free locus).
func replyKind(ret int32) string {
	switch ret {
	case basef.TARSSERVERSUCCESS:
		return "success-reply"
	case basef.TARSSERVERQUEUETIMEOUT:
		return "queue-timeout-reply"
	}
	return "error-reply"
}

// TapStats summarises what a tap has seen.
type TapStats struct {
	Conns, Requests, OneWay, Responses, Pushes int
	Broken                                     []string
}

// Problems evaluates the wire oracle over everything seen so far.
func (t *Tap) Problems() ([]TapProblem, TapStats) {
	t.mu.Lock()
	defer t.mu.Unlock()
	st := TapStats{Conns: t.conns, Requests: len(t.reqs), Responses: len(t.rsps), Broken: append([]string(nil), t.broken...)}
	var ps []TapProblem
	count := map[int32]int{}
	ids := make([]int32, 0, len(t.reqs))
	for id, q := range t.reqs {
		ids = append(ids, id)
		if q.PType == basef.TARSONEWAY {
			st.OneWay++
		}
		if q.N > 1 {
			// the client put the same request id on the wire twice: the call is delivered twice
			ps = append(ps, TapProblem{"duplicate-request", "client", fmt.Sprintf("request id %d (%s.%s) was sent %d times on the wire", id, q.Servant, q.Func, q.N), q.VCall, q.Servant + "." + q.Func})
		}
	}
	sort.Slice(ids, func(i, j int) bool { return ids[i] < ids[j] })
	for _, r := range t.rsps {
		if r.ID == 0 {
			st.Pushes++ // server push / close message: not a reply
			continue
		}
		q, ok := t.reqs[r.ID]
		if !ok {
			ps = append(ps, TapProblem{"unsolicited-reply", replyKind(r.Ret), fmt.Sprintf("the server sent a response frame (request id %d, ret %d, %q) although no request with this id was sent on the connection to %s", r.ID, r.Ret, r.Desc, t.Obj), "", ""})
			continue
		}
		count[r.ID]++
		if q.PType == basef.TARSONEWAY {
			ps = append(ps, TapProblem{"reply-to-oneway", replyKind(r.Ret), fmt.Sprintf("the server answered the ONE-WAY request id %d (%s.%s, timeout %d ms) with a response frame: ret %d, %q, %v after the request", r.ID, q.Servant, q.Func, q.Timeout, r.Ret, r.Desc, r.At.Sub(q.At).Round(time.Millisecond)), q.VCall, q.Servant + "." + q.Func})
			continue
		}
		if count[r.ID] == 2 {
			ps = append(ps, TapProblem{"duplicate-reply", replyKind(r.Ret), fmt.Sprintf("the server sent more than one response frame for request id %d (%s.%s); the second: ret %d, %q", r.ID, q.Servant, q.Func, r.Ret, r.Desc), q.VCall, q.Servant + "." + q.Func})
		}
	}
	return ps, st
}

// SentVCalls: the call ids that appeared in a request frame.
func (t *Tap) SentVCalls(into map[string]bool) {
	t.mu.Lock()
	defer t.mu.Unlock()
	for _, q := range t.reqs {
		if q.VCall != "" {
			into[q.VCall] = true
		}
	}
}

// ReplyCounts: for every request frame that carried a call id, how many response frames answered it.
func (t *Tap) ReplyCounts() map[string]int {
	t.mu.Lock()
	defer t.mu.Unlock()
	byID := map[int32]int{}
	for _, r := range t.rsps {
		byID[r.ID]++
	}
	out := map[string]int{}
	for id, q := range t.reqs {
		if q.VCall != "" {
			out[q.VCall] += byID[id]
		}
	}
	return out
}
