// Package common: plumbing shared by all correspondence harnesses: the model driver pipe, the
// single PRNG, result files.
package common

import (
	"bufio"
	"encoding/json"
	"flag"
	"fmt"
	"io"
	"math/rand"
	"os"
	"os/exec"
	"sort"
	"strings"
	"time"
)

// Opts are the command-line options every harness accepts.
type Opts struct {
	Tier   string
	Seed   int64
	Model  string
	Out    string
	Replay string
	Extra  string
}

func ParseOpts() *Opts {
	o := &Opts{}
	flag.StringVar(&o.Tier, "tier", "quick", "quick|thorough")
	flag.Int64Var(&o.Seed, "seed", 1, "seed of the single PRNG")
	flag.StringVar(&o.Model, "model", "/verif/lean/.lake/build/bin/tm_wire", "model driver binary")
	flag.StringVar(&o.Out, "out", "", "result JSON file")
	flag.StringVar(&o.Replay, "replay", "", "replay file: re-execute exactly this case")
	flag.StringVar(&o.Extra, "extra", "", "harness-specific option")
	flag.Parse()
	return o
}

func (o *Opts) Thorough() bool { return o.Tier == "thorough" }

// Rand returns the single PRNG of a run.
func (o *Opts) Rand() *rand.Rand { return rand.New(rand.NewSource(o.Seed)) }

// Model is a running model driver for one stream.
type Model struct {
	cmd *exec.Cmd
	in  *bufio.Writer
	inC io.WriteCloser
	out *bufio.Reader
}

// NoModel is the answer of a model driver that could not be built (correspondence is then
// skipped; vcheck reports the broken tie).
const NoModel = "nomodel"

func StartModel(bin, stream string) (*Model, error) {
	if bin == "" {
		return &Model{}, nil
	}
	cmd := exec.Command(bin, stream)
	in, err := cmd.StdinPipe()
	if err != nil {
		return nil, err
	}
	out, err := cmd.StdoutPipe()
	if err != nil {
		return nil, err
	}
	cmd.Stderr = os.Stderr
	if err := cmd.Start(); err != nil {
		return nil, err
	}
	return &Model{cmd: cmd, in: bufio.NewWriterSize(in, 1<<20), inC: in, out: bufio.NewReaderSize(out, 1<<20)}, nil
}

// Batch sends all lines and returns one answer per line.
func (m *Model) Batch(lines []string) ([]string, error) {
	if m.cmd == nil {
		res := make([]string, len(lines))
		for i := range res {
			res[i] = NoModel
		}
		return res, nil
	}
	errc := make(chan error, 1)
	go func() {
		for _, l := range lines {
			if strings.ContainsAny(l, "\n\r") {
				errc <- fmt.Errorf("line contains newline: %q", l)
				return
			}
			if _, err := m.in.WriteString(l); err != nil {
				errc <- err
				return
			}
			if err := m.in.WriteByte('\n'); err != nil {
				errc <- err
				return
			}
		}
		if _, err := m.in.WriteString("#flush\n"); err != nil {
			errc <- err
			return
		}
		errc <- m.in.Flush()
	}()
	res := make([]string, 0, len(lines))
	for range lines {
		s, err := m.out.ReadString('\n')
		if err != nil {
			return res, fmt.Errorf("model driver ended early after %d answers: %v", len(res), err)
		}
		res = append(res, strings.TrimRight(s, "\r\n"))
	}
	if err := <-errc; err != nil {
		return res, err
	}
	return res, nil
}

// Ask sends one line.
func (m *Model) Ask(line string) (string, error) {
	r, err := m.Batch([]string{line})
	if err != nil {
		return "", err
	}
	return r[0], nil
}

func (m *Model) Close() {
	if m.cmd == nil {
		return
	}
	m.inC.Close()
	done := make(chan struct{})
	go func() { m.cmd.Wait(); close(done) }()
	select {
	case <-done:
	case <-time.After(5 * time.Second):
		m.cmd.Process.Kill()
	}
}

// Case is one executed case, kept when it diverges or violates.
type Case struct {
	Stream string      `json:"stream"`
	Op     interface{} `json:"op"`
	Model  string      `json:"model_result,omitempty"`
	Impl   string      `json:"impl_result,omitempty"`
	Note   string      `json:"note,omitempty"`
}

// Violation is a concrete input/history on which the implementation violates the property's oracle.
type Violation struct {
	Signature string `json:"signature"` // <property>:<class>:<locus>
	What      string `json:"what"`
	Case      Case   `json:"case"`
}

// Result is what a harness reports to vcheck.
type Result struct {
	Property           string         `json:"property"`
	Tier               string         `json:"tier"`
	Seed               int64          `json:"seed"`
	Evaluations        int            `json:"evaluations"`
	DistinctNontrivial int            `json:"distinct_nontrivial"`
	Rule               string         `json:"rule"`
	Samples            []interface{}  `json:"samples"`
	Histogram          map[string]int `json:"histogram"`
	TracesValidated    int            `json:"traces_validated_against_impl"`
	Divergences        []Case         `json:"divergences"`
	Violations         []Violation    `json:"violations"`
	Streams            []string       `json:"streams"`
	Notes              []string       `json:"notes"`
	Exhaustive         bool           `json:"exhaustive"`
	HarnessError       string         `json:"harness_error,omitempty"`

	distinct map[string]struct{}
	maxKeep  int
}

func NewResult(prop string, o *Opts) *Result {
	return &Result{Property: prop, Tier: o.Tier, Seed: o.Seed, Histogram: map[string]int{},
		distinct: map[string]struct{}{}, maxKeep: 20, Samples: []interface{}{}, Divergences: []Case{}, Violations: []Violation{}}
}

// Count records one evaluated case: key identifies it canonically, class is its histogram bucket,
// nontrivial says whether it counts towards distinct_nontrivial.
func (r *Result) Count(key, class string, nontrivial bool) {
	r.Evaluations++
	r.Histogram[class]++
	if nontrivial {
		r.distinct[key] = struct{}{}
	}
}

func (r *Result) Sample(s interface{}) {
	if len(r.Samples) < 8 {
		r.Samples = append(r.Samples, s)
	}
}

func (r *Result) Diverge(c Case) {
	if c.Model == NoModel {
		return
	}
	if len(r.Divergences) < r.maxKeep {
		r.Divergences = append(r.Divergences, c)
	}
	r.Histogram["DIVERGENCE"]++
}

func (r *Result) Violate(v Violation) {
	for _, x := range r.Violations {
		if x.Signature == v.Signature {
			r.Histogram["violation:"+v.Signature]++
			return
		}
	}
	r.Violations = append(r.Violations, v)
	r.Histogram["violation:"+v.Signature]++
}

func (r *Result) Note(f string, a ...interface{}) { r.Notes = append(r.Notes, fmt.Sprintf(f, a...)) }

func (r *Result) Write(path string) error {
	r.DistinctNontrivial = len(r.distinct)
	sort.Strings(r.Streams)
	b, err := json.MarshalIndent(r, "", " ")
	if err != nil {
		return err
	}
	if path == "" {
		_, err = os.Stdout.Write(append(b, '\n'))
		return err
	}
	return os.WriteFile(path, append(b, '\n'), 0o644)
}

// Fatal reports a harness failure (not a property verdict).
func (r *Result) Fatal(path string, err error) {
	r.HarnessError = err.Error()
	r.Write(path)
	fmt.Fprintln(os.Stderr, "harness error:", err)
	os.Exit(3)
}

// ReadReplay loads the "case" member of a replay file.
func ReadReplay(path string, into interface{}) error {
	b, err := os.ReadFile(path)
	if err != nil {
		return err
	}
	var wrap struct {
		Case json.RawMessage `json:"case"`
	}
	if err := json.Unmarshal(b, &wrap); err != nil {
		return err
	}
	return json.Unmarshal(wrap.Case, into)
}

func Hex(b []byte) string {
	if len(b) == 0 {
		return "-"
	}
	return fmt.Sprintf("%x", b)
}

// LoadResult reads a result file written by Write.
func LoadResult(path string) (*Result, error) {
	b, err := os.ReadFile(path)
	if err != nil {
		return nil, err
	}
	r := &Result{}
	if err := json.Unmarshal(b, r); err != nil {
		return nil, err
	}
	r.distinct = map[string]struct{}{}
	r.maxKeep = 20
	return r, nil
}

// WriteRaw writes the result without recomputing the distinct count (used when merging).
func (r *Result) WriteRaw(path string) error {
	b, err := json.MarshalIndent(r, "", " ")
	if err != nil {
		return err
	}
	return os.WriteFile(path, append(b, '\n'), 0o644)
}

// Merge adds another result (same property) into r.
func (r *Result) Merge(o *Result) {
	r.Evaluations += o.Evaluations
	r.DistinctNontrivial += o.DistinctNontrivial
	r.TracesValidated += o.TracesValidated
	for k, v := range o.Histogram {
		r.Histogram[k] += v
	}
	for _, s := range o.Samples {
		if len(r.Samples) < 8 {
			r.Samples = append(r.Samples, s)
		}
	}
	for _, d := range o.Divergences {
		if len(r.Divergences) < 20 {
			r.Divergences = append(r.Divergences, d)
		}
	}
	for _, v := range o.Violations {
		dup := false
		for _, x := range r.Violations {
			if x.Signature == v.Signature {
				dup = true
			}
		}
		if !dup {
			r.Violations = append(r.Violations, v)
		}
	}
	r.Notes = append(r.Notes, o.Notes...)
	if o.Rule != "" {
		r.Rule = o.Rule
	}
	for _, s := range o.Streams {
		has := false
		for _, t := range r.Streams {
			if s == t {
				has = true
			}
		}
		if !has {
			r.Streams = append(r.Streams, s)
		}
	}
	if o.HarnessError != "" {
		r.HarnessError = o.HarnessError
	}
}
