// C05 network harness: "no single packet or datagram received from the network can terminate a
// server or client process". A real TarsGo server (TCP + UDP adapter) and a real client run in
// child processes; the parent sends hostile packets / answers with hostile responses and checks
// that the child is still alive and still serving.
package main

import (
	"bytes"
	"context"
	"encoding/binary"
	"fmt"
	"io"
	"net"
	"os"
	"os/exec"
	"path/filepath"
	"strings"
	"sync"
	"syscall"
	"time"

	"github.com/TarsCloud/TarsGo/tars"
	"github.com/TarsCloud/TarsGo/tars/protocol/codec"
	"github.com/TarsCloud/TarsGo/tars/protocol/res/requestf"
	"github.com/TarsCloud/TarsGo/tars/util/current"
	"github.com/TarsCloud/TarsGo/tars/model"

	"verifharness/codecrun"
	"verifharness/common"
	"verifharness/fwtypes"
	"verifharness/srv"
)

type echo struct{}

func (echo) Dispatch(ctx context.Context, imp interface{}, req *requestf.RequestPacket, resp *requestf.ResponsePacket, withContext bool) error {
	resp.IVersion = req.IVersion
	resp.IRequestId = req.IRequestId
	resp.SBuffer = req.SBuffer
	return nil
}

func frame(body []byte) []byte {
	out := make([]byte, 4, 4+len(body))
	binary.BigEndian.PutUint32(out, uint32(4+len(body)))
	return append(out, body...)
}

func pingPacket(id int32) []byte {
	req := requestf.RequestPacket{IVersion: 1, IRequestId: id, SServantName: "App.Server.Obj", SFuncName: "tars_ping", Context: map[string]string{}, Status: map[string]string{}}
	b := codec.NewBuffer()
	req.WriteTo(b)
	return frame(b.ToBytes())
}

// alive: a fresh TCP connection gets an answer to tars_ping.
func alive(port int) bool {
	for try := 0; try < 3; try++ {
		c, err := net.DialTimeout("tcp", fmt.Sprintf("127.0.0.1:%d", port), time.Second)
		if err != nil {
			time.Sleep(100 * time.Millisecond)
			continue
		}
		c.Write(pingPacket(99))
		c.SetReadDeadline(time.Now().Add(3 * time.Second))
		hdr := make([]byte, 4)
		_, err = io.ReadFull(c, hdr)
		c.Close()
		if err == nil {
			return true
		}
	}
	return false
}

type child struct {
	cmd  *exec.Cmd
	out  *bytes.Buffer
	done chan struct{}
}

func startChild(mode string, port int) (*child, error) {
	self, _ := os.Executable()
	cmd := exec.Command(self, "-extra", fmt.Sprintf("%s:%d", mode, port))
	cmd.Env = append(os.Environ(), "GOMEMLIMIT=2GiB")
	ch := &child{cmd: cmd, out: &bytes.Buffer{}, done: make(chan struct{})}
	cmd.Stdout = ch.out
	cmd.Stderr = ch.out
	if err := cmd.Start(); err != nil {
		return nil, err
	}
	go func() { cmd.Wait(); close(ch.done) }()
	return ch, nil
}

func (c *child) exited() bool {
	select {
	case <-c.done:
		return true
	default:
		return false
	}
}

func (c *child) kill() {
	if !c.exited() {
		c.cmd.Process.Kill()
		<-c.done
	}
}

// panicDumps collects (and removes) the stack dumps CheckPanic writes next to the executable; the
// first line of a dump is the panic message.
func panicDumps() string {
	self, err := os.Executable()
	if err != nil {
		return ""
	}
	files, _ := filepath.Glob(filepath.Join(filepath.Dir(self), "panic.*"))
	var sb strings.Builder
	for _, f := range files {
		if b, err := os.ReadFile(f); err == nil {
			if i := bytes.IndexByte(b, '\n'); i > 0 {
				sb.WriteString("panic: " + string(b[:i]) + "\n")
			}
		}
		os.Remove(f)
	}
	return sb.String()
}

func deathReason(out string) string {
	switch {
	case strings.Contains(out, "fatal error: stack overflow") || strings.Contains(out, "stack exceeds"):
		return "fatal-stack"
	case strings.Contains(out, "out of memory") || strings.Contains(out, "cannot allocate"):
		return "fatal-oom"
	case strings.Contains(out, "makeslice"):
		return "panic-makeslice"
	case strings.Contains(out, "index out of range"):
		return "panic-index"
	case strings.Contains(out, "slice bounds out of range"):
		return "panic-slice-bounds"
	case strings.Contains(out, "nil pointer"):
		return "panic-nil"
	case strings.Contains(out, "panic"):
		return "panic-other"
	}
	return "exit"
}

func waitServer(port int) bool {
	for i := 0; i < 100; i++ {
		if alive(port) {
			return true
		}
		time.Sleep(50 * time.Millisecond)
	}
	return false
}

type packet struct {
	Transport string `json:"transport"`
	Kind      string `json:"kind"`
	Hex       string `json:"hex,omitempty"`
	Len       int    `json:"len"`
	raw       []byte
}

func sendOne(p packet, port int) {
	if p.Transport == "udp" {
		u, err := net.Dial("udp", fmt.Sprintf("127.0.0.1:%d", port))
		if err != nil {
			return
		}
		u.Write(p.raw)
		u.Close()
		return
	}
	c, err := net.DialTimeout("tcp", fmt.Sprintf("127.0.0.1:%d", port), time.Second)
	if err != nil {
		return
	}
	c.SetWriteDeadline(time.Now().Add(20 * time.Second))
	c.Write(p.raw)
	// give the server a moment to read and react; read whatever it answers
	c.SetReadDeadline(time.Now().Add(40 * time.Millisecond))
	io.Copy(io.Discard, c)
	c.Close()
}

func mkPacket(tr, kind string, raw []byte) packet {
	h := common.Hex(raw)
	if len(h) > 400 {
		h = h[:400]
	}
	return packet{Transport: tr, Kind: kind, Hex: h, Len: len(raw), raw: raw}
}

func runServerSide(o *common.Opts, res *common.Result) {
	e, err := codecrun.NewEngine("C05", &common.Opts{Tier: o.Tier, Seed: o.Seed, Model: ""}, fwtypes.Types())
	if err != nil {
		res.Fatal(o.Out, err)
	}
	n := 4
	depth := 6 << 20
	if o.Thorough() {
		n = 60
		depth = 10<<20 - 64
	}
	var packets []packet
	for _, h := range e.HostileInputs("requestf.RequestPacket", n, depth) {
		packets = append(packets, mkPacket("tcp", h.Kind, frame(h.Bytes)))
		if len(h.Bytes) < 60000 {
			packets = append(packets, mkPacket("udp", h.Kind, frame(h.Bytes)))
		}
	}
	// datagrams shorter than the 4-byte header, and TCP frames with the minimal length
	for l := 0; l < 4; l++ {
		packets = append(packets, mkPacket("udp", fmt.Sprintf("short-datagram-%d", l), bytes.Repeat([]byte{0x01}, l)))
	}
	// byte streams that are not well-formed frames: length fields below the header size, beyond the
	// maximum, and random bytes (the framing layer must reject them and close that connection only)
	for l := 0; l < 4; l++ {
		raw := []byte{0, 0, 0, byte(l), 0x0a, 0x0b, 0x0c}
		packets = append(packets, mkPacket("tcp", fmt.Sprintf("raw-frame-length-%d", l), raw))
		packets = append(packets, mkPacket("udp", fmt.Sprintf("raw-frame-length-%d", l), raw))
	}
	packets = append(packets, mkPacket("tcp", "raw-frame-length-huge", []byte{0x7f, 0xff, 0xff, 0xff, 1, 2, 3}))
	packets = append(packets, mkPacket("tcp", "raw-frame-length-negative", []byte{0xff, 0xff, 0xff, 0xff, 1, 2, 3}))
	for i := 0; i < 6; i++ {
		raw := make([]byte, 1+e.Rng.Intn(40))
		e.Rng.Read(raw)
		packets = append(packets, mkPacket("tcp", "raw-random", raw))
	}
	packets = append(packets, mkPacket("tcp", "empty-body", frame(nil)))
	packets = append(packets, mkPacket("udp", "empty-body", frame(nil)))

	if !o.Thorough() {
		perKind := map[string]int{}
		var kept []packet
		for _, p := range packets {
			k := p.Transport + "/" + p.Kind
			if j := strings.Index(p.Kind, ":"); j > 0 {
				k = p.Transport + "/" + p.Kind[:strings.LastIndex(p.Kind, ":")]
			}
			perKind[k]++
			if perKind[k] <= 2 {
				kept = append(kept, p)
			}
		}
		packets = kept
	}
	port := srv.FreePort("127.0.0.1")
	ch, err := startChild("child-server", port)
	if err != nil {
		res.Fatal(o.Out, err)
	}
	defer func() { ch.kill() }()
	if !waitServer(port) {
		res.Fatal(o.Out, fmt.Errorf("server child did not start: %s", ch.out.String()))
	}
	settle := func(p packet) time.Duration {
		if p.Len > 1<<20 {
			return 6 * time.Second // stack growth to the 1 GB limit takes seconds
		}
		return 400 * time.Millisecond // CheckPanic dumps the stack and flushes logs before os.Exit
	}
	// culprit search: each packet of the window alone against a fresh server
	search := func(window []packet) {
		var c2 *child
		var p2 int
		fresh := func() {
			p2 = srv.FreePort("127.0.0.1")
			var err error
			c2, err = startChild("child-server", p2)
			if err != nil || !waitServer(p2) {
				res.Fatal(o.Out, fmt.Errorf("server child did not restart"))
			}
		}
		fresh()
		for _, q := range window {
			sendOne(q, p2)
			dead := false
			for t := time.Now(); time.Since(t) < settle(q); time.Sleep(30 * time.Millisecond) {
				if c2.exited() {
					dead = true
					break
				}
			}
			if !dead && !alive(p2) {
				dead = true
			}
			if dead {
				c2.kill()
				reason := deathReason(panicDumps() + c2.out.String())
				res.Histogram["server-death:"+q.Transport+":"+reason]++
				res.Violate(common.Violation{Signature: "C05:server-killed-" + reason + ":" + q.Transport, What: "a single " + q.Transport + " packet terminated the server process: " + lastLine(c2.out.String()),
					Case: common.Case{Stream: "net", Op: q, Impl: reason}})
				fresh()
			}
		}
		c2.kill()
	}
	var window []packet
	flush := func(final bool) {
		if len(window) == 0 {
			return
		}
		wait := 300 * time.Millisecond
		for _, q := range window {
			if settle(q) > wait {
				wait = settle(q)
			}
		}
		if !final && wait < time.Second {
			wait = 0 // small packets: rely on the liveness probe now and on later flushes
		}
		for t := time.Now(); time.Since(t) < wait && !ch.exited(); time.Sleep(50 * time.Millisecond) {
		}
		if ch.exited() || !alive(port) {
			ch.kill()
			panicDumps()
			search(window)
			port = srv.FreePort("127.0.0.1")
			ch, err = startChild("child-server", port)
			if err != nil || !waitServer(port) {
				res.Fatal(o.Out, fmt.Errorf("server child did not restart"))
			}
		}
		window = window[:0]
	}
	for i, p := range packets {
		sendOne(p, port)
		window = append(window, p)
		kind := p.Kind
		if j := strings.Index(kind, ":"); j > 0 {
			kind = kind[:j]
		}
		res.Count(fmt.Sprintf("%s/%s/%s", p.Transport, p.Kind, p.Hex), "server:"+p.Transport+":"+kind, true)
		res.TracesValidated++
		if i%40 == 0 {
			res.Sample(map[string]interface{}{"transport": p.Transport, "kind": p.Kind, "len": p.Len, "bytes": p.Hex})
		}
		if len(window) >= 12 || p.Len > 1<<20 || ch.exited() {
			flush(false)
		}
	}
	time.Sleep(time.Second)
	flush(true)
}

func lastLine(s string) string {
	ls := strings.Split(strings.TrimSpace(s), "\n")
	for _, l := range ls {
		if strings.Contains(l, "panic") || strings.Contains(l, "fatal error") || strings.Contains(l, "runtime error") {
			return l
		}
	}
	if len(ls) > 0 {
		return ls[len(ls)-1]
	}
	return ""
}

// ---- client side: the parent is a fake server answering every request with a hostile response ----

type prx struct{ s model.Servant }

func (p *prx) SetServant(s model.Servant) { p.s = s }

func runClientSide(o *common.Opts, res *common.Result) {
	e, err := codecrun.NewEngine("C05", &common.Opts{Tier: o.Tier, Seed: o.Seed + 1, Model: ""}, fwtypes.Types())
	if err != nil {
		res.Fatal(o.Out, err)
	}
	n := 4
	depth := 6 << 20
	if o.Thorough() {
		n = 40
		depth = 10<<20 - 64
	}
	hostile := e.HostileInputs("requestf.ResponsePacket", n, depth)
	ln, err := net.Listen("tcp", "127.0.0.1:0")
	if err != nil {
		res.Fatal(o.Out, err)
	}
	defer ln.Close()
	port := ln.Addr().(*net.TCPAddr).Port
	var mu sync.Mutex
	idx := 0
	current := -1
	go func() {
		for {
			c, err := ln.Accept()
			if err != nil {
				return
			}
			go func(c net.Conn) {
				defer c.Close()
				for {
					hdr := make([]byte, 4)
					if _, err := io.ReadFull(c, hdr); err != nil {
						return
					}
					l := int(binary.BigEndian.Uint32(hdr))
					if l < 4 || l > 11<<20 {
						return
					}
					body := make([]byte, l-4)
					if _, err := io.ReadFull(c, body); err != nil {
						return
					}
					mu.Lock()
					var h codecrun.HostileInput
					if idx < len(hostile) {
						h = hostile[idx]
						current = idx
						idx++
					} else {
						mu.Unlock()
						return
					}
					mu.Unlock()
					c.SetWriteDeadline(time.Now().Add(20 * time.Second))
					c.Write(frame(h.Bytes))
					if len(h.Bytes) > 1<<20 {
						// a process killed by stack exhaustion dies seconds later: hand out nothing
						// else meanwhile so that the culprit is unambiguous
						mu.Lock()
						time.Sleep(6 * time.Second)
						mu.Unlock()
					}
				}
			}(c)
		}
	}()
	ch, err := startChild("child-client", port)
	if err != nil {
		res.Fatal(o.Out, err)
	}
	defer func() { ch.kill() }()
	deadline := time.Now().Add(time.Duration(60+len(hostile)) * time.Second)
	for {
		mu.Lock()
		done := idx >= len(hostile)
		mu.Unlock()
		if ch.exited() {
			break
		}
		if done {
			// let the last response be processed, then ask the child to stop
			time.Sleep(1500 * time.Millisecond)
			break
		}
		if time.Now().After(deadline) {
			break
		}
		time.Sleep(50 * time.Millisecond)
	}
	mu.Lock()
	served := idx
	cur := current
	mu.Unlock()
	for i := 0; i < served; i++ {
		h := hostile[i]
		kind := h.Kind
		if j := strings.Index(kind, ":"); j > 0 {
			kind = kind[:j]
		}
		res.Count(fmt.Sprintf("client/%s/%d", h.Kind, i), "client:"+kind, true)
		res.TracesValidated++
	}
	out := panicDumps() + ch.out.String()
	if ch.exited() && !strings.Contains(out, "client-child-finished") {
		reason := deathReason(out)
		p := packet{Transport: "tcp-response", Kind: "unknown"}
		if cur >= 0 && cur < len(hostile) {
			p = mkPacket("tcp-response", hostile[cur].Kind, frame(hostile[cur].Bytes))
		}
		res.Violate(common.Violation{Signature: "C05:client-killed-" + reason + ":tcp", What: "a single response packet terminated the client process: " + lastLine(out),
			Case: common.Case{Stream: "net", Op: p, Impl: reason}})
	} else if served < len(hostile) {
		res.Note("client side: only %d of %d hostile responses were requested within the time limit", served, len(hostile))
	}
	syscall.Kill(ch.cmd.Process.Pid, syscall.SIGTERM)
}

func limitAddressSpace() {
	var lim syscall.Rlimit
	lim.Cur, lim.Max = 6<<30, 6<<30
	syscall.Setrlimit(syscall.RLIMIT_AS, &lim)
}

func childServer(port int) {
	limitAddressSpace()
	cfg := &srv.Config{Adapters: []srv.Adapter{{Obj: "App.Server.Obj", Proto: "tcp", Host: "127.0.0.1", Port: port}, {Obj: "App.Server.UObj", Proto: "udp", Host: "127.0.0.1", Port: port}}}
	if err := srv.Start(cfg, echo{}, nil, false); err != nil {
		fmt.Println("child server start failed:", err)
		os.Exit(9)
	}
	select {}
}

func childClient(port int) {
	limitAddressSpace()
	comm := tars.NewCommunicator()
	p := &prx{}
	comm.StringToProxy(fmt.Sprintf("App.Server.Obj@tcp -h 127.0.0.1 -p %d -t 1000", port), p)
	p.s.TarsSetTimeout(200)
	fails := 0
	for i := 0; i < 100000 && fails < 50; i++ {
		resp := new(requestf.ResponsePacket)
		ctx := current.ContextWithClientCurrent(context.Background())
		err := p.s.TarsInvoke(ctx, 0, "echo", []byte{1, 2, 3}, nil, nil, resp)
		_ = err
		c, cerr := net.DialTimeout("tcp", fmt.Sprintf("127.0.0.1:%d", port), 300*time.Millisecond)
		if cerr != nil {
			fails++
			time.Sleep(20 * time.Millisecond)
			if fails > 5 {
				break
			}
			continue
		}
		c.Close()
	}
	fmt.Println("client-child-finished")
	os.Exit(0)
}

func main() {
	o := common.ParseOpts()
	var port int
	if _, err := fmt.Sscanf(o.Extra, "child-server:%d", &port); err == nil {
		childServer(port)
		return
	}
	if _, err := fmt.Sscanf(o.Extra, "child-client:%d", &port); err == nil {
		childClient(port)
		return
	}
	res := common.NewResult("C05", o)
	res.Streams = []string{"net"}
	if o.Replay != "" {
		res.Note("network cases are replayed by re-running the generated stream with the same seed (packets are derived from -seed)")
	}
	// the two sides are independent: run them concurrently
	res2 := common.NewResult("C05", o)
	done := make(chan struct{})
	go func() { runClientSide(o, res2); close(done) }()
	runServerSide(o, res)
	<-done
	res.DistinctNontrivial = 0
	res.Write(o.Out) // fixes the distinct count of the server side
	if r1, err := common.LoadResult(o.Out); err == nil {
		res2.Write(o.Out + ".client")
		if r2, err := common.LoadResult(o.Out + ".client"); err == nil {
			r1.Merge(r2)
			os.Remove(o.Out + ".client")
			res = r1
		}
	}
	res.Rule = "a real server (TCP+UDP adapters, echo dispatcher) in a child process receives one hostile packet at a time: mutated/truncated/length-corrupted RequestPacket encodings, " +
		"random bytes, deep nesting bombs, datagrams shorter than the header; liveness = a fresh connection gets tars_ping answered. A real client in a child process calls a fake server " +
		"that answers with hostile ResponsePacket encodings; non-trivial = distinct (transport, kind, bytes)"
	if err := res.WriteRaw(o.Out); err != nil {
		panic(err)
	}
}
