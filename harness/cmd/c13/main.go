// C13 harness: endpoint selection. Correspondence of selector.BuildStaticWeightList and of the
// roundrobin/random/modhash selectors with the Lean model (stream "selector"), plus the property
// oracle evaluated on the implementation itself (membership, error iff no eligible endpoint, no
// panic, rotation windows, per-cycle counts), for all four strategies (consistent hash: oracle
// only), a concurrent select-vs-update run, and a child-process probe of the allocation size.
package main

import (
	"encoding/hex"
	"fmt"
	"hash/crc32"
	"math"
	"math/rand"
	"os"
	"os/exec"
	"reflect"
	"runtime/debug"
	"sort"
	"strconv"
	"strings"
	"sync"
	"sync/atomic"
	"time"

	"github.com/TarsCloud/TarsGo/tars/protocol/res/endpointf"
	"github.com/TarsCloud/TarsGo/tars/selector"
	"github.com/TarsCloud/TarsGo/tars/selector/consistenthash"
	"github.com/TarsCloud/TarsGo/tars/selector/modhash"
	"github.com/TarsCloud/TarsGo/tars/selector/random"
	"github.com/TarsCloud/TarsGo/tars/selector/roundrobin"
	"github.com/TarsCloud/TarsGo/tars/util/endpoint"

	"verifharness/common"
)

// ---------------------------------------------------------------------------------------------
// cases

type epJ struct {
	Host    string `json:"host"`
	Port    int32  `json:"port"`
	Timeout int32  `json:"timeout"`
	Proto   string `json:"proto"`
	W       int32  `json:"w"`
	WT      int32  `json:"wt"`
	// Key: how the endpoint value is built. "" = struct literal with Key = String() (what Parse and
	// Tars2endpoint produce); "tars" = through endpoint.Tars2endpoint (Proto must be tcp or udp);
	// "empty" = plain struct literal, Key left empty; "dup" = the same Key on every endpoint;
	// "other" = a Key unrelated to the host. The selectors identify endpoints by Host only.
	Key string `json:"key,omitempty"`
}

func (e epJ) ep() endpoint.Endpoint {
	r := endpoint.Endpoint{Host: e.Host, Port: e.Port, Timeout: e.Timeout, Proto: e.Proto, Weight: e.W,
		WeightType: e.WT, Istcp: 1}
	switch e.Key {
	case "tars":
		if e.Proto == "tcp" || e.Proto == "udp" {
			f := endpointf.EndpointF{Host: e.Host, Port: e.Port, Timeout: e.Timeout, Istcp: 1, Weight: e.W, WeightType: e.WT}
			if e.Proto == "udp" {
				f.Istcp = 0
			}
			return endpoint.Tars2endpoint(f)
		}
		r.Key = r.String()
	case "empty":
	case "dup":
		r.Key = "tcp -h 10.0.0.1 -p 1 -t 0"
	case "other":
		// descending where the hosts ascend, and not a function of the String()
		r.Key = fmt.Sprintf("k%08x", 0xffffffff-crc32.ChecksumIEEE([]byte(e.Host)))
	default:
		r.Key = r.String()
	}
	return r
}

var keyModes = []string{"", "", "tars", "empty", "empty", "dup", "other", "mixed"}

// setKeys chooses how the endpoint values of a universe are built
func setKeys(rng *rand.Rand, u []epJ) {
	mode := keyModes[rng.Intn(len(keyModes))]
	for i := range u {
		m := mode
		if mode == "mixed" {
			m = keyModes[rng.Intn(len(keyModes)-1)]
		}
		if m == "tars" && u[i].Proto != "tcp" && u[i].Proto != "udp" {
			u[i].Proto = "tcp"
		}
		u[i].Key = m
	}
}

func withKeys(u []epJ, mode string) []epJ {
	out := append([]epJ{}, u...)
	for i := range out {
		out[i].Key = mode
	}
	return out
}

func hx(s string) string {
	if s == "" {
		return "-"
	}
	return hex.EncodeToString([]byte(s))
}

func (e epJ) tok() string {
	return fmt.Sprintf("%s:%d:%d:%s:%d:%d", hx(e.Host), e.Port, e.Timeout, hx(e.Proto), e.W, e.WT)
}

// opJ: R = Refresh(Eps), A = Add(Eps[0]), D = Remove(Eps[0]), S = Rep selections with hash codes
// Arg, Arg+Step, ...
type opJ struct {
	K    string `json:"k"`
	Eps  []epJ  `json:"eps,omitempty"`
	Arg  uint32 `json:"arg,omitempty"`
	Step uint32 `json:"step,omitempty"`
	Rep  int    `json:"rep,omitempty"`
}

type concJ struct {
	Uni       []epJ `json:"uni"`
	Updates   int   `json:"updates"`   // 0: selections only
	Selectors int   `json:"selectors"` // goroutines calling Select
	MinSel    int   `json:"minsel"`    // selections per goroutine at least
	Seed      int64 `json:"seed"`
}

type caseJ struct {
	Kind string `json:"kind"` // bswl | seq | conc | oom-child
	Sel  string `json:"sel,omitempty"`
	EW   bool   `json:"ew,omitempty"`
	Eps  []epJ  `json:"eps,omitempty"`
	Ops  []opJ  `json:"ops,omitempty"`
	Conc *concJ `json:"conc,omitempty"`
	N    int    `json:"n,omitempty"`
	W    int32  `json:"w,omitempty"`
	Tag  string `json:"tag,omitempty"` // generator profile (histogram only)
	// Own: what the caller does with the slice it handed to Refresh (the selector must own a copy):
	// "garbage" (default) = every slot incl. the spare capacity is overwritten right after the call and the
	// slice is re-sliced/appended to; "manager" = the caller keeps it as its own active list, deletes from
	// it in place (append(s[:i], s[i+1:]...)) before each Remove and appends+sorts before each Add, as
	// endpointmanager does with activeEp.
	Own string `json:"own,omitempty"`
}

// ---------------------------------------------------------------------------------------------
// running the implementation

type msg uint32

func (m msg) HashCode() uint32            { return uint32(m) }
func (m msg) HashType() selector.HashType { return selector.ModHash }
func (m msg) IsHash() bool                { return true }

func panicClass(r interface{}) string {
	s := fmt.Sprint(r)
	switch {
	case strings.Contains(s, "divide by zero"):
		return "div"
	case strings.Contains(s, "makeslice"):
		return "makeslice"
	case strings.Contains(s, "index out of range"), strings.Contains(s, "slice bounds"):
		return "index"
	}
	return "other"
}

// implBSWL runs the real BuildStaticWeightList.
func implBSWL(eps []epJ) (status string, list []int, cp int, stack string) {
	defer func() {
		if r := recover(); r != nil {
			status, list, cp, stack = "panic:"+panicClass(r), nil, 0, string(debug.Stack())
		}
	}()
	in := make([]endpoint.Endpoint, len(eps))
	for i, e := range eps {
		in[i] = e.ep()
	}
	if len(eps) == 0 {
		in = nil
	}
	l := selector.BuildStaticWeightList(in)
	if l == nil {
		return "nil", nil, 0, ""
	}
	return "ok", l, cap(l), ""
}

func joinInts(l []int) string {
	if len(l) == 0 {
		return "-"
	}
	var b strings.Builder
	for i, x := range l {
		if i > 0 {
			b.WriteByte(',')
		}
		b.WriteString(strconv.Itoa(x))
	}
	return b.String()
}

func newSelector(sel string, ew bool) selector.Selector {
	switch sel {
	case "rr":
		return roundrobin.New(ew)
	case "random":
		return random.New(ew)
	case "modhash":
		return modhash.New(ew)
	case "conhash":
		return consistenthash.New(ew, consistenthash.KetamaHash)
	}
	panic("unknown selector " + sel)
}

func pkgOf(sel string) string {
	switch sel {
	case "rr":
		return "roundrobin"
	case "conhash":
		return "consistenthash"
	}
	return sel
}

// one executed atomic step
type stepRes struct {
	op     string // R A D S
	tok    string // ok | err | panic:<class> | sel:<hosthex>:<port>:<weight>
	ep     endpoint.Endpoint
	arg    uint32
	eps    []epJ
	r1, r2 uint64 // round robin cursors after an update
	stack  string
}

func selTok(e endpoint.Endpoint) string {
	return fmt.Sprintf("sel:%s:%d:%d", hx(e.Host), e.Port, e.Weight)
}

var reflectErr error

func cursors(s selector.Selector) (uint64, uint64) {
	rr, ok := s.(*roundrobin.RoundRobin)
	if !ok {
		return 0, 0
	}
	v := reflect.ValueOf(rr).Elem()
	a, b := v.FieldByName("lastPosition"), v.FieldByName("lastStaticWeightPosition")
	if !a.IsValid() || !b.IsValid() || a.Kind() != reflect.Uint64 || b.Kind() != reflect.Uint64 {
		reflectErr = fmt.Errorf("roundrobin.RoundRobin no longer has uint64 fields lastPosition/lastStaticWeightPosition")
		return 0, 0
	}
	return a.Uint(), b.Uint()
}

func guard(f func()) (pc string, stack string) {
	defer func() {
		if r := recover(); r != nil {
			pc, stack = "panic:"+panicClass(r), string(debug.Stack())
		}
	}()
	f()
	return "", ""
}

// ---- ownership of the slice handed to Refresh ------------------------------------------------
// The selectors must not keep the caller's backing array: the caller goes on using its slice.

const garbagePrefix = "zz-not-an-endpoint-"

func garbageEp(i int) endpoint.Endpoint {
	e := endpoint.Endpoint{Host: garbagePrefix + strconv.Itoa(i), Port: 1, Proto: "tcp", Weight: 1, WeightType: 1, Istcp: 1}
	e.Key = e.String()
	return e
}

func isGarbage(e endpoint.Endpoint) bool { return strings.HasPrefix(e.Host, garbagePrefix) }

// refreshArg builds the argument of Refresh with spare capacity (the spare slots hold garbage).
func refreshArg(eps []endpoint.Endpoint) []endpoint.Endpoint {
	spare := 1 + len(eps)%3
	in := make([]endpoint.Endpoint, len(eps), len(eps)+spare)
	copy(in, eps)
	full := in[:cap(in)]
	for i := len(eps); i < len(full); i++ {
		full[i] = garbageEp(i)
	}
	return in
}

// scribble: what a caller may do with ITS slice after Refresh returned: overwrite every slot
// (spare capacity included), delete in place, append into the spare capacity.
func scribble(in []endpoint.Endpoint) {
	full := in[:cap(in)]
	for i := range full {
		full[i] = garbageEp(1000 + i)
	}
	if len(in) > 1 {
		in = append(in[:0], in[1:]...)
	}
	in = append(in, garbageEp(2000))
	_ = in
}

// callerDelete removes the endpoint of that host from the caller's own list, in place.
func callerDelete(active []endpoint.Endpoint, host string) []endpoint.Endpoint {
	for i := range active {
		if active[i].Host == host {
			return append(active[:i], active[i+1:]...)
		}
	}
	return active
}

func runImplSeq(c caseJ) []stepRes {
	s := newSelector(c.Sel, c.EW)
	var out []stepRes
	var active []endpoint.Endpoint // "manager": the caller's list, the very slice last handed to Refresh
	manager := c.Own == "manager"
	for _, op := range c.Ops {
		switch op.K {
		case "R":
			tmp := make([]endpoint.Endpoint, len(op.Eps))
			for i, e := range op.Eps {
				tmp[i] = e.ep()
			}
			in := refreshArg(tmp)
			pc, st := guard(func() { s.Refresh(in) })
			if manager {
				active = in
			} else {
				scribble(in)
			}
			r := stepRes{op: "R", tok: "ok", eps: op.Eps, stack: st}
			if pc != "" {
				r.tok = pc
			}
			r.r1, r.r2 = cursors(s)
			out = append(out, r)
		case "A", "D":
			var err error
			e := op.Eps[0].ep()
			if manager { // the caller updates its own list first, in place, then tells the selector
				if op.K == "D" {
					active = callerDelete(active, e.Host)
				} else if findHost(active, e.Host) < 0 {
					active = append(active, e)
					sort.Slice(active, func(i, j int) bool { return active[i].Host > active[j].Host })
				}
			}
			pc, st := guard(func() {
				if op.K == "A" {
					err = s.Add(e)
				} else {
					err = s.Remove(e)
				}
			})
			r := stepRes{op: op.K, tok: "ok", eps: op.Eps, stack: st}
			if pc != "" {
				r.tok = pc
			} else if err != nil {
				r.tok = "err"
			}
			r.r1, r.r2 = cursors(s)
			out = append(out, r)
		case "S":
			rep := op.Rep
			if rep <= 0 {
				rep = 1
			}
			for i := 0; i < rep; i++ {
				arg := op.Arg + uint32(i)*op.Step
				var ep endpoint.Endpoint
				var err error
				pc, st := guard(func() { ep, err = s.Select(msg(arg)) })
				r := stepRes{op: "S", arg: arg, stack: st}
				switch {
				case pc != "":
					r.tok = pc
				case err != nil:
					r.tok = "err"
				default:
					r.tok, r.ep = selTok(ep), ep
				}
				out = append(out, r)
			}
		}
	}
	return out
}

func modelLine(variant string, c caseJ, rs []stepRes) string {
	var b strings.Builder
	ew := 0
	if c.EW {
		ew = 1
	}
	fmt.Fprintf(&b, "seq %s %s %d", variant, c.Sel, ew)
	for _, r := range rs {
		switch r.op {
		case "R":
			fmt.Fprintf(&b, " R:%d:%d:%d", r.r1, r.r2, len(r.eps))
			for _, e := range r.eps {
				b.WriteByte(' ')
				b.WriteString(e.tok())
			}
		case "A", "D":
			fmt.Fprintf(&b, " %s:%d:%d %s", r.op, r.r1, r.r2, r.eps[0].tok())
		case "S":
			fmt.Fprintf(&b, " S:%d", r.arg)
		}
	}
	return b.String()
}

func implToks(rs []stepRes) []string {
	t := make([]string, len(rs))
	for i, r := range rs {
		t[i] = r.tok
	}
	return t
}

// tokens agree (a random selector's model token lists every possible draw)
func tokAgree(model, impl string) bool {
	if strings.HasPrefix(model, "any:") {
		for _, alt := range strings.Split(model[4:], "|") {
			if alt == impl {
				return true
			}
		}
		return false
	}
	return model == impl
}

func firstDiff(model []string, impl []string) int {
	if len(model) != len(impl) {
		if len(model) < len(impl) {
			return len(model)
		}
		return len(impl)
	}
	for i := range model {
		if !tokAgree(model[i], impl[i]) {
			return i
		}
	}
	return -1
}

// ---------------------------------------------------------------------------------------------
// the property oracle (independent of the Lean model)

// expected number of occurrences of every endpoint in one cycle; ok=false when the property does
// not prescribe weighted behaviour (weights not all static and positive).
func expectedCounts(eps []endpoint.Endpoint) (counts []int, total int, ok bool) {
	if len(eps) == 0 {
		return nil, 0, false
	}
	var wmax, wmin int64 = math.MinInt64, math.MaxInt64
	for _, e := range eps {
		if e.WeightType != 1 || e.Weight <= 0 {
			return nil, 0, false
		}
		w := int64(e.Weight)
		if w > wmax {
			wmax = w
		}
		if w < wmin {
			wmin = w
		}
	}
	r := wmax / wmin
	if r < 10 {
		r = 10
	}
	if r > 100 {
		r = 100
	}
	counts = make([]int, len(eps))
	for i, e := range eps {
		k := int64(e.Weight) * r / wmax
		if k < 1 {
			k = 1
		}
		counts[i] = int(k)
		total += int(k)
	}
	return counts, total, true
}

func locusFromStack(stack, fallback string) string {
	if strings.Contains(stack, "selector.BuildStaticWeightList") {
		return "BuildStaticWeightList"
	}
	return fallback
}

type oracleViol struct {
	sig, what string
	at        int // index of the step
}

func oracleBSWL(eps []epJ, status string, list []int, stack string) *oracleViol {
	if strings.HasPrefix(status, "panic:") {
		return &oracleViol{sig: "C13:panic-" + status[6:] + ":" + locusFromStack(stack, "BuildStaticWeightList"),
			what: "BuildStaticWeightList panics (" + status[6:] + ") on weights " + weightsOf(eps)}
	}
	for _, i := range list {
		if i < 0 || i >= len(eps) {
			return &oracleViol{sig: "C13:not-member:BuildStaticWeightList",
				what: fmt.Sprintf("index %d outside the %d endpoints", i, len(eps))}
		}
	}
	in := make([]endpoint.Endpoint, len(eps))
	for i, e := range eps {
		in[i] = e.ep()
	}
	if counts, total, ok := expectedCounts(in); ok {
		if status != "ok" {
			return &oracleViol{sig: "C13:weight-disproportion:BuildStaticWeightList", what: "no weight list for positive static weights " + weightsOf(eps)}
		}
		got := make([]int, len(eps))
		for _, i := range list {
			got[i]++
		}
		for i := range counts {
			if got[i] != counts[i] {
				return &oracleViol{sig: "C13:weight-disproportion:BuildStaticWeightList",
					what: fmt.Sprintf("endpoint %d (weights %s) occurs %d times in the cycle, expected max(1,floor(W*R/Wmax)) = %d", i, weightsOf(eps), got[i], counts[i])}
			}
		}
		if len(list) != total {
			return &oracleViol{sig: "C13:weight-disproportion:BuildStaticWeightList", what: fmt.Sprintf("cycle length %d, expected %d", len(list), total)}
		}
	}
	return nil
}

func weightsOf(eps []epJ) string {
	var p []string
	for i, e := range eps {
		if i == 12 {
			p = append(p, "...")
			break
		}
		s := strconv.Itoa(int(e.W))
		if e.WT != 1 {
			s += fmt.Sprintf("(v=%d)", e.WT)
		}
		p = append(p, s)
	}
	return "[" + strings.Join(p, ",") + "]"
}

func findHost(cur []endpoint.Endpoint, h string) int {
	for i, e := range cur {
		if e.Host == h {
			return i
		}
	}
	return -1
}

// oracleSeq checks one executed history against the property.
func oracleSeq(c caseJ, rs []stepRes) *oracleViol {
	pkg := pkgOf(c.Sel)
	var cur []endpoint.Endpoint
	// consistent hash: weight used when the host was added, hosts removed with another weight
	addedW := map[string]int32{}
	reweighted := map[string]bool{}
	var run []string // hosts returned by consecutive selections over an unchanged set
	var runStart int
	modSeen := map[uint32]string{}

	checkRun := func(at int) *oracleViol {
		defer func() { run = run[:0]; modSeen = map[uint32]string{} }()
		if c.Sel != "rr" || len(run) == 0 || len(cur) == 0 {
			return nil
		}
		n := len(cur)
		allStatic, allPos, allEq := true, true, true
		for _, e := range cur {
			if e.WeightType != 1 {
				allStatic = false
			}
			if e.Weight <= 0 {
				allPos = false
			}
			if e.Weight != cur[0].Weight {
				allEq = false
			}
		}
		strict := !c.EW || !allStatic || (allPos && allEq)
		if strict && len(run) >= n {
			cnt := map[string]int{}
			for i, h := range run {
				cnt[h]++
				if i >= n {
					cnt[run[i-n]]--
				}
				if i >= n-1 {
					for _, e := range cur {
						if cnt[e.Host] != 1 {
							return &oracleViol{sig: "C13:rotation-broken:roundrobin.Select", at: runStart + i,
								what: fmt.Sprintf("%d consecutive selections over an unchanged %d-endpoint set hit %q %d times", n, n, e.Host, cnt[e.Host])}
						}
					}
				}
			}
		}
		if c.EW {
			if counts, total, ok := expectedCounts(cur); ok && len(run) >= total {
				cnt := map[string]int{}
				for i, h := range run {
					cnt[h]++
					if i >= total {
						cnt[run[i-total]]--
					}
					if i >= total-1 {
						for j, e := range cur {
							if cnt[e.Host] != counts[j] {
								return &oracleViol{sig: "C13:weight-disproportion:roundrobin.Select", at: runStart + i,
									what: fmt.Sprintf("a window of one cycle (%d selections) hits %q (weight %d) %d times, expected %d", total, e.Host, e.Weight, cnt[e.Host], counts[j])}
							}
						}
					}
				}
			}
		}
		return nil
	}

	for i, r := range rs {
		if strings.HasPrefix(r.tok, "panic:") {
			opName := map[string]string{"R": "Refresh", "A": "Add", "D": "Remove", "S": "Select"}[r.op]
			return &oracleViol{sig: "C13:panic-" + r.tok[6:] + ":" + locusFromStack(r.stack, pkg+"."+opName), at: i,
				what: fmt.Sprintf("%s.%s panics (%s)", pkg, opName, r.tok[6:])}
		}
		switch r.op {
		case "R":
			if v := checkRun(i); v != nil {
				return v
			}
			cur = cur[:0:0]
			addedW = map[string]int32{}
			reweighted = map[string]bool{}
			for _, e := range r.eps {
				if findHost(cur, e.Host) < 0 {
					cur = append(cur, e.ep())
					addedW[e.Host] = e.W
				}
			}
			runStart = i + 1
		case "A":
			if v := checkRun(i); v != nil {
				return v
			}
			e := r.eps[0]
			if findHost(cur, e.Host) < 0 {
				cur = append(cur, e.ep())
				addedW[e.Host] = e.W
			}
			runStart = i + 1
		case "D":
			if v := checkRun(i); v != nil {
				return v
			}
			e := r.eps[0]
			if k := findHost(cur, e.Host); k >= 0 {
				if addedW[e.Host] != e.W {
					reweighted[e.Host] = true
				}
				cur = append(cur[:k:k], cur[k+1:]...)
			}
			runStart = i + 1
		case "S":
			eligible := 0
			for _, e := range cur {
				if c.Sel == "conhash" && c.EW && e.Weight <= 0 {
					continue
				}
				eligible++
			}
			if r.tok == "err" {
				if eligible > 0 {
					return &oracleViol{sig: "C13:spurious-error:" + pkg + ".Select", at: i,
						what: fmt.Sprintf("Select fails although %d endpoints are eligible", eligible)}
				}
				continue
			}
			k := findHost(cur, r.ep.Host)
			if k < 0 || cur[k] != r.ep {
				locus := pkg + ".Select"
				if c.Sel == "conhash" && reweighted[r.ep.Host] {
					locus = "consistenthash.Remove-reweighted"
				}
				if isGarbage(r.ep) { // a value the caller wrote into ITS slice after Refresh had returned
					locus = pkg + ".Refresh-aliased"
				}
				what := fmt.Sprintf("Select returned %q (weight %d) which is not in the current set of %d endpoints", r.ep.Host, r.ep.Weight, len(cur))
				if eligible == 0 {
					what += " (no endpoint is eligible: an error was due)"
				}
				return &oracleViol{sig: "C13:not-member:" + locus, at: i, what: what}
			}
			if eligible == 0 {
				return &oracleViol{sig: "C13:missing-error:" + pkg + ".Select", at: i, what: "Select succeeded although no endpoint is eligible"}
			}
			if c.Sel == "modhash" || c.Sel == "conhash" {
				if prev, ok := modSeen[r.arg]; ok && prev != r.ep.Host {
					return &oracleViol{sig: "C13:unstable-route:" + pkg + ".Select", at: i,
						what: fmt.Sprintf("hash code %d routed to %q and then to %q over an unchanged set", r.arg, prev, r.ep.Host)}
				}
				modSeen[r.arg] = r.ep.Host
			}
			run = append(run, r.ep.Host)
		}
	}
	return checkRun(len(rs))
}

// ---------------------------------------------------------------------------------------------
// concurrent select-vs-update run (supporting test)

type interval struct{ start, end int64 }

type selRec struct {
	s0, s1 int64
	host   string
	err    bool
	pc     string
	stack  string
}

func runConcurrent(c caseJ) *oracleViol {
	cc := c.Conc
	rng := rand.New(rand.NewSource(cc.Seed))
	s := newSelector(c.Sel, c.EW)
	uni := make([]endpoint.Endpoint, len(cc.Uni))
	for i, e := range cc.Uni {
		uni[i] = e.ep()
	}
	var seq atomic.Int64
	member := map[string]bool{}
	ivs := map[string][]interval{}
	open := func(h string, at int64) { ivs[h] = append(ivs[h], interval{at, math.MaxInt64}); member[h] = true }
	closeIv := func(h string, at int64) { l := ivs[h]; l[len(l)-1].end = at; member[h] = false }
	// an endpoint the strategy can return (weighted consistent hash: positive weight only)
	eligible := func(e endpoint.Endpoint) bool { return !(c.Sel == "conhash" && c.EW) || e.Weight > 0 }
	anchor := -1 // an eligible endpoint that stays in the set: the set never becomes ineligible
	for i, e := range uni {
		if eligible(e) {
			anchor = i
			break
		}
	}
	if anchor < 0 {
		return nil
	}
	// initial set: the first half of the universe plus the anchor
	init := append([]endpoint.Endpoint{uni[anchor]}, uni[:len(uni)/2+1]...)
	before := seq.Add(1)
	initArg := refreshArg(init)
	if pc, st := guard(func() { s.Refresh(initArg) }); pc != "" {
		return &oracleViol{sig: "C13:" + pc[:5] + "-" + pc[6:] + ":" + locusFromStack(st, pkgOf(c.Sel)+".Refresh"), what: "Refresh panics (" + pc + ")"}
	}
	scribble(initArg) // the caller reuses its slice
	for _, e := range init {
		open(e.Host, before)
	}
	var done atomic.Bool
	var wg sync.WaitGroup
	recs := make([][]selRec, cc.Selectors)
	for g := 0; g < cc.Selectors; g++ {
		wg.Add(1)
		go func(g int) {
			defer wg.Done()
			h := uint32(g) * 2654435761
			minSel := cc.MinSel
			if minSel <= 0 {
				minSel = 2000
			}
			for n := 0; n < 400000 || n < minSel; n++ {
				if done.Load() && n >= minSel {
					break
				}
				h = h*1664525 + 1013904223
				var ep endpoint.Endpoint
				var err error
				s0 := seq.Load()
				pc, st := guard(func() { ep, err = s.Select(msg(h)) })
				s1 := seq.Load()
				if len(recs[g]) < 100000 || pc != "" || err != nil {
					recs[g] = append(recs[g], selRec{s0, s1, ep.Host, err != nil, pc, st})
				}
				if pc != "" {
					return
				}
			}
		}(g)
	}
	var updViol *oracleViol
	for u := 0; u < cc.Updates && updViol == nil; u++ {
		e := uni[rng.Intn(len(uni))]
		var pc, st, opn string
		switch k := rng.Intn(10); {
		case k < 4:
			opn = "Add"
			if !member[e.Host] {
				at := seq.Add(1)
				open(e.Host, at)
			}
			pc, st = guard(func() { s.Add(e) })
		case k < 8:
			opn = "Remove"
			if e.Host == uni[anchor].Host {
				continue
			}
			was := member[e.Host]
			pc, st = guard(func() { s.Remove(e) })
			if was {
				closeIv(e.Host, seq.Add(1))
			}
		default:
			opn = "Refresh"
			perm := rng.Perm(len(uni))
			list := []endpoint.Endpoint{}
			for _, i := range perm[:1+rng.Intn(len(uni))] {
				list = append(list, uni[i])
			}
			list = append(list, uni[anchor]) // possibly a duplicate host: ignored by Refresh
			in := map[string]bool{}
			for _, x := range list {
				in[x.Host] = true
			}
			at := seq.Add(1)
			for h := range in {
				if !member[h] {
					open(h, at)
				}
			}
			arg := refreshArg(list)
			pc, st = guard(func() { s.Refresh(arg) })
			scribble(arg) // the caller reuses its slice while selections go on
			at2 := seq.Add(1)
			for h, m := range member {
				if m && !in[h] {
					closeIv(h, at2)
				}
			}
		}
		if pc != "" {
			updViol = &oracleViol{sig: "C13:panic-" + pc[6:] + ":" + locusFromStack(st, pkgOf(c.Sel)+"."+opn),
				what: fmt.Sprintf("%s.%s panics (%s) while selections run concurrently", pkgOf(c.Sel), opn, pc[6:])}
		}
		if u%64 == 0 {
			time.Sleep(50 * time.Microsecond) // let selectors interleave; not a synchronisation
		}
	}
	done.Store(true)
	wg.Wait()
	if updViol != nil {
		return updViol
	}
	for g := range recs {
		for _, r := range recs[g] {
			if r.pc != "" {
				return &oracleViol{sig: "C13:panic-" + r.pc[6:] + ":" + locusFromStack(r.stack, pkgOf(c.Sel)+".Select"),
					what: "Select panics (" + r.pc[6:] + ") concurrently with updates"}
			}
			if r.err {
				return &oracleViol{sig: "C13:spurious-error:" + pkgOf(c.Sel) + ".Select",
					what: "Select fails concurrently with updates although an eligible endpoint is in the set all the time"}
			}
			ok := false
			for _, iv := range ivs[r.host] {
				if iv.start <= r.s1 && iv.end >= r.s0 {
					ok = true
					break
				}
			}
			if !ok && strings.HasPrefix(r.host, garbagePrefix) {
				return &oracleViol{sig: "C13:not-member:" + pkgOf(c.Sel) + ".Refresh-aliased",
					what: fmt.Sprintf("a selection concurrent with updates returned %q, a value the caller wrote into its own slice after Refresh had returned: the selector shares the caller's backing array", r.host)}
			}
			if !ok {
				return &oracleViol{sig: "C13:not-member:" + pkgOf(c.Sel) + ".Select-concurrent",
					what: fmt.Sprintf("a selection overlapping update events [%d,%d] returned %q which was not in the set at any moment of that span", r.s0, r.s1, r.host)}
			}
		}
	}
	return nil
}

// ---------------------------------------------------------------------------------------------
// child process: allocation of BuildStaticWeightList on huge weights

func childOOM(n int, w int32) {
	eps := make([]endpoint.Endpoint, n)
	for i := range eps {
		eps[i] = endpoint.Endpoint{Host: "10.1.0." + strconv.Itoa(i), Port: 1, Proto: "tcp", Weight: w, WeightType: 1}
	}
	l := selector.BuildStaticWeightList(eps)
	fmt.Printf("survived len=%d cap=%d\n", len(l), cap(l))
}

func runOOMChild(c caseJ) (impl string, v *oracleViol) {
	cmd := exec.Command(os.Args[0], "-extra", fmt.Sprintf("child-oom:%d:%d", c.N, c.W))
	cmd.Env = append(os.Environ(), "GOMEMLIMIT=off")
	done := make(chan struct{})
	var out []byte
	var err error
	go func() { out, err = cmd.CombinedOutput(); close(done) }()
	select {
	case <-done:
	case <-time.After(120 * time.Second):
		if cmd.Process != nil {
			cmd.Process.Kill()
		}
		<-done
		return "timeout", &oracleViol{sig: "C13:hang:BuildStaticWeightList", what: fmt.Sprintf("BuildStaticWeightList on %d endpoints of weight %d did not return in 120 s", c.N, c.W)}
	}
	s := string(out)
	switch {
	case err == nil && strings.Contains(s, "survived"):
		return strings.TrimSpace(s), nil
	case strings.Contains(s, "out of memory") || strings.Contains(s, "cannot allocate memory"):
		return "fatal: out of memory", &oracleViol{sig: "C13:fatal-oom:BuildStaticWeightList",
			what: fmt.Sprintf("BuildStaticWeightList on %d endpoints of weight %d kills the process with `fatal error: runtime: out of memory` (it asks make() for sum(weights)+100 slots)", c.N, c.W)}
	case strings.Contains(s, "makeslice"):
		return "panic: makeslice", &oracleViol{sig: "C13:panic-makeslice:BuildStaticWeightList",
			what: fmt.Sprintf("BuildStaticWeightList on %d endpoints of weight %d panics in make()", c.N, c.W)}
	}
	first := s
	if len(first) > 300 {
		first = first[:300]
	}
	return "crashed: " + first, &oracleViol{sig: "C13:crash:BuildStaticWeightList", what: "child process died: " + first}
}

// ---------------------------------------------------------------------------------------------
// generators

var protos = []string{"tcp", "tcp", "tcp", "udp", "ssl"}

func universe(rng *rand.Rand, n int, profile string) []epJ {
	hosts := []string{}
	style := rng.Intn(4)
	for i := 0; i < n; i++ {
		switch style {
		case 0:
			hosts = append(hosts, fmt.Sprintf("10.0.%d.%d", rng.Intn(3), i+1))
		case 1:
			hosts = append(hosts, strings.Repeat("a", i+1)) // prefixes of each other
		case 2:
			hosts = append(hosts, []string{"é", "z", "Z", "0", "~", "h-ü", "node.b", "node.a", "ÿ", "-"}[i%10]+strconv.Itoa(i/10))
		default:
			hosts = append(hosts, fmt.Sprintf("h%d.svc", i*7+3))
		}
	}
	u := make([]epJ, n)
	for i := range u {
		u[i] = epJ{Host: hosts[i], Port: int32(9 + rng.Intn(3)*91), Timeout: int32(rng.Intn(3) * 3000), Proto: protos[rng.Intn(len(protos))], WT: 1}
		if rng.Intn(20) == 0 {
			u[i].Port = -int32(rng.Intn(70000))
		}
	}
	setKeys(rng, u)
	setW := func(f func(i int) int32) {
		for i := range u {
			u[i].W = f(i)
		}
	}
	switch profile {
	case "equal":
		w := int32(1 + rng.Intn(50))
		setW(func(int) int32 { return w })
	case "static":
		setW(func(int) int32 { return int32(1 + rng.Intn(20)) })
	case "ratio":
		setW(func(int) int32 { return int32(1 + rng.Intn(1+rng.Intn(3000))) })
	case "zero":
		setW(func(int) int32 { return int32(rng.Intn(3)) * int32(rng.Intn(4)) })
		if rng.Intn(3) == 0 {
			setW(func(int) int32 { return 0 })
		}
	case "neg":
		setW(func(int) int32 { return int32(rng.Intn(11) - 5) })
	case "negsum":
		setW(func(int) int32 { return int32(rng.Intn(400) - 300) })
	case "allneg":
		setW(func(int) int32 { return -int32(1 + rng.Intn(40)) })
	case "big":
		setW(func(int) int32 { return int32(1 + rng.Intn(1<<16)) })
	case "hugemix": // huge magnitudes whose sum stays small (no giant allocation as found)
		setW(func(i int) int32 {
			if i%2 == 0 {
				return math.MaxInt32 - int32(rng.Intn(3))
			}
			return -(math.MaxInt32 - int32(rng.Intn(50)))
		})
		if n%2 == 1 {
			u[n-1].W = int32(rng.Intn(40))
		}
	case "extreme": // positive int32 extremes and the thresholds of W*R around 2^31 and of the ratio clamp
		switch rng.Intn(4) {
		case 0: // every weight from the table
			setW(func(int) int32 { return extremeWeights[rng.Intn(len(extremeWeights))] })
		case 1: // W_max/W_min exactly / just around 10 and 100
			base := extremeWeights[rng.Intn(len(extremeWeights))]
			k := []int64{9, 10, 11, 99, 100, 101}[rng.Intn(6)]
			for int64(base)*k+1 > math.MaxInt32 {
				base /= 3
			}
			if base < 1 {
				base = 1
			}
			top := int32(int64(base)*k) + int32(rng.Intn(3)-1)
			if top < base {
				top = base
			}
			setW(func(i int) int32 {
				switch i {
				case 0:
					return base
				case 1:
					return top
				}
				return base + int32(rng.Int63n(int64(top-base)+1))
			})
		case 2: // all huge and within a factor 10 (R = 10): W*R > 2^31-1 from 214 748 365 on
			hi := []int32{math.MaxInt32, 1 << 30, 214748365 * 9, 214748364 * 10}[rng.Intn(4)]
			setW(func(int) int32 { return hi/10 + 1 + int32(rng.Int63n(int64(hi-hi/10))) })
			u[0].W = hi
		default: // spread >= 100 (R = 100): W*R > 2^31-1 from 21 474 837 on
			hi := []int32{math.MaxInt32, 1 << 30, math.MaxInt32 - 47, 21474836 * 100, 1 << 24 * 100}[rng.Intn(5)]
			setW(func(int) int32 { return 1 + int32(rng.Int63n(int64(hi))) })
			u[0].W = hi
			if n > 1 {
				u[1].W = hi/100 - int32(rng.Intn(3))
			}
			if n > 2 {
				u[2].W = []int32{21474835, 21474836, 21474837, 21474838}[rng.Intn(4)]
			}
		}
	case "mixedtype":
		setW(func(int) int32 { return int32(rng.Intn(9) - 1) })
		for i := range u {
			u[i].WT = int32(rng.Intn(2))
		}
		if rng.Intn(4) == 0 {
			u[rng.Intn(n)].WT = 2
		}
	case "loop": // weight type ELoop everywhere
		setW(func(int) int32 { return int32(rng.Intn(100)) })
		for i := range u {
			u[i].WT = 0
		}
	}
	return u
}

var profiles = []string{"equal", "static", "static", "ratio", "zero", "neg", "negsum", "allneg", "big", "hugemix", "mixedtype", "loop",
	"extreme", "extreme"}

// legal int32 weights at which something changes: the clamp of R = min(100, max(10, Wmax/Wmin)) (ratios
// 9/10/11/99/100/101 are formed from these), W*R crossing 2^31-1 (21 474 836.47 for R = 100,
// 214 748 364.7 for R = 10), powers of two, the int32 maximum. Go int is 64 bit: W*R never wraps in the
// code as it is; a narrower intermediate type does.
var extremeWeights = []int32{1, 2, 9, 10, 11, 99, 100, 101, 1<<15 - 1, 1 << 15, 1<<15 + 1, 1<<16 - 1, 1 << 16, 1<<16 + 1, 1 << 24,
	21474835, 21474836, 21474837, 214748363, 214748364, 214748365, 1 << 30, math.MaxInt32 - 1, math.MaxInt32}

// hugeWeightsOK: the allocation probe (run first) found BuildStaticWeightList's allocation bounded, so
// weights near 2^31 can be fed to the in-process streams (as found, one such endpoint asked for 16 GiB)
var hugeWeightsOK = true

// profiles for which a weighted selector would allocate by the sum of weights as found
func cycleLen(u []epJ) int {
	in := make([]endpoint.Endpoint, len(u))
	for i, e := range u {
		in[i] = e.ep()
	}
	if _, total, ok := expectedCounts(in); ok {
		return total
	}
	return len(u) + 1
}

func genSeq(rng *rand.Rand, sel string, ew bool, profile string, maxOps int, reweight bool) caseJ {
	n := 1 + rng.Intn(7)
	u := universe(rng, n, profile)
	c := caseJ{Kind: "seq", Sel: sel, EW: ew, Tag: profile, Own: "garbage"}
	if rng.Intn(2) == 0 {
		c.Own = "manager"
	}
	pick := func() epJ {
		e := u[rng.Intn(n)]
		if reweight && rng.Intn(3) == 0 {
			e.W = int32(rng.Intn(500) - 20)
		}
		return e
	}
	present := map[string]bool{}
	burst := func() {
		L := cycleLen(u)
		rep := 1 + rng.Intn(3)
		switch rng.Intn(4) {
		case 0:
			rep = n + 1 + rng.Intn(n+1)
		case 1:
			if ew {
				rep = L + 1 + rng.Intn(L+1)
				if rep > 1700 {
					rep = 1700
				}
			}
		}
		c.Ops = append(c.Ops, opJ{K: "S", Arg: rng.Uint32() >> uint(rng.Intn(32)), Step: uint32(rng.Intn(3)) * uint32(1+rng.Intn(1000)), Rep: rep})
	}
	nops := 1 + rng.Intn(maxOps)
	for i := 0; i < nops; i++ {
		switch k := rng.Intn(12); {
		case k < 2: // refresh: random sub-list, sometimes with duplicates, sometimes empty
			var l []epJ
			m := rng.Intn(n + 2)
			for j := 0; j < m; j++ {
				l = append(l, pick())
			}
			if rng.Intn(3) > 0 { // no duplicates: a shuffled subset
				l = nil
				for _, j := range rng.Perm(n)[:rng.Intn(n+1)] {
					l = append(l, u[j])
				}
			}
			c.Ops = append(c.Ops, opJ{K: "R", Eps: l})
			present = map[string]bool{}
			for _, e := range l {
				present[e.Host] = true
			}
		case k < 6:
			e := pick()
			c.Ops = append(c.Ops, opJ{K: "A", Eps: []epJ{e}})
			present[e.Host] = true
		case k < 8:
			e := pick()
			c.Ops = append(c.Ops, opJ{K: "D", Eps: []epJ{e}})
			delete(present, e.Host)
		default:
			burst()
		}
	}
	burst()
	return c
}

// all histories of exactly `length` symbols over a 3-host universe, each followed by a window of selections
func genExhaustive(emit func(caseJ), sel string, ew bool, u []epJ, length int, tag string) {
	refreshes := [][]epJ{{}, {u[0], u[1], u[2]}, {u[2], u[0], u[0]}}
	var alpha []opJ
	for _, e := range u {
		alpha = append(alpha, opJ{K: "A", Eps: []epJ{e}})
	}
	for _, e := range u {
		alpha = append(alpha, opJ{K: "D", Eps: []epJ{e}})
	}
	for _, r := range refreshes {
		alpha = append(alpha, opJ{K: "R", Eps: r})
	}
	alpha = append(alpha, opJ{K: "S", Arg: 5, Step: 3, Rep: 1})
	tail := cycleLen(u) + 2
	idx := make([]int, length)
	count := 0
	for {
		ops := make([]opJ, 0, length+1)
		for _, i := range idx {
			ops = append(ops, alpha[i])
		}
		ops = append(ops, opJ{K: "S", Arg: 1, Step: 1, Rep: tail})
		own := "garbage"
		if count%2 == 1 {
			own = "manager"
		}
		count++
		emit(caseJ{Kind: "seq", Sel: sel, EW: ew, Ops: ops, Tag: tag, Own: own})
		k := length - 1
		for k >= 0 {
			idx[k]++
			if idx[k] < len(alpha) {
				break
			}
			idx[k] = 0
			k--
		}
		if k < 0 {
			break
		}
	}
}

func fixedEps(ws ...int32) []epJ {
	var out []epJ
	for i, w := range ws {
		out = append(out, epJ{Host: "10.0.0." + strconv.Itoa(i+1), Port: 19386, Timeout: 60000, Proto: "tcp", W: w, WT: 1})
	}
	return out
}

func genBSWL(rng *rand.Rand, thorough bool) []caseJ {
	var out []caseJ
	add := func(tag string, eps []epJ) { out = append(out, caseJ{Kind: "bswl", Eps: eps, Tag: tag}) }
	// boundary / witness vectors
	for _, ws := range [][]int32{{}, {0}, {0, 0}, {0, -3}, {-1}, {-1, -5}, {-60, -50}, {-100}, {-101}, {5, -200}, {5, -105}, {5, -104},
		{5, 0, 5, -3}, {1}, {3, 3, 3}, {5, 1, 1}, {1, 1000, 500}, {1, 9}, {1, 10}, {1, 11}, {1, 99}, {1, 100}, {1, 101}, {2, 201}, {2, 199},
		{100, 1}, {7, 7, 7, 7, 7, 7, 7, 7, 7, 7, 7, 7, 7}, {math.MaxInt32, math.MinInt32}, {math.MaxInt32, -math.MaxInt32}, {math.MinInt32},
		{math.MaxInt32, -math.MaxInt32, 7}, {1 << 20, 1}, {1 << 20, 1 << 19, 3}} {
		add("fixed", fixedEps(ws...))
	}
	if hugeWeightsOK {
		for _, ws := range [][]int32{{1000000, 100000000}, {30000000, 300000000, 900000000}, {math.MaxInt32}, {math.MaxInt32, math.MaxInt32},
			{math.MaxInt32, 1}, {1, math.MaxInt32, 21474836}, {1, math.MaxInt32, 21474837}, {21474836, 1}, {21474837, 1}, {21474836, 214748},
			{21474837, 214748}, {214748364, 214748364}, {214748365, 214748365}, {214748365, 21474837}, {214748364, 21474836},
			{1 << 30, 1 << 30, 1<<30 - 1}, {1 << 30, 1 << 27, 1 << 20, 1}, {math.MaxInt32, math.MaxInt32 / 10}, {math.MaxInt32, math.MaxInt32/10 + 1},
			{math.MaxInt32, math.MaxInt32 / 100}, {math.MaxInt32, math.MaxInt32/100 + 1}, {math.MaxInt32, math.MaxInt32 / 101},
			{math.MaxInt32 - 1, 2, math.MaxInt32}, {1 << 24, 1 << 24, 1}, {1<<16 + 1, 1<<15 - 1, 1 << 24}} {
			add("fixed-extreme", fixedEps(ws...))
		}
		// every vector of length <= 2 (thorough: <= 3) over the table of thresholds
		exLen := 2
		if thorough {
			exLen = 3
		}
		var recx func(prefix []int32)
		recx = func(prefix []int32) {
			if len(prefix) > 0 {
				add("exhaustive-extreme", fixedEps(prefix...))
			}
			if len(prefix) == exLen {
				return
			}
			for _, w := range extremeWeights {
				recx(append(append([]int32{}, prefix...), w))
			}
		}
		recx(nil)
	}
	// small exhaustive: all weight vectors over {-2..4} of length <= 3 (thorough: {-3..6}, length <= 4)
	lo, hi, maxLen := int32(-2), int32(4), 3
	if thorough {
		lo, hi, maxLen = -3, 6, 4
	}
	var rec func(prefix []int32)
	rec = func(prefix []int32) {
		if len(prefix) > 0 {
			add("exhaustive", fixedEps(prefix...))
		}
		if len(prefix) == maxLen {
			return
		}
		for w := lo; w <= hi; w++ {
			rec(append(append([]int32{}, prefix...), w))
		}
	}
	rec(nil)
	// random universes of every profile
	n := 4000
	if thorough {
		n = 40000
	}
	for i := 0; i < n; i++ {
		p := profiles[rng.Intn(len(profiles))]
		if p == "extreme" && !hugeWeightsOK {
			p = "big"
		}
		sz := 1 + rng.Intn(9)
		if rng.Intn(10) == 0 {
			sz = 10 + rng.Intn(30) // more than 12 slots: sort.Slice leaves insertion sort
		}
		if p == "big" && sz > 6 {
			sz = 6
		}
		add(p, universe(rng, sz, p))
	}
	return out
}

// ---------------------------------------------------------------------------------------------
// checking

type checker struct {
	o         *common.Opts
	res       *common.Result
	m         *common.Model
	asFound   int
	firstAF   *common.Case
	verbose   bool
	shrunken  map[string]bool
	shrinkOff bool
	buf       []prepared
}

func (ck *checker) violate(c caseJ, v *oracleViol, modelAns, implAns string) {
	note := ""
	if v.at > 0 {
		note = fmt.Sprintf("first offending step: %d", v.at)
	}
	ck.res.Violate(common.Violation{Signature: v.sig, What: v.what,
		Case: common.Case{Stream: "selector", Op: c, Model: modelAns, Impl: implAns, Note: note}})
}

func (ck *checker) ask(lines ...string) []string {
	ans, err := ck.m.Batch(lines)
	if err != nil {
		ck.res.Fatal(ck.o.Out, err)
	}
	return ans
}

func (ck *checker) checkBSWL(c caseJ) prepared {
	status, list, cp, stack := implBSWL(c.Eps)
	impl := status
	if status == "ok" {
		impl = "ok " + joinInts(list)
	}
	var toks []string
	for _, e := range c.Eps {
		toks = append(toks, e.tok())
	}
	lines := []string{"bswl repaired " + strings.Join(toks, " "), "bswl asfound " + strings.Join(toks, " ")}
	return prepared{lines: lines, fin: func(ans []string) { ck.finBSWL(c, status, list, cp, stack, impl, ans) }}
}

func (ck *checker) finBSWL(c caseJ, status string, list []int, cp int, stack, impl string, ans []string) {
	canon := func(a string) (string, int) { // drop the capacity, return it separately
		f := strings.Fields(a)
		if len(f) == 3 && f[0] == "ok" {
			cp, _ := strconv.Atoi(f[1])
			return "ok " + f[2], cp
		}
		return a, -1
	}
	rep, repCap := canon(ans[0])
	asf, asfCap := canon(ans[1])
	capOK := func(modelCap int) bool { // make() returns exactly the requested capacity unless append had to grow
		return status != "ok" || modelCap < len(list) || modelCap == cp
	}
	if ck.verbose {
		fmt.Printf("model(repaired): %s\nmodel(as found): %s\nimpl:            %s cap=%d\n", ans[0], ans[1], impl, cp)
	}
	key := "bswl/" + impl
	ck.res.Count(key, "bswl:"+c.Tag+":"+strings.SplitN(status, " ", 2)[0], status == "ok" && len(list) > 1)
	if ans[0] != common.NoModel {
		switch {
		case impl == rep && capOK(repCap):
		case impl == asf && capOK(asfCap):
			ck.asFound++
			if ck.firstAF == nil {
				ck.firstAF = &common.Case{Stream: "selector", Op: c, Model: ans[0], Impl: fmt.Sprintf("%s cap=%d", impl, cp),
					Note: "the implementation behaves like the as-found model (" + ans[1] + "), not like the repaired one"}
			}
		default:
			ck.res.Diverge(common.Case{Stream: "selector", Op: c, Model: ans[0] + " | as found: " + ans[1], Impl: fmt.Sprintf("%s cap=%d", impl, cp)})
		}
	}
	if v := oracleBSWL(c.Eps, status, list, stack); v != nil {
		ck.violate(c, v, ans[0], impl)
	}
	ck.res.Sample(map[string]interface{}{"bswl": weightsOf(c.Eps), "impl": trunc(impl, 120)})
}

func trunc(s string, n int) string {
	if len(s) > n {
		return s[:n] + "..."
	}
	return s
}

func expandLen(c caseJ) int {
	n := 0
	for _, op := range c.Ops {
		if op.K == "S" && op.Rep > 1 {
			n += op.Rep
		} else {
			n++
		}
	}
	return n
}

func (ck *checker) checkSeq(c caseJ) prepared {
	rs := runImplSeq(c)
	if reflectErr != nil {
		ck.res.Fatal(ck.o.Out, reflectErr)
	}
	var lines []string
	if c.Sel != "conhash" {
		lines = []string{modelLine("repaired", c, rs), modelLine("asfound", c, rs)}
	}
	return prepared{lines: lines, fin: func(ans []string) { ck.finSeq(c, rs, ans) }}
}

func (ck *checker) finSeq(c caseJ, rs []stepRes, ans []string) {
	impl := implToks(rs)
	implS := strings.Join(impl, " ")
	modelS := ""
	if c.Sel != "conhash" {
		modelS = ans[0]
		if ans[0] != common.NoModel {
			rep, asf := strings.Fields(ans[0]), strings.Fields(ans[1])
			if d := firstDiff(rep, impl); d >= 0 {
				if firstDiff(asf, impl) < 0 {
					ck.asFound++
					if ck.firstAF == nil {
						ck.firstAF = &common.Case{Stream: "selector", Op: c, Model: trunc(ans[0], 2000), Impl: trunc(implS, 2000),
							Note: fmt.Sprintf("step %d: the implementation behaves like the as-found model, not like the repaired one", d)}
					}
				} else {
					ck.res.Diverge(common.Case{Stream: "selector", Op: c, Model: trunc(ans[0], 4000) + " | as found: " + trunc(ans[1], 2000),
						Impl: trunc(implS, 4000), Note: fmt.Sprintf("first differing step %d", d)})
				}
			}
		}
		if ck.verbose {
			fmt.Printf("model(repaired): %s\nmodel(as found): %s\n", trunc(ans[0], 3000), trunc(ans[1], 3000))
		}
	}
	if ck.verbose {
		fmt.Printf("impl:            %s\n", trunc(implS, 3000))
	}
	ew := "plain"
	if c.EW {
		ew = "weighted"
	}
	sels := 0
	for _, r := range rs {
		if strings.HasPrefix(r.tok, "sel:") {
			sels++
		}
	}
	if c.Own == "manager" {
		ck.res.Histogram["own:manager-style-in-place-updates"]++
	} else {
		ck.res.Histogram["own:refresh-slice-overwritten"]++
	}
	ck.res.Count(c.Sel+"/"+ew+"/"+implS, "seq:"+c.Sel+":"+ew+":"+c.Tag, sels > 0 && len(c.Ops) > 1)
	ck.res.TracesValidated++
	if v := oracleSeq(c, rs); v != nil {
		if !ck.shrinkOff && !ck.shrunken[v.sig] {
			ck.shrunken[v.sig] = true
			c = shrink(c, v.sig)
			rs = runImplSeq(c)
			if v2 := oracleSeq(c, rs); v2 != nil && v2.sig == v.sig {
				v = v2
			}
			implS = strings.Join(implToks(rs), " ")
		}
		ck.violate(c, v, trunc(modelS, 1500), trunc(implS, 1500))
	}
	if len(c.Ops) <= 6 {
		ck.res.Sample(map[string]interface{}{"seq": c.Sel + "/" + ew, "ops": len(c.Ops), "impl": trunc(implS, 160)})
	}
}

// shrink: greedily drop operations / shorten bursts while the same violation persists
func shrink(c caseJ, sig string) caseJ {
	still := func(x caseJ) bool {
		v := oracleSeq(x, runImplSeq(x))
		return v != nil && v.sig == sig
	}
	for pass := 0; pass < 4; pass++ {
		changed := false
		for i := 0; i < len(c.Ops); i++ {
			x := c
			x.Ops = append(append([]opJ{}, c.Ops[:i]...), c.Ops[i+1:]...)
			if still(x) {
				c, changed = x, true
				i--
			}
		}
		for i := range c.Ops {
			for c.Ops[i].K == "S" && c.Ops[i].Rep > 1 {
				x := c
				x.Ops = append([]opJ{}, c.Ops...)
				x.Ops[i].Rep = c.Ops[i].Rep / 2
				if !still(x) {
					break
				}
				c, changed = x, true
			}
			if c.Ops[i].K == "R" {
				for j := 0; j < len(c.Ops[i].Eps); j++ {
					x := c
					x.Ops = append([]opJ{}, c.Ops...)
					x.Ops[i].Eps = append(append([]epJ{}, c.Ops[i].Eps[:j]...), c.Ops[i].Eps[j+1:]...)
					if still(x) {
						c, changed = x, true
						j--
					}
				}
			}
		}
		if !changed {
			break
		}
	}
	return c
}

func (ck *checker) checkConc(c caseJ) {
	v := runConcurrent(c)
	ew := "plain"
	if c.EW {
		ew = "weighted"
	}
	cls := "conc:" + c.Sel + ":" + ew
	if c.Conc.Updates == 0 {
		cls = "conc-select-only:" + c.Sel
	}
	ck.res.Count(fmt.Sprintf("conc/%s/%s/%d", c.Sel, ew, c.Conc.Seed), cls, true)
	if ck.verbose {
		fmt.Printf("concurrent run: %v\n", v)
	}
	if v != nil {
		ck.violate(c, v, "", v.what)
	}
}

func (ck *checker) checkOOM(c caseJ) {
	impl, v := runOOMChild(c)
	ck.res.Count(fmt.Sprintf("oom/%d/%d", c.N, c.W), "oom-child", true)
	ck.res.Note("allocation probe (child process, %d endpoints of weight %d): %s", c.N, c.W, impl)
	if ck.verbose {
		fmt.Printf("impl (child process): %s\n", impl)
	}
	if v != nil {
		ck.violate(c, v, "repaired model: capacity <= 100*N+1 (theorem C13_alloc_bounded); as found: sum(weights)+100", impl)
	}
}

// prepared: the implementation has been run; the model lines are answered in batches
type prepared struct {
	lines []string
	fin   func(ans []string)
}

func (ck *checker) check(c caseJ) {
	switch c.Kind {
	case "bswl":
		ck.buf = append(ck.buf, ck.checkBSWL(c))
	case "seq":
		ck.buf = append(ck.buf, ck.checkSeq(c))
	case "conc":
		ck.flush()
		ck.checkConc(c)
	case "oom-child":
		ck.flush()
		ck.checkOOM(c)
	}
	if len(ck.buf) >= 400 {
		ck.flush()
	}
}

func (ck *checker) flush() {
	var lines []string
	for _, p := range ck.buf {
		lines = append(lines, p.lines...)
	}
	var ans []string
	if len(lines) > 0 {
		ans = ck.ask(lines...)
	}
	k := 0
	for _, p := range ck.buf {
		p.fin(ans[k : k+len(p.lines)])
		k += len(p.lines)
	}
	ck.buf = ck.buf[:0]
}

// regression witness (repaired in TarsGo f9f5b11): weighted consistent hash, Remove with another weight than Add
func reweightedWitness() caseJ {
	a := epJ{Host: "10.0.0.1", Port: 1, Proto: "tcp", W: 400, WT: 1}
	b := epJ{Host: "10.0.0.2", Port: 1, Proto: "tcp", W: 4, WT: 1}
	a2 := a
	a2.W = 4
	return caseJ{Kind: "seq", Sel: "conhash", EW: true, Tag: "reweighted", Ops: []opJ{
		{K: "A", Eps: []epJ{a}}, {K: "A", Eps: []epJ{b}}, {K: "D", Eps: []epJ{a2}}, {K: "S", Arg: 0, Step: 429496, Rep: 64}}}
}

func main() {
	o := common.ParseOpts()
	if strings.HasPrefix(o.Extra, "child-oom:") {
		f := strings.Split(o.Extra, ":")
		n, _ := strconv.Atoi(f[1])
		w, _ := strconv.Atoi(f[2])
		childOOM(n, int32(w))
		return
	}
	res := common.NewResult("C13", o)
	res.Streams = []string{"selector"}
	rng := o.Rand()
	model := o.Model
	if strings.HasSuffix(model, "tm_wire") { // default of ParseOpts when run by hand
		model = strings.TrimSuffix(model, "tm_wire") + "tm_selector"
	}
	m, err := common.StartModel(model, "selector")
	if err != nil {
		res.Fatal(o.Out, err)
	}
	defer m.Close()
	ck := &checker{o: o, res: res, m: m, shrunken: map[string]bool{}}

	if o.Replay != "" {
		var c caseJ
		if err := common.ReadReplay(o.Replay, &c); err != nil {
			res.Fatal(o.Out, err)
		}
		ck.verbose = true
		ck.shrinkOff = true // a replay re-executes exactly the recorded case
		ck.check(c)
		ck.finish()
		return
	}

	thorough := o.Thorough()
	var cases []caseJ
	// 0. allocation probe in a child process, first: it decides whether weights near 2^31 may be fed to
	// the in-process streams
	nv := len(res.Violations)
	ck.check(caseJ{Kind: "oom-child", N: 64, W: math.MaxInt32})
	if len(res.Violations) > nv {
		hugeWeightsOK = false
		res.Note("weights near 2^31 are left out of the in-process streams: the allocation of BuildStaticWeightList is not bounded on this tree")
	}
	if strconv.IntSize != 64 {
		res.Note("Go int is %d bit on this platform: the model's unbounded integers agree with int(node.Weight)*maxRange only for 64-bit int", strconv.IntSize)
	}
	// 1. BuildStaticWeightList, element-wise
	cases = append(cases, genBSWL(rng, thorough)...)
	// 2. D2 witnesses at the selector level (always run)
	for _, sel := range []string{"rr", "random", "modhash"} {
		cases = append(cases, caseJ{Kind: "seq", Sel: sel, EW: true, Tag: "d2", Ops: []opJ{
			{K: "A", Eps: fixedEps(0)}, {K: "S", Rep: 2}, {K: "R", Eps: fixedEps(5, -200)}, {K: "S", Rep: 3}}})
	}
	// 2b. ownership of the Refresh argument (always run): the caller overwrites its buffer; the
	// endpointmanager sequence (in-place delete from the caller's list, then Remove), first a
	// non-last endpoint, then the last one, then the remaining one
	for _, sel := range []string{"rr", "random", "modhash", "conhash"} {
		for _, ew := range []bool{false, true} {
			u := fixedEps(100, 100, 100)
			for _, own := range []string{"garbage", "manager"} {
				cases = append(cases, caseJ{Kind: "seq", Sel: sel, EW: ew, Tag: "ownership", Own: own, Ops: []opJ{
					{K: "R", Eps: u}, {K: "S", Step: 1, Rep: 64}, {K: "D", Eps: u[:1]}, {K: "S", Step: 1, Rep: 64},
					{K: "D", Eps: u[2:]}, {K: "S", Step: 1, Rep: 64}, {K: "D", Eps: u[1:2]}, {K: "S", Step: 1, Rep: 4},
					{K: "A", Eps: u[2:]}, {K: "S", Step: 1, Rep: 8}}})
			}
		}
	}
	// 2c. equal static weights, endpoint values built in every way (always run): the weighted round
	// robin must rotate strictly (every window of N selections hits each host once), the tie between
	// equal running weights being broken by String(), never by a field that may be empty or shared
	for _, n := range []int{2, 3, 4, 5, 7, 13, 20} {
		ws := make([]int32, n)
		for i := range ws {
			ws[i] = 5
		}
		for _, km := range []string{"", "tars", "empty", "dup", "other"} {
			u := withKeys(fixedEps(ws...), km)
			cases = append(cases, caseJ{Kind: "bswl", Eps: u, Tag: "equal-keys"})
			for _, sel := range []string{"rr", "modhash", "random"} {
				cases = append(cases, caseJ{Kind: "seq", Sel: sel, EW: true, Tag: "equal-keys", Own: "garbage", Ops: []opJ{
					{K: "R", Eps: u}, {K: "S", Step: 1, Rep: 10*n + n + 1}, {K: "D", Eps: u[:1]}, {K: "S", Step: 1, Rep: 3 * n}}})
			}
		}
	}
	// 3. random histories, every strategy, weighted and not, every weight profile
	nseq := 500
	maxOps := 40
	if thorough {
		nseq = 5000
	}
	for _, sel := range []string{"rr", "random", "modhash", "conhash"} {
		for _, ew := range []bool{false, true} {
			for i := 0; i < nseq; i++ {
				p := profiles[rng.Intn(len(profiles))]
				if ew && p == "big" && sel != "conhash" && i%4 != 0 {
					p = "static"
				}
				if p == "extreme" && ((sel == "conhash" && ew) || !hugeWeightsOK) {
					p = "ratio" // weighted consistent hash places weight/4 virtual nodes per endpoint
				}
				if ew && p == "hugemix" && (sel == "conhash" || !hugeWeightsOK) {
					// sub-lists of this universe do not cancel: as found a single such endpoint makes
					// BuildStaticWeightList ask for 16 GiB; huge weights are covered by the element-wise
					// stream (whole universes) and by the child-process probe
					p = "neg"
				}
				if sel == "conhash" && (p == "big" || p == "hugemix") {
					p = "ratio" // ring size grows with the weight; the ring itself is C14's subject
				}
				// endpoints handed to Add/Remove may carry another weight than the one registered for the host
				cases = append(cases, genSeq(rng, sel, ew, p, maxOps, i%3 == 0))
			}
		}
	}
	// 4. small exhaustive histories (streamed: checked as they are generated)
	for _, c := range cases {
		ck.check(c)
	}
	cases = cases[:0]
	uPos := []epJ{{Host: "a", Port: 1, Proto: "tcp", W: 2, WT: 1}, {Host: "b", Port: 1, Proto: "tcp", W: 1, WT: 1}, {Host: "c", Port: 1, Proto: "udp", W: 4, WT: 1}}
	uBad := []epJ{{Host: "a", Port: 1, Proto: "tcp", W: 0, WT: 1}, {Host: "b", Port: 1, Proto: "tcp", W: -3, WT: 1}, {Host: "c", Port: 1, Proto: "udp", W: 5, WT: 1}}
	exLen := 4
	genExhaustive(ck.check, "rr", true, uPos, exLen, "exhaustive-pos")
	genExhaustive(ck.check, "rr", false, uPos, exLen, "exhaustive-pos")
	genExhaustive(ck.check, "rr", true, uBad, exLen, "exhaustive-bad")
	genExhaustive(ck.check, "modhash", true, uPos, exLen, "exhaustive-pos")
	genExhaustive(ck.check, "random", true, uBad, exLen-1, "exhaustive-bad")
	genExhaustive(ck.check, "conhash", true, uBad, exLen-1, "exhaustive-bad")
	// equal static weights, plain struct values without Key: cycle 10, 10, 10 in strict rotation
	uEq := withKeys([]epJ{{Host: "a", Port: 1, Proto: "tcp", W: 3, WT: 1}, {Host: "b", Port: 1, Proto: "tcp", W: 3, WT: 1},
		{Host: "c", Port: 1, Proto: "udp", W: 3, WT: 1}}, "empty")
	genExhaustive(ck.check, "rr", true, uEq, exLen, "exhaustive-equal-nokey")
	if hugeWeightsOK {
		// W*R = 2.1e10 for a and b, 2 147 483 650 for c: expected cycle 10, 10, 1
		uBig := []epJ{{Host: "a", Port: 1, Proto: "tcp", W: math.MaxInt32, WT: 1}, {Host: "b", Port: 1, Proto: "tcp", W: math.MaxInt32 - 1, WT: 1},
			{Host: "c", Port: 1, Proto: "udp", W: 214748365, WT: 1}}
		genExhaustive(ck.check, "rr", true, uBig, exLen, "exhaustive-extreme")
		genExhaustive(ck.check, "modhash", true, uBig, exLen-1, "exhaustive-extreme")
		genExhaustive(ck.check, "random", true, uBig, exLen-1, "exhaustive-extreme")
	}
	if thorough {
		genExhaustive(ck.check, "rr", true, uPos, 5, "exhaustive-pos")
		genExhaustive(ck.check, "rr", true, uBad, 5, "exhaustive-bad")
	}
	// 5. weighted consistent hash, Remove with another weight than Add: before TarsGo f9f5b11 Remove
	// recomputed the virtual-node count from its argument and left ring points of the removed host
	cases = append(cases, reweightedWitness())
	nrw := 20
	if thorough {
		nrw = 300
	}
	for i := 0; i < nrw; i++ {
		cases = append(cases, genSeq(rng, "conhash", true, "static", 12, true))
	}
	// 6. concurrent selections and updates (supporting test)
	nconc := 1
	upd := 1500
	if thorough {
		nconc, upd = 4, 6000
	}
	for _, sel := range []string{"rr", "random", "modhash", "conhash"} {
		for _, ew := range []bool{false, true} {
			for i := 0; i < nconc; i++ {
				p := "static"
				if i%2 == 1 {
					p = "zero"
				}
				if ew && sel != "conhash" && hugeWeightsOK && i%2 == 0 {
					p = "extreme"
				}
				cases = append(cases, caseJ{Kind: "conc", Sel: sel, EW: ew, Tag: p,
					Conc: &concJ{Uni: universe(rng, 6, p), Updates: upd, Selectors: 4, Seed: rng.Int63()}})
			}
		}
	}
	// 6b. concurrent selections only (no update at all)
	for _, sel := range []string{"rr", "random", "modhash", "conhash"} {
		minSel := 150000
		if sel == "random" {
			minSel = 1000000 // math/rand.Rand shared by the selecting goroutines
		}
		if thorough {
			minSel *= 3
		}
		cases = append(cases, caseJ{Kind: "conc", Sel: sel, EW: sel == "random", Tag: "select-only",
			Conc: &concJ{Uni: universe(rng, 5, "static"), Updates: 0, Selectors: 8, MinSel: minSel, Seed: rng.Int63()}})
	}
	for _, c := range cases {
		ck.check(c)
	}
	ck.finish()
}

func (ck *checker) finish() {
	ck.flush()
	res := ck.res
	if ck.asFound > 0 {
		res.Histogram["as-found-behaviour"] = ck.asFound
		res.Note("%d cases behave like the as-found model (D2 guard not applied to this tree)", ck.asFound)
		d2 := false
		for _, v := range res.Violations {
			if strings.Contains(v.Signature, "BuildStaticWeightList") {
				d2 = true
			}
		}
		if !d2 && ck.firstAF != nil {
			// the tree does not behave like the repaired model and no violation explains it
			res.Diverge(*ck.firstAF)
		}
	}
	res.Rule = "cases = BuildStaticWeightList on weight vectors (witness/boundary vectors, all vectors over a small range, random " +
		"universes: equal/static/large-ratio/zero/negative/very-negative/all-negative/big/huge-mixed/mixed weight types) compared " +
		"element-wise and by requested capacity; Refresh/Add/Remove/Select histories (random <= 40 ops + bursts of up to two cycles, and all " +
		"histories of a fixed length over a 3-host alphabet) on roundrobin/random/modhash (compared step by step with the model; random: " +
		"membership in the model's outcome set) and consistenthash (oracle only); a concurrent select-vs-update run per strategy; one " +
		"child-process allocation probe; non-trivial = distinct (strategy, weighted, result sequence) with at least one successful selection"
	sort.Slice(res.Violations, func(i, j int) bool { return res.Violations[i].Signature < res.Violations[j].Signature })
	if err := res.Write(ck.o.Out); err != nil {
		panic(err)
	}
}
