package main

// Application-level stream of C12: a REAL application (tars.Run from a generated config file) with
// several tars adapters, each served by the stub protocol of this harness through the public
// tars.AddServantWithProtocol, is shut down the way the framework does it: the process receives SIGTERM,
// grace.GraceHandler calls application.graceShutdown, which must call Shutdown on EVERY adapter's
// TarsServer and return (tars.Run then returns) only when all of them have drained or the
// gracedowntimeout has expired. The framework keeps its application in package-level state, so every
// app scenario runs in a child process (this binary with `-extra app-child`, scenario on stdin, result
// on stdout). Each adapter has its own recorder / history and is judged by the same oracle as a single
// server (every read request answered before its connection is closed, close message, EOF, return not
// before all adapters are closed), and its history is replayed through the per-server LTS.

import (
	"bytes"
	"encoding/json"
	"fmt"
	"net"
	"os"
	"os/exec"
	"path/filepath"
	"strings"
	"sync"
	"syscall"
	"time"

	"github.com/TarsCloud/TarsGo/tars"
)

type adapterOut struct {
	Events     []event       `json:"events"`
	Err        string        `json:"err,omitempty"`
	ShutCalled time.Duration `json:"shut_called"`
	ShutRet    time.Duration `json:"shut_ret"`
	Ctx        time.Duration `json:"ctx"`
}

type appChildResult struct {
	Adapters []adapterOut `json:"adapters"`
	Err      string       `json:"err,omitempty"`
}

func appConfig(dir string, sc Scenario, ports []int) string {
	var sb strings.Builder
	sb.WriteString("<tars>\n<application>\n<server>\napp=App\nserver=Server\nlocalip=127.0.0.1\nlogLevel=ERROR\n")
	fmt.Fprintf(&sb, "logpath=%s\ndatapath=%s\nbasepath=%s\n", dir, dir, dir)
	fmt.Fprintf(&sb, "maxroutine=%d\n", sc.Pool)
	if sc.QCap > 0 {
		fmt.Fprintf(&sb, "queuecap=%d\n", sc.QCap)
	}
	fmt.Fprintf(&sb, "gracedowntimeout=%d\nidletimeout=3600000\n", sc.CtxMs)
	for i, p := range ports {
		fmt.Fprintf(&sb, "<App.Server.Adapter%d>\nendpoint=tcp -h 127.0.0.1 -p %d -t 60000\nservant=App.Server.Obj%d\nprotocol=tars\nthreads=2\n</App.Server.Adapter%d>\n", i, p, i, i)
	}
	sb.WriteString("</server>\n<client>\nasync-invoke-timeout=3000\n</client>\n</application>\n</tars>\n")
	return sb.String()
}

func freePort() (int, error) {
	l, err := net.Listen("tcp", "127.0.0.1:0")
	if err != nil {
		return 0, err
	}
	defer l.Close()
	return l.Addr().(*net.TCPAddr).Port, nil
}

// runAppChild runs in the child process.
func runAppChild(sc Scenario) appChildResult {
	n := len(sc.Adapters)
	res := appChildResult{Adapters: make([]adapterOut, n)}
	dir, err := os.MkdirTemp("", "verif-c12-app-")
	if err != nil {
		res.Err = err.Error()
		return res
	}
	defer os.RemoveAll(dir)
	ports := make([]int, n)
	for i := range ports {
		if ports[i], err = freePort(); err != nil {
			res.Err = err.Error()
			return res
		}
	}
	path := filepath.Join(dir, "server.conf")
	if err := os.WriteFile(path, []byte(appConfig(dir, sc, ports)), 0o644); err != nil {
		res.Err = err.Error()
		return res
	}
	start := time.Now()
	recs := make([]*recorder, n)
	protos := make([]*proto, n)
	tars.ServerConfigPath = path
	tars.GetServerConfig() // must precede the servants
	for i := 0; i < n; i++ {
		recs[i] = &recorder{t0: start, last: start}
		protos[i] = newProto(recs[i])
		tars.AddServantWithProtocol(protos[i], fmt.Sprintf("App.Server.Obj%d", i))
	}
	returned := make(chan struct{})
	var tCall time.Time
	grace := time.Duration(sc.CtxMs) * time.Millisecond
	go func() {
		tars.Run() // returns after graceShutdown (teerDown → mainLoop)
		took := time.Since(tCall)
		for _, r := range recs {
			r.add(event{Kind: "T", Arg: retArg(took, grace)})
		}
		close(returned)
	}()

	// every adapter's clients reach their trigger point, then ONE SIGTERM for the whole application
	var ready sync.WaitGroup
	ready.Add(n)
	fired := make(chan struct{})
	go func() {
		ready.Wait()
		for _, r := range recs {
			r.add(event{Kind: "H"})
		}
		tCall = time.Now()
		syscall.Kill(os.Getpid(), syscall.SIGTERM)
		close(fired)
	}()
	var wg sync.WaitGroup
	for i := 0; i < n; i++ {
		wg.Add(1)
		go func(i int) {
			defer wg.Done()
			signalled := false
			out := drive(sc.adapterScenario(i), recs[i], protos[i], fmt.Sprintf("127.0.0.1:%d", ports[i]), start,
				func() (time.Time, time.Duration, <-chan struct{}) {
					signalled = true
					ready.Done()
					<-fired
					return tCall, grace, returned
				})
			if !signalled {
				ready.Done() // this adapter's script failed before its trigger: do not block the others
			}
			res.Adapters[i] = adapterOut{Events: out.evs, Err: out.err, ShutCalled: out.shutCalled, ShutRet: out.shutRet, Ctx: out.ctx}
		}(i)
	}
	wg.Wait()
	return res
}

// runAppScenario runs one app scenario in a child process and returns one outcome per adapter.
func runAppScenario(sc Scenario) ([]outcome, string) {
	self, err := os.Executable()
	if err != nil {
		return nil, err.Error()
	}
	in, _ := json.Marshal(sc)
	cmd := exec.Command(self, "-extra", "app-child")
	cmd.Stdin = bytes.NewReader(in)
	var stdout, stderr bytes.Buffer
	cmd.Stdout, cmd.Stderr = &stdout, &stderr
	if err := cmd.Start(); err != nil {
		return nil, err.Error()
	}
	done := make(chan error, 1)
	go func() { done <- cmd.Wait() }()
	select {
	case err = <-done:
	case <-time.After(time.Duration(sc.CtxMs)*time.Millisecond + 90*time.Second):
		cmd.Process.Kill()
		return nil, "application child did not finish"
	}
	var res appChildResult
	// the result is the last line of stdout (the framework may print before it)
	lines := bytes.Split(bytes.TrimSpace(stdout.Bytes()), []byte("\n"))
	if len(lines) == 0 || json.Unmarshal(lines[len(lines)-1], &res) != nil {
		tail := stderr.String()
		if len(tail) > 600 {
			tail = tail[len(tail)-600:]
		}
		return nil, fmt.Sprintf("application child gave no result (%v): %s", err, tail)
	}
	if res.Err != "" {
		return nil, res.Err
	}
	outs := make([]outcome, len(res.Adapters))
	var floor time.Duration
	for _, a := range res.Adapters {
		for _, e := range a.Events {
			switch e.Kind {
			case "S", "O", "P", "I", "E", "R":
				if e.At > floor {
					floor = e.At
				}
			}
		}
	}
	for i, a := range res.Adapters {
		outs[i] = outcome{evs: a.Events, err: a.Err, shutCalled: a.ShutCalled, shutRet: a.ShutRet, ctx: a.Ctx, idleFloor: floor}
	}
	return outs, ""
}

func appChildMain() {
	var sc Scenario
	if err := json.NewDecoder(os.Stdin).Decode(&sc); err != nil {
		fmt.Println(`{"err":"bad scenario"}`)
		os.Exit(0)
	}
	res := runAppChild(sc)
	b, _ := json.Marshal(res)
	fmt.Println(string(b))
	os.Exit(0)
}
