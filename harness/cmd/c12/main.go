// c12: correspondence harness and property oracle for C12 (graceful shutdown answers every request
// already received).
//
// REAL transport.TarsServer instances (tars/transport: tarsserver.go, tcphandler.go, through gpool
// when MaxInvoke > 0) are run in-process over loopback TCP with a stub ServerProtocol:
//
//	request   = 16 bytes: uint32 length(16) | uint32 id | uint32 handler duration in ms | uint32 flags
//	response  =  9 bytes: uint32 length(9)  | uint32 id | 1
//	close msg =  9 bytes: uint32 length(9)  | uint32 0  | 2          (what GetCloseMsg returns)
//
// flags (low byte): 1 = hold the receiver in ParsePackage on this request; 2 = one-way request (Invoke marks the
// context TARSONEWAY: the server must not write a response); 4 = Invoke returns an empty response; flags >> 8 = size of the response in KiB (0: the 9 byte
// response), the response is then 9 bytes of header followed by padding.
// Invoke sleeps the duration and echoes the id. ParsePackage records the moment the receive loop
// sees a complete request at the head of its buffer (event P: from then on the server HAS read the
// request — the unambiguous meaning of "already read") and, for a request with flag 1, holds the
// receiver there until the harness lets it go (a goroutine preempted between conn.Read and
// handleConn's numInvoke+1). Scripted clients pipeline requests on one or several connections, before
// and shortly after Shutdown(ctx) is called; Shutdown is called before / while / after handlers run;
// pool sizes 0/1/N, queue capacities 0..64.
//
// Every scenario yields one history (events in one global order, see token()), which is
//   - judged by the property oracle (independent of the Lean model), and
//   - replayed through the Lean LTS (`admits`, variant = what the extractor saw in the tree).
//
// Scenario kinds:
//
//	plan    connections × pipelined requests × trigger (idle | parsed | started | done) × late requests × ctx
//	toctou  D16: a connection idle for > 2 s (stale idle stamp), a request whose receiver is held in
//	        ParsePackage, Shutdown: CloseIdles sees numInvoke == 0 and a stale stamp. Before the repair it
//	        closed the connection (request lost); since pending/C12-d16-closeidles-wake.patch it only
//	        wakes the receiver. With the verif hook (verifServerYield in CloseIdles, between the check
//	        and the close / wake) the receiver is released at the yield point, so that the request is
//	        in its handler when CloseIdles acts (the exact D16 interleaving); without the hook it is
//	        released once the connection is closed or Shutdown has given up.
package main

import (
	"context"
	"crypto/sha256"
	"encoding/binary"
	"encoding/json"
	"fmt"
	"io"
	"math/rand"
	"net"
	"os"
	"sort"
	"strconv"
	"strings"
	"sync"
	"time"

	"verifharness/common"

	"github.com/TarsCloud/TarsGo/tars/protocol/res/basef"
	"github.com/TarsCloud/TarsGo/tars/transport"
	"github.com/TarsCloud/TarsGo/tars/util/current"
	"github.com/TarsCloud/TarsGo/tars/util/rogger"
)

// ---------------------------------------------------------------------------------------------
// scenario

type ReqPlan struct {
	Dur    int    `json:"dur_ms"`
	LateMs int    `json:"late_ms,omitempty"` // > 0: written this long after Shutdown was called
	Stall  bool   `json:"stall,omitempty"`   // the receiver is held in ParsePackage on this request
	RspKiB int    `json:"rsp_kib,omitempty"` // size of the response (0: 9 bytes)
	Kind   string `json:"kind,omitempty"`    // "" ordinary | "oneway" TARSONEWAY packet | "empty" Invoke returns an empty response
}

type ConnPlan struct {
	Reqs []ReqPlan `json:"reqs"`
	// slow reader: the client stops reading once it is warmed up and resumes this long after the
	// shutdown was called (then it drains everything); its receive buffer is made small
	PauseMs int `json:"pause_ms,omitempty"`
}

type Scenario struct {
	Kind            string     `json:"kind"` // plan | toctou
	Pool            int        `json:"pool"` // MaxInvoke
	QCap            int        `json:"qcap"` // QueueCap
	Conns           []ConnPlan `json:"conns"`
	Trigger         string     `json:"trigger"` // when Shutdown is called: idle | parsed | started | done
	CtxMs           int        `json:"ctx_ms"`
	StaleMs         int        `json:"stale_ms,omitempty"`          // idle time before the requests (toctou)
	HandleTimeoutMs int        `json:"handle_timeout_ms,omitempty"` // TarsServerConf.HandleTimeout (0: none)
	Seq             bool       `json:"seq,omitempty"`               // a connection's requests are written only after the server has read the previous connection's
	Model           bool       `json:"model"`
	Repeat          int        `json:"repeat,omitempty"`
	// kind "app": a real application (tars.Run) with one TarsServer per adapter, all with the pool
	// settings above, shut down through the framework's own graceful shutdown (SIGTERM → graceShutdown);
	// CtxMs is the gracedowntimeout
	Adapters []AdapterPlan `json:"adapters,omitempty"`
	App      bool          `json:"app,omitempty"` // (derived) this is one adapter of an app scenario
}

// AdapterPlan is the client script of one adapter of an app scenario.
type AdapterPlan struct {
	Conns   []ConnPlan `json:"conns"`
	Trigger string     `json:"trigger"`
}

// adapterScenario is the per-adapter view of an app scenario.
func (sc Scenario) adapterScenario(j int) Scenario {
	return Scenario{Kind: "plan", Pool: sc.Pool, QCap: sc.QCap, Conns: sc.Adapters[j].Conns, Trigger: sc.Adapters[j].Trigger,
		CtxMs: sc.CtxMs, Model: sc.Model, App: true}
}

func (sc Scenario) key() string {
	b, _ := json.Marshal(sc)
	return fmt.Sprintf("%x", sha256.Sum256(b))[:16]
}

// ---------------------------------------------------------------------------------------------
// history

type event struct {
	Kind string // C S O P I E R M X D H T Y A Q
	C    int
	R    int
	Arg  string // T: 1 | 0 | x
	At   time.Duration
}

func (e event) token() string {
	switch e.Kind {
	case "C", "M", "X", "D", "Y":
		return fmt.Sprintf("%s.%d", e.Kind, e.C)
	case "S", "O", "P", "I", "E", "R":
		return fmt.Sprintf("%s.%d.%d", e.Kind, e.C, e.R)
	case "T":
		return "T." + e.Arg
	}
	return e.Kind
}

type recorder struct {
	mu   sync.Mutex
	t0   time.Time
	evs  []event
	last time.Time
}

func (r *recorder) add(e event) {
	r.mu.Lock()
	now := time.Now()
	e.At = now.Sub(r.t0)
	r.evs = append(r.evs, e)
	r.last = now
	r.mu.Unlock()
}

func (r *recorder) snapshot() []event {
	r.mu.Lock()
	defer r.mu.Unlock()
	return append([]event(nil), r.evs...)
}

func (r *recorder) count(pred func(event) bool) int {
	r.mu.Lock()
	defer r.mu.Unlock()
	n := 0
	for _, e := range r.evs {
		if pred(e) {
			n++
		}
	}
	return n
}

func (r *recorder) sinceLast() time.Duration {
	r.mu.Lock()
	defer r.mu.Unlock()
	return time.Since(r.last)
}

// ---------------------------------------------------------------------------------------------
// stub protocol

const (
	reqLen  = 16
	rspLen  = 9
	idBase  = 1000 // request id = connection index * idBase + sequence number (≥ 1)
	kindRsp = 1
	kindMsg = 2
)

type proto struct {
	rec *recorder

	mu       sync.Mutex
	ports    map[string]int // client port → connection index
	stallGo  chan struct{}  // closed to release the held receiver
	stalled  chan struct{}  // closed when the receiver is held
	stallOn  bool
	yielded  chan struct{} // closed at the first yield of the hook
	yieldGo  chan struct{} // closed to let CloseIdles go on
	yieldArm bool
}

func (p *proto) Invoke(ctx context.Context, pkg []byte) []byte {
	id := int(binary.BigEndian.Uint32(pkg[4:]))
	dur := binary.BigEndian.Uint32(pkg[8:])
	p.rec.add(event{Kind: "I", C: id / idBase, R: id % idBase})
	if dur > 0 {
		time.Sleep(time.Duration(dur) * time.Millisecond)
	}
	flags := binary.BigEndian.Uint32(pkg[12:])
	if flags&2 != 0 {
		current.SetPacketTypeFromContext(ctx, basef.TARSONEWAY)
	} else {
		current.SetPacketTypeFromContext(ctx, basef.TARSNORMAL)
	}
	p.rec.add(event{Kind: "E", C: id / idBase, R: id % idBase})
	if flags&4 != 0 {
		return nil
	}
	n := rspLen
	if kib := int(flags >> 8); kib > 0 {
		n = kib * 1024
	}
	out := make([]byte, n)
	binary.BigEndian.PutUint32(out, uint32(n))
	binary.BigEndian.PutUint32(out[4:], uint32(id))
	out[8] = kindRsp
	return out
}

func (p *proto) ParsePackage(b []byte) (int, int) {
	if len(b) < 4 {
		return 0, transport.PackageLess
	}
	l := int(binary.BigEndian.Uint32(b))
	if l != reqLen {
		return 0, transport.PackageError
	}
	if len(b) < l {
		return 0, transport.PackageLess
	}
	id := int(binary.BigEndian.Uint32(b[4:]))
	flags := binary.BigEndian.Uint32(b[12:])
	p.rec.add(event{Kind: "P", C: id / idBase, R: id % idBase})
	if flags&1 != 0 {
		p.mu.Lock()
		hold := p.stallOn
		p.stallOn = false
		p.mu.Unlock()
		if hold {
			close(p.stalled)
			<-p.stallGo
		}
	}
	return l, transport.PackageFull
}

// InvokeTimeout: the framework's answer when Invoke has not returned within HandleTimeout; for the client
// it is the response to that request.
func (p *proto) InvokeTimeout(pkg []byte) []byte {
	out := make([]byte, rspLen)
	binary.BigEndian.PutUint32(out, rspLen)
	copy(out[4:8], pkg[4:8])
	out[8] = kindRsp
	return out
}

func (p *proto) GetCloseMsg() []byte {
	out := make([]byte, rspLen)
	binary.BigEndian.PutUint32(out, rspLen)
	out[8] = kindMsg
	return out
}

func (p *proto) DoClose(ctx context.Context) {
	port, _ := current.GetClientPortFromContext(ctx)
	p.mu.Lock()
	c, ok := p.ports[port]
	p.mu.Unlock()
	if ok {
		p.rec.add(event{Kind: "D", C: c})
	}
}

// VerifServerYield is called by the verif hook of pending/C12-hook.patch (tcphandler.go, CloseIdles,
// between the check of numInvoke / idle stamp and conn.Close()). Without the hook it is never called.
func (p *proto) VerifServerYield(point string, conn net.Conn) {
	if point != "CloseIdles.beforeClose" {
		return
	}
	p.mu.Lock()
	arm := p.yieldArm
	p.yieldArm = false
	var c int
	ok := false
	if conn != nil {
		if _, port, err := net.SplitHostPort(conn.RemoteAddr().String()); err == nil {
			c, ok = p.ports[port]
		}
	}
	p.mu.Unlock()
	if !arm || !ok {
		return
	}
	p.rec.add(event{Kind: "Y", C: c})
	close(p.yielded)
	select {
	case <-p.yieldGo:
	case <-time.After(20 * time.Second):
	}
}

func request(id, dur int, flags uint32) []byte {
	out := make([]byte, reqLen)
	binary.BigEndian.PutUint32(out, reqLen)
	binary.BigEndian.PutUint32(out[4:], uint32(id))
	binary.BigEndian.PutUint32(out[8:], uint32(dur))
	binary.BigEndian.PutUint32(out[12:], flags)
	return out
}

// ---------------------------------------------------------------------------------------------
// one execution

type client struct {
	idx    int
	conn   net.Conn
	eof    chan struct{}
	mu     sync.Mutex
	resume chan struct{} // non-nil while the client does not read
}

// pause makes the read loop stop before its next frame; the returned function lets it go on.
func (c *client) pause() func() {
	ch := make(chan struct{})
	c.mu.Lock()
	c.resume = ch
	c.mu.Unlock()
	var once sync.Once
	return func() { once.Do(func() { close(ch) }) }
}

func (c *client) readLoop(rec *recorder) {
	defer close(c.eof)
	hdr := make([]byte, rspLen)
	for {
		c.mu.Lock()
		gate := c.resume
		c.mu.Unlock()
		if gate != nil {
			<-gate
			c.mu.Lock()
			c.resume = nil
			c.mu.Unlock()
		}
		if _, err := io.ReadFull(c.conn, hdr); err != nil {
			rec.add(event{Kind: "X", C: c.idx})
			return
		}
		if total := int(binary.BigEndian.Uint32(hdr)); total > rspLen {
			// the response counts as received only when all of it has arrived
			if _, err := io.CopyN(io.Discard, c.conn, int64(total-rspLen)); err != nil {
				rec.add(event{Kind: "X", C: c.idx})
				return
			}
		}
		id := int(binary.BigEndian.Uint32(hdr[4:]))
		switch hdr[8] {
		case kindRsp:
			rec.add(event{Kind: "R", C: id / idBase, R: id % idBase})
		case kindMsg:
			rec.add(event{Kind: "M", C: c.idx})
		}
	}
}

func freeAddr() (string, error) {
	l, err := net.Listen("tcp", "127.0.0.1:0")
	if err != nil {
		return "", err
	}
	a := l.Addr().String()
	l.Close()
	return a, nil
}

type outcome struct {
	idleFloor  time.Duration // app: the last activity on ANY adapter (graceShutdown waits for all of them)
	evs        []event
	shutCalled time.Duration
	shutRet    time.Duration // 0: never returned (hang)
	ctx        time.Duration
	hookSeen   bool
	heldAtEOF  bool // toctou: the receiver was still held by the harness when the client read EOF
	err        string
	elapsed    time.Duration
}

const (
	syncWait = 20 * time.Second // waiting for something that must happen (not a synchronisation by sleep)
	hardCap  = 45 * time.Second
)

func waitUntil(limit time.Duration, f func() bool) bool {
	dl := time.Now().Add(limit)
	for !f() {
		if time.Now().After(dl) {
			return false
		}
		time.Sleep(time.Millisecond)
	}
	return true
}

// shutdowner triggers the graceful shutdown: it records H (and later T) in the history and returns the
// moment of the call, the deadline's length and a channel closed when the shutdown call has returned.
type shutdowner func() (tCall time.Time, ctxDur time.Duration, done <-chan struct{})

func newProto(rec *recorder) *proto {
	return &proto{rec: rec, ports: map[string]int{}, stallGo: make(chan struct{}), stalled: make(chan struct{}),
		yielded: make(chan struct{}), yieldGo: make(chan struct{})}
}

func retArg(took, ctxDur time.Duration) string {
	if took < ctxDur-60*time.Millisecond {
		return "1"
	} else if took > ctxDur+60*time.Millisecond {
		return "0"
	}
	return "x"
}

// runScenario: one transport.TarsServer of its own, Shutdown(ctx) called directly.
func runScenario(sc Scenario) (out outcome) {
	start := time.Now()
	rec := &recorder{t0: start, last: start}
	p := newProto(rec)
	var srv *transport.TarsServer
	var addr string
	for try := 0; ; try++ {
		a, err := freeAddr()
		if err != nil {
			out.err = "no free port: " + err.Error()
			return
		}
		conf := &transport.TarsServerConf{Proto: "tcp", Address: a, MaxInvoke: int32(sc.Pool), QueueCap: sc.QCap,
			AcceptTimeout: 500 * time.Millisecond, IdleTimeout: time.Hour, TCPNoDelay: true,
			TCPReadBuffer: 64 * 1024, TCPWriteBuffer: 64 * 1024,
			HandleTimeout: time.Duration(sc.HandleTimeoutMs) * time.Millisecond}
		s := transport.NewTarsServer(p, conf)
		if err := s.Listen(); err != nil {
			if try < 8 {
				continue
			}
			out.err = "listen: " + err.Error()
			return
		}
		srv, addr = s, a
		break
	}
	go func() {
		srv.Serve()
		rec.add(event{Kind: "A"})
	}()
	return drive(sc, rec, p, addr, start, func() (time.Time, time.Duration, <-chan struct{}) {
		ctxDur := time.Duration(sc.CtxMs) * time.Millisecond
		ctx, cancel := context.WithTimeout(context.Background(), ctxDur)
		done := make(chan struct{})
		rec.add(event{Kind: "H"})
		tCall := time.Now()
		go func() {
			defer cancel()
			srv.Shutdown(ctx)
			rec.add(event{Kind: "T", Arg: retArg(time.Since(tCall), ctxDur)})
			close(done)
		}()
		return tCall, ctxDur, done
	})
}

// drive plays the clients of one server (one adapter) and observes it through the graceful shutdown.
func drive(sc Scenario, rec *recorder, p *proto, addr string, start time.Time, shut shutdowner) (out outcome) {
	defer func() { out.elapsed = time.Since(start) }()

	// connections; each is warmed up with one request so that its receive loop is known to run (the
	// connection is in the server's table) before anything else happens
	clients := make([]*client, len(sc.Conns))
	seq := make([]int, len(sc.Conns))
	send := func(c int, reqs []ReqPlan) {
		var buf []byte
		for _, r := range reqs {
			seq[c]++
			var fl uint32
			if r.Stall {
				fl = 1
			}
			kind := "S"
			switch r.Kind {
			case "oneway":
				fl |= 2
				kind = "O"
			case "empty":
				fl |= 4
				kind = "O"
			}
			fl |= uint32(r.RspKiB) << 8
			rec.add(event{Kind: kind, C: c, R: seq[c]})
			buf = append(buf, request(c*idBase+seq[c], r.Dur, fl)...)
		}
		clients[c].conn.Write(buf) // one segment: pipelined
	}
	for i := range sc.Conns {
		var conn net.Conn
		var err error
		for dl := time.Now().Add(10 * time.Second); ; {
			conn, err = net.DialTimeout("tcp", addr, 2*time.Second)
			if err == nil || time.Now().After(dl) {
				break
			}
			time.Sleep(20 * time.Millisecond)
		}
		if err != nil {
			out.err = "dial: " + err.Error()
			return
		}
		_, port, _ := net.SplitHostPort(conn.LocalAddr().String())
		p.mu.Lock()
		p.ports[port] = i
		p.mu.Unlock()
		if sc.Conns[i].PauseMs > 0 {
			if tc, ok := conn.(*net.TCPConn); ok {
				tc.SetReadBuffer(32 * 1024)
			}
		}
		clients[i] = &client{idx: i, conn: conn, eof: make(chan struct{})}
		rec.add(event{Kind: "C", C: i})
		go clients[i].readLoop(rec)
		send(i, []ReqPlan{{Dur: 0}})
	}
	warm := len(sc.Conns)
	if !waitUntil(syncWait, func() bool { return rec.count(func(e event) bool { return e.Kind == "R" }) >= warm }) {
		out.err = "warm-up requests not answered"
		out.evs = rec.snapshot()
		return
	}
	if sc.StaleMs > 0 {
		time.Sleep(time.Duration(sc.StaleMs) * time.Millisecond) // lets the idle stamps grow old (that is the scenario)
	}

	// slow readers stop reading now
	resumes := map[int]func(){}
	for i, cp := range sc.Conns {
		if cp.PauseMs > 0 {
			resumes[i] = clients[i].pause()
		}
	}
	defer func() {
		for _, f := range resumes {
			f()
		}
	}()

	// pre-shutdown requests
	pre, stallPlanned := 0, false
	for i, cp := range sc.Conns {
		var now []ReqPlan
		for _, r := range cp.Reqs {
			if r.LateMs == 0 {
				now = append(now, r)
				if r.Stall {
					stallPlanned = true
				}
			}
		}
		if stallPlanned {
			p.mu.Lock()
			p.stallOn = true
			p.mu.Unlock()
		}
		if len(now) > 0 {
			send(i, now)
			pre += len(now)
			if sc.Seq && !stallPlanned {
				want := warm + pre
				if !waitUntil(syncWait, func() bool { return rec.count(func(e event) bool { return e.Kind == "P" }) >= want }) {
					out.err = "requests not parsed (seq)"
				}
			}
		}
	}
	cnt := func(kind string) int { return rec.count(func(e event) bool { return e.Kind == kind }) }
	switch sc.Trigger {
	case "parsed", "started":
		// With a pool the receiver of a connection blocks in handleConn once N jobs run, one is held by
		// the dispatcher and Q are queued: wait for what can be parsed at all.
		want := pre
		if sc.Pool > 0 && len(sc.Conns) == 1 && want > sc.Pool+sc.QCap+2 {
			want = sc.Pool + sc.QCap + 2
		}
		if sc.Pool > 0 && len(sc.Conns) > 1 {
			want = 0 // several receivers share the queue: no exact count; just require one
			if pre > 0 {
				want = 1
			}
		}
		if stallPlanned {
			select {
			case <-p.stalled:
			case <-time.After(syncWait):
				out.err = "receiver never reached the stalling request"
			}
		} else if !waitUntil(syncWait, func() bool { return cnt("P") >= warm+want }) {
			out.err = "requests not parsed"
		}
		if sc.Trigger == "started" && pre > 0 && !stallPlanned {
			if !waitUntil(syncWait, func() bool { return cnt("I") >= warm+1 }) {
				out.err = "no handler started"
			}
		}
	case "ended": // every Invoke has returned (the responses may still be stuck behind a client that does not read)
		if !waitUntil(syncWait+time.Duration(totalDur(sc))*time.Millisecond, func() bool { return cnt("E") >= warm+pre }) {
			out.err = "handlers did not finish"
		}
	case "done":
		if !waitUntil(syncWait+time.Duration(totalDur(sc))*time.Millisecond, func() bool { return settled(rec.snapshot()) >= warm+pre }) {
			out.err = "pre-shutdown requests not answered"
		}
	}
	if out.err != "" {
		out.evs = rec.snapshot()
		return
	}

	// Shutdown
	if sc.Kind == "toctou" {
		p.mu.Lock()
		p.yieldArm = true
		p.mu.Unlock()
	}
	tCall, ctxDur, shutDone := shut()
	out.ctx = ctxDur
	out.shutCalled = tCall.Sub(start)
	for i, f := range resumes {
		time.AfterFunc(time.Until(tCall.Add(time.Duration(sc.Conns[i].PauseMs)*time.Millisecond)), f)
	}

	// late requests (written after Shutdown was called, before its first poll)
	var lateWG sync.WaitGroup
	for i, cp := range sc.Conns {
		var late []ReqPlan
		d := 0
		for _, r := range cp.Reqs {
			if r.LateMs > 0 {
				late = append(late, r)
				d = r.LateMs
			}
		}
		if len(late) > 0 {
			lateWG.Add(1)
			go func(i, d int, late []ReqPlan) {
				defer lateWG.Done()
				time.Sleep(time.Until(tCall.Add(time.Duration(d) * time.Millisecond))) // the scenario's own timing
				send(i, late)
			}(i, d, late)
		}
	}

	if sc.Kind == "toctou" && stallPlanned {
		// hold the receiver until CloseIdles has looked at (and, as found, closed) the connection
		sconn := clients[stallConn(sc)]
		select {
		case <-p.yielded:
			// hook present: CloseIdles has loaded numInvoke == 0 and is about to Close(). Let the
			// receiver dispatch the request and the handler start, then let CloseIdles close.
			out.hookSeen = true
			close(p.stallGo)
			waitUntil(syncWait, func() bool { return cnt("I") >= warm+1 })
			select {
			case <-sconn.eof:
			default:
				out.heldAtEOF = true // the close comes while the request is in the server's hands
			}
			close(p.yieldGo)
		case <-sconn.eof:
			out.heldAtEOF = true // closed while the harness holds the receiver: not by the receiver
			close(p.stallGo)
		case <-time.After(ctxDur + 3*time.Second):
			close(p.stallGo) // CloseIdles left the connection alone
		}
	}

	select {
	case <-shutDone:
		out.shutRet = time.Since(start)
	case <-time.After(ctxDur + 8*time.Second):
		out.shutRet = 0
	}
	lateWG.Wait()

	// quiescence: every connection closed, or nothing has happened for a long time and no handler runs
	quiet := time.Duration(maxDur(sc)+1800) * time.Millisecond
	capAt := time.Now().Add(hardCap)
	for time.Now().Before(capAt) {
		allEOF := true
		for _, c := range clients {
			select {
			case <-c.eof:
			default:
				allEOF = false
			}
		}
		if allEOF && rec.sinceLast() > 300*time.Millisecond {
			break
		}
		if rec.sinceLast() > quiet && cnt("I") == cnt("E") {
			break
		}
		time.Sleep(20 * time.Millisecond)
	}
	rec.add(event{Kind: "Q"})
	out.evs = rec.snapshot()
	for _, c := range clients {
		c.conn.Close()
	}
	return
}

// settled counts the requests that are over from the client's point of view: a response received, or —
// for a request that gets none — its Invoke returned.
func settled(evs []event) int {
	type rk struct{ c, r int }
	nr := map[rk]bool{}
	n := 0
	for _, e := range evs {
		switch e.Kind {
		case "O":
			nr[rk{e.C, e.R}] = true
		case "R":
			n++
		case "E":
			if nr[rk{e.C, e.R}] {
				n++
			}
		}
	}
	return n
}

func stallConn(sc Scenario) int {
	for i, c := range sc.Conns {
		for _, r := range c.Reqs {
			if r.Stall {
				return i
			}
		}
	}
	return 0
}

func totalDur(sc Scenario) int {
	t := 0
	for _, c := range sc.Conns {
		for _, r := range c.Reqs {
			t += r.Dur
		}
	}
	return t
}

func maxDur(sc Scenario) int {
	m := 0
	for _, c := range sc.Conns {
		for _, r := range c.Reqs {
			if r.Dur > m {
				m = r.Dur
			}
		}
	}
	return m
}

// ---------------------------------------------------------------------------------------------
// property oracle (independent of the Lean model)

type finding struct {
	class, locus, what string
}

type consts struct {
	pollMs, drainMs, idleSecs, readDlMs int
}

func judge(sc Scenario, o outcome, k consts) []finding {
	var fs []finding
	type rk struct{ c, r int }
	parsed, started, ended, answered := map[rk]time.Duration{}, map[rk]time.Duration{}, map[rk]time.Duration{}, map[rk]time.Duration{}
	eof, msg, connected := map[int]time.Duration{}, map[int]time.Duration{}, map[int]bool{}
	noReply := map[rk]bool{}
	var tH, tT, tServe, tWork time.Duration // tWork: the last moment a request was sent, started, ended or answered
	served := false
	retArg := ""
	for _, e := range o.evs {
		key := rk{e.C, e.R}
		switch e.Kind {
		case "S", "O", "P", "I", "E", "R":
			tWork = e.At
		}
		switch e.Kind {
		case "C":
			connected[e.C] = true
		case "O":
			noReply[key] = true
		case "A":
			served, tServe = true, e.At
		case "P":
			parsed[key] = e.At
		case "I":
			started[key] = e.At
		case "E":
			ended[key] = e.At
			if noReply[key] {
				answered[key] = e.At // nothing will be written: the request is over when Invoke has returned
			}
		case "R":
			if noReply[key] {
				fs = append(fs, finding{"unexpected-response", "handleConn", fmt.Sprintf("request %d of connection %d needs no response (one-way / empty) and got one", e.R, e.C)})
			}
			if _, dup := answered[key]; dup {
				fs = append(fs, finding{"duplicate-response", "handleConn", fmt.Sprintf("request %d of connection %d answered twice", e.R, e.C)})
			}
			if _, closed := eof[e.C]; closed {
				fs = append(fs, finding{"response-after-close", "client", "response after EOF"})
			}
			answered[key] = e.At
		case "M":
			msg[e.C] = e.At
		case "X":
			eof[e.C] = e.At
		case "H":
			tH = e.At
		case "T":
			tT = e.At
			retArg = e.Arg
		}
	}
	// 1. every request the server has read is answered before its connection is closed
	var keys []rk
	for key := range parsed {
		keys = append(keys, key)
	}
	sort.Slice(keys, func(i, j int) bool {
		if keys[i].c != keys[j].c {
			return keys[i].c < keys[j].c
		}
		return keys[i].r < keys[j].r
	})
	for _, key := range keys {
		if _, ok := answered[key]; ok {
			continue
		}
		_, closed := eof[key.c]
		_, ran := started[key]
		var locus, what string
		switch {
		case sc.Pool > 0 && !ran:
			locus = "pool-release-drops-queued"
			what = fmt.Sprintf("request %d of connection %d was read by the server (complete in its receive buffer at %v) and its handler was never started; pool=%d qcap=%d", key.r, key.c, parsed[key], sc.Pool, sc.QCap)
		case closed && o.heldAtEOF && o.hookSeen:
			locus = "closeidles-toctou"
			what = fmt.Sprintf("request %d of connection %d was read and handed to its handler between CloseIdles' check of numInvoke and its Close(): the connection was closed at %v, the response was never written", key.r, key.c, eof[key.c])
		case closed && o.heldAtEOF:
			locus = "closeidles-toctou-undispatched"
			what = fmt.Sprintf("request %d of connection %d had been read (at %v) when CloseIdles, relying on an idle stamp taken before the blocking Read and on numInvoke == 0, closed the connection at %v; it was executed afterwards and its response could not be written", key.r, key.c, parsed[key], eof[key.c])
		case closed && ran:
			locus = "conn-closed-with-request-in-flight"
			what = fmt.Sprintf("connection %d was closed at %v while request %d (read at %v) was not answered", key.c, eof[key.c], key.r, parsed[key])
		case closed:
			locus = "conn-closed-before-dispatch"
			what = fmt.Sprintf("connection %d was closed at %v; request %d (read at %v) was never executed", key.c, eof[key.c], key.r, parsed[key])
		default:
			locus = "handler-never-finished"
			what = fmt.Sprintf("request %d of connection %d (read at %v) got no response although nothing happened any more", key.r, key.c, parsed[key])
		}
		fs = append(fs, finding{"request-unanswered", locus, what})
	}
	// 2. the close message: if the server sent it at all, every connection still open then got it; and
	// it is sent once the shutdown has polled (not claimed when the context is shorter than two polls)
	var firstMsg time.Duration = -1
	for _, t := range msg {
		if firstMsg < 0 || t < firstMsg {
			firstMsg = t
		}
	}
	margin := 150 * time.Millisecond
	// when did the client last write on each connection, and can a receive loop get stuck in handleConn
	// (full job queue)?
	lastSend := map[int]time.Duration{}
	nreq := 0
	for _, e := range o.evs {
		if e.Kind == "S" || e.Kind == "O" {
			lastSend[e.C] = e.At
			nreq++
		}
	}
	noEnqueueBlock := sc.Pool == 0 || nreq <= sc.Pool+sc.QCap
	for c := range connected {
		if _, ok := msg[c]; ok {
			continue
		}
		x, closed := eof[c]
		// A connection that was established (and warmed up) before Shutdown was called, that the client
		// never closes, must get the close message before the server closes it. The code's own margin
		// between the first shutdown poll (which sends the message) and the earliest close of a
		// connection that was busy right at the call is only ~100 ms, so the strict rule is applied where
		// the margin is wide: the connection was quiet for 150 ms before the call (its receive loop
		// sleeps in Read until sendCloseMsg wakes it), or its last request was written at least 100 ms
		// after the call (its receive loop returns 100 ms after that and must then wait one drain tick).
		tl := lastSend[c]
		strict := tH > 0 && noEnqueueBlock && o.ctx >= time.Duration(3*k.pollMs)*time.Millisecond &&
			(tl <= tH-150*time.Millisecond || tl >= tH+100*time.Millisecond)
		if strict && closed {
			fs = append(fs, finding{"close-msg-missing", "recv-drain", fmt.Sprintf("connection %d (last request written %v relative to the Shutdown call) was closed by the server at %v without having received the close message", c, tl-tH, x-tH)})
			continue
		}
		if firstMsg >= 0 && (!closed || x > firstMsg+margin) {
			fs = append(fs, finding{"close-msg-missing", "sendCloseMsg", fmt.Sprintf("connection %d was open when other connections got the close message (at %v) and never got it", c, firstMsg)})
		} else if firstMsg < 0 && tH > 0 && o.ctx >= time.Duration(3*k.pollMs)*time.Millisecond &&
			(!closed || x > tH+time.Duration(2*k.pollMs)*time.Millisecond+margin) {
			fs = append(fs, finding{"close-msg-missing", "sendCloseMsg", fmt.Sprintf("no connection ever got the close message; connection %d was open two poll periods after Shutdown was called", c)})
		}
	}
	// 3. Shutdown returns once all connections have drained, or when its context expires
	slack := 1200 * time.Millisecond
	poll := time.Duration(k.pollMs) * time.Millisecond
	if tT == 0 {
		fs = append(fs, finding{"hang", "Shutdown", fmt.Sprintf("Shutdown(ctx %v) had not returned %v after its deadline", o.ctx, 8*time.Second)})
	} else {
		took := tT - tH
		if took > o.ctx+slack {
			fs = append(fs, finding{"deadline-exceeded", "Shutdown", fmt.Sprintf("Shutdown(ctx %v) took %v", o.ctx, took)})
		}
		allClosed := true
		var lastX time.Duration
		for c := range connected {
			x, ok := eof[c]
			if !ok {
				allClosed = false
			} else if x > lastX {
				lastX = x
			}
		}
		if retArg == "1" {
			// returned before the deadline: every connection must be closed by then (the client sees
			// the close within moments)
			for c := range connected {
				x, ok := eof[c]
				if !ok || x > tT+500*time.Millisecond {
					fs = append(fs, finding{"returned-early", "Shutdown", fmt.Sprintf("Shutdown returned after %v (deadline %v) with connection %d not closed", took, o.ctx, c)})
					break
				}
			}
		}
		if !sc.App && allClosed && lastX < tH+o.ctx-poll-slack && tT > lastX+poll+slack {
			fs = append(fs, finding{"late-return", "Shutdown", fmt.Sprintf("all connections were closed %v after Shutdown was called, Shutdown returned only after %v (deadline %v)", lastX-tH, took, o.ctx)})
		}
	}
	// 3b. nothing in flight, nothing arriving: Shutdown must return well before a long context expires,
	// every connection must be closed by the server, and the accept loop must end (pool released)
	allSettled := true
	for key := range parsed {
		if _, ok := answered[key]; !ok {
			allSettled = false
		}
	}
	idleFrom := tH
	if tWork > idleFrom {
		idleFrom = tWork
	}
	// wake-up poll + the receiver's drain poll + the next Shutdown poll + read deadline + slack
	drainBudget := time.Duration(2*k.pollMs+k.drainMs+k.readDlMs)*time.Millisecond + 1500*time.Millisecond
	retFrom := idleFrom
	if o.idleFloor > retFrom {
		retFrom = o.idleFloor
	}
	if allSettled && tH > 0 && tH+o.ctx > retFrom+drainBudget+slack {
		if tT == 0 || tT > retFrom+drainBudget {
			fs = append(fs, finding{"shutdown-late", "Shutdown", fmt.Sprintf("every request was settled %v after Shutdown was called and nothing arrived afterwards; Shutdown (ctx %v) returned after %v — expected within %v of the last activity", idleFrom-tH, o.ctx, tT-tH, drainBudget)})
		}
		for c := range connected {
			if x, ok := eof[c]; ok && x > idleFrom+drainBudget {
				fs = append(fs, finding{"conn-not-closed", "recv-drain", fmt.Sprintf("connection %d had nothing in flight from %v on and was closed by the server only at %v", c, idleFrom, x)})
			}
		}
		if !sc.App && (!served || tServe > idleFrom+drainBudget+slack) {
			what := "Serve() (the accept loop) had not returned when everything was quiet"
			if sc.Pool > 0 {
				what += ": the worker pool was never released"
			}
			fs = append(fs, finding{"accept-loop-not-finished", "Handle", what})
		}
	}
	// 4. a connection whose requests are all answered is closed within a few poll periods
	for c := range connected {
		if _, ok := eof[c]; ok {
			continue
		}
		pending := false
		for key := range parsed {
			if key.c == c {
				if _, ok := answered[key]; !ok {
					pending = true
				}
			}
		}
		if !pending && tT > 0 {
			fs = append(fs, finding{"conn-not-closed", "recv-drain", fmt.Sprintf("connection %d has no unanswered request and was never closed by the server", c)})
		}
	}
	if sc.App {
		for i := range fs {
			fs[i].locus = "graceShutdown-adapter:" + fs[i].locus
		}
	}
	return fs
}

// ---------------------------------------------------------------------------------------------
// generators

func durs(rng *rand.Rand) int {
	return []int{0, 0, 10, 30, 60, 120, 200, 300}[rng.Intn(8)]
}

func bigReqs(n, kib int) []ReqPlan {
	out := make([]ReqPlan, n)
	for i := range out {
		out[i] = ReqPlan{RspKiB: kib}
	}
	return out
}

func reqKind(rng *rand.Rand) string {
	switch rng.Intn(8) {
	case 0:
		return "oneway"
	case 1:
		return "empty"
	}
	return ""
}

func fixedScenarios() []Scenario {
	r := func(d ...int) []ReqPlan {
		var out []ReqPlan
		for _, x := range d {
			out = append(out, ReqPlan{Dur: x})
		}
		return out
	}
	late := func(ms int, d ...int) []ReqPlan {
		var out []ReqPlan
		for _, x := range d {
			out = append(out, ReqPlan{Dur: x, LateMs: ms})
		}
		return out
	}
	return []Scenario{
		// no pool
		{Kind: "plan", Conns: []ConnPlan{{}}, Trigger: "idle", CtxMs: 4000, Model: true},
		{Kind: "plan", Conns: []ConnPlan{{Reqs: r(300, 300, 300)}}, Trigger: "started", CtxMs: 5000, Model: true},
		{Kind: "plan", Conns: []ConnPlan{{Reqs: r(200, 50, 0, 120)}}, Trigger: "parsed", CtxMs: 5000, Model: true},
		{Kind: "plan", Conns: []ConnPlan{{Reqs: r(100, 100)}}, Trigger: "done", CtxMs: 4000, Model: true},
		{Kind: "plan", Conns: []ConnPlan{{Reqs: r(150, 20)}, {Reqs: r(60)}, {}}, Trigger: "started", CtxMs: 5000, Model: true},
		{Kind: "plan", Conns: []ConnPlan{{Reqs: append(r(100), late(150, 50, 0)...)}}, Trigger: "started", CtxMs: 5000, Model: true},
		{Kind: "plan", Conns: []ConnPlan{{Reqs: late(200, 30)}, {Reqs: r(250)}}, Trigger: "started", CtxMs: 5000, Model: true},
		{Kind: "plan", Conns: []ConnPlan{{Reqs: r(2600)}}, Trigger: "started", CtxMs: 1500, Model: true},                // handler outlives the context
		{Kind: "plan", Conns: []ConnPlan{{Reqs: r(3200)}, {Reqs: r(40)}}, Trigger: "started", CtxMs: 6500, Model: true}, // handler outlives the idle threshold, inside the context
		// pool: D15 (three pipelined 300 ms requests, one worker) and relatives
		{Kind: "plan", Pool: 1, QCap: 8, Conns: []ConnPlan{{Reqs: r(300, 300, 300)}}, Trigger: "started", CtxMs: 3500, Model: true},
		{Kind: "plan", Pool: 1, QCap: 8, Conns: []ConnPlan{{Reqs: r(100, 100, 100, 100, 100, 100, 100, 100)}}, Trigger: "started", CtxMs: 3500, Model: true},
		{Kind: "plan", Pool: 1, QCap: 64, Conns: []ConnPlan{{Reqs: append(r(20), late(150, 20, 20)...)}}, Trigger: "done", CtxMs: 3000, Model: true},
		{Kind: "plan", Pool: 2, QCap: 1, Conns: []ConnPlan{{Reqs: r(150, 150, 150, 150, 150, 150)}}, Trigger: "parsed", CtxMs: 4000, Model: true},
		{Kind: "plan", Pool: 3, QCap: 0, Conns: []ConnPlan{{Reqs: r(120, 120)}, {Reqs: r(120, 120)}}, Trigger: "started", CtxMs: 4000, Model: true},
		{Kind: "plan", Pool: 4, QCap: 16, Conns: []ConnPlan{{Reqs: r(50, 50)}, {Reqs: late(120, 40)}}, Trigger: "parsed", CtxMs: 3500, Model: true},
		{Kind: "plan", Pool: 1, QCap: 1, Conns: []ConnPlan{{}}, Trigger: "idle", CtxMs: 3000, Model: true},
		// a request of one connection waits in the queue behind more than two poll periods of another connection's work
		{Kind: "plan", Pool: 1, QCap: 8, Seq: true, Conns: []ConnPlan{{Reqs: r(400, 400, 400, 400)}, {Reqs: r(30)}}, Trigger: "parsed", CtxMs: 5000, Model: true},
		// requests that get no response (one-way packets, empty responses): their handlers leave through the
		// early return of handleConn; the connection must still count as drained
		{Kind: "plan", Conns: []ConnPlan{{Reqs: []ReqPlan{{Dur: 20}, {Dur: 10, Kind: "oneway"}}}}, Trigger: "done", CtxMs: 10000, Model: true},
		{Kind: "plan", Conns: []ConnPlan{{Reqs: []ReqPlan{{Dur: 0, Kind: "empty"}}}, {Reqs: []ReqPlan{{Dur: 30}}}}, Trigger: "done", CtxMs: 10000, Model: true},
		{Kind: "plan", Conns: []ConnPlan{{Reqs: []ReqPlan{{Dur: 300, Kind: "oneway"}, {Dur: 100}}}}, Trigger: "started", CtxMs: 9000, Model: true},
		{Kind: "plan", Pool: 2, QCap: 8, Conns: []ConnPlan{{Reqs: []ReqPlan{{Dur: 0, Kind: "oneway"}, {Dur: 30}, {Dur: 10, Kind: "empty"}}}, {Reqs: []ReqPlan{{Dur: 0, Kind: "empty"}}}}, Trigger: "done", CtxMs: 10000, Model: true},
		{Kind: "plan", Pool: 1, QCap: 2, Conns: []ConnPlan{{Reqs: []ReqPlan{{Dur: 50}, {Dur: 20, Kind: "oneway", LateMs: 150}}}}, Trigger: "done", CtxMs: 9000, Model: true},
		// requests written 0–450 ms AFTER Shutdown was called (before its first poll), quick handlers, then
		// silence: the connection must still be there when the poll sends the close message
		{Kind: "plan", Conns: []ConnPlan{{Reqs: late(20, 0)}, {Reqs: late(150, 0)}, {Reqs: late(300, 10)}, {Reqs: late(430, 0)}}, Trigger: "idle", CtxMs: 6000, Model: true},
		{Kind: "plan", Pool: 2, QCap: 64, Conns: []ConnPlan{{Reqs: late(120, 0)}, {Reqs: r(40)}, {Reqs: late(380, 20)}}, Trigger: "done", CtxMs: 6000, Model: true},
		// HandleTimeout > 0 with a pool: a pipelined backlog whose wait in the job queue is far longer than
		// HandleTimeout (each handler stays below it); the connection must stay open until the last
		// queued request has been executed and answered
		{Kind: "plan", Pool: 1, QCap: 16, HandleTimeoutMs: 400, Conns: []ConnPlan{{Reqs: r(200, 200, 200, 200, 200, 200, 200, 200, 200, 200, 200)}}, Trigger: "started", CtxMs: 9000},
		{Kind: "plan", Pool: 2, QCap: 64, HandleTimeoutMs: 300, Conns: []ConnPlan{{Reqs: r(150, 150, 150, 150, 150, 150, 150, 150)}, {Reqs: r(150, 150, 150, 150, 150, 150, 150, 150, 150, 150, 150, 150, 150, 150, 150, 150, 150, 150)}}, Trigger: "started", CtxMs: 9000},
		// slow readers: the responses of one connection exceed the socket buffers and the client does not
		// read from before the shutdown until well after the drain poll; every response, then the close
		// message, then EOF must still arrive
		{Kind: "plan", Conns: []ConnPlan{{Reqs: bigReqs(60, 64), PauseMs: 1300}}, Trigger: "ended", CtxMs: 12000},
		{Kind: "plan", Conns: []ConnPlan{{Reqs: bigReqs(3, 1024), PauseMs: 900}, {Reqs: []ReqPlan{{Dur: 50}}}}, Trigger: "ended", CtxMs: 12000, Model: true},
		// D16
		{Kind: "toctou", Conns: []ConnPlan{{Reqs: []ReqPlan{{Dur: 20, Stall: true}}}}, Trigger: "parsed", CtxMs: 5000, StaleMs: 3100, Model: true},
	}
}

// appScenarios: real applications with 2–4 adapters, requests in flight on every adapter when the
// process gets SIGTERM.
func appScenarios(rng *rand.Rand, thorough bool) []Scenario {
	r := func(d ...int) []ReqPlan {
		var out []ReqPlan
		for _, x := range d {
			out = append(out, ReqPlan{Dur: x})
		}
		return out
	}
	scs := []Scenario{
		{Kind: "app", CtxMs: 12000, Model: true, Adapters: []AdapterPlan{
			{Conns: []ConnPlan{{Reqs: r(700)}}, Trigger: "started"},
			{Conns: []ConnPlan{{Reqs: r(900, 100)}}, Trigger: "started"}}},
		{Kind: "app", Pool: 2, QCap: 8, CtxMs: 12000, Model: true, Adapters: []AdapterPlan{
			{Conns: []ConnPlan{{Reqs: r(600, 600, 600)}}, Trigger: "started"},
			{Conns: []ConnPlan{{Reqs: r(300)}, {Reqs: r(50)}}, Trigger: "started"},
			{Conns: []ConnPlan{{Reqs: []ReqPlan{{Dur: 400}, {Dur: 20, Kind: "oneway"}}}}, Trigger: "started"}}},
		{Kind: "app", CtxMs: 12000, Model: true, Adapters: []AdapterPlan{
			{Conns: []ConnPlan{{}}, Trigger: "idle"},
			{Conns: []ConnPlan{{Reqs: r(1200)}}, Trigger: "started"},
			{Conns: []ConnPlan{{Reqs: r(40)}}, Trigger: "done"},
			{Conns: []ConnPlan{{Reqs: []ReqPlan{{Dur: 500}, {Dur: 50, LateMs: 150}}}}, Trigger: "started"}}},
	}
	n := 0
	if thorough {
		n = 12
	}
	for i := 0; i < n; i++ {
		sc := Scenario{Kind: "app", CtxMs: 12000, Model: true}
		if rng.Intn(2) == 0 {
			sc.Pool = 1 + rng.Intn(3)
			sc.QCap = []int{1, 2, 8, 64}[rng.Intn(4)]
		}
		for a := 0; a < 2+rng.Intn(3); a++ {
			var ap AdapterPlan
			total := 0
			for c := 0; c < 1+rng.Intn(2); c++ {
				var cp ConnPlan
				for q := 0; q < rng.Intn(3); q++ {
					cp.Reqs = append(cp.Reqs, ReqPlan{Dur: 100 + 200*rng.Intn(6), Kind: reqKind(rng)})
				}
				total += len(cp.Reqs)
				ap.Conns = append(ap.Conns, cp)
			}
			ap.Trigger = []string{"parsed", "started", "done"}[rng.Intn(3)]
			if total == 0 {
				ap.Trigger = "idle"
			}
			sc.Adapters = append(sc.Adapters, ap)
		}
		scs = append(scs, sc)
	}
	return scs
}

func randomScenario(rng *rand.Rand, thorough bool) Scenario {
	sc := Scenario{Kind: "plan"}
	switch rng.Intn(5) {
	case 0, 1:
		sc.Pool = 0
	case 2:
		sc.Pool = 1
	default:
		sc.Pool = 2 + rng.Intn(3)
	}
	if sc.Pool > 0 {
		sc.QCap = []int{0, 1, 2, 8, 64}[rng.Intn(5)]
	}
	nc := 1 + rng.Intn(3)
	total := 0
	for c := 0; c < nc; c++ {
		var cp ConnPlan
		n := rng.Intn(5)
		if rng.Intn(6) == 0 {
			n = 0
		}
		for i := 0; i < n; i++ {
			cp.Reqs = append(cp.Reqs, ReqPlan{Dur: durs(rng), Kind: reqKind(rng)})
		}
		if rng.Intn(4) == 0 { // late requests, all written at the same moment
			ms := 1 + rng.Intn(450)
			for i := 0; i < 1+rng.Intn(2); i++ {
				cp.Reqs = append(cp.Reqs, ReqPlan{Dur: durs(rng) / 2, LateMs: ms})
			}
		}
		total += len(cp.Reqs)
		sc.Conns = append(sc.Conns, cp)
	}
	sc.Trigger = []string{"idle", "parsed", "started", "started", "done"}[rng.Intn(5)]
	if total == 0 {
		sc.Trigger = "idle"
	}
	sc.CtxMs = []int{2500, 3500, 5000, 9000}[rng.Intn(4)]
	sc.Model = total <= 7 && nc <= 2 || total <= 4
	_ = thorough
	return sc
}

// ---------------------------------------------------------------------------------------------
// driver

type report struct {
	Scenario Scenario `json:"scenario"`
	History  string   `json:"history"`
	Timeline string   `json:"timeline"`
	Findings []string `json:"findings"`
	Model    string   `json:"model"`
	Shutdown string   `json:"shutdown"`
	Err      string   `json:"err,omitempty"`
}

func timeline(evs []event) string {
	var sb strings.Builder
	for i, e := range evs {
		if i > 0 {
			sb.WriteByte(' ')
		}
		fmt.Fprintf(&sb, "%s@%d", e.token(), e.At.Milliseconds())
	}
	return sb.String()
}

func history(evs []event) string {
	toks := make([]string, len(evs))
	for i, e := range evs {
		toks[i] = e.token()
	}
	return strings.Join(toks, " ")
}

func parseConsts(s string) (consts, bool) {
	k := consts{}
	m := map[string]int{}
	for _, f := range strings.Fields(s) {
		kv := strings.SplitN(f, "=", 2)
		if len(kv) == 2 {
			if v, err := strconv.Atoi(kv[1]); err == nil {
				m[kv[0]] = v
			}
		}
	}
	k.pollMs, k.drainMs, k.idleSecs, k.readDlMs = m["pollMs"], m["drainMs"], m["idleSecs"], m["readDlMs"]
	return k, k.pollMs > 0 && k.drainMs > 0 && k.idleSecs > 0
}

func main() {
	o := common.ParseOpts()
	if o.Extra == "app-child" {
		rogger.SetLevel(rogger.OFF)
		appChildMain()
	}
	res := common.NewResult("C12", o)
	res.Rule = "every scenario: real transport.TarsServer over loopback, history judged by the property oracle and replayed through the Lean LTS (admits, tree variant)"
	res.Streams = []string{"serverconn", "serverconn-app"}
	rogger.SetLevel(rogger.OFF)

	m, err := common.StartModel(o.Model, "serverconn")
	if err != nil {
		res.Fatal(o.Out, err)
	}
	defer m.Close()
	k := consts{pollMs: 500, drainMs: 500, idleSecs: 2, readDlMs: 100}
	if ans, err := m.Ask("consts"); err == nil && ans != common.NoModel {
		if kk, ok := parseConsts(ans); ok {
			k = kk
		} else {
			res.Diverge(common.Case{Stream: "serverconn", Op: "consts", Model: ans, Impl: "pollMs=… drainMs=… idleSecs=…"})
		}
	}
	variant, _ := m.Ask("variant")
	res.Note("model variant of the tree: %s; poll %d ms, drain poll %d ms, idle threshold %d s", variant, k.pollMs, k.drainMs, k.idleSecs)

	var scs []Scenario
	if o.Replay != "" {
		var sc Scenario
		if err := common.ReadReplay(o.Replay, &sc); err != nil {
			res.Fatal(o.Out, err)
		}
		n := sc.Repeat
		if n < 1 {
			n = 1
		}
		for i := 0; i < n; i++ {
			scs = append(scs, sc)
		}
	} else {
		scs = fixedScenarios()
		rng := o.Rand()
		n := 20
		if o.Thorough() {
			n = 280
			// the stale-stamp scenario with other shapes
			for i := 0; i < 4; i++ {
				sc := Scenario{Kind: "toctou", Conns: []ConnPlan{{Reqs: []ReqPlan{{Dur: 10 * i, Stall: true}}}}, Trigger: "parsed", CtxMs: 4000 + 500*i, StaleMs: 3100, Model: true}
				if i%2 == 1 {
					sc.Conns = append(sc.Conns, ConnPlan{})
				}
				scs = append(scs, sc)
			}
		}
		for i := 0; i < n; i++ {
			scs = append(scs, randomScenario(rng, o.Thorough()))
		}
		if o.Thorough() {
			// slow readers of other shapes (volume, response size, pause across one to three drain polls, a
			// second prompt connection, pool)
			shapes := [][2]int{{50, 64}, {100, 64}, {200, 64}, {60, 256}, {24, 1024}, {120, 128}}
			for i, sh := range shapes {
				sc := Scenario{Kind: "plan", Trigger: "ended", CtxMs: 15000,
					Conns: []ConnPlan{{Reqs: bigReqs(sh[0], sh[1]), PauseMs: 700 + rng.Intn(1300)}}}
				if i%2 == 1 {
					sc.Conns = append(sc.Conns, ConnPlan{Reqs: []ReqPlan{{Dur: 30}}})
				}
				if i%3 == 2 {
					// the workers block in conn.Write, the other handlers wait in the queue: shut down once
					// everything has been read
					sc.Pool, sc.QCap, sc.Trigger = 2, 256, "parsed"
				}
				scs = append(scs, sc)
			}
		}
		scs = append(scs, appScenarios(rng, o.Thorough())...)
	}

	// the 500 ms pollers dominate: run the scenarios concurrently (each has its own server and port;
	// an app scenario has its own child process)
	type done struct {
		top   Scenario // what a replay executes
		sc    Scenario // what is judged: the scenario itself, or one adapter of an app scenario
		out   outcome
		label string
	}
	perScenario := make([][]done, len(scs))
	par := 24
	if o.Replay != "" {
		par = 4
	}
	sem := make(chan struct{}, par)
	var wg sync.WaitGroup
	for i, sc := range scs {
		wg.Add(1)
		sem <- struct{}{}
		go func(i int, sc Scenario) {
			defer wg.Done()
			defer func() { <-sem }()
			if sc.Kind != "app" {
				perScenario[i] = []done{{sc, sc, runScenario(sc), ""}}
				return
			}
			outs, errs := runAppScenario(sc)
			if errs != "" {
				perScenario[i] = []done{{sc, sc, outcome{err: errs}, "app"}}
				return
			}
			for j, out := range outs {
				perScenario[i] = append(perScenario[i], done{sc, sc.adapterScenario(j), out, fmt.Sprintf("adapter %d of %d: ", j, len(outs))})
			}
		}(i, sc)
	}
	wg.Wait()
	var results []done
	for _, ds := range perScenario {
		results = append(results, ds...)
	}

	// model replay (batched)
	var lines []string
	var lineOf []int
	for i, d := range results {
		if d.out.err != "" || !d.sc.Model {
			continue
		}
		lines = append(lines, fmt.Sprintf("admits tree %d %d 60000 %s", d.sc.Pool, d.sc.QCap, history(d.out.evs)))
		lineOf = append(lineOf, i)
	}
	answers, err := m.Batch(lines)
	if err != nil {
		res.Fatal(o.Out, err)
	}
	modelAns := map[int]string{}
	for j, a := range answers {
		modelAns[lineOf[j]] = a
	}

	hookSeen, toctouRan := false, false
	for i, d := range results {
		sc, out := d.sc, d.out
		class := fmt.Sprintf("%s pool=%s trigger=%s", d.top.Kind, poolClass(sc.Pool), sc.Trigger)
		stream := "serverconn"
		if d.top.Kind == "app" {
			stream = "serverconn-app"
		}
		if out.err != "" {
			res.Histogram["harness-trouble: "+out.err]++
			res.Diverge(common.Case{Stream: stream, Op: d.top, Model: "-", Impl: "scenario could not be executed: " + d.label + out.err, Note: timeline(out.evs)})
			continue
		}
		hookSeen = hookSeen || out.hookSeen
		toctouRan = toctouRan || sc.Kind == "toctou"
		res.Count(d.top.key()+d.label, class, len(out.evs) > 8)
		fs := judge(sc, out, k)
		rep := report{Scenario: d.top, History: history(out.evs), Timeline: timeline(out.evs), Model: modelAns[i],
			Shutdown: fmt.Sprintf("called@%dms returned@%dms ctx=%v", out.shutCalled.Milliseconds(), out.shutRet.Milliseconds(), out.ctx)}
		for _, f := range fs {
			rep.Findings = append(rep.Findings, f.class+":"+f.locus+": "+f.what)
			res.Violate(common.Violation{Signature: "C12:" + f.class + ":" + f.locus, What: d.label + f.what,
				Case: common.Case{Stream: stream, Op: d.top, Model: modelAns[i], Impl: timeline(out.evs), Note: d.label + rep.Shutdown}})
		}
		if len(fs) == 0 {
			res.Histogram["oracle: held"]++
		}
		if a, ok := modelAns[i]; ok && a != common.NoModel {
			switch {
			case strings.HasPrefix(a, "ok"):
				res.TracesValidated++
				res.Histogram["model: admitted"]++
			case strings.HasPrefix(a, "budget"):
				res.Histogram["model: undecided (state budget)"]++
				if os.Getenv("C12_DEBUG") != "" {
					fmt.Fprintln(os.Stderr, "BUDGET", a, sc.Pool, sc.QCap, history(out.evs))
				}
			default:
				res.Diverge(common.Case{Stream: stream, Op: d.top, Model: a, Impl: history(out.evs), Note: d.label + "the LTS (variant of the tree) has no run with this observed history; " + timeline(out.evs)})
			}
		}
		if i < 3 || len(fs) > 0 {
			res.Sample(rep)
		}
		if o.Replay != "" {
			b, _ := json.MarshalIndent(rep, "", " ")
			fmt.Println(string(b))
		}
	}
	if hookSeen {
		res.Note("verif hook in CloseIdles present: the D16 scenario releases the held receiver between CloseIdles' idle check and its close / wake-up")
	} else if toctouRan {
		res.Note("verif hook in CloseIdles not seen: the D16 scenario holds the receiver in ParsePackage until the connection is closed or Shutdown has given up")
	}
	if err := res.Write(o.Out); err != nil {
		fmt.Fprintln(os.Stderr, err)
		os.Exit(3)
	}
}

func poolClass(n int) string {
	switch {
	case n == 0:
		return "0"
	case n == 1:
		return "1"
	}
	return "N"
}
