// Stream `notify-linger` of the C11 harness: the close notification, end to end.
//
// The REAL client of /repo (Communicator → ServantProxy → AdapterProxy → TarsClient) calls a
// loopback server that speaks the tars wire protocol and answers every request it reads. After the
// first calls the server behaves like a TarsGo server that is shut down gracefully and restarted:
// on the established connection it stops reading, pushes the close notification (response packet
// with request id 0 and result description "_reconnect_"), keeps the connection open for another
// 500 ms – 1 s and only then closes it; the listener stays up and new connections are served.
// Optionally an ordinary push (request id 0, other description) precedes the notification, ONE-WAY
// calls (counted by the client as in flight, never answered) precede it, and the server restarts
// gracefully two or three times in a row (the next notification 100 ms – 2 s after the previous one,
// on the then current connection) — the handler of an earlier notification may still be waiting in
// GraceClose for the old client.
//
// Calls are issued 50 – 200 ms after the notification was written, by a client WITHOUT push
// callback and by one WITH a callback. Oracle (independent of the model): every call succeeds in
// less than half its timeout; after the client has had 50 ms to process the notification no request
// byte is written to the old connection (the server counts what is in the socket when it finally
// closes); every request issued after the notification arrives on a connection accepted after it;
// an ordinary push reaches the callback iff one is registered. Tie to the model
// (Model/AdapterPush.lean): the same schedule is run through `notify-run tree …` and the generation
// each request went to is compared with the connection it arrived on.
package main

import (
	"context"
	"encoding/binary"
	"fmt"
	"io"
	"net"
	"strings"
	"sync"
	"sync/atomic"
	"time"

	"github.com/TarsCloud/TarsGo/tars"
	"github.com/TarsCloud/TarsGo/tars/model"
	"github.com/TarsCloud/TarsGo/tars/protocol/codec"
	"github.com/TarsCloud/TarsGo/tars/protocol/res/basef"
	"github.com/TarsCloud/TarsGo/tars/protocol/res/requestf"
	"github.com/TarsCloud/TarsGo/tars/util/tools"
)

const (
	notifyCallTimeoutMs = 2000
	notifyBound         = notifyCallTimeoutMs * time.Millisecond / 2
)

type nProxy struct{ s model.Servant }

func (p *nProxy) SetServant(s model.Servant) { p.s = s }

func packRsp(rsp *requestf.ResponsePacket) []byte {
	os := codec.NewBuffer()
	_ = rsp.WriteTo(os)
	bs := os.ToBytes()
	out := make([]byte, 4+len(bs))
	binary.BigEndian.PutUint32(out, uint32(len(out)))
	copy(out[4:], bs)
	return out
}

type nConn struct {
	announced int32 // 1 once the close notification has been pushed on this connection
	k         int
	c         net.Conn
	stop      chan struct{}
	accepted  time.Time
	unread    int32 // bytes found in the socket when the server finally closes it
	closed    int32
}

type nArrival struct {
	Func string
	Conn int
}

type nServer struct {
	ln       net.Listener
	mu       sync.Mutex
	conns    []*nConn
	arrivals []nArrival
}

func (s *nServer) serve(ln net.Listener) {
	for {
		c, err := ln.Accept()
		if err != nil {
			return
		}
		s.mu.Lock()
		nc := &nConn{k: len(s.conns), c: c, stop: make(chan struct{}), accepted: time.Now()}
		s.conns = append(s.conns, nc)
		s.mu.Unlock()
		go s.handle(nc)
	}
}

func (s *nServer) handle(nc *nConn) {
	hdr := make([]byte, 4)
	for {
		select {
		case <-nc.stop:
			return
		default:
		}
		_ = nc.c.SetReadDeadline(time.Now().Add(10 * time.Millisecond))
		if _, err := io.ReadFull(nc.c, hdr[:1]); err != nil {
			if ne, ok := err.(net.Error); ok && ne.Timeout() {
				continue
			}
			return
		}
		_ = nc.c.SetReadDeadline(time.Now().Add(2 * time.Second))
		if _, err := io.ReadFull(nc.c, hdr[1:]); err != nil {
			return
		}
		n := binary.BigEndian.Uint32(hdr)
		if n < 4 || n > 1<<20 {
			return
		}
		body := make([]byte, n-4)
		if _, err := io.ReadFull(nc.c, body); err != nil {
			return
		}
		var req requestf.RequestPacket
		if err := req.ReadFrom(codec.NewReader(body)); err != nil {
			return
		}
		s.mu.Lock()
		s.arrivals = append(s.arrivals, nArrival{Func: req.SFuncName, Conn: nc.k})
		s.mu.Unlock()
		if req.CPacketType == basef.TARSONEWAY {
			continue
		}
		rsp := requestf.ResponsePacket{IVersion: req.IVersion, CPacketType: req.CPacketType, IRequestId: req.IRequestId}
		if _, err := nc.c.Write(packRsp(&rsp)); err != nil {
			return
		}
	}
}

// announce: what tcpHandler does on a graceful shutdown — stop reading, (optionally an ordinary
// push first,) the close notification, the close a while later. Returns when the notification has
// been written.
func (s *nServer) announce(nc *nConn, extraPush int, linger time.Duration) time.Time {
	atomic.StoreInt32(&nc.announced, 1)
	close(nc.stop)
	time.Sleep(30 * time.Millisecond) // the reader has seen stop (it polls every 10 ms)
	if extraPush >= 0 {
		push := requestf.ResponsePacket{IVersion: basef.TARSVERSION, IRequestId: 0, SBuffer: tools.ByteToInt8([]byte{byte(extraPush)})}
		_, _ = nc.c.Write(packRsp(&push))
		time.Sleep(20 * time.Millisecond) // pushes are handled by independent goroutines: keep them apart
	}
	closeMsg := requestf.ResponsePacket{IVersion: basef.TARSVERSION, IRequestId: 0, SResultDesc: "_reconnect_"}
	_, _ = nc.c.Write(packRsp(&closeMsg))
	at := time.Now()
	go func() {
		time.Sleep(linger)
		buf := make([]byte, 65536)
		_ = nc.c.SetReadDeadline(time.Now().Add(10 * time.Millisecond))
		n, _ := nc.c.Read(buf)
		atomic.AddInt32(&nc.unread, int32(n))
		_ = nc.c.Close()
		atomic.StoreInt32(&nc.closed, 1)
	}()
	return at
}

type nCall struct {
	Name    string
	OneWay  bool
	Epoch   int  // number of close notifications before the call was issued
	After   bool // issued after a notification
	OK      bool
	Err     string
	Latency time.Duration
}

type nOutcome struct {
	sc        Scenario
	calls     []nCall
	arrivals  []nArrival
	conns     int
	oldConns  int   // connections accepted before the notification
	announced []int // index of the connection announced as closing in each restart
	unread    int32
	pushed    []int
	harness   string
}

var nObjSeq int32

// schedulerResponsive returns once a fresh goroutine gets to run within 2 ms three times in a row
// (or after 300 ms): the "50 – 200 ms after the notification" margin is meant for the client's Recv
// goroutine to have run, which a starved process (many scenarios in parallel, other jobs on the
// machine) cannot promise by wall-clock time alone.
func schedulerResponsive() {
	good := 0
	for i := 0; i < 60 && good < 3; i++ {
		t0 := time.Now()
		ch := make(chan struct{})
		go func() { close(ch) }()
		<-ch
		if time.Since(t0) < 2*time.Millisecond {
			good++
		} else {
			good = 0
			time.Sleep(5 * time.Millisecond)
		}
	}
}

func executeNotify(sc Scenario) (out nOutcome) {
	out.sc = sc
	ln, err := net.Listen("tcp", "127.0.0.1:0")
	if err != nil {
		out.harness = "listen: " + err.Error()
		return
	}
	defer ln.Close()
	srv := &nServer{ln: ln}
	go srv.serve(ln)
	port := ln.Addr().(*net.TCPAddr).Port

	comm := tars.NewCommunicator()
	p := &nProxy{}
	obj := fmt.Sprintf("C11.Notify%d.Obj", atomic.AddInt32(&nObjSeq, 1))
	comm.StringToProxy(fmt.Sprintf("%s@tcp -h 127.0.0.1 -p %d -t 3000", obj, port), p)
	p.s.TarsSetTimeout(notifyCallTimeoutMs)
	var pmu sync.Mutex
	if sc.HasCallback {
		p.s.SetPushCallback(func(b []byte) {
			pmu.Lock()
			if len(b) > 0 {
				out.pushed = append(out.pushed, int(b[0]))
			} else {
				out.pushed = append(out.pushed, -1)
			}
			pmu.Unlock()
		})
	}
	seq := 0
	epoch := 0
	invoke := func(oneWay bool) {
		seq++
		name := fmt.Sprintf("c%d", seq)
		var rsp requestf.ResponsePacket
		ctype := byte(basef.TARSNORMAL)
		if oneWay {
			ctype = byte(basef.TARSONEWAY)
		}
		t0 := time.Now()
		err := p.s.TarsInvoke(context.Background(), ctype, name, nil, nil, nil, &rsp)
		c := nCall{Name: name, OneWay: oneWay, Epoch: epoch, After: epoch > 0, OK: err == nil, Latency: time.Since(t0)}
		if err != nil {
			c.Err = err.Error()
		}
		out.calls = append(out.calls, c)
	}
	call := func() { invoke(false) }
	pre := sc.PreCalls
	if pre < 1 {
		pre = 1
	}
	for i := 0; i < pre; i++ {
		call()
	}
	for i := 0; i < sc.OneWays; i++ {
		invoke(true)
	}
	srv.mu.Lock()
	if len(srv.conns) != 1 {
		out.harness = fmt.Sprintf("%d connections before the notification", len(srv.conns))
		srv.mu.Unlock()
		return
	}
	out.oldConns = 1
	srv.mu.Unlock()
	restarts := sc.Restarts
	if restarts < 1 {
		restarts = 1
	}
	linger := time.Duration(sc.LingerMs) * time.Millisecond
	var olds []*nConn
	for r := 0; r < restarts; r++ {
		srv.mu.Lock()
		cur := srv.conns[len(srv.conns)-1]
		srv.mu.Unlock()
		if atomic.LoadInt32(&cur.announced) == 1 {
			// the client never left the connection announced last time: nothing new to announce on
			break
		}
		// one-way calls return before their bytes are on the wire: the server restarts only after it has
		// read everything issued so far (a request in flight during the restart is another story)
		for i := 0; i < 400; i++ {
			srv.mu.Lock()
			n := len(srv.arrivals)
			srv.mu.Unlock()
			if n >= seq {
				break
			}
			time.Sleep(5 * time.Millisecond)
		}
		extra := -1
		if sc.ExtraPush && r == 0 {
			extra = 7
		}
		at := srv.announce(cur, extra, linger)
		olds = append(olds, cur)
		out.announced = append(out.announced, cur.k)
		epoch++
		time.Sleep(time.Until(at.Add(time.Duration(sc.DelayMs) * time.Millisecond)))
		schedulerResponsive()
		call()
		call()
		if r+1 < restarts {
			time.Sleep(time.Until(at.Add(time.Duration(sc.GapMs) * time.Millisecond)))
		}
	}
	// until every announced connection has been closed by the server
	for _, old := range olds {
		for i := 0; i < 400 && atomic.LoadInt32(&old.closed) == 0; i++ {
			time.Sleep(5 * time.Millisecond)
		}
	}
	time.Sleep(50 * time.Millisecond)
	call()
	for _, old := range olds {
		out.unread += atomic.LoadInt32(&old.unread)
	}
	srv.mu.Lock()
	out.arrivals = append([]nArrival(nil), srv.arrivals...)
	out.conns = len(srv.conns)
	conns := append([]*nConn(nil), srv.conns...)
	srv.mu.Unlock()
	pmu.Lock()
	out.pushed = append([]int(nil), out.pushed...)
	pmu.Unlock()
	for _, c := range conns {
		_ = c.c.Close()
	}
	return
}

func (o *nOutcome) summary() string {
	var cs []string
	for _, c := range o.calls {
		st := "ok"
		if !c.OK {
			st = "FAILED(" + c.Err + ")"
		}
		cs = append(cs, fmt.Sprintf("%s:%s:%dms", c.Name, st, c.Latency.Milliseconds()))
	}
	var as []string
	for _, a := range o.arrivals {
		as = append(as, fmt.Sprintf("%s@conn%d", a.Func, a.Conn))
	}
	return fmt.Sprintf("calls=[%s] arrivals=[%s] connections=%d bytes-left-in-old-connection=%d pushed=%v",
		strings.Join(cs, " "), strings.Join(as, " "), o.conns, o.unread, o.pushed)
}

func oracleNotify(o *nOutcome) []finding {
	var fs []finding
	add := func(sig, what string) {
		for _, f := range fs {
			if f.sig == sig {
				return
			}
		}
		fs = append(fs, finding{sig, what})
	}
	if o.harness != "" {
		return fs
	}
	cb := "without push callback"
	if o.sc.HasCallback {
		cb = "with push callback"
	}
	for _, c := range o.calls {
		if c.OK && c.Latency < notifyBound {
			continue
		}
		if c.OneWay && c.OK {
			continue
		}
		if c.After {
			add("C11:call-timeout:after-close-notification", fmt.Sprintf("client %s: call %s, issued %d ms after the server's close notification no. %d, ok=%v after %v (timeout %d ms, bound %v) although the server accepts new connections and answers everything it reads (%s)",
				cb, c.Name, o.sc.DelayMs, c.Epoch, c.OK, c.Latency.Round(time.Millisecond), notifyCallTimeoutMs, notifyBound, c.Err))
		} else {
			add("C11:call-failed:before-notification", fmt.Sprintf("call %s failed: %s", c.Name, c.Err))
		}
	}
	if o.unread > 0 {
		add("C11:dead-write:after-close-notification", fmt.Sprintf("client %s: %d request bytes were written to a connection the server had announced as closing (connections %v), at least %d ms after the notification", cb, o.unread, o.announced, o.sc.DelayMs))
	}
	for _, a := range o.arrivals {
		for _, c := range o.calls {
			if c.Name == a.Func && c.Epoch > 0 && c.Epoch <= len(o.announced) && a.Conn <= o.announced[c.Epoch-1] {
				add("C11:dead-write:after-close-notification", fmt.Sprintf("request %s, issued after notification no. %d (connection %d announced as closing), arrived on connection %d", a.Func, c.Epoch, o.announced[c.Epoch-1], a.Conn))
			}
		}
	}
	if o.sc.ExtraPush {
		if o.sc.HasCallback && (len(o.pushed) != 1 || o.pushed[0] != 7) {
			add("C11:push-lost:onPush", fmt.Sprintf("the ordinary push (payload 7) did not reach the registered callback exactly once: %v", o.pushed))
		}
	}
	if !o.sc.HasCallback && len(o.pushed) != 0 {
		add("C11:push-invented:onPush", fmt.Sprintf("callback invoked although none is registered: %v", o.pushed))
	}
	return fs
}

// notifyModelLine: the scenario as a schedule of the adapter-level model: the calls before the first
// notification and, after each notification, the first call (the announced connection certainly
// still lingers then)
func notifyModelLine(sc Scenario) string {
	pre := sc.PreCalls
	if pre < 1 {
		pre = 1
	}
	restarts := sc.Restarts
	if restarts < 1 {
		restarts = 1
	}
	var toks []string
	if sc.HasCallback {
		toks = append(toks, "setCallback")
	}
	id := 0
	for i := 0; i < pre+sc.OneWays; i++ {
		id++
		toks = append(toks, fmt.Sprintf("send.%d", id))
	}
	for r := 0; r < restarts; r++ {
		if sc.ExtraPush && r == 0 {
			toks = append(toks, "pPush.0.7", "recv.0")
		}
		toks = append(toks, fmt.Sprintf("pNotify.%d", r), "recv.0")
		id++
		toks = append(toks, fmt.Sprintf("send.%d", id))
	}
	return "notify-run tree " + strings.Join(toks, " ")
}

// notifyImplLine: what was observed, in the vocabulary of the model's answer. A generation of the
// model is a TarsClient; each one dials one connection here, so request i went to generation k if it
// arrived on connection k, or — never read by the server — if it sits in the connection announced
// last before it was issued.
func notifyImplLine(o *nOutcome) string {
	var sends, stale, pushed []string
	n := 0
	seenEpoch := map[int]bool{}
	for _, c := range o.calls {
		if c.Epoch > 0 {
			if seenEpoch[c.Epoch] { // only the first call after each notification is compared
				continue
			}
			seenEpoch[c.Epoch] = true
			if c.Epoch > len(o.announced) {
				continue
			}
		}
		n++
		gen := -1
		for _, a := range o.arrivals {
			if a.Func == c.Name {
				gen = a.Conn
			}
		}
		if gen < 0 && c.Epoch > 0 {
			gen = o.announced[c.Epoch-1]
		}
		if gen < 0 {
			gen = 0
		}
		sends = append(sends, fmt.Sprintf("%d@%d", n, gen))
		if c.Epoch > 0 && gen <= o.announced[c.Epoch-1] {
			stale = append(stale, fmt.Sprint(n))
		}
	}
	for _, p := range o.pushed {
		pushed = append(pushed, fmt.Sprint(p))
	}
	j := func(l []string) string {
		if len(l) == 0 {
			return "-"
		}
		return strings.Join(l, ",")
	}
	return fmt.Sprintf("sends=%s stale=%s pushed=%s", j(sends), j(stale), j(pushed))
}

// ---------------------------------------------------------------------------------------------
// Stream `restart-scale`: many restart cycles on ONE proxy of the full client, configured with a
// small objqueuemax (/tars/application/client<objqueuemax>), so that per-proxy counters that are
// normally 100000 failed sends away from their limit reach it within the run. Each cycle: the
// server goes down (listener closed, connections reset), calls are attempted while it is down (the
// dial is refused: a failed send; their outcome is not judged, they only have to return), the server
// comes back on the same port, and two calls issued then must succeed in less than half their
// timeout — for ANY number of earlier closes.

func (s *nServer) down() {
	s.mu.Lock()
	ln := s.ln
	conns := append([]*nConn(nil), s.conns...)
	s.mu.Unlock()
	_ = ln.Close()
	for _, c := range conns {
		if atomic.CompareAndSwapInt32(&c.closed, 0, 1) {
			abort(c.c)
		}
	}
}

func (s *nServer) up(rp *reservedPort) error {
	var err error
	for i := 0; i < 300; i++ {
		var ln net.Listener
		if ln, err = rp.listen(); err == nil {
			s.mu.Lock()
			s.ln = ln
			s.mu.Unlock()
			go s.serve(ln)
			return nil
		}
		time.Sleep(5 * time.Millisecond)
	}
	return err
}

type scaleOutcome struct {
	sc        Scenario
	cycles    int
	downCalls int
	downSlow  int    // calls during a down window that took longer than their own deadline + slack
	firstBad  string // first judged call that failed or was slow
	badCycle  int
	badCount  int
	conns     int
	harness   string
}

func executeRestartScale(sc Scenario) (out scaleOutcome) {
	out.sc = sc
	ln, rp, err := listenReserved()
	if err != nil {
		out.harness = "listen: " + err.Error()
		return
	}
	defer rp.release()
	srv := &nServer{ln: ln}
	go srv.serve(ln)
	defer func() { srv.down() }()
	port := ln.Addr().(*net.TCPAddr).Port

	comm := tars.NewCommunicator()
	cfg := *comm.Client // the client configuration is shared by all communicators of the process: copy it
	cfg.ObjQueueMax = int32(sc.QueueMax)
	comm.Client = &cfg
	p := &nProxy{}
	obj := fmt.Sprintf("C11.Scale%d.Obj", atomic.AddInt32(&nObjSeq, 1))
	comm.StringToProxy(fmt.Sprintf("%s@tcp -h 127.0.0.1 -p %d -t 3000", obj, port), p)
	p.s.TarsSetTimeout(notifyCallTimeoutMs)
	seq := 0
	invoke := func(deadline time.Duration) (time.Duration, error) {
		seq++
		var rsp requestf.ResponsePacket
		ctx := context.Background()
		if deadline > 0 {
			var cancel context.CancelFunc
			ctx, cancel = context.WithTimeout(ctx, deadline)
			defer cancel()
		}
		t0 := time.Now()
		err := p.s.TarsInvoke(ctx, 0, fmt.Sprintf("c%d", seq), nil, nil, nil, &rsp)
		return time.Since(t0), err
	}
	judge := func(cycle int, d time.Duration, err error) {
		if err == nil && d < notifyBound {
			return
		}
		out.badCount++
		if out.firstBad == "" {
			out.badCycle = cycle
			if err != nil {
				out.firstBad = fmt.Sprintf("call c%d after restart %d failed after %v: %v", seq, cycle, d.Round(time.Millisecond), err)
			} else {
				out.firstBad = fmt.Sprintf("call c%d after restart %d answered only after %v", seq, cycle, d.Round(time.Millisecond))
			}
		}
	}
	d, err := invoke(0)
	judge(0, d, err)
	for cycle := 1; cycle <= sc.Cycles; cycle++ {
		srv.down()
		time.Sleep(3 * time.Millisecond) // the reset reaches the client's receiver
		for i := 0; i < sc.DownCalls; i++ {
			const dl = 250 * time.Millisecond
			d, _ := invoke(dl) // server down: not judged, must only come back
			out.downCalls++
			if d > dl+500*time.Millisecond {
				out.downSlow++
			}
		}
		if err := srv.up(rp); err != nil {
			out.harness = "listen again: " + err.Error()
			return
		}
		out.cycles = cycle
		d, err := invoke(0)
		judge(cycle, d, err)
		d, err = invoke(0)
		judge(cycle, d, err)
		if out.badCount >= 6 { // broken for good: no need to wait for dozens of timeouts
			break
		}
	}
	srv.mu.Lock()
	out.conns = len(srv.conns)
	srv.mu.Unlock()
	return
}

func (o *scaleOutcome) summary() string {
	return fmt.Sprintf("objqueuemax=%d cycles=%d/%d calls-while-down=%d (slow %d) connections=%d judged-calls-failed=%d first=%q",
		o.sc.QueueMax, o.cycles, o.sc.Cycles, o.downCalls, o.downSlow, o.conns, o.badCount, o.firstBad)
}

func oracleRestartScale(o *scaleOutcome) []finding {
	var fs []finding
	if o.harness != "" {
		return fs
	}
	if o.badCount > 0 {
		locus := "after-many-restarts"
		if strings.Contains(o.firstBad, "queue is full") {
			locus = "after-many-restarts.invoke-queue-full"
		}
		fs = append(fs, finding{"C11:call-failed:" + locus, fmt.Sprintf("objqueuemax=%d, %d restart cycles with %d calls attempted during each down window: %s — although the server is back on the same port and answers every request it receives (%d judged calls failed in all)",
			o.sc.QueueMax, o.sc.Cycles, o.sc.DownCalls, o.firstBad, o.badCount)})
	}
	if o.downSlow > 0 {
		fs = append(fs, finding{"C11:hang:call-while-server-down", fmt.Sprintf("%d calls issued while the server was down did not return by their own deadline", o.downSlow)})
	}
	return fs
}
