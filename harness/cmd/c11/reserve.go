package main

import (
	"context"
	"fmt"
	"net"
	"syscall"
)

// A scenario whose server goes down and comes back "on the same port" must not give the port back
// to the operating system in between: dozens of scenarios (and other check processes) ask for
// ephemeral ports all the time, and a listener of somebody else on the freed port would receive the
// client's redial. reservedPort keeps a second socket bound (not listening) to the port for the
// whole scenario; both it and the listeners set SO_REUSEPORT so that they can share the port. While
// no listener exists a connect is refused, exactly as with a closed port.

const soReusePort = 0xf // SO_REUSEPORT on linux

type reservedPort struct {
	addr string
	fd   int
}

func reusePortControl(network, address string, c syscall.RawConn) error {
	var serr error
	if err := c.Control(func(fd uintptr) {
		serr = syscall.SetsockoptInt(int(fd), syscall.SOL_SOCKET, soReusePort, 1)
	}); err != nil {
		return err
	}
	return serr
}

// listenReserved opens the first listener on an ephemeral loopback port and reserves that port.
func listenReserved() (net.Listener, *reservedPort, error) {
	lc := net.ListenConfig{Control: reusePortControl}
	ln, err := lc.Listen(context.Background(), "tcp4", "127.0.0.1:0")
	if err != nil {
		return nil, nil, err
	}
	port := ln.Addr().(*net.TCPAddr).Port
	fd, err := syscall.Socket(syscall.AF_INET, syscall.SOCK_STREAM|syscall.SOCK_CLOEXEC, 0)
	if err != nil {
		ln.Close()
		return nil, nil, err
	}
	if err := syscall.SetsockoptInt(fd, syscall.SOL_SOCKET, soReusePort, 1); err != nil {
		syscall.Close(fd)
		ln.Close()
		return nil, nil, err
	}
	if err := syscall.Bind(fd, &syscall.SockaddrInet4{Port: port, Addr: [4]byte{127, 0, 0, 1}}); err != nil {
		syscall.Close(fd)
		ln.Close()
		return nil, nil, fmt.Errorf("reserve port %d: %v", port, err)
	}
	return ln, &reservedPort{addr: ln.Addr().String(), fd: fd}, nil
}

// listen opens a new listener on the reserved port.
func (r *reservedPort) listen() (net.Listener, error) {
	lc := net.ListenConfig{Control: reusePortControl}
	return lc.Listen(context.Background(), "tcp4", r.addr)
}

func (r *reservedPort) release() {
	if r != nil && r.fd >= 0 {
		syscall.Close(r.fd)
		r.fd = -1
	}
}
