// c11: correspondence harness and property oracle for C11 (calls keep succeeding across
// server-initiated connection closes).
//
// The real transport.TarsClient of /repo is driven in-process against a scripted loopback server
// (own ClientProtocol: 8-byte frames, 4-byte length + 4-byte request id; id 0 = the close
// notification). The server answers every request it reads, and closes a connection after chosen
// responses / after an idle period / sends the close notification. A close after a response is
// orderly (FIN: the client's Read returns io.EOF), abortive (`rst`: SO_LINGER 0 + Close, the Read
// fails with ECONNRESET, a *net.OpError), abortive with the client's next request still unread
// (`rst-unread`), or a whole server restart (`restart`: listener closed, every connection reset, a
// new listener on the same port after a short gap). Calls are issued at chosen delays
// after the client has observed the close (0 ms … beyond the 1 s poll period of connection.send).
// Many scenarios run in parallel, each with its own server and client.
//
// Needs the verif hook of pending/C11-hook.patch: VerifClientState (isClosed, current conn, queue
// lengths) and the yield points "Send.reconnected", "send.top", "send.inner", "send.got",
// "recv.closing", at which the harness records the passage and can hold the goroutine.
//
// Streams (every scenario: observed history → property oracle, independent of the model; the visible
// history is also replayed through the Lean LTS with `admits` of the variant the tree is):
//
//	free            nobody is held: close after a response (or server-side idle close), next call
//	                after DelayMs, a later call after more than one poll period
//	timely          the same with DelayMs beyond the poll period (the old sender has gone)
//	forced-parked   the D14 schedule: the old sender is held in front of its inner select (it has not
//	                polled connDone since the close), the new sender in front of its own; the old one
//	                is released first and finds the request of the call issued after the close
//	forced-resend   the new sender is held at its loop top instead: it finds the request in
//	                sendFailQueue and re-sends it, the healthy connection stays marked closed
//	forced-late-recv  client idle close; the old receiver is held in front of its close() until the
//	                next call has dialled a new connection
//	notify          the server sends the close notification; the harness does what
//	                AdapterProxy.onPush does (new TarsClient, GraceClose of the old one); oracle only
//	unobserved      the next call is issued without waiting for the client to notice the close
//	                (inherent TCP race; recorded, outcome not judged)
//	literal         the schedules of the Lean theorems (`run`) against the probes of forced-parked
//	notify-linger   the close notification end to end through the full client (notify.go)
//	restart-scale   30–60 restart cycles on one proxy of the full client with objqueuemax 8–16, calls
//	                attempted while the server is down (failed sends), two judged calls after each
//	                restart (notify.go)
//	burst           4–8 callers released together (barrier) on one TarsClient at the first connect and
//	                after every noticed close (FIN, RST, server idle, restart, notification); the
//	                server takes a few ms per request so that requests are outstanding
//	idle-scale      25–40 server idle-close / reconnect cycles on one transport client
package main

import (
	"context"
	"encoding/binary"
	"encoding/json"
	"fmt"
	"io"
	"math/rand"
	"net"
	"os"
	"sort"
	"strings"
	"sync"
	"sync/atomic"
	"time"

	"verifharness/common"

	"github.com/TarsCloud/TarsGo/tars/transport"
	"github.com/TarsCloud/TarsGo/tars/util/rogger"
)

const (
	callTimeout   = 6 * time.Second         // a call that has no answer by then has failed
	latencyBound  = 2 * time.Second         // "well below its timeout"; two poll periods of connection.send
	pollPeriod    = time.Second             // ticker of connection.send (Consts.clientSendTickMs)
	settle        = 1300 * time.Millisecond // more than one poll period
	observeWait   = 3 * time.Second
	scenarioLimit = 40 * time.Second
)

// Scenario is one replayable case.
type Scenario struct {
	Kind         string `json:"kind"`
	Seed         int64  `json:"seed"`
	PreCalls     int    `json:"pre_calls"`      // calls answered on the first connection; the last one triggers the close
	CloseHow     string `json:"close_how"`      // response | rst | rst-unread | restart | server-idle | notify
	ServerIdleMs int    `json:"server_idle_ms"` // server-idle: the server closes a connection after this long without a request
	DelayMs      int    `json:"delay_ms"`       // between the client having observed the close and the next call
	ClientIdleMs int    `json:"client_idle_ms"` // the client's IdleTimeout (0: one hour)
	QueueLen     int    `json:"queue_len"`
	Rounds       int    `json:"rounds"`                   // free/timely: close / call rounds
	HasCallback  bool   `json:"has_callback,omitempty"`   // notify-linger: the client registered a push callback
	LingerMs     int    `json:"linger_ms,omitempty"`      // notify-linger: the server closes the old connection this long after the notification
	ExtraPush    bool   `json:"extra_push,omitempty"`     // notify-linger: an ordinary push precedes the notification
	OneWays      int    `json:"one_ways,omitempty"`       // notify-linger: one-way calls (never answered) before the first notification
	Restarts     int    `json:"restarts,omitempty"`       // notify-linger: graceful restarts in a row (0 = 1)
	GapMs        int    `json:"gap_ms,omitempty"`         // notify-linger: the next notification this long after the previous one
	QueueMax     int    `json:"queue_max,omitempty"`      // restart-scale: the client's objqueuemax
	Cycles       int    `json:"cycles,omitempty"`         // restart-scale / idle-scale: restart (idle close) cycles
	DownCalls    int    `json:"down_calls,omitempty"`     // restart-scale: calls attempted during each down window
	Burst        int    `json:"burst,omitempty"`          // burst: callers released together (barrier) at the first connect and after every close
	ServerWorkMs int    `json:"server_work_ms,omitempty"` // the server takes this long over every request
}

type callResult struct {
	Begun   time.Time
	ID      uint32
	OK      bool
	SendErr string
	Latency time.Duration
	Judged  bool // issued after the client had observed every close so far and nothing was closing
}

type srvConn struct {
	k           int
	c           net.Conn
	remote      string
	closedBySrv bool
	sawEOF      bool
	reqs        []uint32
	goOn        chan struct{} // rst-unread: closed by the harness once the unread request is on its way
}

type gate struct {
	arrived chan struct{}
	release chan struct{}
	once    sync.Once
}

type probe struct {
	Closed bool
	SendQ  int
	FailQ  int
	Conns  int
	Cur    int // index of the client's current connection, -1 if none
}

type world struct {
	sc  Scenario
	ln  net.Listener
	cfg *transport.TarsClientConf
	p   *proto
	tc  atomic.Pointer[transport.TarsClient]

	mu         sync.Mutex
	hist       []string
	conns      []*srvConn
	closeAfter map[uint32]string // request id → close mode after its response
	addr       string
	port       *reservedPort
	restarted  chan struct{}
	notifyAt   map[uint32]bool
	connIdx    map[net.Conn]int // client side: first-sight order
	connLocal  []string
	gates      map[string]*gate
	triggers   map[string]func() // "<token>#<n>": run (lock held) when the token is recorded the n-th time
	tokCount   map[string]int
	pending    map[uint32]chan struct{}
	clients    int
	notes      []string
}

var worlds sync.Map // *transport.TarsClient → *world

func frame(id uint32) []byte {
	b := make([]byte, 8)
	binary.BigEndian.PutUint32(b, 8)
	binary.BigEndian.PutUint32(b[4:], id)
	return b
}

type proto struct{ w *world }

func (p *proto) ParsePackage(b []byte) (int, int) {
	if len(b) < 4 {
		return 0, transport.PackageLess
	}
	n := int(binary.BigEndian.Uint32(b))
	if n != 8 {
		return 0, transport.PackageError
	}
	if len(b) < n {
		return 0, transport.PackageLess
	}
	return n, transport.PackageFull
}

func (p *proto) Recv(pkg []byte) {
	id := binary.BigEndian.Uint32(pkg[4:])
	if id == 0 {
		p.w.onNotify()
		return
	}
	p.w.mu.Lock()
	ch := p.w.pending[id]
	delete(p.w.pending, id)
	p.w.mu.Unlock()
	if ch != nil {
		close(ch)
	}
}

func (w *world) rec(tok string) {
	w.mu.Lock()
	w.hist = append(w.hist, tok)
	w.mu.Unlock()
}

func (w *world) note(f string, a ...interface{}) {
	w.mu.Lock()
	w.notes = append(w.notes, fmt.Sprintf(f, a...))
	w.mu.Unlock()
}

func newWorld(sc Scenario) (*world, error) {
	ln, rp, err := listenReserved()
	if err != nil {
		return nil, err
	}
	w := &world{sc: sc, ln: ln, port: rp, addr: ln.Addr().String(), restarted: make(chan struct{}), closeAfter: map[uint32]string{}, notifyAt: map[uint32]bool{},
		connIdx: map[net.Conn]int{}, gates: map[string]*gate{}, pending: map[uint32]chan struct{}{},
		triggers: map[string]func(){}, tokCount: map[string]int{}}
	w.p = &proto{w}
	idle := time.Hour
	if sc.ClientIdleMs > 0 {
		idle = time.Duration(sc.ClientIdleMs) * time.Millisecond
	}
	q := sc.QueueLen
	if q <= 0 {
		q = 16
	}
	w.cfg = &transport.TarsClientConf{Proto: "tcp", QueueLen: q, IdleTimeout: idle, DialTimeout: 3 * time.Second}
	w.newClient()
	go w.acceptLoop(ln)
	return w, nil
}

func (w *world) newClient() *transport.TarsClient {
	tc := transport.NewTarsClient(w.addr, w.p, w.cfg)
	worlds.Store(tc, w)
	w.tc.Store(tc)
	w.mu.Lock()
	w.clients++
	w.mu.Unlock()
	return tc
}

// onNotify does what AdapterProxy.onPush does on the close notification.
func (w *world) onNotify() {
	old := w.tc.Load()
	w.newClient()
	ctx, cancel := context.WithTimeout(context.Background(), 2*time.Second)
	defer cancel()
	old.GraceClose(ctx)
}

func abort(c net.Conn) {
	if t, ok := c.(*net.TCPConn); ok {
		_ = t.SetLinger(0) // Close sends RST instead of FIN
	}
	_ = c.Close()
}

// restart: the server goes away and comes back on the same port: the listener is closed, every open
// connection is reset, and after a short gap a new listener accepts again.
func (w *world) restart(done chan struct{}) {
	defer close(done)
	w.mu.Lock()
	ln := w.ln
	var open []*srvConn
	for _, c := range w.conns {
		if !c.closedBySrv && !c.sawEOF {
			c.closedBySrv = true
			w.hist = append(w.hist, fmt.Sprintf("Q.%d", c.k))
			open = append(open, c)
		}
	}
	w.mu.Unlock()
	_ = ln.Close()
	for _, c := range open {
		abort(c.c)
	}
	time.Sleep(60 * time.Millisecond)
	for i := 0; i < 200; i++ {
		ln2, err := w.port.listen()
		if err == nil {
			w.mu.Lock()
			w.ln = ln2
			w.mu.Unlock()
			go w.acceptLoop(ln2)
			return
		}
		time.Sleep(10 * time.Millisecond)
	}
	w.note("restart: could not listen on %s again", w.addr)
}

func (w *world) acceptLoop(ln net.Listener) {
	for {
		c, err := ln.Accept()
		if err != nil {
			return
		}
		w.mu.Lock()
		sc := &srvConn{k: len(w.conns), c: c, remote: c.RemoteAddr().String(), goOn: make(chan struct{})}
		w.conns = append(w.conns, sc)
		w.hist = append(w.hist, fmt.Sprintf("A.%d", sc.k))
		w.mu.Unlock()
		go w.serve(sc)
	}
}

func (w *world) serve(sc *srvConn) {
	buf := make([]byte, 8)
	for {
		if w.sc.CloseHow == "server-idle" && w.sc.ServerIdleMs > 0 {
			// the idle period counts from the last request: a connection that has just been accepted is
			// given time for its first request (closing it under the request that is on its way would
			// be a close concurrent with the call, not one the call is issued after)
			w.mu.Lock()
			fresh := len(sc.reqs) == 0
			w.mu.Unlock()
			d := time.Duration(w.sc.ServerIdleMs) * time.Millisecond
			if fresh {
				d += 2 * time.Second
			}
			_ = sc.c.SetReadDeadline(time.Now().Add(d))
		}
		_, err := io.ReadFull(sc.c, buf)
		if err != nil {
			w.mu.Lock()
			if sc.closedBySrv { // reset by restart()
				w.mu.Unlock()
				return
			}
			if ne, ok := err.(net.Error); ok && ne.Timeout() {
				// idle period: the server stops reading and closes
				sc.closedBySrv = true
				w.hist = append(w.hist, fmt.Sprintf("P.%d", sc.k))
			} else {
				sc.sawEOF = true
			}
			w.mu.Unlock()
			_ = sc.c.Close()
			return
		}
		id := binary.BigEndian.Uint32(buf[4:])
		w.mu.Lock()
		sc.reqs = append(sc.reqs, id)
		w.hist = append(w.hist, fmt.Sprintf("V.%d.%d", sc.k, id))
		mode := w.closeAfter[id]
		notify := w.notifyAt[id]
		restartDone := w.restarted
		w.mu.Unlock()
		if w.sc.ServerWorkMs > 0 {
			time.Sleep(time.Duration(w.sc.ServerWorkMs) * time.Millisecond)
		}
		_, _ = sc.c.Write(frame(id)) // the server answers every request it receives
		if notify {
			_, _ = sc.c.Write(frame(0))
			go func() { // like a server shutting down: the connection goes a little later
				time.Sleep(300 * time.Millisecond)
				w.mu.Lock()
				if !sc.closedBySrv && !sc.sawEOF {
					sc.closedBySrv = true
					w.hist = append(w.hist, fmt.Sprintf("P.%d", sc.k))
				}
				w.mu.Unlock()
				_ = sc.c.Close()
			}()
		}
		switch mode {
		case "response": // orderly close: FIN
			w.mu.Lock()
			sc.closedBySrv = true
			w.hist = append(w.hist, fmt.Sprintf("P.%d", sc.k))
			w.mu.Unlock()
			_ = sc.c.Close()
			return
		case "rst": // abortive close: RST
			w.mu.Lock()
			sc.closedBySrv = true
			w.hist = append(w.hist, fmt.Sprintf("Q.%d", sc.k))
			w.mu.Unlock()
			abort(sc.c)
			return
		case "rst-unread": // stop reading now; close when the client's next request is in the socket, unread
			w.mu.Lock()
			sc.closedBySrv = true
			w.hist = append(w.hist, fmt.Sprintf("Q.%d", sc.k))
			w.mu.Unlock()
			waitCh(sc.goOn, 3*time.Second)
			_ = sc.c.Close() // unread input pending: the kernel answers with RST
			return
		case "restart":
			go w.restart(restartDone)
			return
		}
	}
}

// yield is called by the client's goroutines at the hook's yield points.
func (w *world) yield(point string, conn net.Conn) {
	var tok, key string
	w.mu.Lock()
	if conn == nil {
		tok, key = "C", point
	} else {
		k, ok := w.connIdx[conn]
		if !ok {
			k = len(w.connIdx)
			w.connIdx[conn] = k
			w.connLocal = append(w.connLocal, conn.LocalAddr().String())
		}
		letter := map[string]string{"send.top": "T", "send.inner": "I", "send.got": "G", "recv.closing": "X"}[point]
		tok = fmt.Sprintf("%s.%d", letter, k)
		key = fmt.Sprintf("%s/%d", point, k)
	}
	w.hist = append(w.hist, tok)
	w.tokCount[tok]++
	if f := w.triggers[fmt.Sprintf("%s#%d", tok, w.tokCount[tok])]; f != nil {
		f()
	}
	g := w.gates[key]
	w.mu.Unlock()
	if g != nil {
		g.once.Do(func() { close(g.arrived) })
		<-g.release
	}
}

func (w *world) hold(point string, k int) *gate { return w.holdKey(fmt.Sprintf("%s/%d", point, k)) }

// holdAfter installs a gate at (point, k) at the moment the token tok is recorded for the n-th time
// (in the goroutine that records it, before it goes on).
func (w *world) holdAfter(tok string, n int, point string, k int) *gate {
	g := &gate{arrived: make(chan struct{}), release: make(chan struct{})}
	w.mu.Lock()
	w.triggers[fmt.Sprintf("%s#%d", tok, n)] = func() { w.gates[fmt.Sprintf("%s/%d", point, k)] = g }
	w.mu.Unlock()
	return g
}

func (w *world) holdKey(key string) *gate {
	g := &gate{arrived: make(chan struct{}), release: make(chan struct{})}
	w.mu.Lock()
	w.gates[key] = g
	w.mu.Unlock()
	return g
}

func waitCh(ch <-chan struct{}, d time.Duration) bool {
	select {
	case <-ch:
		return true
	case <-time.After(d):
		return false
	}
}

func (w *world) state() transport.VerifClientState { return w.tc.Load().VerifClientState() }

func (w *world) probeNow(record bool) probe {
	st := w.state()
	w.mu.Lock()
	defer w.mu.Unlock()
	cur := -1
	if st.Conn != nil {
		if k, ok := w.connIdx[st.Conn]; ok {
			cur = k
		} else {
			cur = len(w.conns) - 1
		}
	}
	p := probe{Closed: st.IsClosed, SendQ: st.SendQueue, FailQ: st.SendFailLen, Conns: len(w.conns), Cur: cur}
	if record {
		c := 0
		if p.Closed {
			c = 1
		}
		w.hist = append(w.hist, fmt.Sprintf("S.%d.%d.%d.%d", c, p.SendQ, p.FailQ, p.Conns))
	}
	return p
}

// waitState polls the client's state until pred holds (true) or d has passed (false).
func (w *world) waitState(d time.Duration, pred func(transport.VerifClientState) bool) bool {
	deadline := time.Now().Add(d)
	for {
		if pred(w.state()) {
			return true
		}
		if time.Now().After(deadline) {
			return false
		}
		time.Sleep(time.Millisecond)
	}
}

// startCall issues a call; the result arrives on the returned channel.
func (w *world) startCall(id uint32, judged bool) <-chan callResult {
	return w.startCallGated(id, judged, nil)
}

// startCallGated: the caller goroutine waits at the barrier `gate` (if any) before it issues the call
func (w *world) startCallGated(id uint32, judged bool, gate <-chan struct{}) <-chan callResult {
	out := make(chan callResult, 1)
	ch := make(chan struct{})
	w.mu.Lock()
	w.pending[id] = ch
	w.mu.Unlock()
	go func() {
		if gate != nil {
			<-gate
		}
		t0 := time.Now()
		w.rec(fmt.Sprintf("B.%d", id))
		err := w.tc.Load().Send(frame(id))
		if err != nil {
			if strings.Contains(err.Error(), "write timeout") {
				w.rec(fmt.Sprintf("F.%d", id))
			} else {
				w.rec(fmt.Sprintf("E.%d", id))
			}
			out <- callResult{Begun: t0, ID: id, SendErr: err.Error(), Latency: time.Since(t0), Judged: judged}
			return
		}
		w.rec(fmt.Sprintf("R.%d", id))
		select {
		case <-ch:
			out <- callResult{Begun: t0, ID: id, OK: true, Latency: time.Since(t0), Judged: judged}
		case <-time.After(callTimeout - time.Since(t0)):
			out <- callResult{Begun: t0, ID: id, Latency: time.Since(t0), Judged: judged}
		}
	}()
	return out
}

// sendReturned waits until Send of call id has returned.
func (w *world) sendReturned(id uint32, d time.Duration) bool {
	deadline := time.Now().Add(d)
	want := []string{fmt.Sprintf("R.%d", id), fmt.Sprintf("F.%d", id), fmt.Sprintf("E.%d", id)}
	for {
		w.mu.Lock()
		for i := len(w.hist) - 1; i >= 0; i-- {
			for _, t := range want {
				if w.hist[i] == t {
					w.mu.Unlock()
					return true
				}
			}
		}
		w.mu.Unlock()
		if time.Now().After(deadline) {
			return false
		}
		time.Sleep(time.Millisecond)
	}
}

// outcome of one executed scenario
type outcome struct {
	sc       Scenario
	hist     []string
	calls    []callResult
	probes   []probeAt
	srv      []srvView
	clients  int
	connsOK  bool // the client-side connection order equals the server's accept order
	notes    []string
	hang     string
	observed []bool // per close: did the client notice it within observeWait
	closes   int
	literal  string // schedule name whose model run is compared with probes (forced-parked)
}

type probeAt struct {
	Label string
	P     probe
	// server-side view of the client's current connection shortly after the probe
	CurOpenAtServer bool
}

type srvView struct {
	K           int
	ClosedBySrv bool
	SawEOF      bool
	Reqs        []uint32
}

// probeJudge takes a recorded probe and, a moment later, the server's view of the connection the
// client considered current.
func (w *world) probeJudge(label string, out *outcome) probe {
	p := w.probeNow(true)
	time.Sleep(50 * time.Millisecond) // let a FIN of a client-side close reach the server's reader
	open := false
	w.mu.Lock()
	if p.Cur >= 0 && p.Cur < len(w.conns) {
		c := w.conns[p.Cur]
		open = !c.closedBySrv && !c.sawEOF
	}
	w.mu.Unlock()
	out.probes = append(out.probes, probeAt{Label: label, P: p, CurOpenAtServer: open})
	return p
}

func (w *world) finish(out *outcome) {
	_ = w.ln.Close()
	defer w.port.release()
	w.mu.Lock()
	out.hist = append([]string(nil), w.hist...)
	out.clients = w.clients
	out.notes = append(out.notes, w.notes...)
	out.connsOK = true
	for i, a := range w.connLocal {
		if i >= len(w.conns) || w.conns[i].remote != a {
			out.connsOK = false
		}
	}
	for _, c := range w.conns {
		out.srv = append(out.srv, srvView{K: c.k, ClosedBySrv: c.closedBySrv, SawEOF: c.sawEOF, Reqs: append([]uint32(nil), c.reqs...)})
	}
	// release whatever is still held, then close the sockets so that the client's goroutines end
	for _, g := range w.gates {
		select {
		case <-g.release:
		default:
			close(g.release)
		}
	}
	conns := append([]*srvConn(nil), w.conns...)
	w.mu.Unlock()
	for _, c := range conns {
		_ = c.c.Close()
	}
	w.tc.Load().Close()
}

// observeClose waits until the client has noticed that its current connection is gone: the
// receiver of the connection the server closed last has passed "recv.closing" (if the server closed
// one) and the flag is set.
func (w *world) observeClose(out *outcome) bool {
	deadline := time.Now().Add(observeWait)
	ok := false
	for !ok && time.Now().Before(deadline) {
		w.mu.Lock()
		last := ""
		for _, t := range w.hist {
			if strings.HasPrefix(t, "P.") || strings.HasPrefix(t, "Q.") {
				last = "X." + t[2:]
			}
		}
		ok = last == ""
		for _, t := range w.hist {
			if t == last {
				ok = true
			}
		}
		w.mu.Unlock()
		if !ok {
			time.Sleep(time.Millisecond)
		}
	}
	ok = ok && w.waitState(time.Until(deadline), func(st transport.VerifClientState) bool { return st.IsClosed })
	out.observed = append(out.observed, ok)
	out.closes++
	return ok
}

func execute(sc Scenario) (out outcome) {
	out.sc = sc
	w, err := newWorld(sc)
	if err != nil {
		out.hang = "listen: " + err.Error()
		return
	}
	defer w.finish(&out)
	wait := func(ch <-chan callResult) callResult {
		select {
		case r := <-ch:
			out.calls = append(out.calls, r)
			return r
		case <-time.After(callTimeout + 2*time.Second):
			out.hang = "call"
			return callResult{}
		}
	}
	next := uint32(0)
	id := func() uint32 { next++; return next }
	pre := sc.PreCalls
	if pre < 1 {
		pre = 1
	}
	trigger := func(i uint32) {
		w.mu.Lock()
		if sc.CloseHow == "notify" {
			w.notifyAt[i] = true
		} else if sc.CloseHow != "server-idle" && sc.CloseHow != "none" {
			w.closeAfter[i] = sc.CloseHow
		}
		w.mu.Unlock()
	}
	// after the last call on the old connection: what has to happen before the loss can be noticed
	afterTrigger := func() {
		switch sc.CloseHow {
		case "rst-unread":
			// one more request goes out on the connection the server has stopped reading; it is never
			// answered (the server never receives it) and is not judged
			f := id()
			w.rec(fmt.Sprintf("B.%d", f))
			if err := w.tc.Load().Send(frame(f)); err != nil {
				w.rec(fmt.Sprintf("E.%d", f))
			} else {
				w.rec(fmt.Sprintf("R.%d", f))
			}
			// until the old connection's sender has written it (or 100 ms), then the server closes
			w.waitState(100*time.Millisecond, func(st transport.VerifClientState) bool { return st.SendQueue == 0 && st.InvokeNum >= 1 })
			time.Sleep(5 * time.Millisecond)
			w.mu.Lock()
			for _, c := range w.conns {
				select {
				case <-c.goOn:
				default:
					if c.closedBySrv {
						close(c.goOn)
					}
				}
			}
			w.mu.Unlock()
		case "restart":
			w.mu.Lock()
			done := w.restarted
			w.mu.Unlock()
			if !waitCh(done, 5*time.Second) {
				out.notes = append(out.notes, "server did not come back")
			}
			w.mu.Lock()
			w.restarted = make(chan struct{})
			w.mu.Unlock()
		}
	}
	delay := time.Duration(sc.DelayMs) * time.Millisecond

	switch sc.Kind {
	case "free", "timely", "unobserved":
		rounds := sc.Rounds
		if rounds < 1 {
			rounds = 1
		}
		for r := 0; r < rounds; r++ {
			if r > 0 && w.state().IsClosed {
				out.notes = append(out.notes, "round skipped: flag already set")
				break
			}
			for i := 0; i < pre; i++ {
				c := id()
				if i == pre-1 {
					trigger(c)
				}
				wait(w.startCall(c, true))
			}
			afterTrigger()
			judged := true
			if sc.Kind == "unobserved" {
				judged = false
			} else if !w.observeClose(&out) {
				judged = false
			}
			time.Sleep(delay)
			wait(w.startCall(id(), judged))
			if sc.Kind == "unobserved" {
				time.Sleep(settle)
				continue
			}
			w.probeJudge("after-call-after-close", &out)
			time.Sleep(settle)
			w.probeJudge("one-poll-period-later", &out)
			if sc.CloseHow == "server-idle" {
				// the server idle-closes every connection: a later call is no longer "after the close
				// has been observed" unless we wait for it again; stop the round here
				continue
			}
			wait(w.startCall(id(), true))
		}
		if sc.CloseHow != "server-idle" {
			time.Sleep(settle)
			w.probeJudge("end", &out)
		}

	case "notify":
		for i := 0; i < pre; i++ {
			c := id()
			if i == pre-1 {
				trigger(c)
			}
			wait(w.startCall(c, true))
		}
		// the notification is on its way: wait until the harness' onPush has swapped the client
		deadline := time.Now().Add(observeWait)
		for time.Now().Before(deadline) {
			w.mu.Lock()
			n := w.clients
			w.mu.Unlock()
			if n >= 2 {
				break
			}
			time.Sleep(time.Millisecond)
		}
		time.Sleep(delay)
		wait(w.startCall(id(), true))
		time.Sleep(settle)
		wait(w.startCall(id(), true))

	case "forced-parked", "forced-resend":
		point := "send.inner"
		if sc.Kind == "forced-resend" {
			point = "send.top"
		}
		// the old sender is stopped in front of its inner select once it has taken the last request of
		// the first connection; the new sender is stopped at `point`
		g0 := w.holdAfter("G.0", pre, "send.inner", 0)
		g := w.hold(point, 1)
		for i := 0; i < pre; i++ {
			c := id()
			if i == pre-1 {
				trigger(c)
			}
			wait(w.startCall(c, true))
		}
		afterTrigger()
		if !waitCh(g0.arrived, 3*time.Second) {
			out.notes = append(out.notes, "old sender did not come back to its inner select")
		}
		if !w.observeClose(&out) {
			out.notes = append(out.notes, "close not observed")
			return
		}
		time.Sleep(delay)
		c2 := id()
		ch2 := w.startCall(c2, true)
		if !waitCh(g.arrived, 3*time.Second) {
			out.notes = append(out.notes, "new sender did not reach "+point)
		}
		w.sendReturned(c2, 3*time.Second)
		// the old sender enters its inner select: the request is waiting in sendQueue
		close(g0.release)
		w.waitState(500*time.Millisecond, func(st transport.VerifClientState) bool { return st.SendFailLen == 1 })
		w.waitState(150*time.Millisecond, func(st transport.VerifClientState) bool { return st.IsClosed })
		w.probeJudge("old-sender-done", &out)
		released := time.Now()
		close(g.release)
		adjust := func(r callResult) callResult { // the time the harness itself held the new sender does not count
			if held := released.Sub(r.Begun); held > 0 && r.OK {
				r.Latency -= held
			}
			return r
		}
		select {
		case r := <-ch2:
			out.calls = append(out.calls, adjust(r))
			w.probeJudge("after-call-after-close", &out)
			time.Sleep(settle)
			w.probeJudge("one-poll-period-later", &out)
		case <-time.After(latencyBound):
			// not answered well below its timeout although the server answers everything it gets
			w.probeJudge("call-unanswered-after-bound", &out)
			// another call arrives: does it rescue the parked one?
			wait(w.startCall(id(), true))
			select {
			case r := <-ch2:
				out.calls = append(out.calls, adjust(r))
			case <-time.After(callTimeout):
				out.hang = "call 2"
			}
			time.Sleep(settle)
			w.probeJudge("after-rescue", &out)
		}
		wait(w.startCall(id(), true))
		time.Sleep(settle)
		w.probeJudge("end", &out)

	case "burst":
		// N callers are released together on one TarsClient: at the very first connect and after every
		// server-initiated close the client has noticed. All of them find the client closed at about
		// the same time; exactly one may dial.
		n := sc.Burst
		if n < 2 {
			n = 4
		}
		burst := func() {
			gate := make(chan struct{})
			var chs []<-chan callResult
			for i := 0; i < n; i++ {
				chs = append(chs, w.startCallGated(id(), true, gate))
			}
			time.Sleep(2 * time.Millisecond) // every caller stands at the barrier
			close(gate)
			for _, ch := range chs {
				wait(ch)
			}
		}
		burst()
		rounds := sc.Rounds
		if rounds < 1 {
			rounds = 1
		}
		for r := 0; r < rounds && out.hang == ""; r++ {
			c := id()
			trigger(c)
			wait(w.startCall(c, true))
			afterTrigger()
			if sc.CloseHow == "notify" {
				deadline := time.Now().Add(observeWait)
				for time.Now().Before(deadline) {
					w.mu.Lock()
					k := w.clients
					w.mu.Unlock()
					if k >= r+2 {
						break
					}
					time.Sleep(time.Millisecond)
				}
			} else if !w.observeClose(&out) {
				break
			}
			time.Sleep(delay)
			burst()
		}
		if sc.CloseHow != "server-idle" && sc.CloseHow != "notify" {
			w.probeJudge("end", &out)
		}

	case "idle-scale":
		// many idle-close / reconnect cycles on one client: the server closes every connection after
		// ServerIdleMs without a request; each next call is issued as soon as the client has noticed
		for c := 0; c < sc.Cycles; c++ {
			r := wait(w.startCall(id(), true))
			if !r.OK || !w.observeClose(&out) {
				break
			}
			time.Sleep(delay)
		}
		wait(w.startCall(id(), true))
		w.probeJudge("end", &out)

	case "forced-late-recv":
		g := w.hold("recv.closing", 0)
		wait(w.startCall(id(), true))
		// the client's own sender closes the idle connection at one of its ticks; its receiver then
		// stops in front of close()
		if !waitCh(g.arrived, 4*time.Second) {
			out.notes = append(out.notes, "idle close did not happen")
			return
		}
		if !w.observeClose(&out) {
			return
		}
		wait(w.startCall(id(), true)) // dials connection 1 and is answered on it
		close(g.release)              // now the OLD receiver runs close(conn 0)
		w.waitState(150*time.Millisecond, func(st transport.VerifClientState) bool { return st.IsClosed })
		w.probeJudge("old-receiver-done", &out)
		time.Sleep(settle)
		wait(w.startCall(id(), true))
		w.probeJudge("end", &out)
	}
	return
}

// ---------------------------------------------------------------------------------------------
// property oracle (independent of the Lean model)

type finding struct {
	sig, what string
}

func idxOf(h []string, tok string, from int) int {
	for i := from; i < len(h); i++ {
		if h[i] == tok {
			return i
		}
	}
	return -1
}

func oracle(o *outcome) []finding {
	var fs []finding
	add := func(sig, what string) {
		for _, f := range fs {
			if f.sig == sig {
				return
			}
		}
		fs = append(fs, finding{sig, what})
	}
	h := o.hist
	// which old connection misbehaved, from the recorded passages: a sender of connection k that
	// takes a request after the receiver of k went to close it / a receiver that goes to close k after
	// a newer connection was accepted
	locus := func() string {
		for i, t := range h {
			var k int
			if n, _ := fmt.Sscanf(t, "G.%d", &k); n == 1 {
				if j := idxOf(h, fmt.Sprintf("X.%d", k), 0); j >= 0 && j < i {
					return "old-sender-after-reconnect"
				}
			}
		}
		// a receiver that went to close a connection the SERVER had not closed (the client's own idle
		// close), with a newer connection dialled in the same run
		for _, t := range h {
			var k int
			if n, _ := fmt.Sscanf(t, "X.%d", &k); n == 1 {
				if idxOf(h, fmt.Sprintf("P.%d", k), 0) < 0 && idxOf(h, fmt.Sprintf("A.%d", k+1), 0) >= 0 {
					return "old-receiver-after-reconnect"
				}
			}
		}
		return "unknown"
	}

	// O1: every judged call succeeds well below its timeout
	for _, c := range o.calls {
		if !c.Judged {
			continue
		}
		if c.SendErr != "" {
			add("C11:call-failed:Send", fmt.Sprintf("Send of call %d returned %q although the server is reachable", c.ID, c.SendErr))
			continue
		}
		if c.OK && c.Latency < latencyBound {
			continue
		}
		arrived := false
		for _, s := range o.srv {
			for _, r := range s.Reqs {
				if r == c.ID {
					arrived = true
				}
			}
		}
		where := ""
		for _, p := range o.probes {
			if p.P.FailQ > 0 {
				where = "sendFailQueue"
			} else if p.P.SendQ > 0 && where == "" {
				where = "sendQueue"
			}
		}
		switch {
		case where != "":
			add("C11:request-parked:"+where, fmt.Sprintf("call %d, issued after the client had observed the close, ok=%v after %v (bound %v, timeout %v): the request sat in %s with no sender goroutine serving it while the server was reachable and answered everything it received",
				c.ID, c.OK, c.Latency.Round(time.Millisecond), latencyBound, callTimeout, where))
		case !arrived:
			add("C11:call-failed:request-not-delivered", fmt.Sprintf("call %d, issued after the client had observed the close, failed after %v: its request never reached the server", c.ID, c.Latency.Round(time.Millisecond)))
		case c.OK:
			add("C11:call-late:unknown", fmt.Sprintf("call %d succeeded only after %v (bound %v)", c.ID, c.Latency.Round(time.Millisecond), latencyBound))
		default:
			add("C11:call-failed:no-response", fmt.Sprintf("call %d got no response although its request arrived at the server", c.ID))
		}
	}
	// O2: a healthy connection is never treated as closed (probes at quiet points)
	for _, p := range o.probes {
		if p.P.Closed && p.P.Cur >= 0 && p.CurOpenAtServer {
			add("C11:healthy-conn-marked-closed:"+locus(), fmt.Sprintf("probe %q: isClosed=true while the client's current connection %d is open and untouched on both sides (sendQ=%d failQ=%d, %d connections dialled)",
				p.Label, p.P.Cur, p.P.SendQ, p.P.FailQ, p.P.Conns))
		}
	}
	// O4: no reconnect without a connection loss (only where the client's idle close is out of reach)
	if o.sc.ClientIdleMs == 0 && o.sc.Kind != "unobserved" && !(o.sc.Kind == "burst" && o.sc.CloseHow == "notify") {
		losses := 0
		for _, s := range o.srv {
			if s.ClosedBySrv {
				losses++
			}
		}
		if len(o.srv) > 1+losses {
			add("C11:healthy-conn-marked-closed:"+locus(), fmt.Sprintf("%d connections dialled although the server closed only %d: a reconnect was caused by a healthy connection being treated as closed", len(o.srv), losses))
		}
	}
	// O3: no request of a call issued after the observed close is handed to the dead connection's
	// sender: a "send.got" passage of the closed connection's sender after the call began
	if o.sc.Kind != "unobserved" && o.sc.Kind != "notify" {
		for _, c := range o.calls {
			if !c.Judged {
				continue
			}
			b := idxOf(h, fmt.Sprintf("B.%d", c.ID), 0)
			if b < 0 {
				continue
			}
			for i := b + 1; i < len(h); i++ {
				var k int
				if n, _ := fmt.Sscanf(h[i], "G.%d", &k); n == 1 {
					// connection k was already observed closed before the call began?
					x := idxOf(h, fmt.Sprintf("X.%d", k), 0)
					if x >= 0 && x < b {
						add("C11:dead-write:old-sender-after-reconnect", fmt.Sprintf("after call %d was issued, the sender goroutine of connection %d — which the client had closed before the call was issued — took a request and wrote it to that connection", c.ID, k))
					}
				}
			}
		}
	}
	// O5: nothing is left queued at the end
	for _, p := range o.probes {
		if p.Label == "end" && o.sc.Kind != "unobserved" && (p.P.SendQ > 0 || p.P.FailQ > 0) {
			add("C11:request-parked:end", fmt.Sprintf("at the end sendQ=%d failQ=%d", p.P.SendQ, p.P.FailQ))
		}
	}
	// O7: the client never closes a healthy connection that carried requests (it may only close what
	// the server has left, and its own idle connections): the server saw the CLIENT end a connection
	// it had neither closed nor announced as closing
	if o.sc.ClientIdleMs == 0 && o.sc.CloseHow != "notify" && o.sc.Kind != "notify" && o.sc.Kind != "unobserved" {
		for _, sv := range o.srv {
			if sv.SawEOF && !sv.ClosedBySrv && len(sv.Reqs) > 0 {
				add("C11:healthy-conn-closed:by-client", fmt.Sprintf("connection %d, on which the server had received %d requests and which it had not closed, was closed by the client", sv.K, len(sv.Reqs)))
			}
		}
	}
	// O6: the client notices a server-side close (its receiver reads EOF and runs close) — otherwise
	// the next call is written into the dead connection
	if o.sc.Kind != "unobserved" && o.sc.Kind != "notify" {
		for i, ob := range o.observed {
			if !ob {
				add("C11:close-not-noticed:recv", fmt.Sprintf("close %d: %v after the connection was closed the client still does not treat it as closed (isClosed=false)", i+1, observeWait))
			}
		}
	}
	if o.hang != "" {
		add("C11:hang:"+o.hang, "no outcome within the limit in "+o.hang)
	}
	return fs
}

// ---------------------------------------------------------------------------------------------

func genScenarios(o *common.Opts, rng *rand.Rand) []Scenario {
	var scs []Scenario
	n := 1
	if o.Thorough() {
		n = 9
	}
	delays := []int{0, 1, 3, 10, 30, 100, 250, 500, 750, 900}
	for rep := 0; rep < n; rep++ {
		for _, d := range delays {
			jit := 0
			if rep > 0 {
				jit = rng.Intn(1 + d/2)
			}
			scs = append(scs, Scenario{Kind: "free", CloseHow: "response", PreCalls: 1 + rng.Intn(3), DelayMs: d + jit, Rounds: 1 + rng.Intn(2)})
		}
		for _, d := range []int{0, 40, 400} {
			scs = append(scs, Scenario{Kind: "free", CloseHow: "server-idle", ServerIdleMs: 120 + rng.Intn(200), PreCalls: 1 + rng.Intn(2), DelayMs: d + rng.Intn(20), Rounds: 1})
		}
		for _, d := range []int{1300, 1700, 2400} {
			scs = append(scs, Scenario{Kind: "timely", CloseHow: "response", PreCalls: 1 + rng.Intn(3), DelayMs: d + rng.Intn(200), Rounds: 1 + rng.Intn(2)})
		}
		scs = append(scs, Scenario{Kind: "timely", CloseHow: "server-idle", ServerIdleMs: 150 + rng.Intn(200), PreCalls: 1, DelayMs: 1400 + rng.Intn(300), Rounds: 1})
		// abortive closes: the receiver's Read fails with a *net.OpError instead of io.EOF
		for _, d := range []int{0, 100, 600} {
			scs = append(scs, Scenario{Kind: "free", CloseHow: "rst", PreCalls: 1 + rng.Intn(3), DelayMs: d + rng.Intn(1+d/4), Rounds: 1 + rng.Intn(2)})
			scs = append(scs, Scenario{Kind: "free", CloseHow: "restart", PreCalls: 1 + rng.Intn(3), DelayMs: d + rng.Intn(1+d/4), Rounds: 1 + rng.Intn(2)})
		}
		for _, d := range []int{0, 300} {
			scs = append(scs, Scenario{Kind: "free", CloseHow: "rst-unread", PreCalls: 1 + rng.Intn(2), DelayMs: d + rng.Intn(1+d/4), Rounds: 1})
		}
		for _, how := range []string{"rst", "rst-unread", "restart"} {
			scs = append(scs, Scenario{Kind: "timely", CloseHow: how, PreCalls: 1 + rng.Intn(2), DelayMs: 1300 + rng.Intn(500), Rounds: 1})
		}
		for _, how := range []string{"rst", "restart"} {
			scs = append(scs, Scenario{Kind: "forced-parked", CloseHow: how, PreCalls: 1 + rng.Intn(2), DelayMs: rng.Intn(30)})
			scs = append(scs, Scenario{Kind: "forced-resend", CloseHow: how, PreCalls: 1 + rng.Intn(2), DelayMs: rng.Intn(30)})
		}
		for i := 0; i < 2; i++ {
			scs = append(scs, Scenario{Kind: "forced-parked", CloseHow: "response", PreCalls: 1 + i, DelayMs: rng.Intn(30)})
			scs = append(scs, Scenario{Kind: "forced-resend", CloseHow: "response", PreCalls: 1 + rng.Intn(2), DelayMs: rng.Intn(30)})
			scs = append(scs, Scenario{Kind: "forced-late-recv", CloseHow: "none", PreCalls: 1, ClientIdleMs: 100 + rng.Intn(200)})
			scs = append(scs, Scenario{Kind: "notify", CloseHow: "notify", PreCalls: 1 + rng.Intn(2), DelayMs: []int{0, 50, 1200}[rng.Intn(3)]})
			scs = append(scs, Scenario{Kind: "unobserved", CloseHow: "response", PreCalls: 1, DelayMs: 0, Rounds: 1})
		}
		// the close notification through the full client: without and with push callback
		for _, cb := range []bool{false, true} {
			for _, extra := range []bool{false, true} {
				scs = append(scs, Scenario{Kind: "notify-linger", CloseHow: "notify-linger", HasCallback: cb, ExtraPush: extra,
					PreCalls: 1 + rng.Intn(3), DelayMs: 50 + rng.Intn(151), LingerMs: 500 + rng.Intn(501)})
			}
		}
		// successive graceful restarts, one-way requests in flight on the old client (its GraceClose
		// keeps the handler of the first notification busy): every notification must switch the client
		for _, cb := range []bool{false, true} {
			scs = append(scs, Scenario{Kind: "notify-linger", CloseHow: "notify-linger", HasCallback: cb, OneWays: 2 + rng.Intn(3), Restarts: 2,
				GapMs: []int{100, 400, 900, 2000}[rng.Intn(4)] + rng.Intn(100), PreCalls: 1 + rng.Intn(2), DelayMs: 50 + rng.Intn(151), LingerMs: 500 + rng.Intn(501)})
		}
		scs = append(scs, Scenario{Kind: "notify-linger", CloseHow: "notify-linger", HasCallback: rng.Intn(2) == 0, ExtraPush: true, OneWays: 2 + rng.Intn(2), Restarts: 3,
			GapMs: 100 + rng.Intn(700), PreCalls: 1, DelayMs: 50 + rng.Intn(101), LingerMs: 500 + rng.Intn(301)})
		// bursts: 4–8 callers released together at the first connect and after every noticed close
		for _, how := range []string{"response", "rst", "server-idle", "restart", "notify"} {
			scs = append(scs, Scenario{Kind: "burst", CloseHow: how, ServerIdleMs: 250, Burst: 4 + rng.Intn(5), ServerWorkMs: 5 + rng.Intn(16),
				Rounds: 2 + rng.Intn(3), DelayMs: rng.Intn(3)})
		}
		scs = append(scs, Scenario{Kind: "burst", CloseHow: "response", Burst: 4, ServerWorkMs: 5 + rng.Intn(6), Rounds: 2, DelayMs: 0})
		scs = append(scs, Scenario{Kind: "burst", CloseHow: "rst", Burst: 3, ServerWorkMs: 5 + rng.Intn(6), Rounds: 3, DelayMs: rng.Intn(2)})
		// scale: tens of restart cycles on one proxy with a small objqueuemax, calls while the server is
		// down; tens of idle-close / reconnect cycles on one transport client
		scs = append(scs, Scenario{Kind: "restart-scale", CloseHow: "restart", QueueMax: 8 + rng.Intn(9), Cycles: 30 + rng.Intn(31), DownCalls: 1 + rng.Intn(2)})
		scs = append(scs, Scenario{Kind: "idle-scale", CloseHow: "server-idle", ServerIdleMs: 15 + rng.Intn(16), Cycles: 25 + rng.Intn(16), DelayMs: rng.Intn(4)})
		scs = append(scs, Scenario{Kind: "notify-linger", CloseHow: "notify-linger", Restarts: 2, GapMs: 100 + rng.Intn(1900),
			PreCalls: 1 + rng.Intn(2), DelayMs: 50 + rng.Intn(151), LingerMs: 500 + rng.Intn(501)})
	}
	for i := range scs {
		scs[i].Seed = o.Seed
		scs[i].QueueLen = []int{1, 4, 16, 100}[rng.Intn(4)]
	}
	return scs
}

// schedules of Props/C11.lean, as driver tokens
const d14Literal = "callBegin.1 callReconnect.1 markReconnected.1 callEnq.1 callRet.1 " +
	"mark.top.0 sTopGo.0 sNoFail.0 mark.inner.0 sTakeQ.0 mark.got.0 sWriteOk.0 " +
	"mark.top.0 sTopGo.0 sNoFail.0 mark.inner.0 " +
	"pClose.0 rEof.0 mark.closing.0 rClose.0 rSignal.0 " +
	"callBegin.2 callReconnect.2 markReconnected.2 mark.top.1 sTopGo.1 sNoFail.1 mark.inner.1 " +
	"callEnq.2 callRet.2 sTakeQ.0 mark.got.0 sWriteFail.0 sRequeue.0 sFailClose.0"

// repaired: when the old sender enters its inner select both the request and connDone are ready
const d14RepairedPrefix = "callBegin.1 callReconnect.1 markReconnected.1 callEnq.1 callRet.1 " +
	"mark.top.0 sTopGo.0 sNoFail.0 mark.inner.0 sTakeQ.0 sCheckOk.0 mark.got.0 sWriteOk.0 " +
	"mark.top.0 sTopGo.0 sNoFail.0 mark.inner.0 " +
	"pClose.0 rEof.0 mark.closing.0 rClose.0 rSignal.0 " +
	"callBegin.2 callReconnect.2 markReconnected.2 mark.top.1 sTopGo.1 sNoFail.1 mark.inner.1 " +
	"callEnq.2 callRet.2 "
const d14RepairedHandback = d14RepairedPrefix + "sTakeQ.0 sCheckLost.0 sHandback.0"
const d14RepairedDone = d14RepairedPrefix + "sInnerDone.0"

// fullClientKind: scenarios run through the full client (notify.go), not through the transport world
func fullClientKind(k string) bool { return k == "notify-linger" || k == "restart-scale" }

func b01(b bool) int {
	if b {
		return 1
	}
	return 0
}

func summary(o *outcome, fs []finding) string {
	var cs []string
	for _, c := range o.calls {
		st := "ok"
		if !c.OK {
			st = "FAILED"
		}
		cs = append(cs, fmt.Sprintf("%d:%s:%dms", c.ID, st, c.Latency.Milliseconds()))
	}
	var ps []string
	for _, p := range o.probes {
		ps = append(ps, fmt.Sprintf("%s{closed=%d sendQ=%d failQ=%d conns=%d cur=%d open@srv=%d}", p.Label, b01(p.P.Closed), p.P.SendQ, p.P.FailQ, p.P.Conns, p.P.Cur, b01(p.CurOpenAtServer)))
	}
	var sv []string
	for _, s := range o.srv {
		sv = append(sv, fmt.Sprintf("conn%d{reqs=%v closedBySrv=%v eof=%v}", s.K, s.Reqs, s.ClosedBySrv, s.SawEOF))
	}
	var sg []string
	for _, f := range fs {
		sg = append(sg, f.sig)
	}
	return fmt.Sprintf("calls=[%s] probes=[%s] server=[%s] findings=%v history=%s", strings.Join(cs, " "), strings.Join(ps, " "), strings.Join(sv, " "), sg, strings.Join(o.hist, " "))
}

func main() {
	o := common.ParseOpts()
	res := common.NewResult("C11", o)
	res.Streams = []string{"clientconn"}
	rogger.SetLevel(rogger.OFF)
	transport.VerifClientSetYield(func(point string, tc *transport.TarsClient, conn net.Conn) {
		if w, ok := worlds.Load(tc); ok {
			w.(*world).yield(point, conn)
		}
	})
	rng := o.Rand()
	m, err := common.StartModel(o.Model, "clientconn")
	if err != nil {
		res.Fatal(o.Out, err)
	}
	defer m.Close()
	treeVariant, err := m.Ask("variant")
	if err != nil {
		res.Fatal(o.Out, err)
	}

	var scs []Scenario
	replay := o.Replay != ""
	if replay {
		var sc Scenario
		if err := common.ReadReplay(o.Replay, &sc); err != nil {
			res.Fatal(o.Out, err)
		}
		scs = []Scenario{sc}
	} else {
		scs = genScenarios(o, rng)
	}

	// run in parallel batches
	outs := make([]outcome, len(scs))
	nouts := make([]nOutcome, len(scs))
	souts := make([]scaleOutcome, len(scs))
	const batch = 72
	aborted := false
	for lo := 0; lo < len(scs) && !aborted; lo += batch {
		hi := lo + batch
		if hi > len(scs) {
			hi = len(scs)
		}
		var wg sync.WaitGroup
		done := make(chan struct{})
		for i := lo; i < hi; i++ {
			wg.Add(1)
			go func(i int) {
				defer wg.Done()
				if scs[i].Kind == "notify-linger" {
					nouts[i] = executeNotify(scs[i])
				} else if scs[i].Kind == "restart-scale" {
					souts[i] = executeRestartScale(scs[i])
				} else {
					outs[i] = execute(scs[i])
				}
			}(i)
		}
		go func() { wg.Wait(); close(done) }()
		select {
		case <-done:
		case <-time.After(scenarioLimit + callTimeout*3):
			res.Violate(common.Violation{Signature: "C11:hang:scenario", What: "a scenario did not finish",
				Case: common.Case{Stream: "clientconn", Op: scs[lo], Impl: "hang"}})
			aborted = true
		}
	}
	if aborted {
		res.Note("aborted after a hang")
		res.Write(o.Out)
		os.Exit(0)
	}

	// model: every history through `admits` of the variant the tree is
	var lines []string
	var idx []int
	for i := range outs {
		out := &outs[i]
		if fullClientKind(scs[i].Kind) {
			continue
		}
		if out.sc.Kind == "notify" || out.sc.CloseHow == "notify" || out.sc.Burst > 3 || !out.connsOK || strings.Contains(strings.Join(out.hist, " "), "E.") {
			continue
		}
		idle := b01(out.sc.ClientIdleMs > 0)
		q := out.sc.QueueLen
		if q <= 0 {
			q = 16
		}
		// the set of model states grows with the number of replaced connections whose goroutines may or
		// may not have ended yet: histories with many reconnects are judged by the oracle only
		if n := strings.Count(" "+strings.Join(out.hist, " "), " A."); n > 8 || len(out.hist) > 700 {
			res.Histogram["model:too-many-connections-for-replay"]++
			continue
		}
		lines = append(lines, fmt.Sprintf("admits tree %d %d %s", q, idle, strings.Join(out.hist, " ")))
		idx = append(idx, i)
	}
	// literal schedules of the theorems
	litLines := []string{"run tree 16 " + d14Literal}
	if treeVariant == "repaired" {
		litLines = []string{"run tree 16 " + d14RepairedHandback, "run tree 16 " + d14RepairedDone}
	}
	lines = append(lines, litLines...)
	// the close-notification scenarios as schedules of the adapter-level model
	var nidx []int
	for i := range scs {
		if scs[i].Kind == "notify-linger" && nouts[i].harness == "" {
			nidx = append(nidx, i)
			lines = append(lines, notifyModelLine(scs[i]))
		}
	}
	lines = append(lines, "notify-variant")
	answers, err := m.Batch(lines)
	if err != nil {
		res.Fatal(o.Out, err)
	}
	admitted := map[int]string{}
	for j, i := range idx {
		admitted[i] = answers[j]
	}
	notifyVariant := answers[len(answers)-1]
	nAnswers := answers[len(answers)-1-len(nidx) : len(answers)-1]
	litAnswers := answers[len(answers)-1-len(nidx)-len(litLines) : len(answers)-1-len(nidx)]

	for j, i := range nidx {
		no := &nouts[i]
		fs := oracleNotify(no)
		sum := no.summary()
		impl := notifyImplLine(no)
		class := "notify-linger:no-callback"
		if no.sc.HasCallback {
			class = "notify-linger:callback"
		}
		if no.sc.ExtraPush {
			class += ":extra-push"
		}
		if no.sc.Restarts > 1 {
			class += fmt.Sprintf(":restarts=%d", no.sc.Restarts)
		}
		if no.sc.OneWays > 0 {
			class += ":one-ways"
		}
		if len(fs) > 0 {
			class += ":violating"
		}
		key, _ := json.Marshal(no.sc)
		res.Count(string(key), class, true)
		res.Sample(map[string]interface{}{"scenario": no.sc, "impl": sum})
		ans := nAnswers[j]
		switch {
		case ans == common.NoModel:
		case strings.HasPrefix(ans, "ok ") && strings.Contains(ans+" ", " "+impl+" "):
			res.TracesValidated++
		default:
			res.Diverge(common.Case{Stream: "clientconn", Op: no.sc, Model: ans, Impl: impl + " | " + sum,
				Note: "the requests did not go where the " + notifyVariant + " model of AdapterProxy.onPush sends them"})
		}
		for _, f := range fs {
			res.Violate(common.Violation{Signature: f.sig, What: f.what,
				Case: common.Case{Stream: "clientconn", Op: no.sc, Model: ans, Impl: sum}})
		}
		if replay {
			fmt.Printf("scenario: %s\nonPush variant of the tree: %s\nmodel: %s\nimpl: %s | %s\n", key, notifyVariant, ans, impl, sum)
			for _, f := range fs {
				fmt.Printf("VIOLATED %s — %s\n", f.sig, f.what)
			}
		}
	}
	for i := range scs {
		if scs[i].Kind != "restart-scale" {
			continue
		}
		so := &souts[i]
		if so.harness != "" {
			res.Note("restart-scale scenario not executed: %s", so.harness)
			res.Histogram["restart-scale:harness-problem"]++
			continue
		}
		fs := oracleRestartScale(so)
		class := "restart-scale"
		if len(fs) > 0 {
			class += ":violating"
		}
		key, _ := json.Marshal(so.sc)
		res.Count(string(key), class, true)
		res.Histogram["restart-scale:cycles"] += so.cycles
		res.Sample(map[string]interface{}{"scenario": so.sc, "impl": so.summary()})
		for _, f := range fs {
			res.Violate(common.Violation{Signature: f.sig, What: f.what,
				Case: common.Case{Stream: "clientconn", Op: so.sc, Impl: so.summary()}})
		}
		if replay {
			fmt.Printf("scenario: %s\nimpl: %s\n", key, so.summary())
			for _, f := range fs {
				fmt.Printf("VIOLATED %s — %s\n", f.sig, f.what)
			}
		}
	}
	for i := range scs {
		if scs[i].Kind == "notify-linger" && nouts[i].harness != "" {
			res.Note("notify-linger scenario not executed: %s", nouts[i].harness)
			res.Histogram["notify-linger:harness-problem"]++
		}
	}
	for i := range outs {
		if fullClientKind(scs[i].Kind) {
			continue
		}
		out := &outs[i]
		fs := oracle(out)
		sum := summary(out, fs)
		class := out.sc.Kind + ":" + out.sc.CloseHow
		if out.sc.Kind == "free" || out.sc.Kind == "timely" {
			switch {
			case out.sc.DelayMs < 50:
				class += ":delay<50ms"
			case out.sc.DelayMs < 1000:
				class += ":delay<1s"
			default:
				class += ":delay>=1s"
			}
		}
		if len(fs) > 0 {
			class += ":violating"
		}
		key, _ := json.Marshal(out.sc)
		res.Count(string(key), class, len(out.calls) > 1)
		res.Sample(map[string]interface{}{"scenario": out.sc, "impl": sum})
		if !out.connsOK {
			res.Note("scenario %s: client-side connection order differs from the accept order; history not replayed", key)
		}
		for _, n := range out.notes {
			res.Histogram["note:"+n]++
		}
		for k, ob := range out.observed {
			if !ob {
				res.Histogram["close-not-observed"]++
				_ = k
			}
		}
		if out.sc.Kind == "unobserved" {
			for _, c := range out.calls {
				if !c.Judged {
					if c.OK {
						res.Histogram["unobserved:call-ok"]++
					} else {
						res.Histogram["unobserved:request-lost-in-flight"]++
					}
				}
			}
		}
		ans, replayed := admitted[i]
		if replayed {
			switch {
			case ans == common.NoModel:
			case strings.HasPrefix(ans, "ok"):
				res.TracesValidated++
			case strings.HasPrefix(ans, "toobig"):
				res.Histogram["model:toobig"]++
			default:
				res.Diverge(common.Case{Stream: "clientconn", Op: out.sc, Model: ans, Impl: sum,
					Note: "the observed history is not a run of the " + treeVariant + " model"})
			}
		}
		for _, f := range fs {
			res.Violate(common.Violation{Signature: f.sig, What: f.what,
				Case: common.Case{Stream: "clientconn", Op: out.sc, Model: ans, Impl: sum}})
		}
		if replay {
			fmt.Printf("scenario: %s\nvariant of the tree: %s\nmodel: %s\nimpl: %s\n", key, treeVariant, ans, sum)
			for _, f := range fs {
				fmt.Printf("VIOLATED %s — %s\n", f.sig, f.what)
			}
		}
	}

	// the literal D14 schedule of the theorem against the probe "old-sender-done" of forced-parked
	if litAnswers[0] != common.NoModel {
		for i := range outs {
			out := &outs[i]
			if fullClientKind(scs[i].Kind) {
				continue
			}
			if out.sc.Kind != "forced-parked" {
				continue
			}
			for _, p := range out.probes {
				if p.Label != "old-sender-done" {
					continue
				}
				want := fmt.Sprintf("closed=%d conns=%d sendQ=%d failQ=%d ", b01(p.P.Closed), p.P.Conns, p.P.SendQ, p.P.FailQ)
				if out.sc.PreCalls == 1 {
					agrees := false
					for _, a := range litAnswers {
						if strings.HasPrefix(a, "ok "+want) {
							agrees = true
						}
					}
					if agrees {
						res.TracesValidated++
						res.Histogram["literal:agrees"]++
					} else {
						res.Diverge(common.Case{Stream: "clientconn", Op: out.sc, Model: strings.Join(litAnswers, " | "), Impl: want,
							Note: "state after the forced D14 schedule differs from the model's run of the theorem's schedule"})
					}
				}
			}
		}
	}
	res.Rule = "all scenarios of the tier (delays 0 ms … 2.6 s after the observed close, 1–3 earlier calls, close after a response / server idle close / close notification / client idle close, forced D14 schedules, queue lengths 1–100)"
	keys := make([]string, 0, len(res.Histogram))
	for k := range res.Histogram {
		keys = append(keys, k)
	}
	sort.Strings(keys)
	res.Note("variant of the tree according to the extractor: %s", treeVariant)
	if err := res.Write(o.Out); err != nil {
		fmt.Fprintln(os.Stderr, err)
		os.Exit(3)
	}
}
