// ctup: TUP attribute set (tars/protocol/tup.UniAttribute) against Model/Tup.lean, with the oracle
// of the property selected by `-extra C05|C06` (see harness/tuprun). vcheck runs the two fixed
// front ends ctup05 / ctup06, which need no option.
package main

import "verifharness/tuprun"

func main() { tuprun.Launch("") }
