// C06 harness: truncated, length-inflated and mistyped input against the generated decoders.
package main

import (
	"verifharness/codecrun"
	"verifharness/fwtypes"
)

func main() { codecrun.Launch("C06", fwtypes.Types) }
