// C05 harness: decoder totality — hostile inputs against every generated ReadFrom (in-process with
// recover and allocation accounting; fatal cases in resource-limited child processes).
package main

import (
	"verifharness/codecrun"
	"verifharness/fwtypes"
)

func main() { codecrun.Launch("C05", fwtypes.Types) }
