// C08 harness: "responses are delivered to the caller of the matching request id".
//
// The REAL client (Communicator / ServantProxy / AdapterProxy / transport client) runs in child
// processes against scripted fake servers (package callsim) that answer in permuted order, duplicate
// answers, invent ids, send id 0 and one-way typed packets. Every caller tags its payload with its own
// index; the fake server echoes the payload tagged with the request id, so a response handed to the
// wrong caller is visible at the caller.
//
// Streams:
//
//	gen     genRequestID alone (through the verif export): sequential runs across the wrap-around and
//	        the skipped 0 are compared id by id with the model (`genseq`); small concurrent runs must be
//	        explainable by an interleaving of the model's CAS/add steps (`genadmits`); large concurrent
//	        runs are checked by the oracle (no 0, no duplicate, exactly the expected id set) and against the
//	        model's final counter (`genctr`).
//	admits  recorded histories (begin / request seen by the peer / packet sent by the peer / return /
//	        counters) of 1–3 concurrent callers must be traces of the LTS Tars.Route.step (`admits`);
//	        small ones are cross-checked against the unreduced search (`admits0`); tampered histories
//	        (response payload swapped between callers) must be rejected.
//	route   oracle only: many concurrent callers on two adapters, hostile answer scripts.
//
// Histories and storms rotate over the dispatch paths of TarsInvoke (no client filter, legacy single
// filter, middleware chain, pre+post filters; all pass-through).
package main

import (
	"encoding/json"
	"fmt"
	"os"
	"sort"
	"strings"

	"verifharness/callsim"
	"verifharness/common"
)

const maxInt32 = 1<<31 - 1

type caseOp struct {
	Scenario *callsim.Scenario `json:"scenario"`
}

func i32(v int32) *int32 { return &v }

func batchServer(n int, extras []string) callsim.ServerSpec {
	return callsim.ServerSpec{Kind: "normal", Rules: []callsim.Rule{{From: 0, To: n - 1, Mode: "batch", BatchWaitMs: 400, Extras: extras}}}
}

var extraKinds = []string{"dup", "invent", "zero", "onewaytyped", "garbageBody", "stale"}

func pickExtras(rnd func(int) int, n int) []string {
	var out []string
	for k := 0; k < n; k++ {
		out = append(out, extraKinds[rnd(len(extraKinds))])
	}
	return out
}

func scenarios(o *common.Opts) []*callsim.Scenario {
	rng := o.Rand()
	rnd := func(n int) int { return rng.Intn(n) }
	var scs []*callsim.Scenario
	add := func(sc *callsim.Scenario) {
		sc.Seed = rng.Int63()
		if sc.CapMs == 0 {
			sc.CapMs = 15000
		}
		scs = append(scs, sc)
	}
	healthy := callsim.ClientConf{WriteTimeoutMs: -1, ProxyTimeoutMs: 6000}

	// ---- gen ----
	starts := []int32{maxInt32 - 3, maxInt32 - 1, maxInt32, -3, -1, 0, 1, -maxInt32 - 1, int32(rng.Int31()), -int32(rng.Int31())}
	for k, st := range starts {
		add(&callsim.Scenario{Name: fmt.Sprintf("gen-seq-%d", k), Class: "gen-seq", Client: healthy,
			Servers: []callsim.ServerSpec{{Kind: "normal"}}, Gen: &callsim.GenSpec{Start: st, Seq: 8}})
	}
	smallPar := []int32{maxInt32 - 4, maxInt32 - 2, -4, -2, maxInt32 - 1}
	reps := 2
	if o.Thorough() {
		reps = 12
	}
	for rep := 0; rep < reps; rep++ {
		for k, st := range smallPar {
			add(&callsim.Scenario{Name: fmt.Sprintf("gen-par-small-%d-%d", rep, k), Class: "gen-par-small", Client: healthy,
				Servers: []callsim.ServerSpec{{Kind: "normal"}}, Gen: &callsim.GenSpec{Start: st, Goroutines: 3, PerG: 3}})
		}
	}
	bigN := 2
	if o.Thorough() {
		bigN = 6
	}
	for k := 0; k < bigN; k++ {
		st := int32(rng.Intn(1 << 30))
		if k%2 == 1 {
			st = -int32(rng.Intn(60000)) - 10 // crosses 0 in the middle of the run
		}
		add(&callsim.Scenario{Name: fmt.Sprintf("gen-par-big-%d", k), Class: "gen-par-big", Client: healthy,
			Servers: []callsim.ServerSpec{{Kind: "normal"}}, Gen: &callsim.GenSpec{Start: st, Goroutines: 8, PerG: 20000}})
	}

	// ---- recorded histories ----
	nHist := 14
	if o.Thorough() {
		nHist = 80
	}
	msgids := []*int32{nil, i32(maxInt32 - 2), i32(-3), i32(maxInt32 - 1), nil, i32(-2)}
	for h := 0; h < nHist; h++ {
		conc := 2
		if h%5 == 4 {
			conc = 3
		}
		if h%7 == 0 {
			conc = 1
		}
		waves := 1 + rnd(2)
		if conc == 3 {
			waves = 1
		}
		nServers := 1
		if h%3 == 2 {
			nServers = 2
		}
		var calls []callsim.CallSpec
		for w := 0; w < waves; w++ {
			for c := 0; c < conc; c++ {
				cs := callsim.CallSpec{Wave: w, Timeout: "proxy", MustOK: true}
				if rnd(7) == 0 {
					cs.Oneway, cs.MustOK = true, false
				}
				calls = append(calls, cs)
			}
		}
		var servers []callsim.ServerSpec
		for s := 0; s < nServers; s++ {
			// requests are spread over the servers round robin; one batch rule per wave would need the
			// exact split, so batches are sized 1..conc and flushed by their timer when fewer arrive
			var rules []callsim.Rule
			per := conc
			for w := 0; w < waves*2; w++ {
				rules = append(rules, callsim.Rule{From: w * per, To: w*per + per - 1, Mode: "batch", BatchWaitMs: 150, Extras: pickExtras(rnd, rnd(3))})
			}
			servers = append(servers, callsim.ServerSpec{Kind: "normal", Rules: rules})
		}
		// every fourth history each goes through the single client filter / the middleware chain / pre+post filters
		add(&callsim.Scenario{Name: fmt.Sprintf("hist-%d", h), Class: fmt.Sprintf("hist-conc%d-srv%d", conc, nServers), Client: healthy,
			MsgID0: msgids[h%len(msgids)], Servers: servers, Calls: calls, Record: true, GapMs: 150, Filter: callsim.FilterPaths[(h+1)%4]})
	}

	// ---- oracle-only routing storms ----
	storms := []int{16, 16, 24}
	if o.Thorough() {
		storms = []int{16, 32, 64, 128, 256, 64, 128, 32}
	}
	for k, n := range storms {
		var calls []callsim.CallSpec
		for w := 0; w < 2; w++ {
			for c := 0; c < n; c++ {
				// the callers are spread over 1-3 ServantProxy objects that share the adapters
				cs := callsim.CallSpec{Wave: w, Timeout: "proxy", MustOK: true, DelayMs: rnd(20), Proxy: c % (1 + k%3)}
				if rnd(11) == 0 {
					cs.Oneway, cs.MustOK = true, false
				}
				calls = append(calls, cs)
			}
		}
		mk := func() callsim.ServerSpec {
			var rules []callsim.Rule
			// batches of 4 requests each, answered in permuted order with extras
			for b := 0; b < 4*n; b++ {
				rules = append(rules, callsim.Rule{From: 4 * b, To: 4*b + 3, Mode: "batch", BatchWaitMs: 120, Extras: pickExtras(rnd, rnd(4))})
			}
			return callsim.ServerSpec{Kind: "normal", Rules: rules}
		}
		var mid *int32
		if k%3 == 1 {
			mid = i32(maxInt32 - int32(n))
		} else if k%3 == 2 {
			mid = i32(-int32(n))
		}
		add(&callsim.Scenario{Name: fmt.Sprintf("storm-%d-%d", n, k), Class: fmt.Sprintf("storm-%d", n), Client: healthy, MsgID0: mid,
			Servers: []callsim.ServerSpec{mk(), mk()}, Calls: calls, GapMs: 50, CapMs: 30000, Filter: callsim.FilterPaths[(k+1)%4], Proxies: 1 + k%3})
	}
	return scs
}

func idsLine(ids []int32) string {
	if len(ids) == 0 {
		return "-"
	}
	parts := make([]string, len(ids))
	for i, v := range ids {
		parts[i] = fmt.Sprint(v)
	}
	return strings.Join(parts, ",")
}

type pendingLine struct {
	line  string
	check func(ans string)
}

// oracle evaluates the property on one scenario result.
func oracle(res *common.Result, sc *callsim.Scenario, r *callsim.Result) {
	op := caseOp{Scenario: sc}
	viol := func(sig, what string, impl interface{}) {
		b, _ := json.Marshal(impl)
		full, _ := json.Marshal(struct {
			Calls []callsim.CallResult `json:"calls"`
			Reqs  []callsim.ReqSeen    `json:"reqs"`
			Sent  []callsim.Sent       `json:"sent"`
		}{r.Calls, r.Reqs, r.Sent})
		if len(full) > 6000 {
			full = full[:6000]
		}
		res.Violate(common.Violation{Signature: sig, What: what, Case: common.Case{Stream: sc.Class, Op: op, Impl: string(b), Note: string(full)}})
	}
	seen := map[int32]int{}
	byTag := map[int]callsim.ReqSeen{}
	for _, q := range r.Reqs {
		if q.ID == 0 {
			viol("C08:zero-id:genRequestID", "a request left the client with request id 0 (reserved for server push)", q)
		}
		if prev, dup := seen[q.ID]; dup {
			viol("C08:duplicate-id:genRequestID", fmt.Sprintf("two requests of one process carry the same id %d (callers %d and %d)", q.ID, prev, q.Tag), q)
		}
		seen[q.ID] = q.Tag
		byTag[q.Tag] = q
	}
	for _, c := range r.Calls {
		switch {
		case !c.Returned || c.Outcome == "hang":
			viol("C08:hang:TarsInvoke", fmt.Sprintf("caller %d did not return within the scenario limit", c.I), c)
		case c.Outcome == "ok" && !c.Oneway:
			q, ok := byTag[c.I]
			if !ok || q.ID != c.RespID || c.RespTag != c.I || !c.RespForm {
				viol("C08:wrong-value:misrouted-response", fmt.Sprintf("caller %d (request id %d) received a response with id %d whose payload belongs to caller %d", c.I, q.ID, c.RespID, c.RespTag), c)
			}
		case c.Outcome == "err" && sc.Calls[c.Spec].MustOK:
			viol("C08:lost-response:doInvoke", fmt.Sprintf("caller %d failed (%s) although the peer sent the response with its id seconds before the deadline", c.I, c.ErrText), c)
		}
	}
}

func genOracle(res *common.Result, sc *callsim.Scenario, r *callsim.Result) {
	op := caseOp{Scenario: sc}
	viol := func(sig, what string, impl interface{}) {
		b, _ := json.Marshal(impl)
		if len(b) > 600 {
			b = b[:600]
		}
		res.Violate(common.Violation{Signature: sig, What: what, Case: common.Case{Stream: sc.Class, Op: op, Impl: string(b)}})
	}
	all := append([]int32{}, r.GenSeq...)
	for _, l := range r.GenPar {
		all = append(all, l...)
	}
	seen := map[int32]bool{}
	for _, v := range all {
		if v == 0 {
			viol("C08:zero-id:genRequestID", fmt.Sprintf("genRequestID returned 0 (counter started at %d)", sc.Gen.Start), all)
		}
		if seen[v] {
			viol("C08:duplicate-id:genRequestID", fmt.Sprintf("genRequestID returned %d twice within %d calls (counter started at %d)", v, len(all), sc.Gen.Start), nil)
		}
		seen[v] = true
	}
}

func main() {
	o := common.ParseOpts()
	if callsim.ChildMain(o.Extra) {
		return
	}
	res := common.NewResult("C08", o)
	res.Streams = []string{"gen", "admits", "route"}
	dir, err := os.MkdirTemp("", "c08-")
	if err != nil {
		res.Fatal(o.Out, err)
	}
	defer os.RemoveAll(dir)
	m, err := common.StartModel(o.Model, "call")
	if err != nil {
		res.Fatal(o.Out, err)
	}
	defer m.Close()

	var scs []*callsim.Scenario
	if o.Replay != "" {
		var op caseOp
		if err := common.ReadReplay(o.Replay, &op); err != nil || op.Scenario == nil {
			res.Fatal(o.Out, fmt.Errorf("replay file has no scenario: %v", err))
		}
		scs = []*callsim.Scenario{op.Scenario}
	} else {
		scs = scenarios(o)
	}
	results, errs := callsim.SpawnAll(dir, scs, 8)

	var lines []pendingLine
	ask := func(line string, check func(string)) { lines = append(lines, pendingLine{line, check}) }
	for i, sc := range scs {
		sc := sc
		if errs[i] != nil {
			res.Fatal(o.Out, errs[i])
		}
		r := results[i]
		if r.Error != "" {
			res.Fatal(o.Out, fmt.Errorf("scenario %s: %s", sc.Name, r.Error))
		}
		op := caseOp{Scenario: sc}
		if o.Replay != "" {
			b, _ := json.MarshalIndent(r, "", " ")
			fmt.Println("impl result:", string(b))
		}
		if sc.Gen != nil {
			genOracle(res, sc, r)
			key := fmt.Sprintf("%s/%d/%v/%v", sc.Class, sc.Gen.Start, r.GenSeq, len(r.GenPar))
			res.Count(key, sc.Class, true)
			final := int32(0)
			if len(r.Counters) > 0 {
				final = r.Counters[0].MsgID
			}
			switch {
			case sc.Gen.Seq > 0:
				ask(fmt.Sprintf("genseq %d %d", sc.Gen.Start, sc.Gen.Seq), func(ans string) {
					impl := fmt.Sprintf("ok %d", final)
					for _, v := range r.GenSeq {
						impl += fmt.Sprintf(" %d", v)
					}
					if o.Replay != "" {
						fmt.Println("model:", ans, "\nimpl: ", impl)
					}
					if ans != impl {
						res.Diverge(common.Case{Stream: "gen", Op: op, Model: ans, Impl: impl})
					}
				})
			case sc.Gen.PerG <= 8:
				line := fmt.Sprintf("genadmits %d", sc.Gen.Start)
				for _, l := range r.GenPar {
					line += " " + idsLine(l)
				}
				ask(line, func(ans string) {
					if o.Replay != "" {
						fmt.Println("model:", ans, " for ", line)
					}
					if !strings.HasPrefix(ans, "ok") {
						res.Diverge(common.Case{Stream: "gen", Op: op, Model: ans, Impl: line, Note: "the ids returned to the goroutines are not explained by any interleaving of the model's CAS/add steps"})
					}
				})
			default:
				n := sc.Gen.Goroutines * sc.Gen.PerG
				// oracle: exactly the ids start+1 … (skipping 0)
				var all []int64
				for _, l := range r.GenPar {
					for _, v := range l {
						all = append(all, int64(v))
					}
				}
				sort.Slice(all, func(a, b int) bool { return all[a] < all[b] })
				want := int64(sc.Gen.Start) + 1
				okSet := len(all) == n
				for _, v := range all {
					if want == 0 {
						want++
					}
					if v != want {
						okSet = false
						break
					}
					want++
				}
				if !okSet {
					res.Violate(common.Violation{Signature: "C08:duplicate-id:genRequestID", What: fmt.Sprintf("%d concurrent genRequestID calls from counter %d did not return the %d consecutive non-zero ids", n, sc.Gen.Start, n),
						Case: common.Case{Stream: sc.Class, Op: op, Impl: fmt.Sprintf("distinct=%d first=%v", len(all), all[:min(8, len(all))])}})
				}
				ask(fmt.Sprintf("genctr %d %d", sc.Gen.Start, n), func(ans string) {
					impl := fmt.Sprintf("ok %d %d", final, n)
					if o.Replay != "" {
						fmt.Println("model:", ans, "\nimpl: ", impl)
					}
					if ans != impl {
						res.Diverge(common.Case{Stream: "gen", Op: op, Model: ans, Impl: impl})
					}
				})
			}
			continue
		}
		oracle(res, sc, r)
		if sc.Filter != "" {
			if r.FilterHit == 0 && len(r.Calls) > 0 {
				res.Fatal(o.Out, fmt.Errorf("scenario %s: the installed client filter (%s) was never invoked", sc.Name, sc.Filter))
			}
			res.Histogram["filter-path:"+sc.Filter]++
		} else {
			res.Histogram["filter-path:direct"]++
		}
		okN, errN := 0, 0
		for _, c := range r.Calls {
			if c.Outcome == "ok" {
				okN++
			} else {
				errN++
			}
		}
		kinds := map[string]int{}
		for _, s := range r.Sent {
			kinds[s.Kind]++
			res.Histogram["sent:"+s.Kind]++
		}
		res.Count(fmt.Sprintf("%s/%s/%d/%d/%v", sc.Class, sc.Name, okN, errN, kinds), sc.Class, len(r.Sent) > 0)
		res.Histogram["calls-ok"] += okN
		res.Histogram["calls-err"] += errN
		if i%9 == 0 {
			res.Sample(map[string]interface{}{"scenario": sc.Name, "calls": len(r.Calls), "ok": okN, "sent": kinds, "events": len(r.Events)})
		}
		if sc.Record && !r.Capped {
			cfgPart := fmt.Sprintf("%d %d %d %d %d", len(sc.Servers), 100000, 10000, 3000, r.MsgIDInit)
			line := fmt.Sprintf("admits %s 400000 %s", cfgPart, strings.Join(r.Events, " "))
			nB := 0
			for _, e := range r.Events {
				if strings.HasPrefix(e, "B.") {
					nB++
				}
			}
			ask(line, func(ans string) {
				res.TracesValidated++
				if o.Replay != "" {
					fmt.Println("history:", strings.Join(r.Events, " "), "\nmodel:", ans)
				}
				switch {
				case strings.HasPrefix(ans, "ok"):
					res.Histogram["admits-ok"]++
				case strings.HasPrefix(ans, "budget"):
					res.Histogram["admits-budget"]++
					res.Note("history of %s exceeded the state budget (%s): not decided", sc.Name, ans)
				default:
					res.Diverge(common.Case{Stream: "admits", Op: op, Model: ans, Impl: strings.Join(r.Events, " "), Note: "the observed history is not a trace of the model"})
				}
			})
			if nB <= 2 {
				ask(fmt.Sprintf("admits0 %s 3000000 %s", cfgPart, strings.Join(r.Events, " ")), func(ans string) {
					if strings.HasPrefix(ans, "budget") {
						res.Histogram["admits0-budget"]++
						return
					}
					res.Histogram["admits0-crosscheck"]++
					if !strings.HasPrefix(ans, "ok") {
						res.Diverge(common.Case{Stream: "admits", Op: op, Model: ans, Impl: strings.Join(r.Events, " "), Note: "unreduced search rejects a history"})
					}
				})
			}
			// tampered history: hand the response of one caller to another one
			var oks []int
			for k, e := range r.Events {
				if strings.HasPrefix(e, "R.") && strings.Contains(e, ".ok.") {
					oks = append(oks, k)
				}
			}
			if len(oks) >= 2 {
				ev := append([]string{}, r.Events...)
				a, b := strings.Split(ev[oks[0]], "."), strings.Split(ev[oks[1]], ".")
				a[3], b[3] = b[3], a[3]
				a[4], b[4] = b[4], a[4]
				ev[oks[0]], ev[oks[1]] = strings.Join(a, "."), strings.Join(b, ".")
				ask(fmt.Sprintf("admits %s 400000 %s", cfgPart, strings.Join(ev, " ")), func(ans string) {
					if strings.HasPrefix(ans, "budget") {
						return
					}
					res.Histogram["tampered-rejected"]++
					if strings.HasPrefix(ans, "ok") {
						res.Diverge(common.Case{Stream: "admits", Op: op, Model: ans, Impl: strings.Join(ev, " "), Note: "the model admits a history in which two callers received each other's responses"})
					}
				})
			}
		}
	}
	var ls []string
	for _, l := range lines {
		ls = append(ls, l.line)
	}
	ans, err := m.Batch(ls)
	if err != nil {
		res.Fatal(o.Out, err)
	}
	for i, a := range ans {
		if a == common.NoModel {
			continue
		}
		lines[i].check(a)
	}
	res.Rule = "real client in child processes against scripted fake servers; gen: genRequestID through the verif export (sequential across wrap/zero = exact model ids; concurrent small = model interleaving exists; concurrent 160k = exact id set); " +
		"admits: recorded histories of 1-3 concurrent callers over 1-2 adapters with permuted/duplicated/invented/zero/one-way-typed/garbage answers replayed through the LTS; route: 16-256 concurrent callers, oracle only; non-trivial = scenario with at least one packet sent by the peer"
	if err := res.Write(o.Out); err != nil {
		panic(err)
	}
}
