package main

// Translation validation of the emitted code: one shared `go build` of all emitted packages against
// $VERIF_REPO, then the schema each emitted package declares (struct tags, Go types, enum values) is
// compared with the schema the IDL program declares.

import (
	"fmt"
	"go/ast"
	"go/parser"
	"go/token"
	"go/types"
	"os"
	"path/filepath"
	"reflect"
	"regexp"
	"sort"
	"strconv"
	"strings"
	"time"

	"verifharness/common"
)

var rtSeed int64 = 1
var rtThorough bool

var reErrFile = regexp.MustCompile(`(?m)^(?:\./)?(p\d+)/[^\s:]+\.go:\d+:\d+: (.*)$`)
var reCyclePkg = regexp.MustCompile(`(?m)^(?:package|\s+imports) c16gen/(p\d+)/`)

// cycleText: the lines of the build output that mention the packages of program pid
func cycleText(out, pid string) string {
	var ls []string
	for _, l := range strings.Split(out, "\n") {
		if strings.Contains(l, "c16gen/"+pid+"/") {
			ls = append(ls, strings.TrimSpace(strings.Replace(l, "c16gen/"+pid+"/", "", -1)))
		}
	}
	return strings.Join(ls, " ")
}

var rePkgHdr = regexp.MustCompile(`(?m)^# c16gen/(p\d+)/`)

func compileLocus(msgs []string) string {
	all := strings.Join(msgs, "\n")
	switch {
	case strings.Contains(all, "ReadSliceInt8") || strings.Contains(all, "WriteSliceInt8") || strings.Contains(all, "ReadSliceUint8") || strings.Contains(all, "WriteSliceUint8"):
		return "genReadArray-byte"
	case strings.Contains(all, "ReadBlock undefined") || strings.Contains(all, "WriteBlock undefined"):
		return "checkDepTName-array"
	case regexp.MustCompile(`undefined: ([xX][msc])\d+`).MatchString(all):
		return "module-not-imported"
	case regexp.MustCompile(`undefined: ([mM]od|inc)\d+`).MatchString(all):
		return "checkDepTName-array"
	case regexp.MustCompile(`undefined: [a-z]\w*_\w+`).MatchString(all):
		return "analyzeDefault-enum-name-case"
	case regexp.MustCompile(`undefined: [A-Z]\w*_[A-Za-z]\w*`).MatchString(all):
		return "analyzeDefault-enum-package-qualifier"
	case strings.Contains(all, "overflows"):
		return "constant-overflow"
	case strings.Contains(all, "import cycle"):
		return "import-cycle"
	case strings.Contains(all, "undefined:"):
		return "undefined-identifier"
	}
	return "go-build"
}

func compileAndCheck(e *env, cases []*caseOp, results []*caseResult, res *common.Result, verbose bool) {
	var accepted []*caseOp
	for i, c := range cases {
		if c.Kind == "valid" && results[i] != nil && results[i].accepted {
			accepted = append(accepted, c)
		}
	}
	if len(accepted) == 0 {
		return
	}
	t0 := time.Now()
	failed := map[string][]string{}
	var out string
	var err error
	for round := 0; round < 25; round++ {
		out, err = runCmd(e.buildDir, e.goenv, 15*time.Minute, "go", "build", "./...")
		if err == nil || !strings.Contains(out, "import cycle not allowed") {
			break
		}
		// an import cycle stops the whole build at load time: note the programs involved, take their
		// packages out and build the rest
		cyc := map[string]bool{}
		for _, m := range reCyclePkg.FindAllStringSubmatch(out, -1) {
			cyc[m[1]] = true
		}
		if len(cyc) == 0 {
			break
		}
		for pid := range cyc {
			failed[pid] = append(failed[pid], "import cycle not allowed: "+strings.Join(strings.Fields(cycleText(out, pid)), " "))
			os.RemoveAll(filepath.Join(e.buildDir, pid))
		}
	}
	res.Note("go build of %d emitted programs: %.1fs", len(accepted), time.Since(t0).Seconds())
	if err != nil {
		for _, m := range reErrFile.FindAllStringSubmatch(out, -1) {
			failed[m[1]] = append(failed[m[1]], m[2])
		}
		for _, m := range rePkgHdr.FindAllStringSubmatch(out, -1) {
			if _, ok := failed[m[1]]; !ok {
				failed[m[1]] = []string{"(see build output)"}
			}
		}
		if len(failed) == 0 {
			// the build failed for a reason that is not attributable to a program (environment)
			res.HarnessError = "go build of the emitted packages failed without attributable errors: " + trunc(out)
			return
		}
	}
	rtProgs := map[string][]string{}
	byPid := map[string]*caseOp{}
	var callPids []string
	defer func() {
		roundTrip(e, rtSeed, rtProgs, byPid, res, rtThorough, verbose)
		callTest(e, rtSeed, callPids, byPid, res, rtThorough, verbose)
	}()
	for _, c := range accepted {
		pid := fmt.Sprintf("p%d", c.ID)
		byPid[pid] = c
		if msgs, bad := failed[pid]; bad {
			res.Count("compile/"+pid, "compile:fail", true)
			if verbose {
				fmt.Printf("compile: FAIL %s\n", strings.Join(msgs, "\n         "))
			}
			res.Violate(common.Violation{Signature: "C16:emitted-not-compiling:" + compileLocus(msgs),
				What: "the code emitted for a valid IDL program does not compile: " + trunc(strings.Join(msgs, "; ")),
				Case: common.Case{Stream: "compile", Op: c, Impl: trunc(strings.Join(msgs, "\n")), Note: "edge construct: " + c.Edge}})
			continue
		}
		res.Count("compile/"+pid, "compile:ok", true)
		got, err := emittedSchema(filepath.Join(e.buildDir, pid), c.Cycle)
		if err != nil {
			res.Violate(common.Violation{Signature: "C16:emitted-unparsable:go-parser", What: err.Error(),
				Case: common.Case{Stream: "schema", Op: c}})
			continue
		}
		rtProgs[pid] = got
		if len(c.Calls) > 0 {
			callPids = append(callPids, pid)
		}
		want := append([]string(nil), c.Expect...)
		sort.Strings(want)
		if verbose {
			fmt.Printf("compile: ok\nschema declared: %s\nschema emitted:  %s\n", trunc(strings.Join(want, " ")), trunc(strings.Join(got, " ")))
		}
		if d := firstDiff(want, got); d != "" {
			res.Count("schema/"+pid, "schema:mismatch", true)
			res.Violate(common.Violation{Signature: "C16:wrong-schema:" + schemaLocus(d),
				What: "the emitted Go code does not declare the schema of the IDL program: " + trunc(d),
				Case: common.Case{Stream: "schema", Op: c, Impl: trunc(strings.Join(got, "\n")), Note: "declared: " + trunc(strings.Join(want, "\n"))}})
		} else {
			res.Count("schema/"+pid, "schema:ok", true)
			res.TracesValidated++
		}
	}
}

func schemaLocus(d string) string {
	if strings.Contains(d, "|E:") {
		return "genEnum"
	}
	return "genStructDefine"
}

func firstDiff(want, got []string) string {
	w := map[string]bool{}
	for _, x := range want {
		w[x] = true
	}
	g := map[string]bool{}
	for _, x := range got {
		g[x] = true
	}
	for _, x := range want {
		if !g[x] {
			// find the emitted line for the same name
			name := x[:strings.Index(x, "{")+1]
			for _, y := range got {
				if strings.HasPrefix(y, name) {
					return "declared " + x + " emitted " + y
				}
			}
			return "declared " + x + " not emitted"
		}
	}
	for _, y := range got {
		if !w[y] {
			return "emitted " + y + " not declared"
		}
	}
	return ""
}

// emittedSchema reads the Go packages below dir (one directory per IDL module) and returns the
// sorted lines "<module>|S:Name{Field GoType name,tag:N,require:B;...}" and
// "<module>|E:Name{Name_Member=value;...}".
func emittedSchema(dir string, cycle bool) ([]string, error) {
	var out []string
	// package directories: <module>, or <file>/<module> with -module-cycle
	var mods []string
	ents, err := os.ReadDir(dir)
	if err != nil {
		return nil, err
	}
	for _, ent := range ents {
		if !ent.IsDir() {
			continue
		}
		if !cycle {
			mods = append(mods, ent.Name())
			continue
		}
		sub, err := os.ReadDir(filepath.Join(dir, ent.Name()))
		if err != nil {
			return nil, err
		}
		for _, s := range sub {
			if s.IsDir() {
				mods = append(mods, ent.Name()+"/"+s.Name())
			}
		}
	}
	for _, mod := range mods {
		fset := token.NewFileSet()
		pkgs, err := parser.ParseDir(fset, filepath.Join(dir, mod), nil, 0)
		if err != nil {
			return nil, err
		}
		for _, pkg := range pkgs {
			var files []*ast.File
			var names []string
			for n := range pkg.Files {
				names = append(names, n)
			}
			sort.Strings(names)
			for _, n := range names {
				files = append(files, pkg.Files[n])
			}
			enumTypes := map[string]bool{}
			consts := map[string]int64{}
			enumMembers := map[string][]string{}
			for _, f := range files {
				for _, d := range f.Decls {
					gd, ok := d.(*ast.GenDecl)
					if !ok {
						continue
					}
					switch gd.Tok {
					case token.TYPE:
						for _, s := range gd.Specs {
							ts := s.(*ast.TypeSpec)
							switch t := ts.Type.(type) {
							case *ast.StructType:
								line, isData := structLine(ts.Name.Name, t)
								if isData {
									out = append(out, mod+"|S:"+line)
								}
							case *ast.Ident:
								if t.Name == "int32" {
									enumTypes[ts.Name.Name] = true
								}
							}
						}
					case token.CONST:
						for _, s := range gd.Specs {
							vs := s.(*ast.ValueSpec)
							id, ok := vs.Type.(*ast.Ident)
							if !ok || len(vs.Names) != 1 || len(vs.Values) != 1 {
								continue
							}
							v, ok := constVal(vs.Values[0], consts)
							if !ok {
								continue
							}
							consts[vs.Names[0].Name] = v
							if enumTypes[id.Name] {
								enumMembers[id.Name] = append(enumMembers[id.Name], vs.Names[0].Name+"="+strconv.FormatInt(v, 10))
							}
						}
					}
				}
			}
			for en := range enumTypes {
				out = append(out, mod+"|E:"+en+"{"+strings.Join(enumMembers[en], ";")+"}")
			}
		}
	}
	sort.Strings(out)
	return out, nil
}

func constVal(e ast.Expr, consts map[string]int64) (int64, bool) {
	switch x := e.(type) {
	case *ast.BasicLit:
		v, err := strconv.ParseInt(x.Value, 0, 64)
		return v, err == nil
	case *ast.UnaryExpr:
		if x.Op == token.SUB {
			v, ok := constVal(x.X, consts)
			return -v, ok
		}
	case *ast.Ident:
		v, ok := consts[x.Name]
		return v, ok
	case *ast.ParenExpr:
		return constVal(x.X, consts)
	}
	return 0, false
}

// structLine: data structs are those all of whose fields carry a `tars:"…"` tag
func structLine(name string, t *ast.StructType) (string, bool) {
	var parts []string
	for _, f := range t.Fields.List {
		if f.Tag == nil || len(f.Names) != 1 {
			return "", false
		}
		tag, err := strconv.Unquote(f.Tag.Value)
		if err != nil {
			return "", false
		}
		tt, ok := reflect.StructTag(tag).Lookup("tars")
		if !ok {
			return "", false
		}
		parts = append(parts, f.Names[0].Name+" "+types.ExprString(f.Type)+" "+tt)
	}
	return name + "{" + strings.Join(parts, ";") + "}", true
}
