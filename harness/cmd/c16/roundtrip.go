package main

// Smoke test of the emitted codecs (translation validation, supporting the compile check): for
// every struct type of every emitted program random values are written with the emitted WriteTo and
// read back with the emitted ReadFrom; the result must equal the original.  The codec properties
// proper (wire format, schema evolution, hostile input) are the subject of C03–C06.

import (
	"fmt"
	"os"
	"path/filepath"
	"regexp"
	"sort"
	"strings"
	"time"

	"verifharness/common"
)

const rtMainTmpl = `package main

import (
	"fmt"
	"math"
	"math/rand"
	"reflect"

	"github.com/TarsCloud/TarsGo/tars/protocol/codec"
%s
)

type codecT interface {
	WriteTo(*codec.Buffer) error
	ReadFrom(*codec.Reader) error
}

var all = []struct {
	id string
	mk func() codecT
}{
%s
}

func fill(rng *rand.Rand, v reflect.Value, depth int) {
	switch v.Kind() {
	case reflect.Bool:
		v.SetBool(rng.Intn(2) == 0)
	case reflect.Int8, reflect.Int16, reflect.Int32, reflect.Int64:
		bits := v.Type().Bits()
		var x int64
		switch rng.Intn(5) {
		case 0:
			x = 0
		case 1:
			x = int64(1)<<(bits-1) - 1
		case 2:
			x = -(int64(1) << (bits - 1))
		default:
			x = rng.Int63() >> uint(64-bits+rng.Intn(bits))
			if rng.Intn(2) == 0 {
				x = -x
			}
		}
		v.SetInt(x)
	case reflect.Uint8, reflect.Uint16, reflect.Uint32:
		bits := v.Type().Bits()
		switch rng.Intn(4) {
		case 0:
			v.SetUint(0)
		case 1:
			v.SetUint(uint64(1)<<bits - 1)
		default:
			v.SetUint(rng.Uint64() >> uint(64-bits+rng.Intn(bits)))
		}
	case reflect.Float32:
		v.SetFloat(float64(float32(rng.NormFloat64() * math.Pow(10, float64(rng.Intn(9)-4)))))
	case reflect.Float64:
		v.SetFloat(rng.NormFloat64() * math.Pow(10, float64(rng.Intn(30)-10)))
	case reflect.String:
		n := rng.Intn(5)
		if rng.Intn(20) == 0 {
			n = 300
		}
		b := make([]byte, n)
		for i := range b {
			b[i] = byte(rng.Intn(256))
		}
		v.SetString(string(b))
	case reflect.Slice:
		n := rng.Intn(4)
		if depth > 3 {
			n = rng.Intn(2)
		}
		s := reflect.MakeSlice(v.Type(), n, n)
		for i := 0; i < n; i++ {
			fill(rng, s.Index(i), depth+1)
		}
		v.Set(s)
	case reflect.Array:
		for i := 0; i < v.Len(); i++ {
			fill(rng, v.Index(i), depth+1)
		}
	case reflect.Map:
		n := rng.Intn(3)
		if depth > 3 {
			n = rng.Intn(2)
		}
		m := reflect.MakeMap(v.Type())
		for i := 0; i < n; i++ {
			k := reflect.New(v.Type().Key()).Elem()
			fill(rng, k, depth+1)
			if k.Kind() == reflect.Float32 || k.Kind() == reflect.Float64 {
				if k.Float() != k.Float() {
					continue
				}
			}
			e := reflect.New(v.Type().Elem()).Elem()
			fill(rng, e, depth+1)
			m.SetMapIndex(k, e)
		}
		v.Set(m)
	case reflect.Struct:
		for i := 0; i < v.NumField(); i++ {
			fill(rng, v.Field(i), depth+1)
		}
	}
}

// eq: deep equality that identifies nil and empty slices/maps
func eq(a, b reflect.Value) bool {
	switch a.Kind() {
	case reflect.Slice:
		if a.Len() != b.Len() {
			return false
		}
		for i := 0; i < a.Len(); i++ {
			if !eq(a.Index(i), b.Index(i)) {
				return false
			}
		}
		return true
	case reflect.Array:
		for i := 0; i < a.Len(); i++ {
			if !eq(a.Index(i), b.Index(i)) {
				return false
			}
		}
		return true
	case reflect.Map:
		if a.Len() != b.Len() {
			return false
		}
		for _, k := range a.MapKeys() {
			bv := b.MapIndex(k)
			if !bv.IsValid() || !eq(a.MapIndex(k), bv) {
				return false
			}
		}
		return true
	case reflect.Struct:
		for i := 0; i < a.NumField(); i++ {
			if !eq(a.Field(i), b.Field(i)) {
				return false
			}
		}
		return true
	case reflect.Float32, reflect.Float64:
		return math.Float64bits(a.Float()) == math.Float64bits(b.Float())
	}
	return reflect.DeepEqual(a.Interface(), b.Interface())
}

func one(rng *rand.Rand, id string, mk func() codecT) (msg string) {
	defer func() {
		if r := recover(); r != nil {
			msg = fmt.Sprintf("panic %%v", r)
		}
	}()
	v := mk()
	fill(rng, reflect.ValueOf(v).Elem(), 0)
	buf := codec.NewBuffer()
	if err := v.WriteTo(buf); err != nil {
		return "write error " + err.Error()
	}
	r := mk()
	if err := r.ReadFrom(codec.NewReader(buf.ToBytes())); err != nil {
		return "read error " + err.Error()
	}
	if !eq(reflect.ValueOf(v).Elem(), reflect.ValueOf(r).Elem()) {
		return fmt.Sprintf("wrote %%+v read %%+v", v, r)
	}
	return ""
}

// defaults: the scalar members (integers, enums as numbers, bool, string) of a fresh value after
// ResetDefault, in member order
func defaults(v codecT) string {
	rd, ok := v.(interface{ ResetDefault() })
	if !ok {
		return "no-ResetDefault"
	}
	rd.ResetDefault()
	e := reflect.ValueOf(v).Elem()
	s := ""
	for i := 0; i < e.NumField(); i++ {
		f := e.Field(i)
		switch f.Kind() {
		case reflect.Bool, reflect.String:
			s += fmt.Sprintf("%%s=%%q;", e.Type().Field(i).Name, fmt.Sprint(f.Interface()))
		case reflect.Int8, reflect.Int16, reflect.Int32, reflect.Int64:
			s += fmt.Sprintf("%%s=%%q;", e.Type().Field(i).Name, fmt.Sprint(f.Int()))
		case reflect.Uint8, reflect.Uint16, reflect.Uint32:
			s += fmt.Sprintf("%%s=%%q;", e.Type().Field(i).Name, fmt.Sprint(f.Uint()))
		}
	}
	return s
}

func main() {
	rng := rand.New(rand.NewSource(%d))
	for _, t := range all {
		fmt.Printf("RTDEF %%s %%s\n", t.id, defaults(t.mk()))
		for k := 0; k < %d; k++ {
			if msg := one(rng, t.id, t.mk); msg != "" {
				if len(msg) > 400 {
					msg = msg[:400]
				}
				fmt.Printf("RTFAIL %%s %%q\n", t.id, msg)
				break
			}
		}
		fmt.Printf("RTDONE %%s\n", t.id)
	}
}
`

var reStructLine = regexp.MustCompile(`^([^|]+)\|S:([A-Za-z0-9_]+)\{`)
var reRTDef = regexp.MustCompile(`(?m)^RTDEF (p\d+)\|(\S+) (.*)$`)
var reRT = regexp.MustCompile(`(?m)^RT(FAIL|DONE) (p\d+)\|(\S+)(?: (.*))?$`)

// roundTrip runs the smoke test for the given programs (pid -> emitted schema lines).
func roundTrip(e *env, seed int64, progs map[string][]string, byPid map[string]*caseOp, res *common.Result, thorough, verbose bool) {
	var pids []string
	for p := range progs {
		pids = append(pids, p)
	}
	sort.Strings(pids)
	var imports, entries []string
	n := 0
	for _, pid := range pids {
		mods := map[string]string{}
		for _, line := range progs[pid] {
			m := reStructLine.FindStringSubmatch(line)
			if m == nil {
				continue
			}
			mod, name := m[1], m[2]
			alias, ok := mods[mod]
			if !ok {
				alias = fmt.Sprintf("%s_%d", pid, len(mods))
				mods[mod] = alias
				imports = append(imports, fmt.Sprintf("\t%s \"c16gen/%s/%s\"", alias, pid, mod))
			}
			entries = append(entries, fmt.Sprintf("\t{%q, func() codecT { return new(%s.%s) }},", pid+"|"+mod+"."+name, alias, name))
			n++
		}
	}
	if n == 0 {
		return
	}
	iters := 30
	if thorough {
		iters = 200
	}
	dir := filepath.Join(e.buildDir, "rtmain")
	os.MkdirAll(dir, 0o755)
	src := fmt.Sprintf(rtMainTmpl, strings.Join(imports, "\n"), strings.Join(entries, "\n"), seed, iters)
	os.WriteFile(filepath.Join(dir, "main.go"), []byte(src), 0o644)
	t0 := time.Now()
	out, err := runCmd(e.buildDir, e.goenv, 10*time.Minute, "go", "run", "./rtmain")
	res.Note("round-trip smoke test of %d emitted struct types x %d values: %.1fs", n, iters, time.Since(t0).Seconds())
	done := 0
	for _, m := range reRTDef.FindAllStringSubmatch(out, -1) {
		pid, ty, got := m[1], m[2], m[3]
		c := byPid[pid]
		want, ok := c.Defaults[ty]
		if !ok {
			continue
		}
		if got == want {
			res.Count("def/"+pid+ty, "defaults:ok", true)
			continue
		}
		res.Count("def/"+pid+ty, "defaults:mismatch", true)
		if verbose {
			fmt.Printf("defaults: %s declared %s emitted %s\n", ty, want, got)
		}
		res.Violate(common.Violation{Signature: "C16:wrong-default:genFunResetDefault",
			What: "after the emitted ResetDefault the members of " + ty + " do not hold the declared default values: declared " + trunc(want) + " emitted " + trunc(got),
			Case: common.Case{Stream: "roundtrip", Op: c, Impl: trunc(got), Note: "declared: " + trunc(want)}})
	}
	for _, m := range reRT.FindAllStringSubmatch(out, -1) {
		kind, pid, ty, msg := m[1], m[2], m[3], m[4]
		if kind == "DONE" {
			done++
			res.Count("rt/"+pid+ty, "roundtrip:done", true)
			continue
		}
		c := byPid[pid]
		if verbose {
			fmt.Printf("roundtrip: FAIL %s %s\n", ty, msg)
		}
		res.Violate(common.Violation{Signature: "C16:roundtrip-mismatch:" + rtLocus(msg),
			What: "a value written by the emitted WriteTo is not read back by the emitted ReadFrom (" + ty + "): " + trunc(msg),
			Case: common.Case{Stream: "roundtrip", Op: c, Impl: trunc(msg)}})
	}
	if err != nil && done < n {
		res.HarnessError = "round-trip program failed: " + trunc(out)
	}
	res.TracesValidated += done
}

func rtLocus(msg string) string {
	switch {
	case strings.Contains(msg, "panic"):
		return "panic"
	case strings.Contains(msg, "read error"):
		return "read-error"
	case strings.Contains(msg, "write error"):
		return "write-error"
	}
	return "value"
}
