// C16 harness: tars2go front end and tool-level behaviour.
//
//   - builds the REAL tars2go binary and a small dumper (the real lexer/parse packages run in-process
//     there) from $VERIF_REPO in a temporary directory under /tmp (removed at exit);
//   - streams: "lex" (token sequences), "parse" (parse.NewParse: class + canonical AST/schema dump),
//     "tool" (exit class of the binary), each compared with the Lean model (tm_idl);
//   - property oracle on the implementation: a grammar-generated valid program must be accepted, the
//     emitted packages must compile against $VERIF_REPO (one shared `go build`) and declare exactly
//     the schema of the program (ascending tags, require flags, Go types, enum values); ANY input must
//     terminate within the timeout without a Go crash, with a diagnostic when rejected; the
//     regenerated tars/protocol/res bindings must equal the checked-in ones modulo banner and gofmt.
package main

import (
	_ "embed"
	"encoding/hex"
	"fmt"
	"math/rand"
	"os"
	"path/filepath"
	"runtime"
	"sort"
	"strings"
	"sync"
	"syscall"
	"time"

	"verifharness/common"
)

//go:embed dumper.go.txt
var dumperSrc string

// caseOp is one case (also the shape of a replay file's "case").
type caseOp struct {
	Kind   string            `json:"kind"` // valid | invalid (one known side condition broken) | malformed | bindings
	Files  map[string]string `json:"files,omitempty"`
	Main   string            `json:"main,omitempty"`
	Origin string            `json:"origin,omitempty"`
	Edge   string            `json:"edge,omitempty"`
	Expect []string          `json:"expect,omitempty"` // declared schema (valid programs)
	Calls  []CallIface       `json:"calls,omitempty"`  // declared interfaces (valid programs): call-level validation
	// declared default values: "<package>.<Struct>" -> `Member="value";…` for the scalar members
	Defaults map[string]string `json:"defaults,omitempty"`
	ID       int               `json:"id"`
	NoTool   bool              `json:"no_tool,omitempty"`      // lexer/parser streams only
	Cycle    bool              `json:"module_cycle,omitempty"` // run tars2go with -module-cycle (packages at <file>/<module>)
}

func (c *caseOp) mainBytes() []byte {
	b, _ := hex.DecodeString(c.Files[c.Main])
	return b
}

type env struct {
	repo     string
	base     string // temp dir
	bin      string
	dumper   string
	buildDir string
	goenv    []string
	timeout  time.Duration
	flags    string // model variant of this tree: five 0/1 flags (1 = repaired): enumEof, typeDefByte, enumRefCase, defaultEnumCase, arrayDepend
	d5       bool   // true = tree hangs on the D5 witness (as found)
}

func goEnv() []string {
	e := os.Environ()
	e = append(e, "GOFLAGS=-mod=mod", "GOPROXY=off", "GOSUMDB=off", "GOTOOLCHAIN=local", "CGO_ENABLED=0")
	return e
}

func setup(res *common.Result, o *common.Opts) *env {
	repo := os.Getenv("VERIF_REPO")
	if repo == "" {
		repo = "/repo"
	}
	base, err := os.MkdirTemp("/tmp", "c16-")
	if err != nil {
		res.Fatal(o.Out, err)
	}
	e := &env{repo: repo, base: base, goenv: goEnv(), timeout: 4 * time.Second}
	e.bin = filepath.Join(base, "bin", "tars2go")
	e.dumper = filepath.Join(base, "bin", "dumper")
	os.MkdirAll(filepath.Join(base, "bin"), 0o755)
	// the real tool
	out, err := runCmd(filepath.Join(repo, "tars", "tools", "tars2go"), e.goenv, 5*time.Minute, "go", "build", "-o", e.bin, ".")
	if err != nil {
		cleanup(e)
		res.Fatal(o.Out, fmt.Errorf("tars2go does not build: %v\n%s", err, out))
	}
	// the dumper: real lexer/parse packages in-process
	dm := filepath.Join(base, "dumpermod")
	os.MkdirAll(dm, 0o755)
	os.WriteFile(filepath.Join(dm, "main.go"), []byte(dumperSrc), 0o644)
	os.WriteFile(filepath.Join(dm, "go.mod"), []byte("module c16dumper\n\ngo 1.23\n\nrequire github.com/TarsCloud/TarsGo/tars/tools/tars2go v0.0.0\n\nreplace github.com/TarsCloud/TarsGo/tars/tools/tars2go => "+
		filepath.Join(repo, "tars", "tools", "tars2go")+"\n"), 0o644)
	out, err = runCmd(dm, e.goenv, 5*time.Minute, "go", "build", "-o", e.dumper, ".")
	if err != nil {
		cleanup(e)
		res.Fatal(o.Out, fmt.Errorf("dumper does not build against the real parse package: %v\n%s", err, out))
	}
	// the module the emitted packages are compiled in
	e.buildDir = filepath.Join(base, "build")
	os.MkdirAll(e.buildDir, 0o755)
	os.WriteFile(filepath.Join(e.buildDir, "go.mod"), []byte("module c16gen\n\ngo 1.23\n\nrequire github.com/TarsCloud/TarsGo v0.0.0\n\nreplace github.com/TarsCloud/TarsGo => "+repo+"\n"), 0o644)
	if b, err := os.ReadFile(filepath.Join(repo, "go.sum")); err == nil {
		os.WriteFile(filepath.Join(e.buildDir, "go.sum"), b, 0o644)
	}
	return e
}

var keepTmp bool

func cleanup(e *env) {
	if keepTmp {
		fmt.Fprintln(os.Stderr, "kept:", e.base)
		return
	}
	if e != nil && e.base != "" && strings.HasPrefix(e.base, "/tmp/c16-") {
		os.RemoveAll(e.base)
	}
}

// ---- one case through all streams ----

type caseResult struct {
	c        *caseOp
	tool     toolRes
	lexImpl  string
	parImpl  string
	model    map[string]string // lex, parse:a, parse:r, tool:a, tool:r
	accepted bool
}

func runCase(e *env, c *caseOp, model map[string]string, skipReal bool) *caseResult {
	r := &caseResult{c: c, model: model}
	dir := filepath.Join(e.base, "cases", fmt.Sprintf("c%d", c.ID))
	os.MkdirAll(dir, 0o755)
	for name, hx := range c.Files {
		b, _ := hex.DecodeString(hx)
		os.WriteFile(filepath.Join(dir, name), b, 0o644)
	}
	if skipReal {
		r.tool = toolRes{Class: "skipped"}
		r.lexImpl, r.parImpl = "skipped", "skipped"
		os.RemoveAll(dir)
		return r
	}
	var wg sync.WaitGroup
	wg.Add(1)
	go func() {
		defer wg.Done()
		d := getDumper(e)
		r.lexImpl = d.ask("lex " + filepath.Join(dir, c.Main))
		r.parImpl = d.ask("parse " + filepath.Join(dir, c.Main))
		putDumper(d)
	}()
	outdir := filepath.Join(dir, "out")
	args := []string{"-outdir", outdir, c.Main}
	cwd := dir
	if c.Kind == "valid" {
		// emitted into the shared build module; -outdir must be relative for the import paths
		// (`-module` + outdir) the generator derives
		outdir = filepath.Join(e.buildDir, fmt.Sprintf("p%d", c.ID))
		args = []string{"-outdir", fmt.Sprintf("p%d", c.ID), "-module", "c16gen"}
		if c.Cycle {
			args = append(args, "-module-cycle")
		}
		args = append(args, filepath.Join(dir, c.Main))
		cwd = e.buildDir
	}
	if c.NoTool {
		r.tool = toolRes{Class: "notrun"}
	} else {
		r.tool = runTool(e.bin, cwd, args, e.timeout)
	}
	wg.Wait()
	r.accepted = r.tool.Class == "ok"
	if c.Kind == "valid" && !r.accepted {
		os.RemoveAll(outdir)
	}
	if !keepTmp {
		os.RemoveAll(dir)
	}
	return r
}

func classOf(ans string) string {
	f := strings.SplitN(ans, " ", 2)
	return f[0]
}

func trunc(s string) string {
	if len(s) > 600 {
		return s[:600] + "…"
	}
	return s
}

// evaluate compares with the model and applies the oracle to one executed case.
func evaluate(e *env, r *caseResult, res *common.Result, verbose bool) {
	c := r.c
	input := c.mainBytes()
	key := c.Kind + "/" + hex.EncodeToString(input)
	if len(key) > 200 {
		key = key[:200]
	}
	if r.tool.Class == "skipped" {
		res.Count(key, "tool:skipped-predicted-hang", false)
		return
	}
	res.Count(key, "tool:"+r.tool.Class, len(input) > 0)
	res.Histogram["origin:"+c.Origin]++
	if verbose {
		fmt.Printf("tool:   class=%s exit=%d locus=%s\n  stdout: %s\n  stderr: %s\n", r.tool.Class, r.tool.Exit, r.tool.Locus, trunc(r.tool.Stdout), trunc(r.tool.Stderr))
		fmt.Printf("impl lex:   %s\nmodel lex:  %s\n", trunc(r.lexImpl), trunc(r.model["lex"]))
		fmt.Printf("impl parse:  %s\nmodel parse: %s   (variant flags %s)\n", trunc(r.parImpl), trunc(r.model["parse"]), e.flags)
		fmt.Printf("model tool:  %s\n", trunc(r.model["tool"]))
	}
	single := len(c.Files) == 1

	// --- correspondence ---
	if ml := r.model["lex"]; ml != common.NoModel && ml != "" {
		res.Histogram["lex:"+lexClass(r.lexImpl)]++
		if r.lexImpl != ml && r.lexImpl != "hang" {
			res.Diverge(common.Case{Stream: "lex", Op: c, Model: trunc(ml), Impl: trunc(r.lexImpl)})
		}
		res.TracesValidated++
	}
	if mp := r.model["parse"]; mp != common.NoModel && mp != "" {
		mc := classOf(mp)
		ic := classOf(r.parImpl)
		if strings.HasPrefix(ic, "diag") {
			ic = "diag"
		}
		res.Histogram["parse-model:"+mc]++
		switch {
		case mc == "unsupported":
			// the input reaches a part of tars2go outside the model (second module, include)
		case mc != ic:
			res.Diverge(common.Case{Stream: "parse", Op: c, Model: trunc(mp), Impl: trunc(r.parImpl), Note: "class differs"})
		case mc == "ok" && mp != r.parImpl:
			res.Diverge(common.Case{Stream: "parse", Op: c, Model: trunc(mp), Impl: trunc(r.parImpl), Note: "schema dump differs"})
		default:
			res.TracesValidated++
		}
	}
	if mt := r.model["tool"]; mt != common.NoModel && mt != "" && single && !c.NoTool {
		mc := classOf(mt)
		tc := r.tool.Class
		switch {
		case mc == "unsupported":
		case mc == tc:
			res.TracesValidated++
		case mc == "ok" && tc == "diag" && (strings.Contains(r.tool.Stdout, "go fmt fail") || strings.Contains(r.tool.Stdout, "Unknown Type")):
			// accepted by front end and analysis, emitted text is not Go (identifier is a Go keyword,
			// array token as type, …): outside the model, and outside the supported language
			res.Histogram["tool:gofmt-fail-unmodelled"]++
		case mc == "ok" && tc == "diag" && c.Kind != "valid" && strings.Contains(r.tool.Stderr+r.tool.Stdout, "mkdir"):
			res.Histogram["tool:os-error-unmodelled"]++
		default:
			res.Diverge(common.Case{Stream: "tool", Op: c, Model: trunc(mt), Impl: tc + " " + trunc(r.tool.Stdout), Note: "exit class differs"})
		}
	}

	// --- property oracle on the implementation (independent of the model) ---
	switch r.tool.Class {
	case "hang":
		res.Violate(common.Violation{Signature: "C16:hang:" + r.tool.Locus,
			What: "tars2go does not terminate (killed after the timeout while burning CPU in " + r.tool.Locus + ")",
			Case: common.Case{Stream: "tool", Op: c, Model: trunc(r.model["tool"]), Impl: "hang " + r.tool.Locus}})
	case "crash":
		res.Violate(common.Violation{Signature: "C16:crash:" + r.tool.Locus,
			What: "tars2go ends with a Go crash instead of a diagnostic",
			Case: common.Case{Stream: "tool", Op: c, Impl: fmt.Sprintf("exit %d %s", r.tool.Exit, trunc(r.tool.Stderr))}})
	case "diag":
		if strings.TrimSpace(r.tool.Stdout) == "" && !strings.Contains(r.tool.Stderr, "error") {
			res.Violate(common.Violation{Signature: "C16:no-diagnostic:Gen",
				What: "tars2go rejects the input with exit status 1 but prints no diagnostic",
				Case: common.Case{Stream: "tool", Op: c, Impl: trunc(r.tool.Stderr)}})
		}
		if strings.Contains(r.tool.Stdout, "runtime error") {
			res.Violate(common.Violation{Signature: "C16:panic-runtime-error:" + runtimeLocus(r.tool.Stdout),
				What: "tars2go hits a Go runtime error (recovered and printed) instead of diagnosing the input",
				Case: common.Case{Stream: "tool", Op: c, Impl: trunc(r.tool.Stdout)}})
		}
		if c.Kind == "invalid" {
			res.Histogram["invalid:rejected"]++
		}
		if c.Kind == "valid" {
			res.Violate(common.Violation{Signature: "C16:valid-rejected:" + diagLocus(r.tool.Stdout+" "+r.tool.Stderr),
				What: "a valid IDL program of the supported language is rejected: " + trunc(strings.TrimSpace(r.tool.Stdout)),
				Case: common.Case{Stream: "tool", Op: c, Impl: "diag " + trunc(r.tool.Stdout), Note: "edge construct: " + c.Edge}})
		}
	}
	if c.Kind == "invalid" && r.tool.Class == "ok" {
		res.Violate(common.Violation{Signature: "C16:invalid-accepted:" + c.Edge,
			What: "a program that violates a side condition of the language (" + c.Edge + ") is accepted without a diagnostic",
			Case: common.Case{Stream: "tool", Op: c, Model: trunc(r.model["tool"]), Impl: "ok"}})
	}
	if r.parImpl == "hang" && r.tool.Class != "hang" {
		res.Violate(common.Violation{Signature: "C16:hang:parse.NewParse",
			What: "parse.NewParse does not terminate", Case: common.Case{Stream: "parse", Op: c, Impl: "hang"}})
	}
	if strings.HasPrefix(r.parImpl, "diag-runtime") && !strings.Contains(r.tool.Stdout, "runtime error") {
		res.Violate(common.Violation{Signature: "C16:panic-runtime-error:parse",
			What: "parse.NewParse hits a Go runtime error", Case: common.Case{Stream: "parse", Op: c, Impl: trunc(r.parImpl)}})
	}
}

func lexClass(s string) string {
	switch {
	case s == "hang":
		return "hang"
	case strings.HasSuffix(s, "bad"):
		return "lexerr"
	}
	return "ok"
}

var diagTable = []struct{ pat, locus string }{
	{"typeDef unknown type", "typeDef"},
	{"not define before use", "genEnum"},
	{"go fmt fail", "gofmt"},
	{"Unknown Type", "genType"},
	{"not find define", "checkDepTName"},
	{"can not find default value", "analyzeDefault"},
	{"name conflict", "FindEnumName"},
	{"circular reference", "newParse"},
	{"file read error", "NewParse"},
	{"Redefine", "redefine"},
	{"have duplicates", "checkTag"},
	{"unsigned decoration", "makeUnsigned"},
	{"expect", "parse"},
	{"expert type", "parseType"},
	{"except", "parseModuleSegment"},
	{"Expect include or module", "parse"},
}

func diagLocus(msg string) string {
	for _, d := range diagTable {
		if strings.Contains(msg, d.pat) {
			return d.locus
		}
	}
	return "other"
}

func runtimeLocus(msg string) string {
	switch {
	case strings.Contains(msg, "nil pointer"):
		return "nil-pointer"
	case strings.Contains(msg, "index out of range"):
		return "index"
	case strings.Contains(msg, "slice bounds"):
		return "slice-bounds"
	}
	return "other"
}

// ---- main ----

func main() {
	o := common.ParseOpts()
	res := common.NewResult("C16", o)
	res.Streams = []string{"lex", "parse", "tool", "compile", "schema", "roundtrip", "call", "bindings"}
	rng := o.Rand()
	syscall.Setrlimit(syscall.RLIMIT_CORE, &syscall.Rlimit{Cur: 0, Max: 0}) // children abort on SIGQUIT: no core files
	keepTmp = o.Extra == "keep"
	rtSeed, rtThorough = o.Seed, o.Thorough()
	e := setup(res, o)
	defer cleanup(e)
	m, err := common.StartModel(o.Model, "idl")
	if err != nil {
		cleanup(e)
		res.Fatal(o.Out, err)
	}
	defer m.Close()
	fail := func(err error) {
		m.Close()
		closeDumpers()
		cleanup(e)
		res.Fatal(o.Out, err)
	}

	// which variant is this tree? (one witness per defect, once)
	e.probeVariant()
	res.Note("tree variant flags %s (1 = repaired, 0 = as found: enumEof/D5, typeDefByte/D6, enumRefCase, defaultEnumCase, arrayDepend)", e.flags)

	var cases []*caseOp
	replay := o.Replay != ""
	if replay {
		c := &caseOp{}
		if err := common.ReadReplay(o.Replay, c); err != nil {
			fail(err)
		}
		cases = []*caseOp{c}
	} else {
		cases = genCases(e, o, rng, res)
	}
	for i, c := range cases {
		c.ID = i
	}

	// chunk by chunk: model answers in one batch, the real code on parallel workers, evaluation in
	// case order (results of valid programs are kept for the shared build)
	results := make([]*caseResult, len(cases))
	workers := runtime.NumCPU() / 2
	if workers < 2 {
		workers = 2
	}
	if workers > 10 {
		workers = 10
	}
	var hangs int64
	var mu sync.Mutex
	const chunk = 3000
	for lo := 0; lo < len(cases); lo += chunk {
		hi := lo + chunk
		if hi > len(cases) {
			hi = len(cases)
		}
		var lines []string
		var idx []int
		for i := lo; i < hi; i++ {
			c := cases[i]
			if c.Kind == "bindings" {
				continue
			}
			hx := common.Hex(c.mainBytes())
			lines = append(lines, "lex "+hx, "parse "+e.flags+" "+hx, "tool "+e.flags+" "+hx)
			idx = append(idx, i)
		}
		ans, err := m.Batch(lines)
		if err != nil {
			fail(err)
		}
		models := map[int]map[string]string{}
		for k, i := range idx {
			models[i] = map[string]string{"lex": ans[3*k], "parse": ans[3*k+1], "tool": ans[3*k+2]}
		}
		jobs := make(chan int)
		var wg sync.WaitGroup
		for w := 0; w < workers; w++ {
			wg.Add(1)
			go func() {
				defer wg.Done()
				for i := range jobs {
					c := cases[i]
					// once many hangs have been observed (as-found tree, thorough tier) further inputs
					// on which the model predicts the same hang are not executed (each costs the full
					// timeout)
					mu.Lock()
					skip := hangs >= 120 && c.Kind != "valid" && classOf(models[i]["tool"]) == "hang"
					mu.Unlock()
					r := runCase(e, c, models[i], skip)
					if r.tool.Class == "hang" {
						mu.Lock()
						hangs++
						mu.Unlock()
					}
					results[i] = r
				}
			}()
		}
		for _, i := range idx {
			jobs <- i
		}
		close(jobs)
		wg.Wait()
		for i := lo; i < hi; i++ {
			c := cases[i]
			if c.Kind == "bindings" {
				checkBindings(e, c, res, replay)
				continue
			}
			before := len(res.Violations) + len(res.Divergences)
			if len(res.Samples) < 4 {
				res.Sample(map[string]string{"kind": c.Kind, "origin": c.Origin, "main": trunc(string(c.mainBytes()))})
			}
			evaluate(e, results[i], res, replay)
			if c.Kind != "valid" {
				results[i] = nil
				if len(res.Violations)+len(res.Divergences) == before {
					c.Files = nil // release the text of cases nothing refers to
				}
			}
		}
	}
	closeDumpers()

	// compile all accepted valid programs in one go, then compare the emitted schema
	compileAndCheck(e, cases, results, res, replay)

	for k, v := range featTotal {
		res.Histogram["grammar:"+k] += v
	}
	res.Rule = "cases = IDL inputs: (a) programs drawn from the grammar of DESIGN.md Appendix C (every production and side condition counted " +
		"under grammar:*; one exotic construct per program under edge:*), (b) malformed inputs: truncation at every token boundary, token and byte " +
		"mutations, token soup, random bytes, hand-written prefixes, the framework's own .tars files truncated; each input goes through the real " +
		"lexer, the real parse.NewParse, the real tars2go binary and the Lean model; non-trivial = distinct non-empty main-file contents"
	if err := res.Write(o.Out); err != nil {
		panic(err)
	}
}

func min(a, b int) int {
	if a < b {
		return a
	}
	return b
}

// probeVariant determines, defect by defect, which variant of the model describes this tree, by
// running one witness each against the real binary / the real parse package.
func (e *env) probeVariant() {
	dir := filepath.Join(e.base, "probe")
	os.MkdirAll(dir, 0o755)
	defer os.RemoveAll(dir)
	write := func(name, text string) string {
		p := filepath.Join(dir, name)
		os.WriteFile(p, []byte(text), 0o644)
		return p
	}
	run := func(name string) toolRes {
		return runTool(e.bin, dir, []string{"-outdir", filepath.Join(dir, "o"+name), name}, e.timeout)
	}
	flag := func(repaired bool) string {
		if repaired {
			return "1"
		}
		return "0"
	}
	write("D5.tars", "module a { enum E {")
	write("D6.tars", "module a { struct S { 0 optional byte b; }; };")
	write("N1.tars", "module a { enum E { x = 4, Y = x }; };")
	n2 := write("N2.tars", "module a { enum e { A }; struct S { 0 optional e x = A; }; };")
	n3 := write("N3.tars", "module a { enum E { A }; struct S { 0 require E x[2]; }; };")
	r5 := run("D5.tars")
	e.d5 = r5.Class == "hang"
	r6 := run("D6.tars")
	r1 := run("N1.tars")
	d := getDumper(e)
	p2 := d.ask("parse " + n2)
	p3 := d.ask("parse " + n3)
	putDumper(d)
	e.flags = flag(!e.d5) + flag(r6.Class == "ok") + flag(r1.Class == "ok") +
		flag(strings.Contains(p2, hx("E_A"))) + flag(strings.Contains(p3, "A(N(E,e),2)"))
}

var featTotal = map[string]int{}

func hx(s string) string { return hex.EncodeToString([]byte(s)) }

func progCase(p *Prog, rng *rand.Rand, plain bool) *caseOp {
	c := &caseOp{Kind: "valid", Files: map[string]string{}, Edge: p.Edge, Origin: "grammar", Cycle: p.Cycle}
	if p.Edge != "" {
		c.Origin = "grammar-edge:" + p.Edge
	}
	for i, f := range p.Files {
		text, _ := f.Render(rng, p.Feats, plain)
		c.Files[f.Name+".tars"] = hx(text)
		if i == 0 {
			c.Main = f.Name + ".tars"
		}
		for _, m := range f.Modules {
			key := m.Name
			if p.Cycle {
				key = modKey(f.Name, m.Name)
			}
			for _, d := range m.Decls {
				switch d.Kind {
				case "struct":
					c.Expect = append(c.Expect, key+"|S:"+ExpectedStruct(key, d))
				case "enum":
					c.Expect = append(c.Expect, key+"|E:"+ExpectedEnum(d))
				}
			}
		}
	}
	sort.Strings(c.Expect)
	c.Calls = p.CallIfaces()
	c.Defaults = p.DeclaredDefaults()
	for k, v := range p.Feats {
		featTotal[k] += v
	}
	return c
}

func genCases(e *env, o *common.Opts, rng *rand.Rand, res *common.Result) []*caseOp {
	var cases []*caseOp
	// the two witnesses first
	cases = append(cases, &caseOp{Kind: "malformed", Files: map[string]string{"W5.tars": hx("module a { enum E {")}, Main: "W5.tars", Origin: "witness-D5"})
	cases = append(cases, &caseOp{Kind: "valid", Files: map[string]string{"W6.tars": hx("module w6 { struct S { 0 optional byte b; }; };")}, Main: "W6.tars",
		Origin: "witness-D6", Edge: "optional-byte-nodefault", Expect: []string{"w6|S:S{B int8 b,tag:0,require:false}"}})

	nCore, perEdge, nMal := 16, 1, 700
	if o.Thorough() {
		nCore, perEdge, nMal = 150, 6, 120000
	}
	id := 100
	var bases []string   // texts to mutate
	var baseCuts [][]int // token boundaries
	for i := 0; i < nCore; i++ {
		p := GenProg(rng, id, "", o.Thorough() && i%10 == 0)
		cases = append(cases, progCase(p, rng, i%4 == 0))
		if len(bases) < 12 {
			text, cuts := p.Files[0].Render(rng, map[string]int{}, i%2 == 0)
			bases = append(bases, text)
			baseCuts = append(baseCuts, cuts)
		}
		id++
	}
	for _, edge := range edges {
		for k := 0; k < perEdge; k++ {
			p := GenProg(rng, id, edge, false)
			cases = append(cases, progCase(p, rng, false))
			id++
		}
	}
	// multi-file / multi-module programs with cross-module references of every kind
	perShape := 1
	if o.Thorough() {
		perShape = 8
	}
	for _, shape := range xShapeNames {
		for k := 0; k < perShape; k++ {
			p := GenXProg(rng, id, shape, "")
			cases = append(cases, progCase(p, rng, k%2 == 1))
			id++
		}
	}
	// one module spread over several files joined by #include (no flag)
	for _, shape := range []string{"chain", "diamond", "fan", "mixed"} {
		for k := 0; k < (perShape+1)/2; k++ {
			p := GenXProg(rng, id, shape, "split")
			cases = append(cases, progCase(p, rng, k%2 == 1))
			id++
		}
	}
	// the same layouts under -module-cycle, with the same module name in different files
	for _, shape := range []string{"chain", "diamond", "mixed"} {
		for k := 0; k < (perShape+1)/2; k++ {
			p := GenXProg(rng, id, shape, "cycle")
			cases = append(cases, progCase(p, rng, k%2 == 0))
			id++
		}
	}
	// grammar-aware invalidation: valid programs broken in exactly one known way must be rejected
	nInv := 2
	if o.Thorough() {
		nInv = 12
	}
	for _, kind := range invalidKinds {
		for k := 0; k < nInv; k++ {
			p := GenProg(rng, id, "", false)
			id++
			if !Invalidate(p, kind, rng) {
				continue
			}
			c := progCase(p, rng, k%2 == 0)
			c.Kind, c.Origin, c.Expect, c.Edge = "invalid", "invalidated:"+kind, nil, kind
			cases = append(cases, c)
		}
	}
	// the framework's own IDL files as further bases
	if fs, err := filepath.Glob(filepath.Join(e.repo, "tars", "protocol", "res", "*.tars")); err == nil {
		sort.Strings(fs)
		for _, f := range fs {
			if b, err := os.ReadFile(f); err == nil && len(b) < 20000 {
				bases = append(bases, string(b))
				baseCuts = append(baseCuts, scanCuts(string(b)))
			}
		}
	}
	cases = append(cases, genMalformed(rng, bases, baseCuts, nMal, o.Thorough())...)
	cases = append(cases, &caseOp{Kind: "bindings", Origin: "bindings"})
	return cases
}
