package main

// Multi-file / multi-module programs: #include chains, diamonds and fans, several modules per file,
// and cross-module references of every kind the language has: struct member types, vector and map
// element types, enum map keys, enum-typed members with defaults (bare `NAME` and qualified
// `Mod::NAME`), interface parameter (in/out) and return types.  (Constants cannot refer to another
// module: their values are literals.)

import (
	"fmt"
	"math/rand"
)

// xShapes: file layouts.  Each entry lists, per file, the indices of the files it includes and the
// number of modules it contains; file 0 is the one given to tars2go.
var xShapes = map[string][]struct {
	inc  []int
	mods int
}{
	"chain":   {{[]int{1}, 1}, {[]int{2}, 1}, {nil, 1}},
	"diamond": {{[]int{1, 2}, 1}, {[]int{3}, 1}, {[]int{3}, 1}, {nil, 1}},
	"fan":     {{[]int{1, 2}, 1}, {nil, 1}, {nil, 1}},
	"multi":   {{nil, 3}},
	"mixed":   {{[]int{1}, 2}, {[]int{2}, 2}, {nil, 1}},
}

var xShapeNames = []string{"chain", "diamond", "fan", "multi", "mixed"}

type export struct {
	d    *Decl
	mod  string
	file int
}

// GenXProg draws one valid multi-file / multi-module program of the given layout.
// mode "": every module has its own name.  mode "cycle": the program is meant for `-module-cycle`
// (the included files declare one common module name, a different package per file).  mode "split":
// WITHOUT the flag all files declare one common module: ONE module (one Go package) spread over
// several IDL files joined by #include, referring to each other's types qualified and unqualified.
func GenXProg(rng *rand.Rand, id int, shape string, mode string) *Prog {
	g := &gen{rng: rng, feats: map[string]int{}}
	cycle := mode == "cycle"
	p := &Prog{Feats: g.feats, Edge: "x-" + shape, Cycle: cycle}
	if mode == "split" {
		p.Edge = "x-split-" + shape
		g.feat("samemodule:split-files:" + shape)
	}
	layout := xShapes[shape]
	files := make([]*File, len(layout))
	exports := make([][]export, len(layout)) // own exports of each file
	g.feat("include:" + shape)
	// transitive closure of the includes of file i
	var closure func(i int, seen map[int]bool)
	closure = func(i int, seen map[int]bool) {
		for _, j := range layout[i].inc {
			if !seen[j] {
				seen[j] = true
				closure(j, seen)
			}
		}
	}
	for i := len(layout) - 1; i >= 0; i-- { // leaves first
		f := &File{Name: fmt.Sprintf("X%d%c", id, 'a'+i)}
		if i == 0 {
			f.Name = fmt.Sprintf("P%d", id)
		}
		for _, j := range layout[i].inc {
			f.Includes = append(f.Includes, files[j].Name+".tars")
			g.feat("include:directive")
		}
		seen := map[int]bool{}
		closure(i, seen)
		direct := map[int]bool{}
		for _, j := range layout[i].inc {
			direct[j] = true
		}
		sc := &scope{emod: map[*Decl]string{}, eproto: map[*Decl]string{}}
		if cycle {
			sc.proto = f.Name
		}
		var visible []export
		for j := range layout {
			if seen[j] {
				for _, ex := range exports[j] {
					visible = append(visible, ex)
					sc.emod[ex.d] = ex.mod
					sc.eproto[ex.d] = files[ex.file].Name
					if ex.d.Kind == "enum" {
						sc.enums = append(sc.enums, ex.d)
					} else {
						sc.structs = append(sc.structs, ex.d)
					}
				}
			}
		}
		for k := 0; k < layout[i].mods; k++ {
			name := fmt.Sprintf("Xm%d%c%d", id, 'a'+i, k)
			if g.rng.Intn(3) == 0 {
				name = fmt.Sprintf("xm%d%c%d", id, 'a'+i, k)
			}
			if mode == "split" && k == 0 {
				// one module spread over all files
				name = fmt.Sprintf("Xs%d", id)
				g.feat("samemodule:split-files:file")
			}
			if cycle && i > 0 && k == 0 {
				// the same module name in different files (only legal with -module-cycle)
				name = fmt.Sprintf("Xc%d", id)
				g.feat("cycle:same-module-different-file")
			}
			msc := sc
			mvis := visible
			if mode == "split" && i > 0 && k > 0 {
				// a further module of an included file must not depend on the split module: the part
				// of the split module in an including file may depend on it (Go packages are acyclic)
				split := fmt.Sprintf("Xs%d", id)
				msc = &scope{emod: map[*Decl]string{}, eproto: map[*Decl]string{}}
				mvis = nil
				for _, ex := range visible {
					if ex.mod == split {
						continue
					}
					mvis = append(mvis, ex)
					msc.emod[ex.d] = ex.mod
					if ex.d.Kind == "enum" {
						msc.enums = append(msc.enums, ex.d)
					} else {
						msc.structs = append(msc.structs, ex.d)
					}
				}
			}
			m := g.module(name, msc, 1+g.rng.Intn(3))
			// every module exports at least one enum and one struct for the modules above it
			g.ensureBasics(m, msc)
			if len(mvis) > 0 {
				g.xrefs(m, msc, mvis, i, direct, files, f.Name, cycle)
			}
			if msc != sc {
				// what the module declared becomes visible to the following ones
				for _, d := range m.Decls {
					if d.Kind == "enum" {
						sc.enums = append(sc.enums, d)
						sc.emod[d] = name
					} else if d.Kind == "struct" {
						sc.structs = append(sc.structs, d)
						sc.emod[d] = name
					}
				}
			}
			f.Modules = append(f.Modules, m)
			for _, d := range m.Decls {
				if d.Kind == "enum" || d.Kind == "struct" {
					ex := export{d, name, i}
					exports[i] = append(exports[i], ex)
					visible = append(visible, ex)
				}
			}
		}
		files[i] = f
	}
	p.Files = files
	return p
}

func (g *gen) ensureBasics(m *Module, sc *scope) {
	hasE, hasS := false, false
	for _, d := range m.Decls {
		hasE = hasE || d.Kind == "enum"
		hasS = hasS || d.Kind == "struct"
	}
	sc.mod = m.Name
	if !hasE {
		e := &Decl{Kind: "enum", Name: g.name("En", true)}
		n := 2 + g.rng.Intn(3)
		for i := 0; i < n; i++ {
			mem := EnumMem{Name: g.name("EM", false), Kind: 2}
			if g.rng.Intn(3) == 0 {
				mem.Kind, mem.Val = 0, int64(i*7+g.rng.Intn(5))
			}
			e.Mems = append(e.Mems, mem)
		}
		m.Decls = append(m.Decls, e)
		sc.enums = append(sc.enums, e)
		sc.emod[e] = m.Name
		g.feat("decl:enum")
	}
	if !hasS {
		s := &Decl{Kind: "struct", Name: g.name("St", true), Fields: []Field{
			{Tag: 0, Req: true, Name: g.name("m", true), Ty: &Ty{Kind: "prim", Prim: "int"}},
			{Tag: 1, Req: false, Name: g.name("m", true), Ty: &Ty{Kind: "prim", Prim: "string"}, Default: `"d"`, DefKind: "str"}}}
		m.Decls = append(m.Decls, s)
		sc.structs = append(sc.structs, s)
		sc.emod[s] = m.Name
		g.feat("decl:struct")
	}
}

// xrefs appends to module m one struct and one interface that refer to other modules in every way
func (g *gen) xrefs(m *Module, sc *scope, visible []export, file int, direct map[int]bool, files []*File, cur string, cycle bool) {
	protoOf := func(ex export) string {
		if !cycle {
			return ""
		}
		if ex.file == file {
			return cur
		}
		return files[ex.file].Name
	}
	var enums, structs []export
	for _, ex := range visible {
		if ex.mod == m.Name && ex.file == file {
			continue
		}
		if ex.d.Kind == "enum" && len(ex.d.Mems) > 0 {
			enums = append(enums, ex)
		} else if ex.d.Kind == "struct" {
			structs = append(structs, ex)
		}
	}
	if len(enums) == 0 || len(structs) == 0 {
		return
	}
	sameMod := false // does the member under construction refer to this module's part in another file?
	qual := func(ex export) bool {
		if ex.mod != m.Name || cycle {
			return true
		}
		sameMod = true
		if g.rng.Intn(2) == 0 {
			g.feat("samemodule:split-files:ref-qualified")
			return true
		}
		g.feat("samemodule:split-files:ref-unqualified")
		return false
	}
	how := func(ex export) {
		switch {
		case ex.mod == m.Name && !cycle:
			if direct[ex.file] {
				g.feat("samemodule:split-files:via-include-direct")
			} else {
				g.feat("samemodule:split-files:via-include-transitive")
			}
		case ex.file == file:
			g.feat("xmodule:same-file-other-module")
		case direct[ex.file]:
			g.feat("xmodule:via-include-direct")
		default:
			g.feat("xmodule:via-include-transitive")
		}
	}
	pickE := func() (export, *Ty) {
		ex := enums[g.rng.Intn(len(enums))]
		how(ex)
		return ex, &Ty{Kind: "named", Mod: ex.mod, Name: ex.d.Name, IsEnum: true, Qual: qual(ex), Proto: protoOf(ex)}
	}
	pickS := func() *Ty {
		ex := structs[g.rng.Intn(len(structs))]
		how(ex)
		return &Ty{Kind: "named", Mod: ex.mod, Name: ex.d.Name, Qual: qual(ex), Proto: protoOf(ex)}
	}
	str := &Ty{Kind: "prim", Prim: "string"}
	i32 := &Ty{Kind: "prim", Prim: "int"}
	st := &Decl{Kind: "struct", Name: g.name("Sx", true)}
	tag := g.rng.Intn(3)
	add := func(req bool, ty *Ty, dflt, feat string) {
		f := Field{Tag: tag, Req: req, Ty: ty, Name: g.name("x", true)}
		if dflt != "" {
			f.Default, f.DefKind = dflt, "enum"
		}
		st.Fields = append(st.Fields, f)
		tag += 1 + g.rng.Intn(3)
		if sameMod && !cycle {
			feat = "samemodule:split-files:" + feat[len("xmodule:"):]
		}
		sameMod = false
		g.feat(feat)
	}
	add(true, pickS(), "", "xmodule:struct-member")
	add(false, pickS(), "", "xmodule:struct-member")
	add(false, &Ty{Kind: "vector", K: pickS()}, "", "xmodule:vector-elem")
	add(false, &Ty{Kind: "map", K: str, V: pickS()}, "", "xmodule:map-value")
	_, et := pickE()
	add(false, &Ty{Kind: "map", K: et, V: i32}, "", "xmodule:map-key-enum")
	_, et = pickE()
	add(g.rng.Intn(2) == 0, et, "", "xmodule:enum-member")
	ex, et := pickE()
	add(false, et, ex.d.Mems[g.rng.Intn(len(ex.d.Mems))].Name, "xmodule:enum-default-bare")
	ex, et = pickE()
	add(g.rng.Intn(2) == 0, et, ex.mod+"::"+ex.d.Mems[g.rng.Intn(len(ex.d.Mems))].Name, "xmodule:enum-default-qualified")
	_, et = pickE()
	add(false, &Ty{Kind: "vector", K: et}, "", "xmodule:vector-elem")
	// fields in shuffled declaration order
	g.rng.Shuffle(len(st.Fields), func(a, b int) { st.Fields[a], st.Fields[b] = st.Fields[b], st.Fields[a] })
	m.Decls = append(m.Decls, st)
	sc.structs = append(sc.structs, st)
	sc.emod[st] = m.Name
	g.feat("decl:struct")

	itf := &Decl{Kind: "interface", Name: g.name("Ix", true)}
	_, e1 := pickE()
	_, e2 := pickE()
	f1 := Func{Name: g.name("fx", true), Ret: pickS(), Params: []Param{
		{Out: true, Ty: e1, Name: g.name("p", true)},
		{Out: false, Ty: pickS(), Name: g.name("p", true)},
		{Out: false, Ty: e2, Name: g.name("p", true)},
		{Out: true, Ty: &Ty{Kind: "vector", K: pickS()}, Name: g.name("p", true)}}}
	_, e3 := pickE()
	f2 := Func{Name: g.name("fx", true), Ret: e3, Params: []Param{
		{Out: false, Ty: &Ty{Kind: "map", K: str, V: pickS()}, Name: g.name("p", true)},
		{Out: true, Ty: pickS(), Name: g.name("p", true)},
		{Out: false, Ty: &Ty{Kind: "named", Mod: m.Name, Name: st.Name, Proto: sc.proto}, Name: g.name("p", true)}}}
	itf.Funcs = []Func{f1, f2}
	for _, c := range []string{"xmodule:param-in", "xmodule:param-out", "xmodule:ret"} {
		if sameMod && !cycle {
			c = "samemodule:split-files:" + c[len("xmodule:"):]
		}
		g.feat(c)
	}
	g.feat("func:ret-value")
	g.feat("decl:interface")
	m.Decls = append(m.Decls, itf)
	if !cycle {
		g.shadows(m, sc, enums, structs)
	}
}

// shadows: this module declares types with the SAME short name as types of other modules (struct
// vs struct, struct vs enum, enum vs struct) and uses both: `Other::T` means the other module's
// type, bare `T` this module's, mixed in struct members, vector/map element types and interface
// parameters / return types.
func (g *gen) shadows(m *Module, sc *scope, enums, structs []export) {
	own := map[string]bool{}
	for _, d := range m.Decls {
		own[d.Name] = true
	}
	type pair struct {
		other export
		mine  *Decl
	}
	var pairs []pair
	declare := func(ex export, asEnum bool, feat string) {
		if ex.mod == m.Name || own[ex.d.Name] {
			return
		}
		own[ex.d.Name] = true
		var d *Decl
		if asEnum {
			d = &Decl{Kind: "enum", Name: ex.d.Name, Mems: []EnumMem{{Name: g.name("EM", false), Kind: 0, Val: int64(3 + g.rng.Intn(50))},
				{Name: g.name("EM", false), Kind: 2}}}
			sc.enums = append(sc.enums, d)
		} else {
			d = &Decl{Kind: "struct", Name: ex.d.Name, Fields: []Field{
				{Tag: g.rng.Intn(4), Req: true, Name: g.name("m", true), Ty: &Ty{Kind: "prim", Prim: "long"}},
				{Tag: 7, Req: false, Name: g.name("m", true), Ty: &Ty{Kind: "prim", Prim: "string"}}}}
			sc.structs = append(sc.structs, d)
		}
		sc.emod[d] = m.Name
		m.Decls = append(m.Decls, d)
		pairs = append(pairs, pair{ex, d})
		g.feat("decl:" + d.Kind)
		g.feat("xmodule:same-short-name:" + feat)
	}
	declare(structs[g.rng.Intn(len(structs))], false, "struct-vs-struct")
	declare(enums[g.rng.Intn(len(enums))], false, "struct-vs-enum")
	declare(structs[g.rng.Intn(len(structs))], true, "enum-vs-struct")
	if len(pairs) == 0 {
		return
	}
	theirs := func(p pair) *Ty {
		g.feat("xmodule:same-short-name:ref-qualified")
		return &Ty{Kind: "named", Mod: p.other.mod, Name: p.other.d.Name, IsEnum: p.other.d.Kind == "enum", Qual: true}
	}
	mine := func(p pair) *Ty {
		q := g.rng.Intn(4) == 0 // now and then this module's own type by its qualified name
		if q {
			g.feat("xmodule:same-short-name:ref-own-qualified")
		} else {
			g.feat("xmodule:same-short-name:ref-unqualified")
		}
		return &Ty{Kind: "named", Mod: m.Name, Name: p.mine.Name, IsEnum: p.mine.Kind == "enum", Qual: q}
	}
	str := &Ty{Kind: "prim", Prim: "string"}
	st := &Decl{Kind: "struct", Name: g.name("Sh", true)}
	tag := 0
	add := func(ty *Ty, feat string) {
		st.Fields = append(st.Fields, Field{Tag: tag, Req: g.rng.Intn(2) == 0, Ty: ty, Name: g.name("h", true)})
		tag += 1 + g.rng.Intn(2)
		g.feat("xmodule:same-short-name:" + feat)
	}
	itf := &Decl{Kind: "interface", Name: g.name("Ih", true)}
	for _, p := range pairs {
		add(mine(p), "member")
		add(theirs(p), "member")
		add(&Ty{Kind: "vector", K: theirs(p)}, "vector-elem")
		add(&Ty{Kind: "vector", K: mine(p)}, "vector-elem")
		add(&Ty{Kind: "map", K: str, V: theirs(p)}, "map-value")
		add(&Ty{Kind: "map", K: str, V: mine(p)}, "map-value")
		itf.Funcs = append(itf.Funcs,
			Func{Name: g.name("fh", true), Ret: theirs(p), Params: []Param{
				{Out: false, Ty: mine(p), Name: g.name("p", true)},
				{Out: true, Ty: theirs(p), Name: g.name("p", true)},
				{Out: false, Ty: &Ty{Kind: "vector", K: theirs(p)}, Name: g.name("p", true)}}},
			Func{Name: g.name("fh", true), Ret: mine(p), Params: []Param{
				{Out: true, Ty: mine(p), Name: g.name("p", true)},
				{Out: false, Ty: theirs(p), Name: g.name("p", true)}}})
		g.feat("xmodule:same-short-name:param")
		g.feat("xmodule:same-short-name:ret")
	}
	g.rng.Shuffle(len(st.Fields), func(a, b int) { st.Fields[a], st.Fields[b] = st.Fields[b], st.Fields[a] })
	m.Decls = append(m.Decls, st, itf)
	sc.structs = append(sc.structs, st)
	sc.emod[st] = m.Name
	g.feat("decl:struct")
	g.feat("decl:interface")
}
