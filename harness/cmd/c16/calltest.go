package main

// Call-level translation validation of the emitted proxies and dispatchers: for every function of
// every emitted interface the generated proxy is connected in process (no network) to the generated
// dispatcher through a model.Servant that builds the request packet and calls Dispatch with a scripted
// implementation.  For random argument values the implementation must receive exactly the in
// arguments and the caller exactly the scripted return value and out values (TARS version, through
// the proxy).  The TUP and JSON branches of the dispatcher are driven directly with requests encoded
// by an independent reflective reference codec / encoding/json.
// The call-transparency property proper (filters, errors, network, concurrency) is C01.

import (
	"fmt"
	"os"
	"path/filepath"
	"regexp"
	"sort"
	"strings"
	"time"

	"verifharness/common"
)

const callMainHead = `package main

import (
	"bytes"
	"context"
	"encoding/json"
	"fmt"
	"hash/fnv"
	"math"
	"math/rand"
	"reflect"
	"strings"

	"github.com/TarsCloud/TarsGo/tars/model"
	"github.com/TarsCloud/TarsGo/tars/protocol/codec"
	"github.com/TarsCloud/TarsGo/tars/protocol/res/basef"
	"github.com/TarsCloud/TarsGo/tars/protocol/res/requestf"
	"github.com/TarsCloud/TarsGo/tars/protocol/tup"
	"github.com/TarsCloud/TarsGo/tars/util/endpoint"
	"github.com/TarsCloud/TarsGo/tars/util/tools"
%s
)

var (
	_ = bytes.NewReader
	_ = strings.Contains
	_ context.Context
)

// rec: what the scripted implementation received and what it is to answer
type rec struct {
	called int
	got    []interface{}
	outs   []interface{}
	ret    interface{}
}

type dispatcher interface {
	Dispatch(tarsCtx context.Context, val interface{}, tarsReq *requestf.RequestPacket, tarsResp *requestf.ResponsePacket, withContext bool) error
}

// loop is a model.Servant that hands the request straight to the generated dispatcher
type loop struct {
	disp    dispatcher
	impl    interface{}
	withCtx bool
}

func (l *loop) Name() string { return "C16.CallServer.CallObj" }
func (l *loop) TarsInvoke(ctx context.Context, cType byte, sFuncName string, buf []byte,
	status map[string]string, reqContext map[string]string, resp *requestf.ResponsePacket) error {
	req := &requestf.RequestPacket{IVersion: basef.TARSVERSION, CPacketType: int8(cType), IRequestId: 7,
		SServantName: l.Name(), SFuncName: sFuncName, SBuffer: tools.ByteToInt8(buf), Context: reqContext, Status: status}
	return l.disp.Dispatch(ctx, l.impl, req, resp, l.withCtx)
}
func (l *loop) TarsSetTimeout(int)              {}
func (l *loop) TarsSetProtocol(model.Protocol)  {}
func (l *loop) Endpoints() []*endpoint.Endpoint { return nil }
func (l *loop) SetPushCallback(func([]byte))    {}

type param struct {
	name string
	out  bool
	ptr  bool // in parameter of struct type: passed by pointer
	typ  reflect.Type
}

type fn struct {
	id      string // pN|Module.Iface.func
	sfunc   string // SFuncName
	goName  string
	proxy   func(model.Servant) interface{}
	disp    func() dispatcher
	impl    func(*rec) interface{}
	implCtx func(*rec) interface{}
	params  []param
	ret     reflect.Type
}

var ascii bool

func fill(rng *rand.Rand, v reflect.Value, depth int) {
	switch v.Kind() {
	case reflect.Bool:
		v.SetBool(rng.Intn(2) == 0)
	case reflect.Int8, reflect.Int16, reflect.Int32, reflect.Int64:
		bits := v.Type().Bits()
		var x int64
		switch rng.Intn(5) {
		case 0:
			x = 0
		case 1:
			x = int64(1)<<(bits-1) - 1
		case 2:
			x = -(int64(1) << (bits - 1))
		default:
			x = rng.Int63() >> uint(64-bits+rng.Intn(bits))
			if rng.Intn(2) == 0 {
				x = -x
			}
		}
		v.SetInt(x)
	case reflect.Uint8, reflect.Uint16, reflect.Uint32:
		bits := v.Type().Bits()
		switch rng.Intn(4) {
		case 0:
			v.SetUint(0)
		case 1:
			v.SetUint(uint64(1)<<bits - 1)
		default:
			v.SetUint(rng.Uint64() >> uint(64-bits+rng.Intn(bits)))
		}
	case reflect.Float32:
		v.SetFloat(float64(float32(rng.NormFloat64() * math.Pow(10, float64(rng.Intn(9)-4)))))
	case reflect.Float64:
		v.SetFloat(rng.NormFloat64() * math.Pow(10, float64(rng.Intn(30)-10)))
	case reflect.String:
		n := rng.Intn(5)
		if rng.Intn(20) == 0 {
			n = 300
		}
		b := make([]byte, n)
		for i := range b {
			if ascii {
				b[i] = byte(32 + rng.Intn(95))
			} else {
				b[i] = byte(rng.Intn(256))
			}
		}
		v.SetString(string(b))
	case reflect.Slice:
		n := rng.Intn(4)
		if depth > 3 {
			n = rng.Intn(2)
		}
		s := reflect.MakeSlice(v.Type(), n, n)
		for i := 0; i < n; i++ {
			fill(rng, s.Index(i), depth+1)
		}
		v.Set(s)
	case reflect.Array:
		for i := 0; i < v.Len(); i++ {
			fill(rng, v.Index(i), depth+1)
		}
	case reflect.Map:
		n := rng.Intn(3)
		if depth > 3 {
			n = rng.Intn(2)
		}
		m := reflect.MakeMap(v.Type())
		for i := 0; i < n; i++ {
			k := reflect.New(v.Type().Key()).Elem()
			fill(rng, k, depth+1)
			e := reflect.New(v.Type().Elem()).Elem()
			fill(rng, e, depth+1)
			m.SetMapIndex(k, e)
		}
		v.Set(m)
	case reflect.Struct:
		for i := 0; i < v.NumField(); i++ {
			fill(rng, v.Field(i), depth+1)
		}
	}
}

// eq: deep equality that identifies nil and empty slices/maps
func eq(a, b reflect.Value) bool {
	switch a.Kind() {
	case reflect.Slice:
		if a.Len() != b.Len() {
			return false
		}
		for i := 0; i < a.Len(); i++ {
			if !eq(a.Index(i), b.Index(i)) {
				return false
			}
		}
		return true
	case reflect.Array:
		for i := 0; i < a.Len(); i++ {
			if !eq(a.Index(i), b.Index(i)) {
				return false
			}
		}
		return true
	case reflect.Map:
		if a.Len() != b.Len() {
			return false
		}
		for _, k := range a.MapKeys() {
			bv := b.MapIndex(k)
			if !bv.IsValid() || !eq(a.MapIndex(k), bv) {
				return false
			}
		}
		return true
	case reflect.Struct:
		for i := 0; i < a.NumField(); i++ {
			if !eq(a.Field(i), b.Field(i)) {
				return false
			}
		}
		return true
	case reflect.Float32, reflect.Float64:
		return math.Float64bits(a.Float()) == math.Float64bits(b.Float())
	}
	return reflect.DeepEqual(a.Interface(), b.Interface())
}

// ---- independent reference codec for one value under a tag (what the parameter templates must
// produce): used for the TUP branch of the dispatcher ----

type blockT interface {
	WriteBlock(*codec.Buffer, byte) error
	ReadBlock(*codec.Reader, byte, bool) error
}

func enc(b *codec.Buffer, v reflect.Value, tag byte) error {
	switch v.Kind() {
	case reflect.Bool:
		return b.WriteBool(v.Bool(), tag)
	case reflect.Int8:
		return b.WriteInt8(int8(v.Int()), tag)
	case reflect.Int16:
		return b.WriteInt16(int16(v.Int()), tag)
	case reflect.Int32:
		return b.WriteInt32(int32(v.Int()), tag)
	case reflect.Int64:
		return b.WriteInt64(v.Int(), tag)
	case reflect.Uint8:
		return b.WriteUint8(uint8(v.Uint()), tag)
	case reflect.Uint16:
		return b.WriteUint16(uint16(v.Uint()), tag)
	case reflect.Uint32:
		return b.WriteUint32(uint32(v.Uint()), tag)
	case reflect.Float32:
		return b.WriteFloat32(float32(v.Float()), tag)
	case reflect.Float64:
		return b.WriteFloat64(v.Float(), tag)
	case reflect.String:
		return b.WriteString(v.String(), tag)
	case reflect.Slice:
		if v.Type().Elem().Kind() == reflect.Int8 {
			if err := b.WriteHead(codec.SimpleList, tag); err != nil {
				return err
			}
			if err := b.WriteHead(codec.BYTE, 0); err != nil {
				return err
			}
			if err := b.WriteInt32(int32(v.Len()), 0); err != nil {
				return err
			}
			s := make([]int8, v.Len())
			for i := range s {
				s[i] = int8(v.Index(i).Int())
			}
			return b.WriteSliceInt8(s)
		}
		if err := b.WriteHead(codec.LIST, tag); err != nil {
			return err
		}
		if err := b.WriteInt32(int32(v.Len()), 0); err != nil {
			return err
		}
		for i := 0; i < v.Len(); i++ {
			if err := enc(b, v.Index(i), 0); err != nil {
				return err
			}
		}
		return nil
	case reflect.Map:
		if err := b.WriteHead(codec.MAP, tag); err != nil {
			return err
		}
		if err := b.WriteInt32(int32(v.Len()), 0); err != nil {
			return err
		}
		for _, k := range v.MapKeys() {
			if err := enc(b, k, 0); err != nil {
				return err
			}
			if err := enc(b, v.MapIndex(k), 1); err != nil {
				return err
			}
		}
		return nil
	case reflect.Struct:
		p := reflect.New(v.Type())
		p.Elem().Set(v)
		return p.Interface().(blockT).WriteBlock(b, tag)
	}
	return fmt.Errorf("enc: unsupported kind %%v", v.Kind())
}

// dec reads one required value under tag into v (settable)
func dec(r *codec.Reader, v reflect.Value, tag byte) error {
	switch v.Kind() {
	case reflect.Bool:
		var x bool
		err := r.ReadBool(&x, tag, true)
		v.SetBool(x)
		return err
	case reflect.Int8:
		var x int8
		err := r.ReadInt8(&x, tag, true)
		v.SetInt(int64(x))
		return err
	case reflect.Int16:
		var x int16
		err := r.ReadInt16(&x, tag, true)
		v.SetInt(int64(x))
		return err
	case reflect.Int32:
		var x int32
		err := r.ReadInt32(&x, tag, true)
		v.SetInt(int64(x))
		return err
	case reflect.Int64:
		var x int64
		err := r.ReadInt64(&x, tag, true)
		v.SetInt(x)
		return err
	case reflect.Uint8:
		var x uint8
		err := r.ReadUint8(&x, tag, true)
		v.SetUint(uint64(x))
		return err
	case reflect.Uint16:
		var x uint16
		err := r.ReadUint16(&x, tag, true)
		v.SetUint(uint64(x))
		return err
	case reflect.Uint32:
		var x uint32
		err := r.ReadUint32(&x, tag, true)
		v.SetUint(uint64(x))
		return err
	case reflect.Float32:
		var x float32
		err := r.ReadFloat32(&x, tag, true)
		v.SetFloat(float64(x))
		return err
	case reflect.Float64:
		var x float64
		err := r.ReadFloat64(&x, tag, true)
		v.SetFloat(x)
		return err
	case reflect.String:
		var x string
		err := r.ReadString(&x, tag, true)
		v.SetString(x)
		return err
	case reflect.Slice:
		_, ty, err := r.SkipToNoCheck(tag, true)
		if err != nil {
			return err
		}
		var length int32
		switch ty {
		case codec.LIST:
			if err := r.ReadInt32(&length, 0, true); err != nil {
				return err
			}
			if length < 0 || length > 1<<20 {
				return fmt.Errorf("dec: list length %%d", length)
			}
			s := reflect.MakeSlice(v.Type(), int(length), int(length))
			for i := 0; i < int(length); i++ {
				if err := dec(r, s.Index(i), 0); err != nil {
					return err
				}
			}
			v.Set(s)
			return nil
		case codec.SimpleList:
			if _, err := r.SkipTo(codec.BYTE, 0, true); err != nil {
				return err
			}
			if err := r.ReadInt32(&length, 0, true); err != nil {
				return err
			}
			if length < 0 || length > 1<<20 {
				return fmt.Errorf("dec: simple list length %%d", length)
			}
			var raw []int8
			if err := r.ReadSliceInt8(&raw, length, true); err != nil {
				return err
			}
			s := reflect.MakeSlice(v.Type(), len(raw), len(raw))
			for i, x := range raw {
				if v.Type().Elem().Kind() == reflect.Uint8 {
					s.Index(i).SetUint(uint64(uint8(x)))
				} else {
					s.Index(i).SetInt(int64(x))
				}
			}
			v.Set(s)
			return nil
		}
		return fmt.Errorf("dec: vector expected, wire type %%d", ty)
	case reflect.Map:
		if _, err := r.SkipTo(codec.MAP, tag, true); err != nil {
			return err
		}
		var length int32
		if err := r.ReadInt32(&length, 0, true); err != nil {
			return err
		}
		if length < 0 || length > 1<<20 {
			return fmt.Errorf("dec: map length %%d", length)
		}
		m := reflect.MakeMap(v.Type())
		for i := 0; i < int(length); i++ {
			k := reflect.New(v.Type().Key()).Elem()
			e := reflect.New(v.Type().Elem()).Elem()
			if err := dec(r, k, 0); err != nil {
				return err
			}
			if err := dec(r, e, 1); err != nil {
				return err
			}
			m.SetMapIndex(k, e)
		}
		v.Set(m)
		return nil
	case reflect.Struct:
		return v.Addr().Interface().(blockT).ReadBlock(r, tag, true)
	}
	return fmt.Errorf("dec: unsupported kind %%v", v.Kind())
}

func show(vs []reflect.Value) string {
	var s []string
	for _, v := range vs {
		s = append(s, fmt.Sprintf("%%+v", v.Interface()))
	}
	return "[" + strings.Join(s, " | ") + "]"
}

// scenario: random in values, scripted out values and return value
type scenario struct {
	ins, outs []reflect.Value // in declaration order among ins / among outs
	ret       reflect.Value
	r         *rec
}

func newScenario(rng *rand.Rand, f *fn) *scenario {
	sc := &scenario{r: &rec{}}
	for _, p := range f.params {
		v := reflect.New(p.typ).Elem()
		fill(rng, v, 0)
		if p.out {
			sc.outs = append(sc.outs, v)
			sc.r.outs = append(sc.r.outs, v.Interface())
		} else {
			sc.ins = append(sc.ins, v)
		}
	}
	if f.ret != nil {
		sc.ret = reflect.New(f.ret).Elem()
		fill(rng, sc.ret, 0)
		sc.r.ret = sc.ret.Interface()
	}
	return sc
}

// checkImpl: the implementation was called once with exactly the in values
func (sc *scenario) checkImpl() (part, msg string) {
	if sc.r.called != 1 {
		return "impl-calls", fmt.Sprintf("implementation called %%d times", sc.r.called)
	}
	if len(sc.r.got) != len(sc.ins) {
		return "in-args", "number of in arguments"
	}
	for i, g := range sc.r.got {
		if !eq(reflect.ValueOf(g), sc.ins[i]) {
			return "in-args", fmt.Sprintf("in argument #%%d: sent %%+v, implementation got %%+v", i, sc.ins[i].Interface(), g)
		}
	}
	return "", ""
}

func (sc *scenario) checkResult(ret reflect.Value, outs []reflect.Value) (part, msg string) {
	if sc.ret.IsValid() && !eq(ret, sc.ret) {
		return "ret", fmt.Sprintf("return value: implementation returned %%+v, caller got %%+v", sc.ret.Interface(), ret.Interface())
	}
	for i := range sc.outs {
		if !eq(outs[i], sc.outs[i]) {
			return "out-args", fmt.Sprintf("out argument #%%d: implementation set %%+v, caller got %%+v", i, sc.outs[i].Interface(), outs[i].Interface())
		}
	}
	return "", ""
}

func (sc *scenario) implFor(f *fn, withCtx bool) interface{} {
	if withCtx {
		return f.implCtx(sc.r)
	}
	return f.impl(sc.r)
}

// viaProxy: TARS version, generated proxy -> loop servant -> generated dispatcher
func viaProxy(rng *rand.Rand, f *fn, withCtx bool) (part, msg string) {
	ascii = false
	sc := newScenario(rng, f)
	px := f.proxy(&loop{disp: f.disp(), impl: sc.implFor(f, withCtx), withCtx: withCtx})
	m := reflect.ValueOf(px).MethodByName(f.goName)
	if !m.IsValid() {
		return "no-method", "proxy has no method " + f.goName
	}
	var args, outPtrs []reflect.Value
	ii := 0
	for _, p := range f.params {
		switch {
		case p.out:
			ptr := reflect.New(p.typ)
			fill(rng, ptr.Elem(), 0) // whatever the caller's variable held before
			outPtrs = append(outPtrs, ptr)
			args = append(args, ptr)
		case p.ptr:
			ptr := reflect.New(p.typ)
			ptr.Elem().Set(sc.ins[ii])
			args = append(args, ptr)
			ii++
		default:
			args = append(args, sc.ins[ii])
			ii++
		}
	}
	res := m.Call(args)
	if e := res[len(res)-1]; !e.IsNil() {
		return "error", fmt.Sprintf("call failed: %%v  (in %%s scripted out %%s)", e.Interface(), show(sc.ins), show(sc.outs))
	}
	if part, msg := sc.checkImpl(); part != "" {
		return part, msg
	}
	var ret reflect.Value
	if f.ret != nil {
		ret = res[0]
	}
	outs := make([]reflect.Value, len(outPtrs))
	for i, p := range outPtrs {
		outs[i] = p.Elem()
	}
	return sc.checkResult(ret, outs)
}

// viaTup: TUP version, request built with the reference codec, straight into the dispatcher
func viaTup(rng *rand.Rand, f *fn, withCtx bool) (part, msg string) {
	ascii = false
	sc := newScenario(rng, f)
	req := tup.NewUniAttribute()
	ii := 0
	for _, p := range f.params {
		if p.out {
			continue
		}
		b := codec.NewBuffer()
		if err := enc(b, sc.ins[ii], 0); err != nil {
			return "harness", err.Error()
		}
		req.PutBuffer(p.name, b.ToBytes())
		ii++
	}
	rb := codec.NewBuffer()
	if err := req.Encode(rb); err != nil {
		return "harness", err.Error()
	}
	resp := &requestf.ResponsePacket{}
	err := f.disp().Dispatch(context.Background(), sc.implFor(f, withCtx), &requestf.RequestPacket{IVersion: basef.TUPVERSION,
		IRequestId: 9, SServantName: "C16.CallServer.CallObj", SFuncName: f.sfunc, SBuffer: tools.ByteToInt8(rb.ToBytes())}, resp, withCtx)
	if err != nil {
		return "error", fmt.Sprintf("dispatch failed: %%v", err)
	}
	if part, msg := sc.checkImpl(); part != "" {
		return part, msg
	}
	rsp := tup.NewUniAttribute()
	if err := rsp.Decode(codec.NewReader(tools.Int8ToByte(resp.SBuffer))); err != nil {
		return "error", fmt.Sprintf("response is not a TUP attribute map: %%v", err)
	}
	var ret reflect.Value
	if f.ret != nil {
		for _, key := range []string{"", "tars_ret"} {
			var bs []byte
			if err := rsp.GetBuffer(key, &bs); err != nil {
				return "ret", fmt.Sprintf("response has no attribute %%q: %%v", key, err)
			}
			ret = reflect.New(f.ret).Elem()
			if err := dec(codec.NewReader(bs), ret, 0); err != nil {
				return "ret", fmt.Sprintf("attribute %%q: %%v", key, err)
			}
			if !eq(ret, sc.ret) {
				return "ret", fmt.Sprintf("attribute %%q: implementation returned %%+v, response carries %%+v", key, sc.ret.Interface(), ret.Interface())
			}
		}
	}
	var outs []reflect.Value
	for _, p := range f.params {
		if !p.out {
			continue
		}
		var bs []byte
		if err := rsp.GetBuffer(p.name, &bs); err != nil {
			return "out-args", fmt.Sprintf("response has no attribute %%q: %%v", p.name, err)
		}
		v := reflect.New(p.typ).Elem()
		if err := dec(codec.NewReader(bs), v, 0); err != nil {
			return "out-args", fmt.Sprintf("attribute %%q: %%v", p.name, err)
		}
		outs = append(outs, v)
	}
	return sc.checkResult(ret, outs)
}

// viaJSON: JSON version, request built with encoding/json, straight into the dispatcher.
// skipped=true: encoding/json cannot represent the parameter types (map keys of bool/float type).
func viaJSON(rng *rand.Rand, f *fn, withCtx bool) (part, msg string, skipped bool) {
	ascii = true
	sc := newScenario(rng, f)
	in := map[string]interface{}{}
	ii := 0
	for _, p := range f.params {
		if p.out {
			continue
		}
		in[p.name] = sc.ins[ii].Interface()
		ii++
	}
	body, err := json.Marshal(in)
	if err != nil {
		return "", "", true
	}
	for _, v := range sc.outs {
		if _, err := json.Marshal(v.Interface()); err != nil {
			return "", "", true
		}
	}
	if sc.ret.IsValid() {
		if _, err := json.Marshal(sc.ret.Interface()); err != nil {
			return "", "", true
		}
	}
	resp := &requestf.ResponsePacket{}
	err = f.disp().Dispatch(context.Background(), sc.implFor(f, withCtx), &requestf.RequestPacket{IVersion: basef.JSONVERSION,
		IRequestId: 11, SServantName: "C16.CallServer.CallObj", SFuncName: f.sfunc, SBuffer: tools.ByteToInt8(body)}, resp, withCtx)
	if err != nil {
		return "error", fmt.Sprintf("dispatch failed: %%v (request %%s)", err, body), false
	}
	if part, msg := sc.checkImpl(); part != "" {
		return part, msg + fmt.Sprintf(" (request %%s)", body), false
	}
	var out map[string]json.RawMessage
	if err := json.Unmarshal(tools.Int8ToByte(resp.SBuffer), &out); err != nil {
		return "error", fmt.Sprintf("response is not a JSON object: %%v", err), false
	}
	var ret reflect.Value
	if f.ret != nil {
		p := reflect.New(f.ret)
		if err := json.Unmarshal(out["tars_ret"], p.Interface()); err != nil {
			return "ret", fmt.Sprintf("tars_ret: %%v", err), false
		}
		ret = p.Elem()
	}
	var outs []reflect.Value
	for _, p := range f.params {
		if !p.out {
			continue
		}
		v := reflect.New(p.typ)
		if err := json.Unmarshal(out[p.name], v.Interface()); err != nil {
			return "out-args", fmt.Sprintf("member %%q: %%v", p.name, err), false
		}
		outs = append(outs, v.Elem())
	}
	part, msg = sc.checkResult(ret, outs)
	return part, msg, false
}

func seedFor(seed int64, id string) int64 {
	h := fnv.New64a()
	h.Write([]byte(id))
	return seed ^ int64(h.Sum64()&0x7fffffffffffffff)
}

func runOne(version string, f *fn, iters int, seed int64) (part, msg string, skipped bool) {
	defer func() {
		if r := recover(); r != nil {
			part, msg = "panic", fmt.Sprintf("panic: %%v", r)
		}
	}()
	rng := rand.New(rand.NewSource(seedFor(seed, version+"/"+f.id[strings.Index(f.id, "|")+1:])))
	for k := 0; k < iters; k++ {
		withCtx := k%%2 == 1
		switch version {
		case "tars":
			part, msg = viaProxy(rng, f, withCtx)
		case "tup":
			part, msg = viaTup(rng, f, withCtx)
		default:
			part, msg, skipped = viaJSON(rng, f, withCtx)
			if skipped {
				return
			}
		}
		if part != "" {
			return
		}
	}
	return
}

func main() {
	for i := range all {
		f := &all[i]
		for _, version := range []string{"tars", "tup", "json"} {
			part, msg, skipped := runOne(version, f, %d, %d)
			switch {
			case skipped:
				fmt.Printf("CALLSKIP %%s %%s\n", f.id, version)
			case part != "":
				if len(msg) > 600 {
					msg = msg[:600]
				}
				fmt.Printf("CALLFAIL %%s %%s %%s %%q\n", f.id, version, part, msg)
			default:
				fmt.Printf("CALLDONE %%s %%s\n", f.id, version)
			}
		}
	}
}
`

var reCall = regexp.MustCompile(`(?m)^CALL(FAIL|DONE|SKIP) (p\d+)\|(\S+) (\w+)(?: ([\w-]+) (.*))?$`)

// qualify replaces the @Module@ markers of a type by the import alias of that module's package
func qualify(ty string, alias func(mod string) string) string {
	return regexp.MustCompile(`@([^@]*)@`).ReplaceAllStringFunc(ty, func(m string) string {
		return alias(m[1 : len(m)-1])
	})
}

// callTest runs the call-level validation for the programs that compiled.
func callTest(e *env, seed int64, pids []string, byPid map[string]*caseOp, res *common.Result, thorough, verbose bool) {
	sort.Strings(pids)
	var imports, decls, entries []string
	n := 0
	for _, pid := range pids {
		c := byPid[pid]
		aliases := map[string]string{}
		alias := func(mod string) string {
			a, ok := aliases[mod]
			if !ok {
				a = fmt.Sprintf("%s_%d", pid, len(aliases))
				aliases[mod] = a
				imports = append(imports, fmt.Sprintf("\t%s \"c16gen/%s/%s\"", a, pid, mod))
			}
			return a
		}
		for ix, ci := range c.Calls {
			pkg := alias(ci.Mod)
			goIf := upperFirst(ci.Name)
			// one scripted implementation per interface (and one for the WithContext flavour); the
			// record of the call under test is shared
			impl := fmt.Sprintf("impl_%s_%d", pid, ix)
			decls = append(decls, fmt.Sprintf("type %s struct{ r *rec }\ntype %sc struct{ r *rec }\n", impl, impl))
			for _, cf := range ci.Funcs {
				goFn := upperFirst(cf.Name)
				var sig, body, ptab []string
				oi := 0
				body = append(body, "\ts.r.called++")
				for _, p := range cf.Params {
					ty := qualify(p.Type, alias)
					star := ""
					if p.Out || p.Struct {
						star = "*"
					}
					sig = append(sig, fmt.Sprintf("a_%s %s%s", p.Name, star, ty))
					switch {
					case p.Out:
						body = append(body, fmt.Sprintf("\t*a_%s = s.r.outs[%d].(%s)", p.Name, oi, ty))
						oi++
					case p.Struct:
						body = append(body, fmt.Sprintf("\ts.r.got = append(s.r.got, *a_%s)", p.Name))
					default:
						body = append(body, fmt.Sprintf("\ts.r.got = append(s.r.got, a_%s)", p.Name))
					}
					ptab = append(ptab, fmt.Sprintf("{%q, %v, %v, reflect.TypeOf((*%s)(nil)).Elem()}", p.Name, p.Out, p.Struct && !p.Out, ty))
				}
				results, retStmt, retType := "(err error)", "\treturn nil", "nil"
				if cf.Ret != "" {
					rt := qualify(cf.Ret, alias)
					results = fmt.Sprintf("(ret %s, err error)", rt)
					retStmt = fmt.Sprintf("\treturn s.r.ret.(%s), nil", rt)
					retType = fmt.Sprintf("reflect.TypeOf((*%s)(nil)).Elem()", rt)
				}
				ctxSig := "tarsCtx context.Context"
				if len(sig) > 0 {
					ctxSig += ", "
				}
				decls = append(decls,
					fmt.Sprintf("func (s *%s) %s(%s) %s {\n%s\n%s\n}\n", impl, goFn, strings.Join(sig, ", "), results, strings.Join(body, "\n"), retStmt),
					fmt.Sprintf("func (s *%sc) %s(%s%s) %s {\n%s\n%s\n}\n", impl, goFn, ctxSig, strings.Join(sig, ", "), results, strings.Join(body, "\n"), retStmt))
				entries = append(entries, fmt.Sprintf(`	{id: %q, sfunc: %q, goName: %q,
		proxy:   func(s model.Servant) interface{} { c := new(%s.%s); c.SetServant(s); return c },
		disp:    func() dispatcher { return new(%s.%s) },
		impl:    func(r *rec) interface{} { return &%s{r} },
		implCtx: func(r *rec) interface{} { return &%sc{r} },
		params:  []param{%s},
		ret:     %s},`, pid+"|"+ci.Mod+"."+ci.Name+"."+cf.Name, cf.Name, goFn, pkg, goIf, pkg, goIf, impl, impl, strings.Join(ptab, ", "), retType))
				n++
			}
		}
	}
	if n == 0 {
		return
	}
	iters := 12
	if thorough {
		iters = 60
	}
	dir := filepath.Join(e.buildDir, "calltest")
	os.MkdirAll(dir, 0o755)
	src := fmt.Sprintf(callMainHead, strings.Join(imports, "\n"), iters, seed) +
		"\n" + strings.Join(decls, "\n") + "\nvar all = []fn{\n" + strings.Join(entries, "\n") + "\n}\n"
	os.WriteFile(filepath.Join(dir, "main.go"), []byte(src), 0o644)
	t0 := time.Now()
	out, err := runCmd(e.buildDir, e.goenv, 15*time.Minute, "go", "run", "./calltest")
	res.Note("call-level validation of %d emitted interface functions x 3 protocol versions x %d calls (proxy -> dispatcher in process): %.1fs", n, iters, time.Since(t0).Seconds())
	seen := 0
	for _, m := range reCall.FindAllStringSubmatch(out, -1) {
		kind, pid, fid, version, part, msg := m[1], m[2], m[3], m[4], m[5], m[6]
		seen++
		switch kind {
		case "DONE":
			res.Count("call/"+pid+fid+version, "call:"+version+":ok", true)
			res.TracesValidated++
			continue
		case "SKIP":
			res.Count("call/"+pid+fid+version, "call:"+version+":skipped-not-json-representable", false)
			continue
		}
		res.Count("call/"+pid+fid+version, "call:"+version+":FAIL", true)
		if verbose {
			fmt.Printf("call: FAIL %s %s %s %s\n", fid, version, part, msg)
		}
		if part == "harness" {
			res.HarnessError = "call driver: " + fid + ": " + msg
			continue
		}
		res.Violate(common.Violation{Signature: "C16:call-mismatch:" + version + "-" + part,
			What: "a call through the emitted proxy/dispatcher is not transparent (" + fid + ", " + version + " version): " + trunc(msg),
			Case: common.Case{Stream: "call", Op: byPid[pid], Impl: version + " " + part + " " + trunc(msg),
				Note: "function " + fid + "; the argument values are a function of the seed (" + fmt.Sprint(seed) + "), the protocol version and the function name, so a replay repeats them"}})
	}
	if err != nil && seen < 3*n {
		res.HarnessError = "call driver failed: " + trunc(lastLinesOf(out, 30))
	}
}

func lastLinesOf(s string, n int) string {
	ls := strings.Split(strings.TrimRight(s, "\n"), "\n")
	if len(ls) > n {
		ls = ls[len(ls)-n:]
	}
	return strings.Join(ls, "\n")
}
