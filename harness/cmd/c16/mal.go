package main

// The malformed stream: inputs outside the supported language, where only termination with a
// diagnostic is required.

import (
	"fmt"
	"math/rand"
	"strings"
)

var vocab = []string{"module", "enum", "struct", "interface", "require", "optional", "const", "unsigned", "void", "out",
	"key", "true", "false", "int", "bool", "short", "byte", "long", "float", "double", "string", "vector", "map", "array",
	"{", "}", ";", "=", "<", ">", ",", "(", ")", "[", "]", "#include", `"x.tars"`, `"`, "a", "B", "a::b", "a::b::c", "::", "0", "1",
	"255", "-1", "0x1f", "1.5", "-", ".", "08", "9223372036854775808", "/*", "*/", "//", "\n", "\x00", "/", "*", "E", "S"}

// hand-written prefixes of every production (end of input inside each loop of the parser and lexer)
var handMade = []string{
	"", " ", "\x00", "\n", "module", "module a", "module a {", "module a { }", "module a { } ;", "module a { };",
	"module a { enum", "module a { enum E", "module a { enum E {", "module a { enum E { A", "module a { enum E { A,",
	"module a { enum E { A =", "module a { enum E { A = 1", "module a { enum E { A = 1,", "module a { enum E { A = B",
	"module a { enum E { A }", "module a { enum E { A };", "module a { enum E { ; ; 5 ( }", "module a { enum E { A B C",
	"module a { enum E { A = }", "module a { enum E { , , ,", "module a { enum E { /* c */", "module a { enum E { // c",
	"module a { enum E {\x00 A };};", "module a { enum E { A = 1 B };};",
	"module a { struct", "module a { struct S", "module a { struct S {", "module a { struct S { 0", "module a { struct S { 0 require",
	"module a { struct S { 0 require int", "module a { struct S { 0 require int x", "module a { struct S { 0 require int x =",
	"module a { struct S { 0 require int x = 1", "module a { struct S { 0 require int x[", "module a { struct S { 0 require int x[2",
	"module a { struct S { 0 require int x[2]", "module a { struct S { 0 require vector", "module a { struct S { 0 require vector<",
	"module a { struct S { 0 require vector<int", "module a { struct S { 0 require map<int", "module a { struct S { 0 require map<int,",
	"module a { struct S { 0 require map<int,int", "module a { struct S { 0 require unsigned", "module a { struct S { 0 require unsigned unsigned unsigned int x; }; };",
	"module a { struct S { 0 require unsigned long x; }; };", "module a { struct S { 0 require array x; }; };",
	"module a { struct S { 0 require int x; 0 require int y; }; };", "module a { struct S { 4294967296 require int x; 0 require int y; }; };",
	"module a { struct S { } }", "module a { struct S { }; struct S { }; };",
	"module a { interface", "module a { interface I", "module a { interface I {", "module a { interface I { void", "module a { interface I { void f",
	"module a { interface I { void f(", "module a { interface I { void f(>", "module a { interface I { void f()", "module a { interface I { void f(int",
	"module a { interface I { void f(int a", "module a { interface I { void f(int a,", "module a { interface I { void f(out", "module a { interface I { void f(out int a)",
	"module a { interface I { int", "module a { interface I { vector<", "module a { interface I { void f(int); }; };",
	"module a { key", "module a { key[", "module a { key[S", "module a { key[S,", "module a { key[S, a", "module a { key[S, a,", "module a { key[S, a]",
	"module a { const", "module a { const int", "module a { const int X", "module a { const int X =", "module a { const int X = 1", "module a { const vector<int> X = 1; };",
	"module a { const string S = 1; };", "module a { const int X = \"s\"; };", "module a { const bool B = 1.5; };", "module a { const S X = 1; };",
	"module a { struct S { 0 require T t; }; };", "module a { struct S { 0 require b::T t; }; };", "module a { struct S { 0 optional int x = Foo; }; };",
	"module a { enum E { A }; enum F { A }; struct S { 0 optional E x = A; }; };",
	"/*", "/* *", "/* **", "/* * /", "/**/", "/", "//", "// x", "/ /", "\"", "\"abc", "\"abc\"", "#", "#incl", "#include", "#include \"", "#include \"x", "#include \"nonexistent.tars\"",
	"#include x", "#define", "module a { struct S { 0 require int x = \"", "a::", "a:b", "a::b::c::d", "a::1", "::a", "1x", "0x", "-", "--1", "1-2", "1.2.3", "1.", "-.5", ".5", "0x1.8",
	"9223372036854775807", "9223372036854775808", "-9223372036854775808", "-9223372036854775809", "00", "08", "0b1", "1e5", "module\x00 a { };", "module a\r\n{\r\n}\r\n;\r", "module a { }; module b { };",
	"module a { }; module a { };", "module a { struct S { 0 require int x; }; }; module b { struct T { 0 require a::S s; }; };",
	"modul a { };", "Module a { };", "module module { };", "module a { struct struct { }; };", "module a { struct S { 0 require int int; }; };",
	"module a { struct S { 0 require int func; }; };", "module a { struct func { 0 require int x; }; };", "module a { enum E { A = 99999999999 }; };",
	"module a { struct S { -1 require int x; }; };", "module a { struct S { 256 require int x; }; };", "module a { struct S { 0 require int x[-1]; }; };",
	"module a { struct S { 0 require int x[99999999999999999999]; }; };",
}

func deepNest(n int) string {
	return "module a { struct S { 0 require " + strings.Repeat("vector<", n) + "int" + strings.Repeat(">", n) + " x; }; };"
}

// scanCuts: approximate token boundaries of arbitrary IDL text (words, strings, comments, single
// punctuation characters)
func scanCuts(s string) []int {
	var cuts []int
	i := 0
	isWord := func(c byte) bool {
		return c == '_' || c == ':' || c == '.' || c == '-' || c == '#' || (c >= '0' && c <= '9') || (c >= 'a' && c <= 'z') || (c >= 'A' && c <= 'Z')
	}
	for i < len(s) {
		c := s[i]
		switch {
		case c == ' ' || c == '\t' || c == '\n' || c == '\r':
			i++
		case c == '/' && i+1 < len(s) && s[i+1] == '/':
			cuts = append(cuts, i)
			for i < len(s) && s[i] != '\n' {
				i++
			}
		case c == '/' && i+1 < len(s) && s[i+1] == '*':
			cuts = append(cuts, i)
			j := strings.Index(s[i+2:], "*/")
			if j < 0 {
				i = len(s)
			} else {
				i += j + 4
			}
		case c == '"':
			cuts = append(cuts, i)
			i++
			for i < len(s) && s[i] != '"' {
				i++
			}
			i++
		case isWord(c):
			cuts = append(cuts, i)
			for i < len(s) && isWord(s[i]) {
				i++
			}
		default:
			cuts = append(cuts, i)
			i++
		}
	}
	return cuts
}

func tokensOf(s string, cuts []int) []string {
	var ts []string
	for i, c := range cuts {
		end := len(s)
		if i+1 < len(cuts) {
			end = cuts[i+1]
		}
		if c <= end && end <= len(s) {
			ts = append(ts, s[c:end])
		}
	}
	return ts
}

func mal(origin, text string) *caseOp {
	return &caseOp{Kind: "malformed", Files: map[string]string{"M.tars": hx(text)}, Main: "M.tars", Origin: origin}
}

func genMalformed(rng *rand.Rand, bases []string, baseCuts [][]int, n int, thorough bool) []*caseOp {
	var out []*caseOp
	for _, h := range handMade {
		out = append(out, mal("hand", h))
	}
	for _, d := range []int{1, 2, 10, 300} {
		out = append(out, mal("deep-nesting", deepNest(d)))
	}
	if thorough {
		// parser recursion only: the generator needs minutes for thousands of nested vectors
		// (super-linear, but terminating), so the binary is not run on these two
		c := mal("deep-nesting-parse-only", deepNest(5000))
		c.NoTool = true
		out = append(out, c)
		c = mal("deep-nesting-parse-only", "module a { struct S { 0 require "+strings.Repeat("unsigned ", 5000)+"int x; }; };")
		c.NoTool = true
		out = append(out, c)
	}
	// truncation at every token boundary: all boundaries of the first generated bases, a sample of the rest
	for bi, b := range bases {
		cuts := baseCuts[bi]
		step := 1
		if !thorough {
			if bi >= 2 {
				step = 1 + len(cuts)/25
			}
		} else if bi >= 30 {
			step = 1 + len(cuts)/200
		}
		for k := 0; k < len(cuts); k += step {
			out = append(out, mal("trunc-token", b[:cuts[k]]))
		}
	}
	if len(bases) == 0 {
		return out
	}
	for len(out) < n {
		bi := rng.Intn(len(bases))
		b := bases[bi]
		cuts := baseCuts[bi]
		toks := tokensOf(b, cuts)
		if len(toks) == 0 {
			continue
		}
		switch k := rng.Intn(12); k {
		case 0:
			out = append(out, mal("trunc-byte", b[:rng.Intn(len(b)+1)]))
		case 1:
			i := rng.Intn(len(toks))
			out = append(out, mal("del-token", strings.Join(append(append([]string{}, toks[:i]...), toks[i+1:]...), "")))
		case 2:
			i := rng.Intn(len(toks))
			t2 := append(append(append([]string{}, toks[:i+1]...), toks[i]), toks[i+1:]...)
			out = append(out, mal("dup-token", strings.Join(t2, "")))
		case 3:
			i, j := rng.Intn(len(toks)), rng.Intn(len(toks))
			t2 := append([]string{}, toks...)
			t2[i], t2[j] = t2[j], t2[i]
			out = append(out, mal("swap-token", strings.Join(t2, "")))
		case 4, 5:
			i := rng.Intn(len(toks))
			t2 := append([]string{}, toks...)
			t2[i] = vocab[rng.Intn(len(vocab))] + " "
			out = append(out, mal("replace-token", strings.Join(t2, "")))
		case 6:
			i := rng.Intn(len(toks))
			t2 := append(append(append([]string{}, toks[:i]...), vocab[rng.Intn(len(vocab))]+" "), toks[i:]...)
			out = append(out, mal("insert-token", strings.Join(t2, "")))
		case 7:
			bb := []byte(b)
			for f := 0; f <= rng.Intn(3); f++ {
				bb[rng.Intn(len(bb))] ^= 1 << uint(rng.Intn(8))
			}
			out = append(out, mal("bit-flip", string(bb)))
		case 8:
			i := rng.Intn(len(b) + 1)
			ins := []byte{0, '"', '/', '*', '#', ':', '-', '.', 'x', '\r', '\n', 0xff, '{', '}', byte(rng.Intn(256))}[rng.Intn(15)]
			out = append(out, mal("insert-byte", b[:i]+string([]byte{ins})+b[i:]))
		case 9:
			i := rng.Intn(len(b))
			out = append(out, mal("delete-byte", b[:i]+b[i+1:]))
		case 10:
			nb := rng.Intn(48)
			bb := make([]byte, nb)
			rng.Read(bb)
			out = append(out, mal("random-bytes", string(bb)))
		default:
			nt := 1 + rng.Intn(40)
			var sb strings.Builder
			if rng.Intn(2) == 0 {
				sb.WriteString("module m { ")
			}
			for t := 0; t < nt; t++ {
				sb.WriteString(vocab[rng.Intn(len(vocab))])
				sb.WriteByte(' ')
			}
			out = append(out, mal("token-soup", sb.String()))
		}
	}
	_ = fmt.Sprint
	return out
}
