package main

// Grammar-directed generator of IDL programs (DESIGN.md Appendix C) together with the schema each
// program declares (what the emitted Go code has to look like).

import (
	"fmt"
	"math/rand"
	"sort"
	"strconv"
	"strings"
)

// ---- declared program ----

type Ty struct {
	Kind     string // prim | vector | map | named
	Prim     string // int bool short byte long float double string
	Unsigned bool
	K, V     *Ty
	Mod      string // named: module of the definition
	Name     string // named: IDL name
	IsEnum   bool
	Qual     bool   // named: written as Mod::Name
	Proto    string // named, -module-cycle programs only: file (without .tars) of the definition
}

type Field struct {
	Tag     int
	Req     bool
	Ty      *Ty
	Name    string
	ArrLen  int    // >0: fixed-size array member
	Default string // IDL text of the default ("" = none)
	DefKind string // int float str bool enum
}

type EnumMem struct {
	Name string
	Kind int // 0 explicit value, 1 reference, 2 automatic
	Val  int64
	Ref  string
}

type Param struct {
	Out  bool
	Ty   *Ty
	Name string
}

type Func struct {
	Name   string
	Ret    *Ty // nil = void
	Params []Param
}

type Decl struct {
	Kind   string // enum const struct key interface
	Name   string
	Mems   []EnumMem // enum
	Ty     *Ty       // const
	Value  string    // const literal text
	Fields []Field   // struct (declaration order)
	Key    []string  // key: struct name followed by member names
	Funcs  []Func    // interface
}

type Module struct {
	Name  string
	Decls []*Decl
}

type File struct {
	Name     string // file name without .tars
	Includes []string
	Modules  []*Module
}

type Prog struct {
	Files []*File // Files[0] is the one given to tars2go
	Feats map[string]int
	Edge  string // the single deliberately exotic construct of this program ("" = none)
	Cycle bool   // to be compiled with -module-cycle
}

// ---- rendering with recorded token boundaries ----

type renderer struct {
	rng   *rand.Rand
	sb    strings.Builder
	cuts  []int // byte offsets of token boundaries
	feats map[string]int
	plain bool // single blanks only
}

func (r *renderer) sep(must bool) {
	if r.plain {
		if must {
			r.sb.WriteByte(' ')
		}
		return
	}
	n := r.rng.Intn(10)
	switch {
	case n < 5:
		r.sb.WriteByte(' ')
	case n == 5:
		r.sb.WriteString("\n  ")
		r.feats["ws:newline"]++
	case n == 6:
		r.sb.WriteString("\t")
		r.feats["ws:tab"]++
	case n == 7:
		r.sb.WriteString(" // c " + strconv.Itoa(r.rng.Intn(100)) + " * / \"\n")
		r.feats["ws:line-comment"]++
	case n == 8:
		r.sb.WriteString(" /* c\n * x ** / */ ")
		r.feats["ws:block-comment"]++
	default:
		if must {
			r.sb.WriteString("\r\n")
			r.feats["ws:crlf"]++
		} else {
			r.feats["ws:none"]++
		}
	}
}

func isWordTok(t string) bool {
	if t == "" {
		return false
	}
	c := t[0]
	return c == '_' || c == '-' || (c >= '0' && c <= '9') || (c >= 'a' && c <= 'z') || (c >= 'A' && c <= 'Z')
}

// toks writes tokens; adjacent word-like tokens are always separated.
func (r *renderer) toks(ts ...string) {
	for _, t := range ts {
		r.cuts = append(r.cuts, r.sb.Len())
		r.sb.WriteString(t)
		// a separator is mandatory after a word token when the next token may be a word; we do not
		// know the next token here, so "must" after every word token and optional after punctuation
		r.sep(isWordTok(t))
	}
}

func (t *Ty) idl() []string {
	switch t.Kind {
	case "prim":
		if t.Unsigned {
			return []string{"unsigned", t.Prim}
		}
		return []string{t.Prim}
	case "vector":
		return append(append([]string{"vector", "<"}, t.K.idl()...), ">")
	case "map":
		x := append([]string{"map", "<"}, t.K.idl()...)
		x = append(x, ",")
		x = append(x, t.V.idl()...)
		return append(x, ">")
	default:
		if t.Qual {
			return []string{t.Mod + "::" + t.Name}
		}
		return []string{t.Name}
	}
}

func (r *renderer) decl(d *Decl) {
	switch d.Kind {
	case "enum":
		r.toks("enum", d.Name, "{")
		for i, m := range d.Mems {
			r.toks(m.Name)
			switch m.Kind {
			case 0:
				r.toks("=", strconv.FormatInt(m.Val, 10))
			case 1:
				r.toks("=", m.Ref)
			}
			if i < len(d.Mems)-1 || r.rng.Intn(4) == 0 {
				r.toks(",")
			}
		}
		r.toks("}", ";")
	case "const":
		r.toks("const")
		r.toks(d.Ty.idl()...)
		r.toks(d.Name, "=", d.Value, ";")
	case "struct":
		r.toks("struct", d.Name, "{")
		for _, f := range d.Fields {
			r.toks(strconv.Itoa(f.Tag))
			if f.Req {
				r.toks("require")
			} else {
				r.toks("optional")
			}
			r.toks(f.Ty.idl()...)
			r.toks(f.Name)
			if f.ArrLen > 0 {
				r.toks("[", strconv.Itoa(f.ArrLen), "]")
			} else if f.Default != "" {
				r.toks("=", f.Default)
			}
			r.toks(";")
		}
		r.toks("}", ";")
	case "key":
		r.toks("key", "[", d.Key[0], ",")
		for i, k := range d.Key[1:] {
			r.toks(k)
			if i < len(d.Key)-2 {
				r.toks(",")
			}
		}
		r.toks("]", ";")
	case "interface":
		r.toks("interface", d.Name, "{")
		for _, f := range d.Funcs {
			if f.Ret == nil {
				r.toks("void")
			} else {
				r.toks(f.Ret.idl()...)
			}
			r.toks(f.Name, "(")
			for i, p := range f.Params {
				if p.Out {
					r.toks("out")
				}
				r.toks(p.Ty.idl()...)
				r.toks(p.Name)
				if i < len(f.Params)-1 {
					r.toks(",")
				}
			}
			r.toks(")", ";")
		}
		r.toks("}", ";")
	}
}

// Render returns the text of a file and the token boundaries.
func (f *File) Render(rng *rand.Rand, feats map[string]int, plain bool) (string, []int) {
	r := &renderer{rng: rng, feats: feats, plain: plain}
	for _, inc := range f.Includes {
		r.toks("#include", `"`+inc+`"`)
	}
	for _, m := range f.Modules {
		r.toks("module", m.Name, "{")
		for _, d := range m.Decls {
			r.decl(d)
		}
		r.toks("}", ";")
	}
	return r.sb.String(), r.cuts
}

// ---- generation ----

var goKeywords = map[string]bool{"break": true, "default": true, "func": true, "interface": true, "select": true,
	"case": true, "defer": true, "go": true, "map": true, "struct": true, "chan": true, "else": true, "goto": true,
	"package": true, "switch": true, "const": true, "fallthrough": true, "if": true, "range": true, "type": true,
	"continue": true, "for": true, "import": true, "return": true, "var": true}

type gen struct {
	rng   *rand.Rand
	feats map[string]int
	n     int
	edge  string
	big   bool
}

func (g *gen) feat(s string) { g.feats[s]++ }

// name: fresh identifier; lower=true may start with a lower-case letter
func (g *gen) name(prefix string, lowerOK bool) string {
	g.n++
	s := prefix + strconv.Itoa(g.n)
	if g.rng.Intn(3) == 0 {
		s += "_" + string(rune('a'+g.rng.Intn(26)))
	}
	if lowerOK && g.rng.Intn(3) == 0 {
		s = strings.ToLower(s[:1]) + s[1:]
		g.feat("name:lower-first")
	}
	return s
}

type scope struct {
	proto   string           // -module-cycle programs: the file being generated
	eproto  map[*Decl]string // -module-cycle programs: file of every visible declaration
	mod     string
	enums   []*Decl // visible enums (with module)
	structs []*Decl
	emod    map[*Decl]string
}

var scalarPrims = []string{"bool", "byte", "short", "int", "long", "float", "double", "string"}

func (g *gen) scalar() *Ty {
	p := scalarPrims[g.rng.Intn(len(scalarPrims))]
	t := &Ty{Kind: "prim", Prim: p}
	if (p == "byte" || p == "short" || p == "int") && g.rng.Intn(4) == 0 {
		t.Unsigned = true
		g.feat("type:unsigned-" + p)
	}
	g.feat("type:" + p)
	return t
}

func (g *gen) named(sc *scope, wantEnum, wantStruct bool) *Ty {
	var cands []*Decl
	if wantEnum {
		cands = append(cands, sc.enums...)
	}
	if wantStruct {
		cands = append(cands, sc.structs...)
	}
	if len(cands) == 0 {
		return nil
	}
	d := cands[g.rng.Intn(len(cands))]
	m := sc.emod[d]
	if m == "" {
		m = sc.mod
	}
	t := &Ty{Kind: "named", Mod: m, Name: d.Name, IsEnum: d.Kind == "enum"}
	if sc.proto != "" {
		t.Proto = sc.eproto[d]
		if t.Proto == "" {
			t.Proto = sc.proto
		}
	}
	if m != sc.mod {
		t.Qual = true
		g.feat("type:qualified-other-module")
	} else if g.rng.Intn(5) == 0 {
		t.Qual = true
		g.feat("type:qualified-same-module")
	}
	if t.IsEnum {
		g.feat("type:enum")
	} else {
		g.feat("type:struct")
	}
	return t
}

func (g *gen) keyType(sc *scope) *Ty {
	if g.rng.Intn(5) == 0 {
		if t := g.named(sc, true, false); t != nil {
			g.feat("mapkey:enum")
			return t
		}
	}
	for {
		t := g.scalar()
		return t
	}
}

func (g *gen) ty(sc *scope, depth int) *Ty {
	n := g.rng.Intn(10)
	switch {
	case n < 4 || depth <= 0:
		return g.scalar()
	case n < 6:
		if t := g.named(sc, true, true); t != nil {
			return t
		}
		return g.scalar()
	case n < 8:
		g.feat("type:vector")
		return &Ty{Kind: "vector", K: g.ty(sc, depth-1)}
	default:
		g.feat("type:map")
		return &Ty{Kind: "map", K: g.keyType(sc), V: g.ty(sc, depth-1)}
	}
}

func intRange(p string, unsigned bool) (int64, int64) {
	switch p {
	case "byte":
		if unsigned {
			return 0, 255
		}
		return -128, 127
	case "short":
		if unsigned {
			return 0, 65535
		}
		return -32768, 32767
	case "int":
		if unsigned {
			return 0, 4294967295
		}
		return -2147483648, 2147483647
	case "float", "double":
		return -1000000, 1000000
	}
	return -9223372036854775808, 9223372036854775807
}

func (g *gen) intLit(lo, hi int64) string {
	var v int64
	switch g.rng.Intn(6) {
	case 0:
		v = lo
	case 1:
		v = hi
	case 2:
		v = 0
	default:
		span := hi/2 - lo/2
		if span <= 0 {
			span = 1
		}
		v = lo/2 + g.rng.Int63n(span)
		if v < lo {
			v = lo
		}
		if v > hi {
			v = hi
		}
	}
	if v >= 0 && g.rng.Intn(5) == 0 {
		g.feat("literal:hex")
		return "0x" + strconv.FormatInt(v, 16)
	}
	if v < 0 {
		g.feat("literal:negative")
	}
	return strconv.FormatInt(v, 10)
}

func (g *gen) strLit() string {
	const chars = "abcXYZ 019_-+*/.,:;(){}[]<>#!?'`~@$%^&|=\t"
	n := g.rng.Intn(8)
	b := make([]byte, n)
	for i := range b {
		b[i] = chars[g.rng.Intn(len(chars))]
	}
	return `"` + string(b) + `"`
}

// literal for a scalar type: text and kind
func (g *gen) literal(t *Ty) (string, string) {
	switch t.Prim {
	case "bool":
		if g.rng.Intn(2) == 0 {
			return "true", "bool"
		}
		return "false", "bool"
	case "string":
		g.feat("literal:string")
		return g.strLit(), "str"
	case "float", "double":
		if g.rng.Intn(2) == 0 {
			g.feat("literal:float")
			s := strconv.Itoa(g.rng.Intn(1000)) + "." + strconv.Itoa(g.rng.Intn(100))
			if g.rng.Intn(3) == 0 {
				s = "-" + s
			}
			return s, "float"
		}
		lo, hi := intRange(t.Prim, false)
		return g.intLit(lo, hi), "int"
	default:
		lo, hi := intRange(t.Prim, t.Unsigned)
		return g.intLit(lo, hi), "int"
	}
}

var reservedLocals = map[string]bool{"buf": true, "err": true, "ret": true, "length": true, "have": true, "ty": true,
	"readBuf": true, "obj": true, "val": true, "opts": true, "tarsCtx": true, "tarsReq": true, "tarsResp": true,
	"statusMap": true, "contextMap": true, "trace": true, "ok": true, "st": true, "v": true}

func (g *gen) enumDecl(sc *scope) *Decl {
	d := &Decl{Kind: "enum", Name: g.name("En", true)}
	n := 1 + g.rng.Intn(5)
	var explicit []string
	for i := 0; i < n; i++ {
		m := EnumMem{Name: g.name("EM", g.edge == "enum-ref-lower"), Kind: 2}
		switch g.rng.Intn(4) {
		case 0:
			m.Kind = 0
			m.Val = int64(g.rng.Intn(2000) - 500)
			if g.rng.Intn(8) == 0 {
				// extremes of int32; the maximum only in last position (no successor value exists)
				// (the members after it may be automatic: leave room for them below the maximum)
				m.Val = []int64{-2147483648, 0, 2147483647 - int64(n-1-i)}[g.rng.Intn(3)]
			}
			g.feat("enum:member-value")
		case 1:
			// reference to an earlier member; by default only to members with an explicit value
			// (a reference to an automatic member is the edge construct "enum-ref-auto")
			var cands []string
			if g.edge == "enum-ref-auto" {
				for _, x := range d.Mems {
					if x.Kind == 2 {
						cands = append(cands, x.Name)
					}
				}
			} else {
				cands = explicit
			}
			if len(cands) > 0 {
				m.Kind = 1
				m.Ref = cands[g.rng.Intn(len(cands))]
				g.feat("enum:member-ref")
			}
		default:
			g.feat("enum:member-auto")
		}
		if m.Kind == 0 {
			explicit = append(explicit, m.Name)
		}
		d.Mems = append(d.Mems, m)
	}
	return d
}

func (g *gen) constDecl() *Decl {
	t := g.scalar()
	v, _ := g.literal(t)
	g.feat("const:" + t.Prim)
	return &Decl{Kind: "const", Name: g.name("Cn", true), Ty: t, Value: v}
}

func (g *gen) structDecl(sc *scope) *Decl {
	d := &Decl{Kind: "struct", Name: g.name("St", true)}
	n := g.rng.Intn(7)
	if g.big {
		n = 3 + g.rng.Intn(20)
	}
	tags := g.rng.Perm(256)
	if g.rng.Intn(2) == 0 { // mostly small tags, but out of order
		tags = g.rng.Perm(n + 3)
		if g.rng.Intn(3) == 0 { // the largest tag and the first two-byte head
			for i, t := range tags {
				if t == 0 {
					tags[i] = 255
				} else if t == 1 && n+3 <= 15 {
					tags[i] = 15
				}
			}
		}
	}
	for i := 0; i < n; i++ {
		f := Field{Tag: tags[i], Req: g.rng.Intn(2) == 0, Name: g.name("m", true)}
		f.Ty = g.ty(sc, 3)
		if f.Req {
			g.feat("field:require")
		} else {
			g.feat("field:optional")
		}
		switch {
		case f.Ty.Kind == "prim" && g.rng.Intn(2) == 0:
			f.Default, f.DefKind = g.literal(f.Ty)
			g.feat("default:" + f.DefKind)
		case f.Ty.Kind == "named" && f.Ty.IsEnum && g.rng.Intn(2) == 0:
			// default = a member of that enum (member names are unique per module by construction)
			var ed *Decl
			for _, e := range sc.enums {
				em := sc.emod[e]
				if em == "" {
					em = sc.mod
				}
				if e.Name == f.Ty.Name && em == f.Ty.Mod {
					ed = e
				}
			}
			if ed != nil && len(ed.Mems) > 0 {
				lowerEnum := ed.Name[0] >= 'a' && ed.Name[0] <= 'z'
				if !lowerEnum || g.edge == "enum-default-lower" {
					f.Default = ed.Mems[g.rng.Intn(len(ed.Mems))].Name
					f.DefKind = "enum"
					g.feat("default:enum")
				}
			}
		case g.rng.Intn(6) == 0 && arrayOK(f.Ty):
			f.ArrLen = 1 + g.rng.Intn(4)
			g.feat("field:array")
		}
		// `optional byte` without default is the edge construct "optional-byte-nodefault" (D6)
		if f.Ty.Kind == "prim" && f.Ty.Prim == "byte" && !f.Req && f.Default == "" && f.ArrLen == 0 {
			f.Req = true
		}
		d.Fields = append(d.Fields, f)
	}
	return d
}

// arrayOK: element types of fixed-size arrays used by the core generator: no `byte` elements and no
// named type anywhere inside (both are edge constructs: "array-of-byte", "array-of-named")
func arrayOK(t *Ty) bool {
	switch t.Kind {
	case "prim":
		return t.Prim != "byte"
	case "vector":
		return noNamed(t.K)
	case "map":
		return noNamed(t.K) && noNamed(t.V)
	}
	return false
}

func noNamed(t *Ty) bool {
	switch t.Kind {
	case "prim":
		return true
	case "vector":
		return noNamed(t.K)
	case "map":
		return noNamed(t.K) && noNamed(t.V)
	}
	return false
}

// paramShapes: positions of out parameters in a parameter list ('i' = in, 'o' = out): none, no outs,
// only outs, out first / in the middle / last, several outs interleaved with ins
var paramShapes = []string{"", "i", "ii", "iii", "o", "oo", "oi", "io", "oii", "ioi", "iio", "ooi", "oio", "ioo",
	"oioi", "ioio", "ooii", "iioo", "oiio", "ioioi", "oiooi"}

func shapeClass(sh string) []string {
	if sh == "" {
		return []string{"call:no-params"}
	}
	if !strings.Contains(sh, "o") {
		return []string{"call:no-out"}
	}
	var cs []string
	if !strings.Contains(sh, "i") {
		cs = append(cs, "call:only-outs")
	} else {
		if sh[0] == 'o' {
			cs = append(cs, "call:out-first")
		}
		if sh[len(sh)-1] == 'o' {
			cs = append(cs, "call:out-last")
		}
		if i := strings.Index(sh, "io"); i >= 0 && strings.Contains(sh[i+2:], "i") {
			cs = append(cs, "call:out-middle")
		}
		if strings.Contains(sh, "oi") {
			cs = append(cs, "call:out-before-in")
		}
	}
	if strings.Count(sh, "o") > 1 {
		cs = append(cs, "call:several-outs")
	}
	return cs
}

func (g *gen) funcOfShape(sc *scope, sh string, withRet bool) Func {
	f := Func{Name: g.name("fn", true)}
	if withRet {
		f.Ret = g.ty(sc, 2)
		g.feat("func:ret-value")
	} else {
		g.feat("func:ret-void")
	}
	for _, c := range sh {
		p := Param{Out: c == 'o', Ty: g.ty(sc, 2), Name: g.name("p", true)}
		if p.Out {
			g.feat("param:out")
		} else {
			g.feat("param:in")
		}
		f.Params = append(f.Params, p)
	}
	for _, c := range shapeClass(sh) {
		g.feat(c)
	}
	return f
}

func (g *gen) ifaceDecl(sc *scope) *Decl {
	d := &Decl{Kind: "interface", Name: g.name("If", true)}
	n := 1 + g.rng.Intn(4)
	for i := 0; i < n; i++ {
		d.Funcs = append(d.Funcs, g.funcOfShape(sc, paramShapes[g.rng.Intn(len(paramShapes))], g.rng.Intn(3) != 0))
	}
	return d
}

// shapesIface: one interface with every parameter shape, alternately void and with a return value
func (g *gen) shapesIface(sc *scope) *Decl {
	d := &Decl{Kind: "interface", Name: g.name("IfShapes", false)}
	off := g.rng.Intn(2)
	for i, sh := range paramShapes {
		d.Funcs = append(d.Funcs, g.funcOfShape(sc, sh, (i+off)%2 == 0))
	}
	return d
}

func (g *gen) module(name string, sc *scope, nd int) *Module {
	m := &Module{Name: name}
	sc.mod = name
	for i := 0; i < nd; i++ {
		var d *Decl
		switch k := g.rng.Intn(10); {
		case k < 2:
			d = g.enumDecl(sc)
			sc.enums = append(sc.enums, d)
		case k < 3:
			d = g.constDecl()
		case k < 7:
			d = g.structDecl(sc)
			sc.structs = append(sc.structs, d)
		case k < 8:
			// key[Struct, member, ...]
			var cands []*Decl
			for _, s := range sc.structs {
				if sc.emod[s] == "" && len(s.Fields) > 0 {
					cands = append(cands, s)
				}
			}
			if len(cands) == 0 {
				continue
			}
			s := cands[g.rng.Intn(len(cands))]
			d = &Decl{Kind: "key", Key: []string{s.Name}}
			for j, f := range s.Fields {
				if j == 0 || g.rng.Intn(2) == 0 {
					d.Key = append(d.Key, f.Name)
				}
			}
			g.feat("decl:key")
		default:
			d = g.ifaceDecl(sc)
		}
		if d.Kind == "enum" || d.Kind == "struct" {
			sc.emod[d] = ""
		}
		g.feat("decl:" + d.Kind)
		m.Decls = append(m.Decls, d)
	}
	// definitions of this module become visible to later modules under its name
	for d, mm := range sc.emod {
		if mm == "" {
			sc.emod[d] = name
		}
	}
	return m
}

// edges: exotic-but-valid constructs, at most one per program, so that a defect behind one of them
// does not hide the others
var edges = []string{"optional-byte-nodefault", "enum-default-lower", "enum-ref-lower", "enum-ref-auto",
	"array-of-byte", "array-of-named", "multi-module", "include", "crosswise", "call-shapes"}

// GenProg draws one valid program.
func GenProg(rng *rand.Rand, id int, edge string, big bool) *Prog {
	g := &gen{rng: rng, feats: map[string]int{}, edge: edge, big: big}
	p := &Prog{Feats: g.feats, Edge: edge}
	sc := &scope{emod: map[*Decl]string{}}
	main := &File{Name: fmt.Sprintf("P%d", id)}
	if edge == "include" || (edge == "crosswise" && rng.Intn(2) == 0) {
		inc := &File{Name: fmt.Sprintf("Inc%d", id)}
		inc.Modules = []*Module{g.module(fmt.Sprintf("inc%dm", id), sc, 2+rng.Intn(3))}
		main.Includes = []string{inc.Name + ".tars"}
		p.Files = []*File{main, inc}
		g.feat("file:include")
	} else {
		p.Files = []*File{main}
	}
	nm := 1
	if edge == "multi-module" || edge == "crosswise" {
		nm = 2 + rng.Intn(2)
		g.feat("file:multi-module")
	}
	for i := 0; i < nm; i++ {
		nd := 2 + rng.Intn(5)
		name := fmt.Sprintf("Mod%dx%d", id, i)
		if rng.Intn(3) == 0 {
			name = fmt.Sprintf("mod%dx%d", id, i)
		}
		main.Modules = append(main.Modules, g.module(name, sc, nd))
	}
	if edge == "call-shapes" {
		// every in/out parameter shape in one interface, appended to the last module (all types
		// declared so far are in scope)
		m := main.Modules[len(main.Modules)-1]
		sc.mod = m.Name
		for d, mm := range sc.emod {
			if mm == m.Name {
				sc.emod[d] = ""
			}
		}
		m.Decls = append(m.Decls, g.shapesIface(sc))
		g.feat("decl:interface")
		for d, mm := range sc.emod {
			if mm == "" {
				sc.emod[d] = m.Name
			}
		}
	}
	g.applyEdge(p)
	return p
}

// applyEdge plants the exotic construct (if the program has a place for it)
func (g *gen) applyEdge(p *Prog) {
	m := p.Files[0].Modules[0]
	firstStruct := func() *Decl {
		for _, d := range m.Decls {
			if d.Kind == "struct" {
				return d
			}
		}
		d := &Decl{Kind: "struct", Name: g.name("St", false)}
		m.Decls = append(m.Decls, d)
		return d
	}
	freeTag := func(d *Decl) int {
		used := map[int]bool{}
		for _, f := range d.Fields {
			used[f.Tag] = true
		}
		for t := 0; ; t++ {
			if !used[t] {
				return t
			}
		}
	}
	switch g.edge {
	case "optional-byte-nodefault":
		d := firstStruct()
		d.Fields = append(d.Fields, Field{Tag: freeTag(d), Req: false, Name: g.name("ob", false),
			Ty: &Ty{Kind: "prim", Prim: "byte", Unsigned: g.rng.Intn(2) == 0}})
		g.feat("edge:optional-byte-nodefault")
	case "array-of-byte":
		d := firstStruct()
		d.Fields = append(d.Fields, Field{Tag: freeTag(d), Req: g.rng.Intn(2) == 0, Name: g.name("ab", false), ArrLen: 4,
			Ty: &Ty{Kind: "prim", Prim: "byte", Unsigned: g.rng.Intn(2) == 0}})
		g.feat("edge:array-of-byte")
	case "array-of-named":
		e := &Decl{Kind: "enum", Name: g.name("En", false), Mems: []EnumMem{{Name: g.name("EM", false), Kind: 2}}}
		in := &Decl{Kind: "struct", Name: g.name("St", false), Fields: []Field{{Tag: 0, Req: true, Name: g.name("m", false), Ty: &Ty{Kind: "prim", Prim: "int"}}}}
		d := &Decl{Kind: "struct", Name: g.name("St", false)}
		et := &Ty{Kind: "named", Mod: m.Name, Name: e.Name, IsEnum: true}
		st := &Ty{Kind: "named", Mod: m.Name, Name: in.Name}
		switch g.rng.Intn(4) {
		case 0: // array of enum
			d.Fields = []Field{{Tag: 0, Req: true, Name: g.name("ae", false), ArrLen: 2, Ty: et}}
		case 1: // array of vectors of enums
			d.Fields = []Field{{Tag: 0, Req: false, Name: g.name("ae", false), ArrLen: 2, Ty: &Ty{Kind: "vector", K: et}}}
		case 2: // array of structs named with the module qualifier
			q := *st
			q.Qual = true
			d.Fields = []Field{{Tag: 3, Req: true, Name: g.name("as", false), ArrLen: 3, Ty: &q}}
		default: // array of plain structs (works as found)
			d.Fields = []Field{{Tag: 3, Req: true, Name: g.name("as", false), ArrLen: 3, Ty: st}}
		}
		m.Decls = append(m.Decls, e, in, d)
		g.feat("edge:array-of-named")
	case "enum-default-lower":
		e := &Decl{Kind: "enum", Name: "e" + g.name("n", false), Mems: []EnumMem{{Name: g.name("EM", false), Kind: 2}}}
		d := &Decl{Kind: "struct", Name: g.name("St", false)}
		d.Fields = []Field{{Tag: 1, Req: false, Name: g.name("ed", false), Default: e.Mems[0].Name, DefKind: "enum",
			Ty: &Ty{Kind: "named", Mod: m.Name, Name: e.Name, IsEnum: true}}}
		m.Decls = append(m.Decls, e, d)
		g.feat("edge:enum-default-lower")
	case "enum-ref-lower":
		a := "e" + g.name("m", false)
		e := &Decl{Kind: "enum", Name: g.name("En", false), Mems: []EnumMem{{Name: a, Kind: 0, Val: 4},
			{Name: g.name("EM", false), Kind: 1, Ref: a}}}
		m.Decls = append(m.Decls, e)
		g.feat("edge:enum-ref-lower")
	case "enum-ref-auto":
		a := g.name("EM", false)
		e := &Decl{Kind: "enum", Name: g.name("En", false), Mems: []EnumMem{{Name: g.name("EM", false), Kind: 0, Val: 5},
			{Name: a, Kind: 2}, {Name: g.name("EM", false), Kind: 1, Ref: a}, {Name: g.name("EM", false), Kind: 2}}}
		m.Decls = append(m.Decls, e)
		g.feat("edge:enum-ref-auto")
	}
}

// ---- the schema a program declares (independent of tars2go) ----

func upperFirst(s string) string {
	if s == "" {
		return s
	}
	return strings.ToUpper(s[:1]) + s[1:]
}

// GoType is the Go type the emitted code must use for an IDL type, seen from module cur.
func (t *Ty) GoType(cur string) string {
	switch t.Kind {
	case "prim":
		switch t.Prim {
		case "bool":
			return "bool"
		case "byte":
			if t.Unsigned {
				return "uint8"
			}
			return "int8"
		case "short":
			if t.Unsigned {
				return "uint16"
			}
			return "int16"
		case "int":
			if t.Unsigned {
				return "uint32"
			}
			return "int32"
		case "long":
			return "int64"
		case "float":
			return "float32"
		case "double":
			return "float64"
		}
		return "string"
	case "vector":
		return "[]" + t.K.GoType(cur)
	case "map":
		return "map[" + t.K.GoType(cur) + "]" + t.V.GoType(cur)
	}
	if t.key() != cur {
		if t.Proto != "" {
			return t.Proto + "_" + t.Mod + "." + upperFirst(t.Name)
		}
		return t.Mod + "." + upperFirst(t.Name)
	}
	return upperFirst(t.Name)
}

// modKey identifies the Go package of a module: the module name, or file/module for programs
// compiled with -module-cycle (it is also the directory of the package below -outdir)
func modKey(proto, mod string) string {
	if proto != "" {
		return proto + "/" + mod
	}
	return mod
}

func (t *Ty) key() string { return modKey(t.Proto, t.Mod) }

// GoTypeQ: the Go type with every named type qualified by the marker @Module@ (replaced by the import
// alias of that module's package in the call driver)
func (t *Ty) GoTypeQ() string {
	switch t.Kind {
	case "vector":
		return "[]" + t.K.GoTypeQ()
	case "map":
		return "map[" + t.K.GoTypeQ() + "]" + t.V.GoTypeQ()
	case "named":
		return "@" + t.key() + "@." + upperFirst(t.Name)
	}
	return t.GoType("")
}

// CallIface describes one generated interface for the call-level translation validation.
type CallIface struct {
	Mod   string     `json:"mod"`
	Name  string     `json:"name"` // IDL name
	Funcs []CallFunc `json:"funcs"`
}

type CallFunc struct {
	Name   string      `json:"name"` // IDL name (= SFuncName)
	Ret    string      `json:"ret,omitempty"`
	Params []CallParam `json:"params,omitempty"`
}

type CallParam struct {
	Name   string `json:"name"`
	Out    bool   `json:"out,omitempty"`
	Struct bool   `json:"struct,omitempty"` // passed by pointer although it is an in parameter
	Type   string `json:"type"`
}

// CallIfaces lists the interfaces a program declares.
func (p *Prog) CallIfaces() []CallIface {
	var out []CallIface
	for _, f := range p.Files {
		for _, m := range f.Modules {
			for _, d := range m.Decls {
				if d.Kind != "interface" {
					continue
				}
				ci := CallIface{Mod: m.Name, Name: d.Name}
				if p.Cycle {
					ci.Mod = modKey(f.Name, m.Name)
				}
				for _, fn := range d.Funcs {
					cf := CallFunc{Name: fn.Name}
					if fn.Ret != nil {
						cf.Ret = fn.Ret.GoTypeQ()
					}
					for _, pr := range fn.Params {
						cf.Params = append(cf.Params, CallParam{Name: pr.Name, Out: pr.Out,
							Struct: pr.Ty.Kind == "named" && !pr.Ty.IsEnum, Type: pr.Ty.GoTypeQ()})
					}
					ci.Funcs = append(ci.Funcs, cf)
				}
				out = append(out, ci)
			}
		}
	}
	return out
}

// ExpectedStruct: "Name{Field GoType name,tag:N,require:B;...}" with members in ascending tag order
func ExpectedStruct(mod string, d *Decl) string {
	fs := append([]Field(nil), d.Fields...)
	sort.Slice(fs, func(i, j int) bool { return fs[i].Tag < fs[j].Tag })
	var parts []string
	for _, f := range fs {
		gt := f.Ty.GoType(mod)
		if f.ArrLen > 0 {
			gt = "[" + strconv.Itoa(f.ArrLen) + "]" + gt
		}
		parts = append(parts, fmt.Sprintf("%s %s %s,tag:%d,require:%v", upperFirst(f.Name), gt, f.Name, f.Tag, f.Req))
	}
	return upperFirst(d.Name) + "{" + strings.Join(parts, ";") + "}"
}

// ExpectedEnum: "Name{Name_Member=value;...}" with the values the IDL prescribes: explicit value;
// reference = value of the referenced member; otherwise previous + 1 (first: 0)
func ExpectedEnum(d *Decl) string {
	vals := map[string]int64{}
	var next int64
	var parts []string
	for _, m := range d.Mems {
		var v int64
		switch m.Kind {
		case 0:
			v = m.Val
		case 1:
			v = vals[m.Ref]
		default:
			v = next
		}
		vals[m.Name] = v
		next = v + 1
		parts = append(parts, fmt.Sprintf("%s_%s=%d", upperFirst(d.Name), upperFirst(m.Name), v))
	}
	return upperFirst(d.Name) + "{" + strings.Join(parts, ";") + "}"
}

// ---- grammar-aware invalidation: programs that are certainly outside the language ----

var invalidKinds = []string{"dup-tag", "undefined-type", "redefine-struct", "redefine-enum", "redefine-interface",
	"default-string-on-int", "default-int-on-string", "unsigned-long", "enum-default-unknown", "bool-default-float"}

// Invalidate turns a valid single-file program into one that violates exactly one side condition of
// the language; the tool must reject it with a diagnostic.  Returns false when the program has no
// place for that kind.
func Invalidate(p *Prog, kind string, rng *rand.Rand) bool {
	m := p.Files[0].Modules[0]
	var structs, enums, ifaces []*Decl
	for _, d := range m.Decls {
		switch d.Kind {
		case "struct":
			structs = append(structs, d)
		case "enum":
			enums = append(enums, d)
		case "interface":
			ifaces = append(ifaces, d)
		}
	}
	newStruct := func() *Decl {
		d := &Decl{Kind: "struct", Name: fmt.Sprintf("Inv%d", rng.Intn(1000))}
		m.Decls = append(m.Decls, d)
		return d
	}
	switch kind {
	case "dup-tag":
		d := newStruct()
		t := rng.Intn(256)
		d.Fields = []Field{{Tag: t, Req: true, Name: "a", Ty: &Ty{Kind: "prim", Prim: "int"}},
			{Tag: (t + 7) % 256, Req: false, Name: "b", Ty: &Ty{Kind: "prim", Prim: "string"}},
			{Tag: t, Req: false, Name: "c", Ty: &Ty{Kind: "prim", Prim: "long"}}}
	case "undefined-type":
		d := newStruct()
		ty := &Ty{Kind: "named", Mod: m.Name, Name: "NoSuchType"}
		if rng.Intn(2) == 0 {
			ty = &Ty{Kind: "vector", K: ty}
		}
		d.Fields = []Field{{Tag: 1, Req: true, Name: "a", Ty: ty}}
	case "redefine-struct":
		if len(structs) == 0 {
			return false
		}
		c := *structs[rng.Intn(len(structs))]
		m.Decls = append(m.Decls, &c)
	case "redefine-enum":
		if len(enums) == 0 {
			return false
		}
		c := *enums[rng.Intn(len(enums))]
		m.Decls = append(m.Decls, &c)
	case "redefine-interface":
		if len(ifaces) == 0 {
			return false
		}
		c := *ifaces[rng.Intn(len(ifaces))]
		m.Decls = append(m.Decls, &c)
	case "default-string-on-int":
		d := newStruct()
		d.Fields = []Field{{Tag: 0, Req: false, Name: "a", Ty: &Ty{Kind: "prim", Prim: []string{"int", "short", "long", "byte", "bool", "float", "double"}[rng.Intn(7)]}, Default: `"x"`, DefKind: "str"}}
	case "default-int-on-string":
		d := newStruct()
		d.Fields = []Field{{Tag: 0, Req: false, Name: "a", Ty: &Ty{Kind: "prim", Prim: "string"}, Default: "5", DefKind: "int"}}
	case "bool-default-float":
		d := newStruct()
		d.Fields = []Field{{Tag: 0, Req: false, Name: "a", Ty: &Ty{Kind: "prim", Prim: "int"}, Default: "true", DefKind: "bool"}}
	case "unsigned-long":
		d := newStruct()
		d.Fields = []Field{{Tag: 0, Req: true, Name: "a", Ty: &Ty{Kind: "prim", Prim: []string{"long", "bool", "string", "float", "double"}[rng.Intn(5)], Unsigned: true}}}
	case "enum-default-unknown":
		e := &Decl{Kind: "enum", Name: "InvE", Mems: []EnumMem{{Name: "InvA", Kind: 2}}}
		d := &Decl{Kind: "struct", Name: "InvS", Fields: []Field{{Tag: 0, Req: false, Name: "a", Default: "NoSuchMember", DefKind: "enum",
			Ty: &Ty{Kind: "named", Mod: m.Name, Name: "InvE", IsEnum: true}}}}
		m.Decls = append(m.Decls, e, d)
	default:
		return false
	}
	return true
}

// enumValues: the value the IDL prescribes for every enumerator (see ExpectedEnum)
func enumValues(d *Decl) map[string]int64 {
	vals := map[string]int64{}
	var next int64
	for _, m := range d.Mems {
		var v int64
		switch m.Kind {
		case 0:
			v = m.Val
		case 1:
			v = vals[m.Ref]
		default:
			v = next
		}
		vals[m.Name] = v
		next = v + 1
	}
	return vals
}

// DeclaredDefaults: for every struct, the values its integer, enum, bool and string members must hold
// after ResetDefault (the declared default, else the zero value), members in ascending tag order.
// Key: "<package key>.<GoStructName>" as in the round-trip driver.
func (p *Prog) DeclaredDefaults() map[string]string {
	enums := map[string]map[string]int64{} // package key + "." + enum name
	for _, f := range p.Files {
		for _, m := range f.Modules {
			key := m.Name
			if p.Cycle {
				key = modKey(f.Name, m.Name)
			}
			for _, d := range m.Decls {
				if d.Kind == "enum" {
					enums[key+"."+d.Name] = enumValues(d)
				}
			}
		}
	}
	out := map[string]string{}
	for _, f := range p.Files {
		for _, m := range f.Modules {
			key := m.Name
			if p.Cycle {
				key = modKey(f.Name, m.Name)
			}
			for _, d := range m.Decls {
				if d.Kind != "struct" {
					continue
				}
				fs := append([]Field(nil), d.Fields...)
				sort.Slice(fs, func(i, j int) bool { return fs[i].Tag < fs[j].Tag })
				s := ""
				for _, fd := range fs {
					if fd.ArrLen > 0 {
						continue
					}
					var v string
					switch {
					case fd.Ty.Kind == "named" && fd.Ty.IsEnum:
						v = "0"
						if fd.Default != "" {
							name := fd.Default
							if i := strings.LastIndex(name, "::"); i >= 0 {
								name = name[i+2:]
							}
							ek := fd.Ty.key()
							if !p.Cycle {
								ek = fd.Ty.Mod
							}
							ev, ok := enums[ek+"."+fd.Ty.Name][name]
							if !ok {
								continue
							}
							v = strconv.FormatInt(ev, 10)
						}
					case fd.Ty.Kind != "prim":
						continue
					case fd.Ty.Prim == "float" || fd.Ty.Prim == "double":
						continue
					case fd.Ty.Prim == "bool":
						v = "false"
						if fd.Default != "" {
							v = fd.Default
						}
					case fd.Ty.Prim == "string":
						if fd.Default != "" {
							if len(fd.Default) < 2 || fd.Default[0] != '"' {
								continue
							}
							v = fd.Default[1 : len(fd.Default)-1]
						}
					default:
						v = "0"
						if fd.Default != "" {
							n, err := strconv.ParseInt(fd.Default, 0, 64)
							if err != nil {
								continue
							}
							v = strconv.FormatInt(n, 10)
						}
					}
					s += fmt.Sprintf("%s=%q;", upperFirst(fd.Name), v)
				}
				out[key+"."+upperFirst(d.Name)] = s
			}
		}
	}
	return out
}
