package main

import (
	"bufio"
	"bytes"
	"context"
	"io"
	"os"
	"os/exec"
	"regexp"
	"strings"
	"sync"
	"syscall"
	"time"
)

func runCmd(dir string, env []string, timeout time.Duration, name string, args ...string) (string, error) {
	ctx, cancel := context.WithTimeout(context.Background(), timeout)
	defer cancel()
	cmd := exec.CommandContext(ctx, name, args...)
	cmd.Dir = dir
	cmd.Env = env
	out, err := cmd.CombinedOutput()
	return string(out), err
}

type toolRes struct {
	Class  string // ok | diag | hang | crash | skipped
	Exit   int
	Stdout string
	Stderr string
	Locus  string // hang/crash: innermost tars2go function on the stack
	CPU    time.Duration
}

var reFrame = regexp.MustCompile(`tars2go/(parse|lexer|gencode|ast)\.(?:\(\*?(\w+)\)\.)?(\w+)`)

// stackLocus: the innermost parser/generator function (helpers `next`, `expect`, lexer internals
// skipped) in a Go stack dump
func stackLocus(dump string) string {
	first := ""
	for _, m := range reFrame.FindAllStringSubmatch(dump, -1) {
		pkg, fn := m[1], m[3]
		if first == "" {
			first = pkg + "." + fn
		}
		if pkg == "lexer" || fn == "next" || fn == "expect" || fn == "parseErr" || fn == "lexErr" {
			continue
		}
		return pkg + "." + fn
	}
	if first != "" {
		return first
	}
	return "unknown"
}

// runTool runs the real binary under a timeout.  A run that exceeds the timeout is a hang only if
// the process was actually burning CPU (a starved process is re-run with a long timeout).
func runTool(bin, dir string, args []string, timeout time.Duration) toolRes {
	for attempt := 0; ; attempt++ {
		r, starved := runToolOnce(bin, dir, args, timeout)
		if !starved || attempt >= 1 {
			return r
		}
		timeout = 30 * time.Second
	}
}

func runToolOnce(bin, dir string, args []string, timeout time.Duration) (toolRes, bool) {
	cmd := exec.Command(bin, args...)
	cmd.Dir = dir
	// crash: on SIGQUIT the runtime also dumps the stack of the goroutine that is running (spinning)
	cmd.Env = append(os.Environ(), "GOTRACEBACK=crash")
	var so, se bytes.Buffer
	cmd.Stdout = &limitedWriter{w: &so, n: 1 << 20}
	cmd.Stderr = &limitedWriter{w: &se, n: 1 << 20}
	if err := cmd.Start(); err != nil {
		return toolRes{Class: "crash", Stderr: err.Error(), Locus: "exec"}, false
	}
	done := make(chan error, 1)
	go func() { done <- cmd.Wait() }()
	timedOut := false
	select {
	case <-done:
	case <-time.After(timeout):
		timedOut = true
		cmd.Process.Signal(syscall.SIGQUIT) // Go runtime prints all goroutine stacks
		select {
		case <-done:
		case <-time.After(15 * time.Second):
			cmd.Process.Kill()
			<-done
		}
	}
	r := toolRes{Stdout: so.String(), Stderr: se.String()}
	if cmd.ProcessState != nil {
		r.Exit = cmd.ProcessState.ExitCode()
		r.CPU = cmd.ProcessState.UserTime() + cmd.ProcessState.SystemTime()
	}
	switch {
	case timedOut:
		if r.CPU < timeout/3 {
			return r, true // starved, not spinning
		}
		r.Class = "hang"
		r.Locus = stackLocus(r.Stderr)
	case r.Exit == 0:
		r.Class = "ok"
	case r.Exit == 1 && !strings.Contains(r.Stderr, "goroutine ") && !strings.Contains(r.Stderr, "fatal error"):
		r.Class = "diag"
	default:
		r.Class = "crash"
		r.Locus = stackLocus(r.Stderr)
	}
	return r, false
}

type limitedWriter struct {
	w io.Writer
	n int
}

func (l *limitedWriter) Write(p []byte) (int, error) {
	if l.n > 0 {
		q := p
		if len(q) > l.n {
			q = q[:l.n]
		}
		l.w.Write(q)
		l.n -= len(q)
	}
	return len(p), nil
}

// ---- dumper processes (the real lexer/parse packages in-process) ----

type dumper struct {
	e   *env
	cmd *exec.Cmd
	in  io.WriteCloser
	out *bufio.Reader
}

var (
	dumperMu   sync.Mutex
	dumperFree []*dumper
	dumperAll  []*dumper
)

func getDumper(e *env) *dumper {
	dumperMu.Lock()
	defer dumperMu.Unlock()
	if n := len(dumperFree); n > 0 {
		d := dumperFree[n-1]
		dumperFree = dumperFree[:n-1]
		return d
	}
	d := &dumper{e: e}
	dumperAll = append(dumperAll, d)
	return d
}

func putDumper(d *dumper) {
	dumperMu.Lock()
	dumperFree = append(dumperFree, d)
	dumperMu.Unlock()
}

func closeDumpers() {
	dumperMu.Lock()
	defer dumperMu.Unlock()
	for _, d := range dumperAll {
		d.stop()
	}
	dumperAll, dumperFree = nil, nil
}

func (d *dumper) start() error {
	d.cmd = exec.Command(d.e.dumper)
	d.cmd.Env = append(os.Environ(), "DUMPER_LIMIT_MS=3000")
	in, err := d.cmd.StdinPipe()
	if err != nil {
		return err
	}
	out, err := d.cmd.StdoutPipe()
	if err != nil {
		return err
	}
	d.cmd.Stderr = io.Discard
	if err := d.cmd.Start(); err != nil {
		return err
	}
	d.in, d.out = in, bufio.NewReaderSize(out, 1<<20)
	return nil
}

func (d *dumper) stop() {
	if d.cmd != nil {
		d.in.Close()
		d.cmd.Process.Kill()
		d.cmd.Wait()
		d.cmd = nil
	}
}

// ask sends one command; "exit <code>" when the process died (log.Fatalln in NewParse), "hang" when
// it answered hang (it has exited then) or did not answer at all.
func (d *dumper) ask(line string) string {
	if d.cmd == nil {
		if err := d.start(); err != nil {
			return "dumper-error " + err.Error()
		}
	}
	if _, err := io.WriteString(d.in, line+"\n"); err != nil {
		d.stop()
		return "dumper-error write"
	}
	type ans struct {
		s   string
		err error
	}
	ch := make(chan ans, 1)
	go func() {
		s, err := d.out.ReadString('\n')
		ch <- ans{s, err}
	}()
	select {
	case a := <-ch:
		if a.err != nil {
			// process ended without an answer: log.Fatalln (exit status 1) or a crash
			d.in.Close()
			err := d.cmd.Wait()
			code := d.cmd.ProcessState.ExitCode()
			d.cmd = nil
			_ = err
			if code == 1 {
				return "diag-fatal"
			}
			return "crash"
		}
		s := strings.TrimRight(a.s, "\r\n")
		if s == "hang" {
			d.stop()
		}
		return s
	case <-time.After(20 * time.Second):
		d.stop()
		return "hang"
	}
}
