// C02 harness: primitive codec. Correspondence of codec.Buffer/codec.Reader with the Lean model
// (stream "wire"), plus the property oracle evaluated on the implementation itself
// (round trip, position, independent wire-format reference).
package main

import (
	"encoding/binary"
	"encoding/hex"
	"fmt"
	"math"
	"math/rand"
	"strconv"
	"strings"

	"github.com/TarsCloud/TarsGo/tars/protocol/codec"

	"verifharness/codecrun"
	"verifharness/common"
)

var types = []string{"i8", "i16", "i32", "i64", "u8", "u16", "u32", "bool", "f32", "f64", "str"}

// op is one line of the wire stream.
type op struct {
	Kind string `json:"kind"` // w | r
	Ty   string `json:"ty"`
	Tag  int    `json:"tag"`
	Val  string `json:"val,omitempty"` // w: value; r: old value
	Req  bool   `json:"req,omitempty"`
	Hex  string `json:"hex,omitempty"`
	// look: an optional read of the absent tag Tag (type Ty) in front of the present field
	// (WTy, WTag, WVal), followed by the required read of that field
	WTy  string `json:"wty,omitempty"`
	WTag int    `json:"wtag,omitempty"`
	WVal string `json:"wval,omitempty"`
}

func (o op) line() string {
	if o.Kind == "skipend" || o.Kind == "skipendrec" || o.Kind == "skipstack" {
		return o.Kind + " " + o.Hex
	}
	if o.Kind == "big" {
		// the model is asked about a small stand-in (the large value itself is judged by the oracle)
		return fmt.Sprintf("w str %d %s", o.Tag, "6269672d" /* "big-" */)
	}
	if o.Kind == "w" {
		return fmt.Sprintf("w %s %d %s", o.Ty, o.Tag, o.Val)
	}
	r := 0
	if o.Req && o.Kind != "look" {
		r = 1
	}
	return fmt.Sprintf("r %s %d %d %s %s", o.Ty, o.Tag, r, o.Val, o.Hex)
}

func unhex(s string) []byte {
	if s == "-" {
		return nil
	}
	b, err := hex.DecodeString(s)
	if err != nil {
		panic(err)
	}
	return b
}

// implWrite runs the real writer.
func implWrite(ty string, tag byte, val string) (out string) {
	defer func() {
		if r := recover(); r != nil {
			out = fmt.Sprintf("panic %v", r)
		}
	}()
	b := codec.NewBuffer()
	var err error
	switch ty {
	case "i8":
		v, _ := strconv.ParseInt(val, 10, 8)
		err = b.WriteInt8(int8(v), tag)
	case "i16":
		v, _ := strconv.ParseInt(val, 10, 16)
		err = b.WriteInt16(int16(v), tag)
	case "i32":
		v, _ := strconv.ParseInt(val, 10, 32)
		err = b.WriteInt32(int32(v), tag)
	case "i64":
		v, _ := strconv.ParseInt(val, 10, 64)
		err = b.WriteInt64(v, tag)
	case "u8":
		v, _ := strconv.ParseUint(val, 10, 8)
		err = b.WriteUint8(uint8(v), tag)
	case "u16":
		v, _ := strconv.ParseUint(val, 10, 16)
		err = b.WriteUint16(uint16(v), tag)
	case "u32":
		v, _ := strconv.ParseUint(val, 10, 32)
		err = b.WriteUint32(uint32(v), tag)
	case "bool":
		err = b.WriteBool(val == "1", tag)
	case "f32":
		v, _ := strconv.ParseUint(val, 10, 32)
		err = b.WriteFloat32(math.Float32frombits(uint32(v)), tag)
	case "f64":
		v, _ := strconv.ParseUint(val, 10, 64)
		err = b.WriteFloat64(math.Float64frombits(v), tag)
	case "str":
		err = b.WriteString(string(unhex(val)), tag)
	}
	if err != nil {
		return "err"
	}
	return common.Hex(b.ToBytes())
}

// implRead runs the real reader; the result is "ok <value> <pos>" or "err".
func implRead(ty string, tag byte, req bool, old string, data []byte) (out string) {
	return implReadOn(codec.NewReader(data), len(data), ty, tag, req, old)
}

// implBig writes and reads back a string of n bytes at tag; returns "" or what is wrong
func implBig(n int, tag byte) (msg string) {
	defer func() {
		if r := recover(); r != nil {
			msg = fmt.Sprintf("panic %v", r)
		}
	}()
	b := make([]byte, n)
	for i := range b {
		b[i] = byte(i*131 + i>>8 + 7)
	}
	val := string(b)
	w := codec.NewBuffer()
	if err := w.WriteString(val, tag); err != nil {
		return "WriteString failed: " + err.Error()
	}
	enc := w.ToBytes()
	hd := 1
	if tag >= 15 {
		hd = 2
	}
	wantLen, ty := hd+1+n, byte(6)
	if n > 255 {
		wantLen, ty = hd+4+n, 7
	}
	if len(enc) != wantLen || enc[0]&0x0f != ty {
		return fmt.Sprintf("string of %d bytes: encoding has %d bytes and type nibble %d, the wire format prescribes %d bytes and type %d", n, len(enc), enc[0]&0x0f, wantLen, ty)
	}
	if n > 255 && binary.BigEndian.Uint32(enc[hd:hd+4]) != uint32(n) {
		return fmt.Sprintf("string of %d bytes: 4-byte length field says %d", n, binary.BigEndian.Uint32(enc[hd:hd+4]))
	}
	data := append(enc, 0x5a, 0x5a)
	rd := codec.NewReader(data)
	var got string
	if err := rd.ReadString(&got, tag, true); err != nil {
		return fmt.Sprintf("string of %d bytes written by WriteString is rejected by ReadString: %v", n, err)
	}
	if got != val {
		return fmt.Sprintf("string of %d bytes: read back %d bytes, different content", n, len(got))
	}
	if p := implPos(rd, len(data)); p != len(enc) {
		return fmt.Sprintf("string of %d bytes: reader at %d after the field, field ends at %d", n, p, len(enc))
	}
	return ""
}

// implLook: optional read of the absent tag, then the required read of the present field, on ONE reader
func implLook(c op, data []byte) (first, second string) {
	// observing the position consumes the reader (see implPos): two runs
	first = canonImpl(implReadOn(codec.NewReader(data), len(data), c.Ty, byte(c.Tag), false, c.Val))
	rd := codec.NewReader(data)
	if pre := implReadNoPos(rd, c.Ty, byte(c.Tag), false, c.Val); pre != "ok" {
		return first, pre
	}
	second = canonImpl(implReadOn(rd, len(data), c.WTy, byte(c.WTag), true, oldFor(c.WTy)))
	return
}

// implReadNoPos reads without looking at the position afterwards (the reader stays usable)
func implReadNoPos(rd *codec.Reader, ty string, tag byte, req bool, old string) (out string) {
	defer func() {
		if r := recover(); r != nil {
			out = "panic"
		}
	}()
	var err error
	switch ty {
	case "i8":
		var v int8
		err = rd.ReadInt8(&v, tag, req)
	case "i16":
		var v int16
		err = rd.ReadInt16(&v, tag, req)
	case "i32":
		var v int32
		err = rd.ReadInt32(&v, tag, req)
	case "i64":
		var v int64
		err = rd.ReadInt64(&v, tag, req)
	case "u8":
		var v uint8
		err = rd.ReadUint8(&v, tag, req)
	case "u16":
		var v uint16
		err = rd.ReadUint16(&v, tag, req)
	case "u32":
		var v uint32
		err = rd.ReadUint32(&v, tag, req)
	case "bool":
		var v bool
		err = rd.ReadBool(&v, tag, req)
	case "f32":
		var v float32
		err = rd.ReadFloat32(&v, tag, req)
	case "f64":
		var v float64
		err = rd.ReadFloat64(&v, tag, req)
	case "str":
		var v string
		err = rd.ReadString(&v, tag, req)
	}
	if err != nil {
		return "err"
	}
	return "ok"
}

func implReadOn(rd *codec.Reader, n int, ty string, tag byte, req bool, old string) (out string) {
	defer func() {
		if r := recover(); r != nil {
			out = fmt.Sprintf("panic %v", r)
		}
	}()
	var err error
	var val string
	switch ty {
	case "i8":
		o, _ := strconv.ParseInt(old, 10, 8)
		v := int8(o)
		err = rd.ReadInt8(&v, tag, req)
		val = strconv.FormatInt(int64(v), 10)
	case "i16":
		o, _ := strconv.ParseInt(old, 10, 16)
		v := int16(o)
		err = rd.ReadInt16(&v, tag, req)
		val = strconv.FormatInt(int64(v), 10)
	case "i32":
		o, _ := strconv.ParseInt(old, 10, 32)
		v := int32(o)
		err = rd.ReadInt32(&v, tag, req)
		val = strconv.FormatInt(int64(v), 10)
	case "i64":
		o, _ := strconv.ParseInt(old, 10, 64)
		v := o
		err = rd.ReadInt64(&v, tag, req)
		val = strconv.FormatInt(v, 10)
	case "u8":
		o, _ := strconv.ParseUint(old, 10, 8)
		v := uint8(o)
		err = rd.ReadUint8(&v, tag, req)
		val = strconv.FormatUint(uint64(v), 10)
	case "u16":
		o, _ := strconv.ParseUint(old, 10, 16)
		v := uint16(o)
		err = rd.ReadUint16(&v, tag, req)
		val = strconv.FormatUint(uint64(v), 10)
	case "u32":
		o, _ := strconv.ParseUint(old, 10, 32)
		v := uint32(o)
		err = rd.ReadUint32(&v, tag, req)
		val = strconv.FormatUint(uint64(v), 10)
	case "bool":
		v := old == "1"
		err = rd.ReadBool(&v, tag, req)
		val = "0"
		if v {
			val = "1"
		}
	case "f32":
		o, _ := strconv.ParseUint(old, 10, 32)
		v := math.Float32frombits(uint32(o))
		err = rd.ReadFloat32(&v, tag, req)
		val = strconv.FormatUint(uint64(math.Float32bits(v)), 10)
	case "f64":
		o, _ := strconv.ParseUint(old, 10, 64)
		v := math.Float64frombits(o)
		err = rd.ReadFloat64(&v, tag, req)
		val = strconv.FormatUint(math.Float64bits(v), 10)
	case "str":
		v := string(unhex(old))
		err = rd.ReadString(&v, tag, req)
		val = common.Hex([]byte(v))
	}
	if err != nil {
		return "err"
	}
	return fmt.Sprintf("ok %s %d", val, implPos(rd, n))
}

// implPos: the reader's position, observed through the public API: Next(huge) returns the unread
// bytes. A reader that was seeked past the end has no unread bytes; the model reports the seek
// position, so positions are compared only up to "at or past the end".
func implPos(rd *codec.Reader, n int) int {
	rest := rd.Next(1 << 40)
	return n - len(rest)
}

// canonical form of a model read answer: clamp the position to the data length, drop error kinds
func canonModel(ans string, n int) string {
	f := strings.Fields(ans)
	if len(f) == 3 && f[0] == "ok" {
		p, _ := strconv.Atoi(f[2])
		if p > n {
			p = n
		}
		return fmt.Sprintf("ok %s %d", f[1], p)
	}
	if len(f) >= 1 && f[0] == "err" {
		if len(f) == 2 && strings.HasPrefix(f[1], "panic") {
			return "panic"
		}
		return "err"
	}
	return ans
}

func canonImpl(ans string) string {
	if strings.HasPrefix(ans, "panic") {
		return "panic"
	}
	return ans
}

// ---- independent reference of the wire format (the oracle's right-hand side) ----

func refHead(ty, tag int) []byte {
	if tag < 15 {
		return []byte{byte(tag<<4 | ty)}
	}
	return []byte{byte(0xF0 | ty), byte(tag)}
}

func refInt(v int64, tag int) []byte {
	switch {
	case v == 0:
		return refHead(12, tag)
	case v >= -128 && v <= 127:
		return append(refHead(0, tag), byte(v))
	case v >= -32768 && v <= 32767:
		return binary.BigEndian.AppendUint16(refHead(1, tag), uint16(v))
	case v >= math.MinInt32 && v <= math.MaxInt32:
		return binary.BigEndian.AppendUint32(refHead(2, tag), uint32(v))
	default:
		return binary.BigEndian.AppendUint64(refHead(3, tag), uint64(v))
	}
}

func refEncode(ty string, tag int, val string) []byte {
	switch ty {
	case "i8", "i16", "i32", "i64", "u8", "u16", "u32":
		v, _ := strconv.ParseInt(val, 10, 64)
		return refInt(v, tag)
	case "bool":
		if val == "1" {
			return append(refHead(0, tag), 1)
		}
		return refHead(12, tag)
	case "f32":
		v, _ := strconv.ParseUint(val, 10, 32)
		return binary.BigEndian.AppendUint32(refHead(4, tag), uint32(v))
	case "f64":
		v, _ := strconv.ParseUint(val, 10, 64)
		return binary.BigEndian.AppendUint64(refHead(5, tag), v)
	case "str":
		s := unhex(val)
		if len(s) <= 255 {
			return append(append(refHead(6, tag), byte(len(s))), s...)
		}
		return append(binary.BigEndian.AppendUint32(refHead(7, tag), uint32(len(s))), s...)
	}
	return nil
}

// ---- value generators ----

func intBounds(bits int, signed bool) (lo, hi int64) {
	if signed {
		return -(1 << (bits - 1)), (1 << (bits - 1)) - 1
	}
	if bits == 64 {
		return 0, math.MaxInt64
	}
	return 0, (1 << bits) - 1
}

func tyBits(ty string) (int, bool) {
	switch ty {
	case "i8":
		return 8, true
	case "i16":
		return 16, true
	case "i32":
		return 32, true
	case "i64":
		return 64, true
	case "u8":
		return 8, false
	case "u16":
		return 16, false
	case "u32":
		return 32, false
	}
	return 0, false
}

// boundary-dense integer values within [lo,hi]
func boundaryInts(lo, hi int64, rng *rand.Rand, nrand int) []int64 {
	set := map[int64]struct{}{}
	add := func(v int64) {
		if v >= lo && v <= hi {
			set[v] = struct{}{}
		}
	}
	for _, b := range []int{0, 7, 8, 15, 16, 31, 32, 63} {
		var p int64 = 1 << uint(b)
		for d := int64(-2); d <= 2; d++ {
			add(p + d)
			add(-p + d)
		}
	}
	add(lo)
	add(lo + 1)
	add(hi)
	add(hi - 1)
	for i := 0; i < nrand; i++ {
		w := uint(rng.Intn(64))
		v := rng.Int63() >> w
		if rng.Intn(2) == 0 {
			v = -v
		}
		add(v)
	}
	out := make([]int64, 0, len(set))
	for v := range set {
		out = append(out, v)
	}
	// deterministic order
	for i := 1; i < len(out); i++ {
		for j := i; j > 0 && out[j] < out[j-1]; j-- {
			out[j], out[j-1] = out[j-1], out[j]
		}
	}
	return out
}

func floatBits32(rng *rand.Rand, n int) []uint64 {
	out := []uint64{0, 0x80000000, 0x7f800000, 0xff800000, 0x7fc00000, 0x7f800001, 0xffc12345, 0x7fbfffff,
		1, 0x007fffff, 0x00800000, 0x3f800000, 0x7f7fffff, 0x80000001, 0x00000002, 0x00400000, 0x807fffff}
	for i := 0; i < n; i++ {
		out = append(out, uint64(rng.Uint32()))
	}
	return out
}

func floatBits64(rng *rand.Rand, n int) []uint64 {
	out := []uint64{0, 1 << 63, 0x7ff0000000000000, 0xfff0000000000000, 0x7ff8000000000000, 0x7ff0000000000001,
		0xfff8123456789abc, 1, 0x000fffffffffffff, 0x0010000000000000, 0x3ff0000000000000, 0x7fefffffffffffff}
	for i := 0; i < n; i++ {
		out = append(out, rng.Uint64())
	}
	return out
}

func strVals(rng *rand.Rand, thorough bool) []string {
	lens := []int{0, 1, 2, 14, 15, 16, 254, 255, 256, 257, 1000}
	if thorough {
		lens = append(lens, 65535, 65536, 70000)
	}
	var out []string
	for _, n := range lens {
		b := make([]byte, n)
		rng.Read(b)
		if n > 3 {
			b[0], b[1], b[2] = 0, 0xff, 0xc3 // NUL, invalid UTF-8
		}
		out = append(out, common.Hex(b))
	}
	return out
}

func valuesFor(ty string, rng *rand.Rand, thorough bool, exhaustive bool) []string {
	var out []string
	if bits, signed := tyBits(ty); bits != 0 {
		lo, hi := intBounds(bits, signed)
		if exhaustive && bits <= 16 {
			for v := lo; v <= hi; v++ {
				out = append(out, strconv.FormatInt(v, 10))
			}
			return out
		}
		n := 20
		if thorough {
			n = 400
		}
		for _, v := range boundaryInts(lo, hi, rng, n) {
			out = append(out, strconv.FormatInt(v, 10))
		}
		return out
	}
	switch ty {
	case "bool":
		return []string{"0", "1"}
	case "f32":
		n := 20
		if thorough {
			n = 2000
		}
		for _, b := range floatBits32(rng, n) {
			out = append(out, strconv.FormatUint(b, 10))
		}
	case "f64":
		n := 20
		if thorough {
			n = 2000
		}
		for _, b := range floatBits64(rng, n) {
			out = append(out, strconv.FormatUint(b, 10))
		}
	case "str":
		return strVals(rng, thorough)
	}
	return out
}

func oldFor(ty string) string {
	switch ty {
	case "str":
		return "6f6c64"
	case "bool":
		return "1"
	case "u8", "u16", "u32", "i8", "i16", "i32", "i64":
		return "77"
	default:
		return "12345"
	}
}

func main() {
	o := common.ParseOpts()
	res := common.NewResult("C02", o)
	res.Streams = []string{"wire"}
	rng := o.Rand()
	m, err := common.StartModel(o.Model, "wire")
	if err != nil {
		res.Fatal(o.Out, err)
	}
	defer m.Close()

	var ops []op
	if o.Replay != "" {
		var c op
		if err := common.ReadReplay(o.Replay, &c); err != nil {
			res.Fatal(o.Out, err)
		}
		ops = []op{c}
	} else {
		ops = genOps(o, rng, res)
	}

	// run in batches
	const B = 50000
	for i := 0; i < len(ops); i += B {
		j := i + B
		if j > len(ops) {
			j = len(ops)
		}
		lines := make([]string, j-i)
		for k := i; k < j; k++ {
			lines[k-i] = ops[k].line()
		}
		ans, err := m.Batch(lines)
		if err != nil {
			res.Fatal(o.Out, err)
		}
		for k := i; k < j; k++ {
			check(ops[k], ans[k-i], res, o.Replay != "")
		}
	}
	res.Rule = "cases = (write|read, type, tag, value/bytes); all 256 tags x boundary-dense values of every primitive type " +
		"(thorough: all 8-bit values x all tags, all 16-bit values x 6 tags), writer x reader cross-width matrix, reads of " +
		"truncated/mutated/random bytes; non-trivial = distinct (kind,type,tag-class,wire bytes) with a non-empty encoding"
	if err := res.Write(o.Out); err != nil {
		panic(err)
	}
}

func tagClass(tag int) string {
	switch {
	case tag < 14:
		return "lo"
	case tag == 14:
		return "14"
	case tag == 15:
		return "15"
	case tag == 16:
		return "16"
	case tag == 255:
		return "255"
	}
	return "ext"
}

func genOps(o *common.Opts, rng *rand.Rand, res *common.Result) []op {
	var ops []op
	allTags := make([]int, 256)
	for i := range allTags {
		allTags[i] = i
	}
	fewTags := []int{0, 1, 14, 15, 16, 255}
	// 1. writes, and reads of what the implementation wrote (both directions are checked in `check`)
	for _, ty := range types {
		vals := valuesFor(ty, rng, o.Thorough(), false)
		tags := allTags
		if ty == "str" {
			tags = fewTags
		}
		for _, tag := range tags {
			for _, v := range vals {
				ops = append(ops, op{Kind: "w", Ty: ty, Tag: tag, Val: v})
			}
		}
	}
	if o.Thorough() {
		res.Exhaustive = false
		for _, ty := range []string{"i8", "u8"} {
			for _, tag := range allTags {
				for _, v := range valuesFor(ty, rng, true, true) {
					ops = append(ops, op{Kind: "w", Ty: ty, Tag: tag, Val: v})
				}
			}
		}
		for _, ty := range []string{"i16", "u16"} {
			for _, tag := range fewTags {
				for _, v := range valuesFor(ty, rng, true, true) {
					ops = append(ops, op{Kind: "w", Ty: ty, Tag: tag, Val: v})
				}
			}
		}
	}
	// 2. cross-width matrix: every writer x every reader
	for _, wt := range types {
		vals := valuesFor(wt, rng, false, false)
		for _, v := range vals {
			for _, tag := range []int{0, 7, 15, 200} {
				enc := implWrite(wt, byte(tag), v)
				if strings.HasPrefix(enc, "err") || strings.HasPrefix(enc, "panic") {
					continue
				}
				for _, rt := range types {
					ops = append(ops, op{Kind: "r", Ty: rt, Tag: tag, Req: rng.Intn(2) == 0, Val: oldFor(rt), Hex: enc})
				}
			}
		}
	}
	// 3. malformed: truncations, wrong tags, random bytes
	nmal := 4000
	if o.Thorough() {
		nmal = 200000
	}
	for i := 0; i < nmal; i++ {
		wt := types[rng.Intn(len(types))]
		vals := valuesFor(wt, rng, false, false)
		v := vals[rng.Intn(len(vals))]
		tag := []int{0, 3, 14, 15, 16, 255}[rng.Intn(6)]
		enc := unhex(implWrite(wt, byte(tag), v))
		if len(enc) > 300 {
			enc = enc[:300]
		}
		switch rng.Intn(5) {
		case 0: // truncate
			if len(enc) > 0 {
				enc = enc[:rng.Intn(len(enc))]
			}
		case 1: // flip a bit
			if len(enc) > 0 {
				enc = append([]byte{}, enc...)
				enc[rng.Intn(len(enc))] ^= 1 << uint(rng.Intn(8))
			}
		case 2: // random bytes
			enc = make([]byte, rng.Intn(12))
			rng.Read(enc)
		case 3: // prefix another well-formed field with a lower tag (must be skipped)
			if tag > 0 {
				pt := types[rng.Intn(len(types))]
				pv := valuesFor(pt, rng, false, false)
				pre := unhex(implWrite(pt, byte(rng.Intn(tag)), pv[rng.Intn(len(pv))]))
				if len(pre) > 300 {
					pre = nil
				}
				enc = append(pre, enc...)
			}
		case 4: // trailing bytes
			extra := make([]byte, rng.Intn(4))
			rng.Read(extra)
			enc = append(append([]byte{}, enc...), extra...)
		}
		rt := types[rng.Intn(len(types))]
		rtag := tag
		if rng.Intn(4) == 0 {
			rtag = rng.Intn(256)
		}
		ops = append(ops, op{Kind: "r", Ty: rt, Tag: rtag, Req: rng.Intn(2) == 0, Val: oldFor(rt), Hex: common.Hex(enc)})
	}
	// 3b. optional look-ahead: an optional read of an absent lower tag in front of a present field
	// with tags on both sides of the extended-tag boundary, then the required read of that field
	for _, wt := range types {
		vals := valuesFor(wt, rng, false, false)
		for _, ftag := range []int{1, 14, 15, 16, 17, 200, 255} {
			for _, rtag := range []int{0, 13, 14, 15, 16} {
				if rtag >= ftag {
					continue
				}
				v := vals[rng.Intn(len(vals))]
				enc := implWrite(wt, byte(ftag), v)
				if strings.HasPrefix(enc, "err") || strings.HasPrefix(enc, "panic") {
					continue
				}
				rt := types[rng.Intn(len(types))]
				ops = append(ops, op{Kind: "look", Ty: rt, Tag: rtag, Val: oldFor(rt), Hex: enc, WTy: wt, WTag: ftag, WVal: v})
			}
		}
	}
	// 3c. large strings (implementation-side oracle only: the wire form is head + 4-byte length + the
	// bytes, the round trip is exact, the reader ends at the end of the field): sizes around the
	// powers of two and the 10/16 MiB marks where size limits tend to be put
	bigs := []int{255, 256, 65535, 65536, 65537, 1 << 20, 10<<20 - 1, 10 << 20, 10<<20 + 1}
	if o.Thorough() {
		bigs = append(bigs, 16<<20-1, 16<<20, 16<<20+1, 32<<20+3, 64 << 20)
	} else {
		bigs = append(bigs, 16<<20+1)
	}
	for _, n := range bigs {
		ops = append(ops, op{Kind: "big", Ty: "str", Tag: []int{0, 14, 15, 255}[rng.Intn(4)], Val: strconv.Itoa(n)})
	}
	// 4. SkipToStructEnd (the iterative skip) on struct bodies: well-formed members of every wire
	// type and nesting, then mutated, truncated, random, and deeply nested ones
	nskip := 3000
	if o.Thorough() {
		nskip = 150000
	}
	for i := 0; i < nskip; i++ {
		var body []byte
		n := rng.Intn(5)
		tag := rng.Intn(3)
		for k := 0; k < n; k++ {
			kinds := []int{0, 1, 2, 3, 4, 5, 6, 7, 8, 9, 10, 12, 13}
			body = append(body, codecrun.WFField(rng, kinds[rng.Intn(len(kinds))], tag, 0)...)
			tag += 1 + rng.Intn(20)
		}
		body = append(body, 0x0b)
		switch rng.Intn(6) {
		case 0:
			if len(body) > 0 {
				body = body[:rng.Intn(len(body))]
			}
		case 1:
			if len(body) > 0 {
				body = append([]byte{}, body...)
				body[rng.Intn(len(body))] ^= 1 << uint(rng.Intn(8))
			}
		case 2:
			body = make([]byte, rng.Intn(24))
			rng.Read(body)
		case 3:
			extra := make([]byte, rng.Intn(5))
			rng.Read(extra)
			body = append(body, extra...)
		}
		if len(body) > 3000 {
			body = body[:3000]
		}
		h := common.Hex(body)
		ops = append(ops, op{Kind: "skipend", Hex: h}, op{Kind: "skipendrec", Hex: h}, op{Kind: "skipstack", Hex: h})
	}
	for _, d := range []int{1, 2, 17, 300, 5000} {
		for _, unit := range [][]byte{{0x0a}, {0x09, 0x00, 0x01}, {0x08, 0x00, 0x01, 0x0c}, {0x0a, 0x09, 0x00, 0x02}} {
			var body []byte
			for k := 0; k < d; k++ {
				body = append(body, unit...)
			}
			if d == 17 {
				for k := 0; k < d+1; k++ {
					body = append(body, 0x0b)
				}
			}
			h := common.Hex(body)
			ops = append(ops, op{Kind: "skipend", Hex: h}, op{Kind: "skipendrec", Hex: h}, op{Kind: "skipstack", Hex: h})
		}
	}
	return ops
}

func implSkipEnd(data []byte) (out string) {
	defer func() {
		if r := recover(); r != nil {
			out = fmt.Sprintf("panic %v", r)
		}
	}()
	rd := codec.NewReader(data)
	if err := rd.SkipToStructEnd(); err != nil {
		return "err"
	}
	return fmt.Sprintf("ok - %d", implPos(rd, len(data)))
}

var lastSkipImpl, lastSkipIter string

func check(c op, modelAns string, res *common.Result, verbose bool) {
	switch c.Kind {
	case "skipend", "skipendrec", "skipstack":
		data := unhex(c.Hex)
		if verbose {
			fmt.Printf("%s model: %s\n", c.Kind, modelAns)
		}
		if modelAns == common.NoModel {
			return
		}
		switch c.Kind {
		case "skipend":
			impl := canonImpl(implSkipEnd(data))
			lastSkipImpl, lastSkipIter = impl, canonModel(modelAns, len(data))
			cls := "skip-err"
			if strings.HasPrefix(impl, "ok") {
				cls = "skip-ok"
			}
			key := "skip/" + c.Hex
			if len(key) > 120 {
				key = key[:120]
			}
			res.Count(key, cls, len(data) > 0)
			if impl != lastSkipIter {
				res.Diverge(common.Case{Stream: "wire", Op: c, Model: trunc(modelAns), Impl: trunc(impl), Note: "iterative skip model vs codec.go"})
			}
			if impl == "panic" {
				res.Violate(common.Violation{Signature: "C02:panic:SkipToStructEnd", What: "skip panicked", Case: common.Case{Stream: "wire", Op: c, Impl: impl}})
			}
			res.TracesValidated++
		case "skipendrec":
			if canonModel(modelAns, len(data)) != lastSkipIter {
				res.Diverge(common.Case{Stream: "wire", Op: c, Model: trunc(modelAns), Impl: lastSkipIter, Note: "recursive specification vs iterative model (theorem skipToStructEndIter_eq)"})
			}
		case "skipstack":
			n, _ := strconv.Atoi(modelAns)
			if n > len(data)+1 {
				res.Diverge(common.Case{Stream: "wire", Op: c, Model: modelAns, Note: "skip stack higher than the input is long"})
			}
		}
	case "w":
		impl := implWrite(c.Ty, byte(c.Tag), c.Val)
		if verbose {
			fmt.Printf("model: %s\nimpl:  %s\n", modelAns, impl)
		}
		key := "w/" + c.Ty + "/" + tagClass(c.Tag) + "/" + impl
		if len(key) > 120 {
			key = key[:120]
		}
		res.Count(key, "write:"+c.Ty, impl != "-")
		res.Sample(map[string]string{"op": c.line(), "impl": trunc(impl)})
		if impl != modelAns && modelAns != common.NoModel {
			res.Diverge(common.Case{Stream: "wire", Op: c, Model: trunc(modelAns), Impl: trunc(impl)})
		}
		// oracle on the implementation: wire format reference, round trip, position
		ref := common.Hex(refEncode(c.Ty, c.Tag, c.Val))
		if impl != ref {
			res.Violate(common.Violation{Signature: "C02:wire-format:" + c.Ty, What: "bytes written differ from the Tars wire format",
				Case: common.Case{Stream: "wire", Op: c, Impl: trunc(impl), Note: "reference " + trunc(ref)}})
			return
		}
		data := append(unhex(impl), 0x5a, 0x5a)
		back := implRead(c.Ty, byte(c.Tag), true, oldFor(c.Ty), data)
		want := fmt.Sprintf("ok %s %d", c.Val, len(data)-2)
		if back != want {
			res.Violate(common.Violation{Signature: "C02:round-trip:" + c.Ty, What: "write then read does not return the value at the end of the field",
				Case: common.Case{Stream: "wire", Op: c, Impl: trunc(back), Note: "expected " + trunc(want)}})
		}
		res.TracesValidated++
	case "big":
		n, _ := strconv.Atoi(c.Val)
		msg := implBig(n, byte(c.Tag))
		res.Count(fmt.Sprintf("big/%d/%s", n, tagClass(c.Tag)), "big-string", true)
		if msg != "" {
			res.Violate(common.Violation{Signature: "C02:round-trip:str-large", What: msg, Case: common.Case{Stream: "wire", Op: c, Impl: msg}})
		}
		res.TracesValidated++
	case "look":
		data := unhex(c.Hex)
		first, second := implLook(c, data)
		res.Count("look/"+c.Ty+"/"+tagClass(c.Tag)+"/"+c.WTy+"/"+tagClass(c.WTag), "look:"+c.WTy, true)
		if mc := canonModel(modelAns, len(data)); first != mc && modelAns != common.NoModel {
			res.Diverge(common.Case{Stream: "wire", Op: c, Model: trunc(modelAns), Impl: trunc(first)})
		}
		// oracle on the implementation alone: the absent optional field changes nothing and consumes
		// nothing, and the field that is there is then read completely
		if want := fmt.Sprintf("ok %s 0", c.Val); first != want {
			res.Violate(common.Violation{Signature: "C02:position:optional-absent-" + c.Ty, What: "an optional read of an absent tag changed the value or moved the reader",
				Case: common.Case{Stream: "wire", Op: c, Impl: trunc(first), Note: "expected " + want}})
		} else if want := fmt.Sprintf("ok %s %d", c.WVal, len(data)); second != want {
			res.Violate(common.Violation{Signature: "C02:round-trip:after-optional-absent-" + c.WTy, What: "after an optional read of an absent lower tag the present field is not read back",
				Case: common.Case{Stream: "wire", Op: c, Impl: trunc(second), Note: "expected " + trunc(want)}})
		}
		res.TracesValidated++
	case "r":
		data := unhex(c.Hex)
		impl := canonImpl(implRead(c.Ty, byte(c.Tag), c.Req, c.Val, data))
		mc := canonModel(modelAns, len(data))
		if verbose {
			fmt.Printf("model: %s\nimpl:  %s\n", modelAns, impl)
		}
		cls := "read-err:" + c.Ty
		if strings.HasPrefix(impl, "ok") {
			cls = "read-ok:" + c.Ty
		}
		key := "r/" + c.Ty + "/" + tagClass(c.Tag) + "/" + c.Hex
		if len(key) > 120 {
			key = key[:120]
		}
		res.Count(key, cls, len(data) > 0)
		if impl != mc && modelAns != common.NoModel {
			res.Diverge(common.Case{Stream: "wire", Op: c, Model: trunc(modelAns), Impl: trunc(impl)})
		}
		if impl == "panic" {
			res.Violate(common.Violation{Signature: "C02:panic:read-" + c.Ty, What: "primitive reader panicked",
				Case: common.Case{Stream: "wire", Op: c, Impl: impl}})
		}
		res.TracesValidated++
	}
}

func trunc(s string) string {
	if len(s) > 200 {
		return s[:200] + "..."
	}
	return s
}
